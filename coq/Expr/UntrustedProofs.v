(* Expr/UntrustedProofs.v — proofs for C11.

   Layer 1 (exact, no permutations): the repaired automaton run on the event
   sequence of the Sema traversal computes [total e] = [inner e ++ flush (final e)],
   where [final e] is the chain state the trace of [e] ends in and [inner e]
   the errors emitted strictly before.  The invariant: a finished chain stays
   pending and untouched until the first state-changing callback of the next
   sub-trace, which is always an end().
   Layer 2: [total e] equals the specification [spec_paths] up to the order
   of the paths inside one report (map iteration order in onObjectFilter). *)
From AL Require Import Expr.Untrusted Expr.UntrustedSpec.
From Coq Require Import Permutation.

Lemma non_script_silent fixed roots funcs e : check_untrusted fixed roots funcs false e = [].
Proof. reflexivity. Qed.

(* ---------------------------------------------------------------------- *)
(* equations of the traversal *)

Section Layer1.
Variable roots : list utree.
Variable defd : string -> bool.
Variable narrowing : bool.

Notation RUN := (run true roots).
Notation EV := (gev defd narrowing).

Lemma run_app a b s : RUN (a ++ b) s = RUN b (RUN a s).
Proof. unfold run. apply fold_left_app. Qed.

Lemma run_cons x l s : RUN (x :: l) s = RUN l (step true roots s x).
Proof. reflexivity. Qed.

Lemma run_nil s : RUN [] s = s.
Proof. reflexivity. Qed.

Definition is_leaf_expr (e : expr) : bool :=
  match e with
  | EVar _ _ | ENull _ | EBool _ _ | EInt _ _ | EFloat _ _ | EStr _ _ => true
  | _ => false
  end.

Definition narrowable (e : expr) : bool :=
  match e with ELog _ _ _ | ENot _ _ => true | _ => false end.

Lemma ev_some_default t e : narrowable e = false -> EV (Some t) e = EV None e.
Proof. destruct e; cbn; try reflexivity; discriminate. Qed.

Lemma ev_leaf e : is_leaf_expr e = true -> EV None e = [Enter (node_of e); Leave (node_of e)].
Proof. destruct e; cbn; try reflexivity; discriminate. Qed.

Lemma ev_deref r n : EV None (EDeref r n) = Enter (NDeref n) :: EV None r ++ [Leave (NDeref n)].
Proof. reflexivity. Qed.

Lemma ev_arr r : EV None (EArrDeref r) = Enter NArrDeref :: EV None r ++ [Leave NArrDeref].
Proof. reflexivity. Qed.

Lemma ev_index o i : EV None (EIndex o i) =
  Enter (node_of (EIndex o i)) :: EV None i ++ EV None o ++ [Leave (node_of (EIndex o i))].
Proof. reflexivity. Qed.

Lemma ev_not_none p a : EV None (ENot p a) = Enter NOther :: EV None a ++ [Leave NOther].
Proof. reflexivity. Qed.

Lemma ev_not_some t p a : EV (Some t) (ENot p a) = EV (Some (negb t)) a.
Proof. reflexivity. Qed.

Lemma ev_cmp op l r : EV None (ECmp op l r) = Enter NOther :: EV None l ++ EV None r ++ [Leave NOther].
Proof. reflexivity. Qed.

Lemma ev_log_none op l r : EV None (ELog op l r) =
  Enter NOther :: EV (if narrowing then Some (lhs_truthy op) else None) l ++ EV None r ++ [Leave NOther].
Proof. reflexivity. Qed.

Lemma ev_log_some t op l r : EV (Some t) (ELog op l r) =
  (if Bool.eqb t (lhs_truthy op) then EV (Some t) l else EV None l) ++ EV None r.
Proof. destruct t, op; reflexivity. Qed.

Lemma ev_call p c args : EV None (ECall p c args) =
  Enter (NCall c) :: (if defd c then flat_map (EV None) args else []) ++ [Leave (NCall c)].
Proof. reflexivity. Qed.

(* ---------------------------------------------------------------------- *)
(* inside a sanitising call nothing changes *)

Definition safe_node (n : node) : bool :=
  match n with NCall c => is_safe_call c | _ => false end.

Lemma enter_unsafe n s : safe_node n = false -> on_enter n s = s.
Proof. destruct n; cbn; try reflexivity. intros ->. reflexivity. Qed.

Lemma leave_unsafe_ignored n s k : safe_node n = false -> s_safe s = S k -> on_leave true roots n s = s.
Proof.
  intros Hn Hs. unfold on_leave. rewrite Hs. destruct n; try reflexivity.
  cbn in Hn. rewrite Hn. reflexivity.
Qed.

Lemma st_eta s k : s_safe s = k -> {| s_chain := s_chain s; s_safe := k; s_errs := s_errs s |} = s.
Proof. destruct s; cbn; intros <-; reflexivity. Qed.

Lemma pair_ignored n evs s k :
  s_safe s = S k ->
  (forall s' k', s_safe s' = S k' -> RUN evs s' = s') ->
  RUN (Enter n :: evs ++ [Leave n]) s = s.
Proof.
  intros Hs Hin. rewrite run_cons, run_app. cbn [step].
  destruct (safe_node n) eqn:Hn.
  - destruct n; try discriminate. cbn in Hn. cbn [on_enter]. rewrite Hn.
    rewrite (Hin _ (S k)) by (cbn; now rewrite Hs).
    cbn [run fold_left step on_leave s_safe]. rewrite Hs, Hn. cbn. now apply st_eta.
  - rewrite enter_unsafe by assumption. rewrite (Hin _ k) by assumption.
    cbn [run fold_left step]. now apply (leave_unsafe_ignored _ _ k).
Qed.

Lemma flat_map_ignored (args : list expr) :
  Forall (fun a => forall m s k, s_safe s = S k -> RUN (EV m a) s = s) args ->
  forall s k, s_safe s = S k -> RUN (flat_map (EV None) args) s = s.
Proof.
  induction 1 as [|a args Ha _ IH]; intros s k Hs; cbn [flat_map]; [reflexivity|].
  rewrite run_app, (Ha None s k Hs). now apply (IH s k).
Qed.

Lemma ignore_leaf e m s k : is_leaf_expr e = true -> s_safe s = S k -> RUN (EV m e) s = s.
Proof.
  intros He Hs.
  assert (Hd : EV m e = EV None e).
  { destruct m; [|reflexivity]. apply ev_some_default. destruct e; (reflexivity || discriminate). }
  rewrite Hd, ev_leaf by assumption.
  change [Enter (node_of e); Leave (node_of e)] with (Enter (node_of e) :: [] ++ [Leave (node_of e)]).
  apply (pair_ignored _ _ _ k Hs). intros; reflexivity.
Qed.

Lemma ignore_ev e : forall m s k, s_safe s = S k -> RUN (EV m e) s = s.
Proof.
  induction e using expr_ind'; intros m s0 k Hs.
  1-6: apply (ignore_leaf _ _ _ k); [reflexivity|assumption].
  - assert (Hd : EV m (EDeref e n) = EV None (EDeref e n)) by (destruct m; reflexivity).
    rewrite Hd, ev_deref. apply (pair_ignored _ _ _ k Hs). intros; eauto.
  - assert (Hd : EV m (EArrDeref e) = EV None (EArrDeref e)) by (destruct m; reflexivity).
    rewrite Hd, ev_arr. apply (pair_ignored _ _ _ k Hs). intros; eauto.
  - assert (Hd : EV m (EIndex e1 e2) = EV None (EIndex e1 e2)) by (destruct m; reflexivity).
    rewrite Hd, ev_index, app_assoc. apply (pair_ignored _ _ _ k Hs). intros s' k' Hs'.
    rewrite run_app, (IHe2 None s' k' Hs'). eauto.
  - destruct m as [t|].
    + rewrite ev_not_some. eauto.
    + rewrite ev_not_none. apply (pair_ignored _ _ _ k Hs). intros; eauto.
  - assert (Hd : EV m (ECmp op e1 e2) = EV None (ECmp op e1 e2)) by (destruct m; reflexivity).
    rewrite Hd, ev_cmp, app_assoc. apply (pair_ignored _ _ _ k Hs). intros s' k' Hs'.
    rewrite run_app, (IHe1 None s' k' Hs'). eauto.
  - destruct m as [t|].
    + rewrite ev_log_some, run_app.
      destruct (Bool.eqb t (lhs_truthy op)); rewrite (IHe1 _ s0 k Hs); eauto.
    + rewrite ev_log_none, app_assoc. apply (pair_ignored _ _ _ k Hs). intros s' k' Hs'.
      rewrite run_app, (IHe1 _ s' k' Hs'). eauto.
  - assert (Hd : EV m (ECall p c args) = EV None (ECall p c args)) by (destruct m; reflexivity).
    rewrite Hd, ev_call. apply (pair_ignored _ _ _ k Hs). intros s' k' Hs'.
    destruct (defd c); [|reflexivity]. now apply (flat_map_ignored args H s' k').
Qed.

(* ---------------------------------------------------------------------- *)
(* what the trace of e leaves behind *)

Definition leave_index_chain (i : expr) (c : chain_st) : chain_st :=
  match i with EStr _ v => on_index_lit true v c | _ => on_index_access c end.

(* the chain state after the trace of e *)
Fixpoint final (e : expr) : chain_st :=
  match e with
  | EVar p n => on_var roots p n chain_reset
  | EDeref r n => on_prop_access n (final r)
  | EArrDeref r => on_object_filter (final r)
  | EIndex o i => leave_index_chain i (final o)
  | _ => chain_reset
  end.

(* the errors emitted while the trace of e runs, not counting the flush of
   what was pending before *)
Fixpoint inner (e : expr) : list report :=
  match e with
  | EVar _ _ | ENull _ | EBool _ _ | EInt _ _ | EFloat _ _ | EStr _ _ => []
  | EDeref r _ => inner r
  | EArrDeref r => inner r
  | EIndex o i => (inner i ++ flush (final i)) ++ inner o
  | ENot _ a => inner a ++ flush (final a)
  | ECmp _ l r => (inner l ++ flush (final l)) ++ (inner r ++ flush (final r))
  | ELog _ l r => (inner l ++ flush (final l)) ++ (inner r ++ flush (final r))
  | ECall _ c args =>
      if is_safe_call c then []
      else if defd c then flat_map (fun a => inner a ++ flush (final a)) args
      else []
  end.

Definition total (e : expr) : list report := inner e ++ flush (final e).

(* everything the state will have reported once flushed *)
Definition pending (s : st) : list report := s_errs s ++ flush (s_chain s).

Definition mk (c : chain_st) (errs : list report) : st := {| s_chain := c; s_safe := 0; s_errs := errs |}.

Definition R1 (e : expr) : Prop :=
  forall s, s_safe s = 0 -> RUN (EV None e) s = mk (final e) (pending s ++ inner e).

Definition W (m : option bool) (e : expr) : Prop :=
  forall s, s_safe s = 0 ->
    s_safe (RUN (EV m e) s) = 0 /\ pending (RUN (EV m e) s) = pending s ++ total e.

Lemma R1_W e : R1 e -> W None e.
Proof.
  intros H s Hs. rewrite (H s Hs). split; [reflexivity|].
  unfold pending, mk, total; cbn. now rewrite app_assoc.
Qed.

Lemma leave0 n s : s_safe s = 0 -> on_leave true roots n s =
  match n with
  | NVar p name => let s' := do_end s in with_chain s' (on_var roots p name (s_chain s'))
  | NDeref prop => with_chain s (on_prop_access prop (s_chain s))
  | NIndex (Some v) => with_chain s (on_index_lit true v (s_chain s))
  | NIndex None => with_chain s (on_index_access (s_chain s))
  | NArrDeref => with_chain s (on_object_filter (s_chain s))
  | NCall _ | NOther => do_end s
  end.
Proof. intros Hs. unfold on_leave. rewrite Hs. reflexivity. Qed.

Lemma do_end_mk c errs : do_end (mk c errs) = mk chain_reset (errs ++ flush c).
Proof. reflexivity. Qed.

Lemma do_end_0 s : s_safe s = 0 -> do_end s = mk chain_reset (pending s).
Proof. intros Hs. unfold do_end, mk, pending. now rewrite Hs. Qed.

Lemma flush_reset : flush chain_reset = [].
Proof. reflexivity. Qed.

Lemma leave_index o i c errs :
  on_leave true roots (node_of (EIndex o i)) (mk c errs) = mk (leave_index_chain i c) errs.
Proof. destruct i; reflexivity. Qed.

Lemma W_args (args : list expr) :
  Forall (W None) args ->
  forall s, s_safe s = 0 ->
    s_safe (RUN (flat_map (EV None) args) s) = 0 /\
    pending (RUN (flat_map (EV None) args) s) = pending s ++ flat_map total args.
Proof.
  induction 1 as [|a args Ha _ IH]; intros s Hs; cbn [flat_map].
  - split; [assumption|]. now rewrite app_nil_r.
  - rewrite run_app. destruct (Ha s Hs) as [H1 H2].
    destruct (IH _ H1) as [H3 H4]. split; [assumption|].
    rewrite H4, H2. now rewrite app_assoc.
Qed.

Lemma leaf_R1 e : is_leaf_expr e = true -> R1 e.
Proof.
  intros He s Hs. rewrite ev_leaf by assumption.
  cbn [run fold_left step]. rewrite enter_unsafe by (destruct e; (reflexivity || discriminate)).
  rewrite leave0 by assumption.
  destruct e; try discriminate; cbn [node_of final inner];
    rewrite ?app_nil_r; try (now apply do_end_0).
  rewrite (do_end_0 s Hs). reflexivity.
Qed.

Lemma W_default t e : narrowable e = false -> W None e -> W (Some t) e.
Proof. intros Hn H s Hs. rewrite ev_some_default by assumption. now apply H. Qed.

Lemma main_inv e : R1 e /\ forall t, W (Some t) e.
Proof.
  induction e using expr_ind'.
  1-6: split; [now apply leaf_R1|intros t; apply W_default; [reflexivity|apply R1_W; now apply leaf_R1]].
  - (* EDeref *)
    destruct IHe as [IH _].
    assert (H1 : R1 (EDeref e n)).
    { intros s Hs. rewrite ev_deref, run_cons, run_app. cbn [step on_enter].
      rewrite (IH s Hs). reflexivity. }
    split; [exact H1|]. intros t. apply W_default; [reflexivity|now apply R1_W].
  - (* EArrDeref *)
    destruct IHe as [IH _].
    assert (H1 : R1 (EArrDeref e)).
    { intros s Hs. rewrite ev_arr, run_cons, run_app. cbn [step on_enter].
      rewrite (IH s Hs). reflexivity. }
    split; [exact H1|]. intros t. apply W_default; [reflexivity|now apply R1_W].
  - (* EIndex *)
    destruct IHe1 as [IHo _], IHe2 as [IHi _].
    assert (H1 : R1 (EIndex e1 e2)).
    { intros s Hs. rewrite ev_index, run_cons, !run_app. cbn [step].
      rewrite enter_unsafe by (destruct e2; reflexivity).
      rewrite (IHi s Hs), (IHo (mk _ _) eq_refl).
      cbn [run fold_left step]. rewrite leave_index.
      unfold pending at 1; cbn [mk s_errs s_chain].
      cbn [final inner]. f_equal. now rewrite <- !app_assoc. }
    split; [exact H1|]. intros t. apply W_default; [reflexivity|now apply R1_W].
  - (* ENot *)
    destruct IHe as [IH IHn].
    assert (H1 : R1 (ENot p e)).
    { intros s Hs. rewrite ev_not_none, run_cons, run_app. cbn [step on_enter].
      rewrite (IH s Hs). cbn [run fold_left step]. rewrite leave0 by reflexivity.
      rewrite do_end_mk. cbn [final inner]. f_equal. now rewrite <- !app_assoc. }
    split; [exact H1|]. intros t s Hs. rewrite ev_not_some.
    destruct (IHn (negb t) s Hs) as [H2 H3]. split; [assumption|].
    rewrite H3. unfold total. cbn [final inner]. now rewrite flush_reset, app_nil_r.
  - (* ECmp *)
    destruct IHe1 as [IHl _], IHe2 as [IHr _].
    assert (H1 : R1 (ECmp op e1 e2)).
    { intros s Hs. rewrite ev_cmp, run_cons, !run_app. cbn [step on_enter].
      rewrite (IHl s Hs), (IHr (mk _ _) eq_refl).
      cbn [run fold_left step]. rewrite leave0 by reflexivity. rewrite do_end_mk.
      unfold pending at 1; cbn [mk s_errs s_chain final inner]. f_equal. now rewrite <- !app_assoc. }
    split; [exact H1|]. intros t. apply W_default; [reflexivity|now apply R1_W].
  - (* ELog *)
    destruct IHe1 as [IHl IHln], IHe2 as [IHr _].
    assert (Hboth : forall m, W m e1 -> forall s, s_safe s = 0 ->
              s_safe (RUN (EV m e1 ++ EV None e2) s) = 0 /\
              pending (RUN (EV m e1 ++ EV None e2) s) = pending s ++ total e1 ++ total e2).
    { intros m Hm s Hs. rewrite run_app. destruct (Hm s Hs) as [H2 H3].
      destruct (R1_W _ IHr _ H2) as [H4 H5]. split; [assumption|].
      now rewrite H5, H3, <- app_assoc. }
    assert (H1 : R1 (ELog op e1 e2)).
    { intros s Hs. rewrite ev_log_none, run_cons, !run_app. cbn [step on_enter].
      assert (HWl : W (if narrowing then Some (lhs_truthy op) else None) e1).
      { destruct narrowing; [apply IHln|now apply R1_W]. }
      destruct (HWl s Hs) as [H2 H3].
      rewrite (IHr _ H2). cbn [run fold_left step]. rewrite leave0 by reflexivity.
      rewrite do_end_mk, H3. cbn [final inner]. f_equal. unfold total. now rewrite <- !app_assoc. }
    split; [exact H1|]. intros t s Hs. rewrite ev_log_some.
    assert (Ht : total (ELog op e1 e2) = total e1 ++ total e2).
    { unfold total. cbn [final inner]. now rewrite flush_reset, app_nil_r. }
    rewrite Ht.
    destruct (Bool.eqb t (lhs_truthy op)).
    + now apply Hboth.
    + apply Hboth; [now apply R1_W|assumption].
  - (* ECall *)
    assert (HW : Forall (W None) args).
    { eapply Forall_impl; [|exact H]. intros a [Ha _]. now apply R1_W. }
    assert (H1 : R1 (ECall p c args)).
    { intros s Hs. rewrite ev_call, run_cons, run_app. cbn [step on_enter inner final].
      destruct (is_safe_call c) eqn:Hc.
      - assert (Hmid : RUN (if defd c then flat_map (EV None) args else [])
                         {| s_chain := s_chain s; s_safe := S (s_safe s); s_errs := s_errs s |}
                       = {| s_chain := s_chain s; s_safe := S (s_safe s); s_errs := s_errs s |}).
        { destruct (defd c); [|reflexivity].
          apply (flat_map_ignored args) with (k := s_safe s); [|reflexivity].
          eapply Forall_impl; [|exact H]. intros a _ m s' k'. apply ignore_ev. }
        rewrite Hmid. cbn [run fold_left step on_leave s_safe]. rewrite Hc, Hs.
        cbn [s_chain s_errs]. unfold do_end, mk, pending; cbn. now rewrite app_nil_r.
      - destruct (defd c).
        + destruct (W_args args HW s Hs) as [H2 H3].
          cbn [run fold_left step]. rewrite leave0 by assumption.
          rewrite (do_end_0 _ H2), H3. reflexivity.
        + cbn [run fold_left step]. rewrite leave0 by assumption.
          rewrite (do_end_0 _ Hs). now rewrite app_nil_r. }
    split; [exact H1|]. intros t. apply W_default; [reflexivity|now apply R1_W].
Qed.

(* Layer 1: Check() reports exactly [total e] *)
Theorem reported_total e : reported true roots (EV None e) = total e.
Proof.
  unfold reported. destruct (main_inv e) as [H _].
  rewrite (H st_init eq_refl). reflexivity.
Qed.

End Layer1.

(* ---------------------------------------------------------------------- *)
(* Layer 2: [total e] against the specification *)

Definition opt_list {A} (o : option A) : list A := match o with Some x => [x] | None => [] end.

Lemma filter_map_cand_flat f l : filter_map_cand f l = flat_map (fun c => opt_list (f c)) l.
Proof. induction l as [|a l IH]; cbn; [reflexivity|]. destruct (f a); cbn; now rewrite IH. Qed.

Lemma perm_filter {A} (f : A -> bool) l l' : Permutation l l' -> Permutation (filter f l) (filter f l').
Proof.
  induction 1 as [|x l l' _ IH|x y l|l l' l'' _ IH1 _ IH2]; cbn.
  - constructor.
  - destruct (f x); [now constructor|assumption].
  - destruct (f x), (f y); try apply Permutation_refl. apply perm_swap.
  - eapply Permutation_trans; eassumption.
Qed.

Lemma lower_star v : String.eqb v "*" = String.eqb (lower v) "*".
Proof.
  destruct v as [|c v]; [reflexivity|]. destruct v as [|c' v'].
  - destruct c as [[] [] [] [] [] [] [] []]; reflexivity.
  - cbn. destruct (Ascii.eqb c "*"), (Ascii.eqb (lower_ascii c) "*"); reflexivity.
Qed.

Definition req (r : report) (s : sreport) : Prop :=
  fst r = Some (fst s) /\ Permutation (snd r) (snd s).

(* same reports in the same order, each at the same token, with the same
   paths up to their order (sortedQuotes) *)
Definition reports_equiv : list report -> list sreport -> Prop := Forall2 req.

Section Layer2.
Variable roots : list utree.
Variable defd : string -> bool.
Variable narrowing : bool.

Notation FINAL := (final roots).
Notation INNER := (inner roots defd).

Lemma child_named_prop n p : child_named n p = opt_list (find_object_prop n p).
Proof. unfold child_named, find_object_prop. destruct (find_named _ _); reflexivity. Qed.

Lemma filter_slot_star c : opt_list (fst (filter_slot c)) ++ snd (filter_slot c) = star_of c.
Proof.
  unfold filter_slot, star_of. rewrite child_named_prop. unfold find_array_elem.
  destruct (find_object_prop "*" c); cbn; [reflexivity|].
  unfold members, cand_children. destruct (map _ _); reflexivity.
Qed.

Lemma filter_slots_perm l :
  Permutation (fst (filter_slots l) ++ snd (filter_slots l)) (flat_map star_of l).
Proof.
  induction l as [|a l IH]; cbn [filter_slots flat_map]; [constructor|].
  destruct (filter_slots l) as [h' t']. cbn [fst snd] in IH.
  rewrite <- (filter_slot_star a). destruct (filter_slot a) as [h t]. cbn [fst snd].
  assert (Hc : Permutation (h' ++ t ++ t') (t ++ flat_map star_of l)).
  { eapply Permutation_trans; [apply Permutation_app_swap_app|]. now apply Permutation_app_head. }
  destruct h as [x|]; cbn [opt_list app].
  - constructor. exact Hc.
  - exact Hc.
Qed.

Lemma on_object_filter_eq c : on_object_filter c =
  {| c_cur := fst (filter_slots (c_cur c)) ++ snd (filter_slots (c_cur c)); c_filt := true; c_start := c_start c |}.
Proof. unfold on_object_filter. destruct (filter_slots _); reflexivity. Qed.

Lemma leaf_paths_filter l : leaf_paths l = map fst (filter is_leaf l).
Proof.
  induction l as [|a l IH]; cbn; [reflexivity|]. unfold is_leaf.
  destruct (ut_children (snd a)); cbn; now rewrite IH.
Qed.

Definition sim (c : chain_st) (w : list tpos_in_tree * bool) (p : tpos) : Prop :=
  Permutation (c_cur c) (fst w) /\ c_filt c = snd w /\ (c_cur c <> [] -> c_start c = Some p).

Lemma flat_map_nonnil {A B} (f : A -> list B) l : flat_map f l <> [] -> l <> [].
Proof. intros H ->. now apply H. Qed.

Lemma sim_prop c w p n : String.eqb n "*" = false -> sim c w p ->
  sim (on_prop_access n c) (walk_seg w (SName n)) p.
Proof.
  intros Hn (H1 & H2 & H3). unfold sim, on_prop_access, walk_seg. rewrite Hn. cbn [c_cur c_filt c_start fst snd].
  rewrite filter_map_cand_flat. split; [|split].
  - erewrite flat_map_ext; [apply Permutation_flat_map; exact H1|]. intros a. symmetry. apply child_named_prop.
  - exact H2.
  - intros H. apply H3. now apply flat_map_nonnil in H.
Qed.

Lemma sim_idxlit c w p v : sim c w p ->
  sim (on_index_lit true v c) (walk_seg w (SName (lower v))) p.
Proof.
  intros H. unfold on_index_lit. destruct (String.eqb v "*") eqn:Hv.
  - destruct H as (H1 & H2 & H3). unfold sim, walk_seg. rewrite <- lower_star, Hv.
    cbn. split; [constructor|split; [exact H2|congruence]].
  - apply sim_prop; [now rewrite <- lower_star|exact H].
Qed.

Lemma sim_idx c w p : sim c w p -> sim (on_index_access c) (walk_seg w SElem) p.
Proof.
  intros (H1 & H2 & H3). unfold sim, on_index_access, walk_seg. rewrite <- H2.
  destruct (c_filt c); cbn [c_cur c_filt c_start fst snd].
  - auto.
  - rewrite filter_map_cand_flat. split; [|split; [reflexivity|]].
    + erewrite flat_map_ext; [apply Permutation_flat_map; exact H1|]. intros a. symmetry. apply child_named_prop.
    + intros H. apply H3. now apply flat_map_nonnil in H.
Qed.

Lemma sim_star c w p : sim c w p -> sim (on_object_filter c) (walk_seg w SStar) p.
Proof.
  intros (H1 & H2 & H3). rewrite on_object_filter_eq. unfold sim, walk_seg. cbn [c_cur c_filt c_start fst snd].
  split; [|split; [reflexivity|]].
  - eapply Permutation_trans; [apply filter_slots_perm|]. now apply Permutation_flat_map.
  - intros H. apply H3. intros E. apply H. rewrite E. reflexivity.
Qed.

Lemma nil_prop n c : c_cur c = [] -> c_cur (on_prop_access n c) = [].
Proof. unfold on_prop_access; cbn. now intros ->. Qed.

Lemma nil_idxlit v c : c_cur c = [] -> c_cur (on_index_lit true v c) = [].
Proof. unfold on_index_lit. destruct (String.eqb v "*"); [reflexivity|apply nil_prop]. Qed.

Lemma nil_idx c : c_cur c = [] -> c_cur (on_index_access c) = [].
Proof. unfold on_index_access. destruct (c_filt c); cbn; now intros ->. Qed.

Lemma nil_star c : c_cur c = [] -> c_cur (on_object_filter c) = [].
Proof. rewrite on_object_filter_eq; cbn. now intros ->. Qed.

Definition idx_seg (i : expr) : seg := match i with EStr _ v => SName (lower v) | _ => SElem end.

Lemma chain_of_index o i : chain_of (EIndex o i) = option_map (add_seg (idx_seg i)) (chain_of o).
Proof. destruct i; reflexivity. Qed.

Lemma walk_add_seg s ch : walk roots (add_seg s ch) = walk_seg (walk roots ch) s.
Proof. unfold walk, add_seg; cbn. now rewrite fold_left_app. Qed.

Lemma final_sim e : parser_normal e ->
  match chain_of e with
  | Some ch => sim (FINAL e) (walk roots ch) (ch_pos ch)
  | None => c_cur (FINAL e) = []
  end.
Proof.
  induction e using expr_ind'; intros Hn; try reflexivity.
  - (* EVar *)
    cbn in Hn. cbn [chain_of final]. unfold walk, walk_start, on_var; cbn [ch_segs ch_root ch_pos fold_left].
    rewrite Hn. destruct (find_named n roots); unfold sim; cbn.
    + split; [apply Permutation_refl|split; [reflexivity|reflexivity]].
    + split; [apply perm_nil|split; [reflexivity|congruence]].
  - (* EDeref *)
    cbn in Hn. destruct Hn as (Hl & Hs & Hr). specialize (IHe Hr). cbn [chain_of final].
    destruct (chain_of e) as [ch|]; cbn [option_map].
    + rewrite walk_add_seg, Hl. apply sim_prop; [|exact IHe]. now apply String.eqb_neq.
    + now apply nil_prop.
  - (* EArrDeref *)
    cbn in Hn. specialize (IHe Hn). cbn [chain_of final].
    destruct (chain_of e) as [ch|]; cbn [option_map].
    + rewrite walk_add_seg. now apply sim_star.
    + now apply nil_star.
  - (* EIndex *)
    cbn in Hn. destruct Hn as (Ho & Hi). specialize (IHe1 Ho). rewrite chain_of_index. cbn [final].
    destruct (chain_of e1) as [ch|]; cbn [option_map].
    + rewrite walk_add_seg. destruct e2; cbn [leave_index_chain idx_seg];
        try (now apply sim_idx). now apply sim_idxlit.
    + destruct e2; cbn [leave_index_chain]; try (now apply nil_idx). now apply nil_idxlit.
Qed.

Lemma flush_sim c w p : sim c w p ->
  reports_equiv (flush c) (match map fst (filter is_leaf (fst w)) with [] => [] | ps => [(p, ps)] end).
Proof.
  intros (H1 & H2 & H3). unfold flush. rewrite leaf_paths_filter.
  assert (HP : Permutation (map fst (filter is_leaf (c_cur c))) (map fst (filter is_leaf (fst w)))).
  { apply Permutation_map. now apply perm_filter. }
  destruct (map fst (filter is_leaf (c_cur c))) as [|a A] eqn:EA;
    destruct (map fst (filter is_leaf (fst w))) as [|b B] eqn:EB.
  - constructor.
  - apply Permutation_nil in HP. discriminate.
  - apply Permutation_sym, Permutation_nil in HP. discriminate.
  - constructor; [|constructor]. split; cbn [fst snd]; [|exact HP].
    apply H3. intros E. rewrite E in EA. discriminate.
Qed.

Lemma top_equiv e : parser_normal e ->
  reports_equiv (flush (FINAL e)) (flat_map (report_of roots) (top_chain e)).
Proof.
  intros Hn. pose proof (final_sim e Hn) as H. unfold top_chain.
  destruct (chain_of e) as [ch|]; cbn [flat_map].
  - rewrite app_nil_r. unfold report_of, reads. now apply flush_sim.
  - unfold flush. rewrite H. constructor.
Qed.

Lemma sanitising_safe c : sanitising c = is_safe_call c.
Proof. reflexivity. Qed.

Lemma equiv_app a a' b b' : reports_equiv a a' -> reports_equiv b b' -> reports_equiv (a ++ b) (a' ++ b').
Proof. apply Forall2_app. Qed.

Lemma inner_equiv e : parser_normal e ->
  reports_equiv (INNER e) (flat_map (report_of roots) (sub_chains defd e)).
Proof.
  induction e using expr_ind'; intros Hn; cbn [inner sub_chains]; cbn [parser_normal] in Hn;
    try (now constructor).
  - destruct Hn as (_ & _ & Hr). auto.
  - auto.
  - destruct Hn as (Ho & Hi). rewrite !flat_map_app.
    apply equiv_app; [apply equiv_app|]; [now apply IHe2|now apply top_equiv|now apply IHe1].
  - rewrite flat_map_app. apply equiv_app; [now apply IHe|now apply top_equiv].
  - destruct Hn as (Hl & Hr). rewrite !flat_map_app.
    apply equiv_app; apply equiv_app; [now apply IHe1|now apply top_equiv|now apply IHe2|now apply top_equiv].
  - destruct Hn as (Hl & Hr). rewrite !flat_map_app.
    apply equiv_app; apply equiv_app; [now apply IHe1|now apply top_equiv|now apply IHe2|now apply top_equiv].
  - change (sanitising c) with (is_safe_call c). destruct (is_safe_call c); [constructor|].
    destruct (defd c); [|constructor].
    induction args as [|a args IHa]; cbn [flat_map]; [constructor|].
    destruct Hn as (Ha & Hrest). inversion H as [|? ? Hh Ht]; subst.
    rewrite !flat_map_app.
    apply equiv_app; [apply equiv_app|]; [now apply Hh|now apply top_equiv|now apply IHa].
Qed.

Theorem exact_gen e : parser_normal e ->
  reports_equiv (reported true roots (gev defd narrowing None e)) (spec_paths roots defd e).
Proof.
  intros Hn. rewrite reported_total. unfold total, spec_paths, chains. rewrite flat_map_app.
  apply equiv_app; [now apply inner_equiv|now apply top_equiv].
Qed.

End Layer2.

(* ---------------------------------------------------------------------- *)
(* positions, sanitising calls, letter case *)

Lemma Forall2_In_l {A B} (R : A -> B -> Prop) l l' x :
  Forall2 R l l' -> In x l -> exists y, In y l' /\ R x y.
Proof.
  induction 1 as [|a b l l' Hab _ IH]; intros Hin; [contradiction|].
  destruct Hin as [<-|Hin].
  - exists b. split; [now left|assumption].
  - destruct (IH Hin) as (y & Hy & Hr). exists y. split; [now right|assumption].
Qed.

Section Secondary.
Variable roots : list utree.
Variable defd : string -> bool.
Variable narrowing : bool.

Notation FINAL := (final roots).
Notation INNER := (inner roots defd).

(* -- positions -- *)

Lemma chain_root x : forall ch, chain_of x = Some ch ->
  exists n, root_var x = Some (ch_pos ch, n) /\ etok x = ch_pos ch /\ ch_root ch = lower n.
Proof.
  induction x using expr_ind'; intros ch Hc; try discriminate.
  - cbn in Hc. inversion Hc; subst; cbn. eauto.
  - cbn in Hc. destruct (chain_of x) as [c0|]; [|discriminate]. inversion Hc; subst; cbn.
    destruct (IHx c0 eq_refl) as (m & ? & ? & ?). eauto.
  - cbn in Hc. destruct (chain_of x) as [c0|]; [|discriminate]. inversion Hc; subst; cbn.
    destruct (IHx c0 eq_refl) as (m & ? & ? & ?). eauto.
  - rewrite chain_of_index in Hc. destruct (chain_of x1) as [c0|]; [|discriminate]. inversion Hc; subst; cbn.
    destruct (IHx1 c0 eq_refl) as (m & ? & ? & ?). eauto.
Qed.

Lemma subterms_refl e : In e (subterms e).
Proof. destruct e; cbn; now left. Qed.

Lemma top_sub e ch : In ch (top_chain e) -> chain_of e = Some ch.
Proof. unfold top_chain. destruct (chain_of e); cbn; [intros [<-|[]]; reflexivity|intros []]. Qed.

Definition has_chain (e : expr) (ch : chain) : Prop :=
  exists x, In x (subterms e) /\ chain_of x = Some ch.

Lemma all_sub defined e :
  (forall ch, In ch (sub_chains defined e) -> has_chain e ch) ->
  forall ch, In ch (sub_chains defined e ++ top_chain e) -> has_chain e ch.
Proof.
  intros H ch Hin. apply in_app_or in Hin as [Hin|Hin]; [auto|].
  exists e. split; [apply subterms_refl|now apply top_sub].
Qed.

Lemma has_chain_up e c ch : (forall x, In x (subterms c) -> In x (subterms e)) -> has_chain c ch -> has_chain e ch.
Proof. intros H (x & Hx & Hc). exists x. auto. Qed.

Lemma sub_sub defined e : forall ch, In ch (sub_chains defined e) -> has_chain e ch.
Proof.
  induction e using expr_ind'; cbn [sub_chains]; intros ch Hin; try contradiction.
  - apply (has_chain_up _ e); [intros x Hx; cbn; now right|auto].
  - apply (has_chain_up _ e); [intros x Hx; cbn; now right|auto].
  - apply in_app_or in Hin as [Hin|Hin].
    + apply (has_chain_up _ e2); [intros x Hx; cbn; right; apply in_or_app; now right|].
      now apply (all_sub defined).
    + apply (has_chain_up _ e1); [intros x Hx; cbn; right; apply in_or_app; now left|auto].
  - apply (has_chain_up _ e); [intros x Hx; cbn; now right|]. now apply (all_sub defined).
  - apply in_app_or in Hin as [Hin|Hin].
    + apply (has_chain_up _ e1); [intros x Hx; cbn; right; apply in_or_app; now left|]. now apply (all_sub defined).
    + apply (has_chain_up _ e2); [intros x Hx; cbn; right; apply in_or_app; now right|]. now apply (all_sub defined).
  - apply in_app_or in Hin as [Hin|Hin].
    + apply (has_chain_up _ e1); [intros x Hx; cbn; right; apply in_or_app; now left|]. now apply (all_sub defined).
    + apply (has_chain_up _ e2); [intros x Hx; cbn; right; apply in_or_app; now right|]. now apply (all_sub defined).
  - destruct (sanitising c); [contradiction|]. destruct (defined c); [|contradiction].
    apply in_flat_map in Hin as (a & Ha & Hin). rewrite Forall_forall in H.
    apply (has_chain_up _ a); [intros x Hx; cbn; right; apply in_flat_map; eauto|].
    apply (all_sub defined); auto.
Qed.

Theorem positions_gen e : parser_normal e ->
  forall r, In r (reported true roots (gev defd narrowing None e)) ->
  exists x ch n, In x (subterms e) /\ chain_of x = Some ch /\ root_var x = Some (etok x, n) /\
                 fst r = Some (etok x) /\ Permutation (snd r) (reads roots ch) /\ reads roots ch <> [].
Proof.
  intros Hn r Hr.
  destruct (Forall2_In_l _ _ _ _ (exact_gen roots defd narrowing e Hn) Hr) as (s & Hs & Hreq & Hperm).
  unfold spec_paths in Hs. apply in_flat_map in Hs as (ch & Hch & Hs).
  unfold report_of in Hs. destruct (reads roots ch) as [|q qs] eqn:Erd; [contradiction|].
  destruct Hs as [<-|[]]. cbn [fst snd] in *.
  destruct (all_sub defd e (sub_sub defd e) ch Hch) as (x & Hx & Hc).
  destruct (chain_root x ch Hc) as (n & Hrv & Htok & _).
  exists x, ch, n. rewrite Htok, Erd. repeat split; auto. discriminate.
Qed.

(* -- sanitising calls -- *)

Theorem safe_silent_gen p c args : is_safe_call c = true ->
  reported true roots (gev defd narrowing None (ECall p c args)) = [].
Proof. intros H. rewrite reported_total. unfold total. cbn [inner final]. now rewrite H. Qed.

Lemma erase_lic i c : leave_index_chain (erase_safe i) c = leave_index_chain i c.
Proof. destruct i; cbn [erase_safe]; try reflexivity. destruct (sanitising callee); reflexivity. Qed.

Lemma erase_final e : FINAL (erase_safe e) = FINAL e.
Proof.
  induction e using expr_ind'; cbn [erase_safe final]; try reflexivity.
  - now rewrite IHe.
  - now rewrite IHe.
  - now rewrite IHe1, erase_lic.
  - destruct (sanitising c); reflexivity.
Qed.

Lemma erase_inner e : INNER (erase_safe e) = INNER e.
Proof.
  induction e using expr_ind'; cbn [erase_safe inner]; try reflexivity; auto.
  - now rewrite IHe1, IHe2, erase_final.
  - now rewrite IHe, erase_final.
  - now rewrite IHe1, IHe2, !erase_final.
  - now rewrite IHe1, IHe2, !erase_final.
  - change (sanitising c) with (is_safe_call c).
    destruct (is_safe_call c) eqn:E; cbn [inner]; rewrite E; [reflexivity|].
    destruct (defd c); [|reflexivity].
    induction args as [|a args IHa]; cbn [map flat_map]; [reflexivity|].
    inversion H as [|? ? Hh Ht]; subst. now rewrite Hh, erase_final, (IHa Ht).
Qed.

(* what is written inside contains/startsWith/endsWith never matters *)
Theorem safe_opaque_gen e :
  reported true roots (gev defd narrowing None (erase_safe e)) = reported true roots (gev defd narrowing None e).
Proof. rewrite !reported_total. unfold total. now rewrite erase_inner, erase_final. Qed.

(* -- letter case -- *)

Lemma recase_lic i i' c : recase i i' ->
  leave_index_chain (pnorm i) c = leave_index_chain (pnorm i') c.
Proof.
  destruct i, i'; cbn [recase]; intros H; try contradiction; try reflexivity.
  destruct H as [_ Hl]. cbn [pnorm leave_index_chain]. unfold on_index_lit.
  now rewrite (lower_star s), (lower_star s0), Hl.
Qed.

Lemma recase_final e : forall e', recase e e' -> FINAL (pnorm e) = FINAL (pnorm e').
Proof.
  induction e using expr_ind'; intros e' Hrc; destruct e'; cbn [recase] in Hrc; try contradiction;
    cbn [pnorm final]; try reflexivity.
  - destruct Hrc as [-> Hl]. now rewrite Hl.
  - destruct Hrc as [Hr Hl]. now rewrite Hl, (IHe _ Hr).
  - now rewrite (IHe _ Hrc).
  - destruct Hrc as [Ho Hi]. now rewrite (IHe1 _ Ho), (recase_lic _ _ _ Hi).
Qed.

Lemma safe_lower c c' : lower c = lower c' -> is_safe_call c = is_safe_call c'.
Proof. unfold is_safe_call. now intros ->. Qed.

(* the table of defined functions is keyed by lower-case names *)
Hypothesis defd_lower : forall c c', lower c = lower c' -> defd c = defd c'.

Lemma recase_inner e : forall e', recase e e' -> INNER (pnorm e) = INNER (pnorm e').
Proof.
  induction e using expr_ind'; intros e' Hrc; destruct e'; cbn [recase] in Hrc; try contradiction;
    cbn [pnorm inner]; try reflexivity.
  - destruct Hrc as [Hr _]. auto.
  - auto.
  - destruct Hrc as [Ho Hi]. now rewrite (IHe1 _ Ho), (IHe2 _ Hi), (recase_final _ _ Hi).
  - destruct Hrc as [_ Ha]. now rewrite (IHe _ Ha), (recase_final _ _ Ha).
  - destruct Hrc as (_ & Hl & Hr). now rewrite (IHe1 _ Hl), (IHe2 _ Hr), (recase_final _ _ Hl), (recase_final _ _ Hr).
  - destruct Hrc as (_ & Hl & Hr). now rewrite (IHe1 _ Hl), (IHe2 _ Hr), (recase_final _ _ Hl), (recase_final _ _ Hr).
  - destruct Hrc as (_ & Hc & Hargs). rewrite (safe_lower _ _ Hc), (defd_lower _ _ Hc).
    destruct (is_safe_call callee); [reflexivity|]. destruct (defd callee); [|reflexivity].
    revert args0 Hargs. induction args as [|a args IHa]; intros [|a' args'] Hargs; try contradiction; [reflexivity|].
    destruct Hargs as [Ha Hrest]. inversion H as [|? ? Hh Ht]; subst. cbn [map flat_map].
    now rewrite (Hh _ Ha), (recase_final _ _ Ha), (IHa Ht _ Hrest).
Qed.

(* the letter case of variable, property and function names and of
   ['name'] literals is irrelevant ([pnorm] is the parser's own lower-casing) *)
Theorem recase_gen e e' : recase e e' ->
  reported true roots (gev defd narrowing None (pnorm e)) = reported true roots (gev defd narrowing None (pnorm e')).
Proof.
  intros H. rewrite !reported_total. unfold total.
  now rewrite (recase_inner _ _ H), (recase_final _ _ H).
Qed.

End Secondary.

(* ---------------------------------------------------------------------- *)
(* the two traversals of the Go code *)

Lemma known_lower funcs c c' : lower c = lower c' -> known funcs c = known funcs c'.
Proof. unfold known. now intros ->. Qed.

Lemma visit_events_gev e : visit_events e = gev (fun _ => true) false None e.
Proof.
  induction e using expr_ind'; cbn [visit_events gev]; try reflexivity;
    rewrite ?IHe, ?IHe1, ?IHe2; try reflexivity.
  f_equal. f_equal. induction H as [|a args Ha _ IH]; cbn [flat_map]; [reflexivity|].
  now rewrite Ha, IH.
Qed.

Section Instances.
Variable roots : list utree.
Variable funcs : list string.

(* driven by ExprSemanticsChecker.check (expr_sema.go) *)
Theorem untrusted_exact e : parser_normal e ->
  reports_equiv (reported true roots (events funcs e)) (spec_paths roots (known funcs) e).
Proof. exact (exact_gen roots (known funcs) true e). Qed.

Theorem untrusted_positions e : parser_normal e ->
  forall r, In r (reported true roots (events funcs e)) ->
  exists x ch n, In x (subterms e) /\ chain_of x = Some ch /\ root_var x = Some (etok x, n) /\
                 fst r = Some (etok x) /\ Permutation (snd r) (reads roots ch) /\ reads roots ch <> [].
Proof. exact (positions_gen roots (known funcs) true e). Qed.

Theorem safe_calls_silent p c args : is_safe_call c = true ->
  reported true roots (events funcs (ECall p c args)) = [].
Proof. exact (safe_silent_gen roots (known funcs) true p c args). Qed.

Theorem safe_calls_opaque e :
  reported true roots (events funcs (erase_safe e)) = reported true roots (events funcs e).
Proof. exact (safe_opaque_gen roots (known funcs) true e). Qed.

Theorem untrusted_recase e e' : recase e e' ->
  reported true roots (events funcs (pnorm e)) = reported true roots (events funcs (pnorm e')).
Proof. exact (recase_gen roots (known funcs) true (known_lower funcs) e e'). Qed.

(* after Check() the checker is back in its initial state (apart from the
   errors Init() truncates): one checker object can be reused *)
Theorem state_clean_after_check e :
  let s := do_end (run true roots (events funcs e) st_init) in
  s_chain s = chain_reset /\ s_safe s = 0.
Proof.
  cbn zeta. unfold events, ev. destruct (main_inv roots (known funcs) true e) as [H _].
  rewrite (H st_init eq_refl). split; reflexivity.
Qed.

(* driven by VisitExprNode (expr_ast.go), as actionlint's own tests do *)
Theorem visit_exact e : parser_normal e ->
  reports_equiv (reported true roots (visit_events e)) (spec_paths roots (fun _ => true) e).
Proof. rewrite visit_events_gev. exact (exact_gen roots (fun _ => true) false e). Qed.

End Instances.
