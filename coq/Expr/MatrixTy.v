(* Expr/MatrixTy.v — model of how RuleExpression types the `matrix` context
   from a literal strategy.matrix (rule_expression.go checkMatrix,
   checkMatrixRow, checkRawYAMLValue, checkRawYAMLString), over the type model
   of Expr/Types.v.  The type of every scalar is an input: for a literal it is
   decided by checkRawYAMLString's classification (bool / null / number /
   string), for a `${{ }}` value it is the type of the expression (oracle:
   C06's Sema model; `any` when the expression has errors). *)
From AL Require Export Expr.Types.

Inductive rawv : Type :=
| RScalar (t : ty)
| RArr (es : list rawv)
| RObj (ps : list (string * rawv)).

(* checkRawYAMLValue *)
Fixpoint raw_ty (v : rawv) : ty :=
  match v with
  | RScalar t => t
  | RArr es =>
      match es with
      | [] => TArr TAny false
      | e :: es' => TArr (fold_left (fun acc x => merge acc (raw_ty x)) es' (raw_ty e)) false
      end
  | RObj ps =>
      TObj ((fix go (l : list (string * rawv)) : list (string * ty) :=
               match l with
               | [] => []
               | kv :: l' => (fst kv, raw_ty (snd kv)) :: go l'
               end) ps) None
  end.

(* MatrixRow: an expression (type of the expression, None when it was not
   accepted) or literal values *)
Inductive mrow := MRowExpr (t : option ty) | MRowVals (vs : list rawv).

(* checkMatrixRow *)
Definition row_ty (r : mrow) : ty :=
  match r with
  | MRowExpr (Some (TArr e _)) => e
  | MRowExpr _ => TAny
  | MRowVals [] => TAny
  | MRowVals (v :: vs) => fold_left (fun acc x => merge acc (raw_ty x)) vs (raw_ty v)
  end.

Inductive mcomb := MCombExpr (t : option ty) | MCombAssigns (ps : list (string * rawv)).
Inductive mincl := MInclNone | MInclExpr (t : option ty) | MInclList (cs : list mcomb).

Record mtx := { mt_rows : list (string * mrow); mt_incl : mincl }.

(* `o.Props[n] = ty`, merged with an existing type of that key *)
Definition assign_prop (props : list (string * ty)) (na : string * rawv) : list (string * ty) :=
  let (n, v) := na in
  match lookup n props with
  | Some t => upsert n (merge t (raw_ty v)) props
  | None => upsert n (raw_ty v) props
  end.

(* one element of `include:`; state = (props, mapped) of the object under construction *)
Definition comb_step (o : list (string * ty) * option ty) (c : mcomb) : list (string * ty) * option ty :=
  match c with
  | MCombExpr None => o                                   (* the expression was not accepted: skipped *)
  | MCombExpr (Some t) =>
      match merge (TObj (fst o) (snd o)) t with
      | TObj ps m => (ps, m)                              (* copied, then used *)
      | _ => (fst o, Some TAny)                           (* o.Loose() *)
      end
  | MCombAssigns ps => (fold_left assign_prop ps (fst o), snd o)
  end.

(* an include element given by an expression whose type is not an object (any, in practice):
   nothing is known about the combination - it may define any key, also those of the rows and of
   the other combinations (from the repair of the round-8 defect on; before it only
   `o.Loose()` was called and the known keys kept their precise types: [matrix_ty_old]) *)
Definition comb_unknown (c : mcomb) : bool :=
  match c with
  | MCombExpr (Some t) => negb (is_obj t)
  | _ => false
  end.

Definition rows_props (rows : list (string * mrow)) : list (string * ty) :=
  fold_left (fun ps nr => upsert (fst nr) (row_ty (snd nr)) ps) rows [].

(* checkMatrix for a matrix that is not itself an expression *)
Definition matrix_ty (m : mtx) : ty :=
  let o := rows_props (mt_rows m) in
  match mt_incl m with
  | MInclNone => TObj o None
  | MInclExpr (Some (TArr e _)) =>
      match merge (TObj o None) e with
      | TObj ps mp => TObj ps mp
      | _ => TObj [] (Some TAny)
      end
  | MInclExpr _ => TObj [] (Some TAny)
  | MInclList cs =>
      if existsb comb_unknown cs then TObj [] (Some TAny)
      else let (ps, mp) := fold_left comb_step cs (o, None) in TObj ps mp
  end.

Definition matrix_ty_old (m : mtx) : ty :=
  let o := rows_props (mt_rows m) in
  match mt_incl m with
  | MInclList cs => let (ps, mp) := fold_left comb_step cs (o, None) in TObj ps mp
  | _ => matrix_ty m
  end.

(* ---- "less precise" on matrices: every scalar type may be replaced by a
   looser one (in particular by any), structure unchanged ------------------- *)
Inductive rawv_looser : rawv -> rawv -> Prop :=
| RL_scalar t t' : looser t t' -> rawv_looser (RScalar t) (RScalar t')
| RL_arr es es' : Forall2 rawv_looser es es' -> rawv_looser (RArr es) (RArr es')
| RL_obj ps ps' : Forall2 (fun p p' => fst p = fst p' /\ rawv_looser (snd p) (snd p')) ps ps' ->
                  rawv_looser (RObj ps) (RObj ps').

Definition oty_looser (a b : option ty) : Prop :=
  match a, b with
  | Some t, Some t' => looser t t'
  | None, None => True
  | _, _ => False
  end.

Inductive mrow_looser : mrow -> mrow -> Prop :=
| ML_vals vs vs' : Forall2 rawv_looser vs vs' -> mrow_looser (MRowVals vs) (MRowVals vs')
| ML_expr t t' : oty_looser t t' -> mrow_looser (MRowExpr t) (MRowExpr t').

(* An expression that contributes an OBJECT to the matrix (an include element,
   or the element type of an `include:` expression) adds its property names to
   the matrix type.  Replacing such an object type by `any` changes the SET of
   known keys (the matrix becomes a loose object without them); the key-wise
   relation [looser] cannot express that step, so it is excluded here and
   covered by the end-to-end oracle of the check instead. *)
Definition keeps_obj (t t' : option ty) : Prop :=
  match t with
  | Some x => is_obj x = true -> match t' with Some y => is_obj y = true | None => False end
  | None => True
  end.

Definition keeps_obj_elem (t t' : option ty) : Prop :=
  match t with
  | Some (TArr e _) => is_obj e = true -> exists e' d', t' = Some (TArr e' d') /\ is_obj e' = true
  | _ => True
  end.

Inductive mcomb_looser : mcomb -> mcomb -> Prop :=
| CL_assigns ps ps' : Forall2 (fun p p' => fst p = fst p' /\ rawv_looser (snd p) (snd p')) ps ps' ->
                      mcomb_looser (MCombAssigns ps) (MCombAssigns ps')
| CL_expr t t' : oty_looser t t' -> keeps_obj t t' -> mcomb_looser (MCombExpr t) (MCombExpr t').

Inductive mincl_looser : mincl -> mincl -> Prop :=
| IL_none : mincl_looser MInclNone MInclNone
| IL_expr t t' : oty_looser t t' -> keeps_obj_elem t t' -> mincl_looser (MInclExpr t) (MInclExpr t')
| IL_list cs cs' : Forall2 mcomb_looser cs cs' -> mincl_looser (MInclList cs) (MInclList cs').

Definition mtx_looser (m m' : mtx) : Prop :=
  Forall2 (fun r r' => fst r = fst r' /\ mrow_looser (snd r) (snd r')) (mt_rows m) (mt_rows m') /\
  mincl_looser (mt_incl m) (mt_incl m').

(* induction principle for rawv reaching into arrays and objects *)
Section RawvInd.
Variable P : rawv -> Prop.
Hypothesis Hs : forall t, P (RScalar t).
Hypothesis Ha : forall es, Forall P es -> P (RArr es).
Hypothesis Ho : forall ps, Forall (fun kv => P (snd kv)) ps -> P (RObj ps).
Fixpoint rawv_ind' (v : rawv) : P v :=
  match v with
  | RScalar t => Hs t
  | RArr es => Ha es ((fix go (l : list rawv) : Forall P l :=
                         match l with [] => Forall_nil _ | x :: l' => Forall_cons _ (rawv_ind' x) (go l') end) es)
  | RObj ps => Ho ps ((fix go (l : list (string * rawv)) : Forall (fun kv => P (snd kv)) l :=
                         match l with [] => Forall_nil _ | kv :: l' => Forall_cons kv (rawv_ind' (snd kv)) (go l') end) ps)
  end.
End RawvInd.
