(* Expr/RecaseProofs.v — proofs of property C08 over the semantic-checker
   model: the checker's result type and diagnostics do not depend on the
   letter case of name occurrences (check_recase_expr, structural induction
   over the expression including narrowing and calls); typeOfJSONValue does
   not depend on the letter case of object keys (json_keys_recase); the two
   defects of the pinned code as refutations of the pre-repair definitions. *)
From AL Require Import Expr.Recase Expr.TypesProofs Expr.SemaProofs Out.StableSort Base.StrOrder.
From AL Require Expr.UntrustedSpec Expr.Untrusted Expr.UntrustedProofs.

(* ---- same_fold -------------------------------------------------------------------- *)
Lemma same_fold_refl s : same_fold s s.
Proof. reflexivity. Qed.
Lemma same_fold_sym s s' : same_fold s s' -> same_fold s' s.
Proof. unfold same_fold. congruence. Qed.
Lemma same_fold_trans a b c : same_fold a b -> same_fold b c -> same_fold a c.
Proof. unfold same_fold. congruence. Qed.
Lemma same_fold_lower s : same_fold s (lower s).
Proof. unfold same_fold. now rewrite lower_idem. Qed.

Lemma lower_upper_ascii c : lower_ascii (upper_ascii c) = lower_ascii c.
Proof.
  destruct c as [[] [] [] [] [] [] [] []]; reflexivity.
Qed.
Lemma same_fold_upper s : same_fold s (upper s).
Proof.
  unfold same_fold. induction s as [|c s IH]; cbn; [reflexivity|]. now rewrite lower_upper_ascii, IH.
Qed.

(* the two spellings agree character by character up to ASCII case *)
Lemma same_fold_chars s : forall s', same_fold s s' <->
  Forall2 (fun c c' => lower_ascii c = lower_ascii c') (list_ascii_of_string s) (list_ascii_of_string s').
Proof.
  unfold same_fold. induction s as [|c s IH]; intros [|c' s']; cbn; split; intros H;
    try discriminate; try (inversion H; fail); try constructor.
  - now inversion H.
  - apply IH. now inversion H.
  - inversion H; subst. f_equal; [assumption|]. now apply IH.
Qed.

(* ---- recase_rel is an equivalence ------------------------------------------------- *)
Lemma recase_rel_refl e : recase_rel e e.
Proof.
  induction e using expr_ind'; try (constructor; auto; reflexivity).
  constructor; [reflexivity|]. induction H; constructor; auto.
Qed.

Lemma Forall2_flip_in {A} (R : A -> A -> Prop) l : Forall (fun a => forall b, R a b -> R b a) l ->
  forall l', Forall2 R l l' -> Forall2 R l' l.
Proof. induction 1 as [|a l Ha _ IH]; intros l' H2; inversion H2; subst; constructor; auto. Qed.

Lemma recase_rel_sym e : forall e', recase_rel e e' -> recase_rel e' e.
Proof.
  induction e using expr_ind'; intros e' R; inversion R; subst;
    try (constructor; auto using same_fold_sym; fail).
  constructor; [now apply same_fold_sym|]. eapply Forall2_flip_in; eauto.
Qed.

(* upper-casing every name occurrence (index literals included) is one recasing *)
Fixpoint upper_names (e : expr) : expr :=
  match e with
  | EVar p n => EVar p (upper n)
  | ENull _ | EBool _ _ | EInt _ _ | EFloat _ _ | EStr _ _ => e
  | EDeref r n => EDeref (upper_names r) (upper n)
  | EArrDeref r => EArrDeref (upper_names r)
  | EIndex o (EStr p s) => EIndex (upper_names o) (EStr p (upper s))
  | EIndex o i => EIndex (upper_names o) (upper_names i)
  | ENot p x => ENot p (upper_names x)
  | ECmp op l r => ECmp op (upper_names l) (upper_names r)
  | ELog op l r => ELog op (upper_names l) (upper_names r)
  | ECall p c args => ECall p (upper c) (map upper_names args)
  end.

Lemma recase_rel_upper e : recase_rel e (upper_names e).
Proof.
  induction e using expr_ind'; cbn [upper_names]; try (constructor; auto using same_fold_upper; fail).
  - destruct e2; try (constructor; assumption). apply RIndexLit; [assumption|apply same_fold_upper].
  - constructor; [apply same_fold_upper|]. induction H; constructor; auto.
Qed.

(* ---- what the relation preserves --------------------------------------------------- *)
Lemma etok_recase e e' : recase_rel e e' -> etok (parser_fold e) = etok (parser_fold e').
Proof. induction 1; cbn [parser_fold etok]; auto. Qed.

(* the relation is finer than the one of the untrusted-input model (C11), which lets every
   string literal change its case; [parser_fold] is that model's [pnorm] *)
Lemma parser_fold_pnorm e : parser_fold e = UntrustedSpec.pnorm e.
Proof.
  induction e using expr_ind'; cbn; try congruence.
  all: f_equal; induction H; cbn; congruence.
Qed.

Lemma recase_rel_untrusted e : forall e', recase_rel e e' -> UntrustedSpec.recase e e'.
Proof.
  induction e as [p n|p|p b|p z|p r|p s|r n IHr|r IHr|o i IHo IHi|p x IHx|op l r IHl IHr|op l r IHl IHr|p c args IHargs]
    using expr_ind'; intros e' R; inversion R; subst; cbn; auto.
  split; [reflexivity|]. split; [assumption|].
    clear R. match goal with H2 : Forall2 _ _ _ |- _ => revert H2 end. generalize args'.
    induction IHargs as [|a l Ha _ IH]; intros l' H2; inversion H2; subst; [exact I|].
    split; [apply Ha; assumption|apply IH; assumption].
Qed.

(* ---- node functions: the tree enters through its token positions and, at two places,
   through its shape (receiver `vars`, literal index) --------------------------------- *)
Definition is_var (e : expr) : bool := match e with EVar _ _ => true | _ => false end.
Definition lit_index (e : expr) : option string := match e with EStr _ s => Some (lower s) | _ => None end.

Section Nodes.
Variables (mg : ty -> ty -> ty) (fa : bool) (E : env).

Lemma deref_node_nonvar r1 r2 p t : is_var r1 = false -> is_var r2 = false -> etok r1 = etok r2 ->
  deref_node E r1 p t = deref_node E r2 p t.
Proof.
  intros V1 V2 T. unfold deref_node. rewrite T.
  destruct r1; try discriminate; destruct r2; try discriminate; reflexivity.
Qed.

Lemma deref_node_recase r r' p t : recase_rel r r' ->
  deref_node E (parser_fold r) p t = deref_node E (parser_fold r') p t.
Proof.
  intros R. pose proof (etok_recase _ _ R) as T.
  destruct R; try (apply deref_node_nonvar; [reflexivity|reflexivity|exact T]); try reflexivity.
  cbn [parser_fold]. match goal with H : same_fold _ _ |- _ => rewrite H end. reflexivity.
Qed.

Lemma index_node_ext o1 o2 i1 i2 ti t : etok o1 = etok o2 -> etok i1 = etok i2 -> lit_index i1 = lit_index i2 ->
  index_node o1 i1 ti t = index_node o2 i2 ti t.
Proof.
  intros To Ti L. unfold index_node, index_node_gen. rewrite To, Ti.
  destruct i1; destruct i2; cbn in L; try discriminate; try reflexivity.
  inversion L as [L']. rewrite L'. reflexivity.
Qed.

Lemma lit_index_recase i i' : recase_rel i i' -> lit_index (parser_fold i) = lit_index (parser_fold i').
Proof. destruct 1; reflexivity. Qed.

Lemma Forall2_length_map {A B} (R : A -> A -> Prop) (f : A -> B) l l' : Forall2 R l l' -> length (map f l) = length (map f l').
Proof. induction 1; cbn; congruence. Qed.

Lemma builtin_call_recase p c c' args args' sig : same_fold c c' -> Forall2 recase_rel args args' ->
  builtin_call mg E p c (map parser_fold args) sig = builtin_call mg E p c' (map parser_fold args') sig.
Proof.
  intros Hc Ha. unfold builtin_call. rewrite Hc.
  destruct Ha as [|a a' l l' Hh Ht]; [reflexivity|]. cbn [map].
  destruct Hh; cbn [parser_fold]; try reflexivity.
  now rewrite (Forall2_length_map _ parser_fold _ _ Ht).
Qed.
End Nodes.

(* ---- the checker -------------------------------------------------------------------- *)
Section ChkRecase.
Variables (mg : ty -> ty -> ty) (fa : bool) (E : env).
Notation chk' := (chk mg fa E).

Lemma chk_recase e : forall e' nw, recase_rel e e' -> chk' nw (parser_fold e) = chk' nw (parser_fold e').
Proof.
  induction e as [p n|p|p b|p z|p r|p s|r n IHr|r IHr|o i IHo IHi|p x IHx|op l r IHl IHr|op l r IHl IHr|p c args IHargs]
    using expr_ind'; intros e' nw R; inversion R; subst; cbn [parser_fold]; try reflexivity.
  - (* variable *)
    match goal with H : same_fold _ _ |- _ => rewrite H end. reflexivity.
  - (* .name *)
    rewrite !chk_deref. rewrite (IHr _ None) by eassumption.
    destruct (chk' None (parser_fold r')) as [t ds].
    rewrite (deref_node_recase E r r' (lower n) t) by assumption.
    match goal with H : same_fold _ _ |- _ => rewrite H end. reflexivity.
  - (* .* *)
    rewrite !chk_arrderef. rewrite (IHr _ None) by eassumption.
    rewrite (etok_recase r r') by assumption. reflexivity.
  - (* operand[index] *)
    rewrite !chk_index. rewrite (IHi _ None), (IHo _ None) by eassumption.
    destruct (chk' None (parser_fold i')) as [ti di]. destruct (chk' None (parser_fold o')) as [t dop].
    rewrite (index_node_ext (parser_fold o) (parser_fold o') (parser_fold i) (parser_fold i') ti t);
      auto using etok_recase, lit_index_recase.
  - (* operand['Name'] *)
    rewrite !chk_index. rewrite (IHo _ None) by eassumption.
    change (parser_fold (EStr p s)) with (EStr p s).
    replace (chk' None (EStr p s')) with (chk' None (EStr p s)) by reflexivity.
    destruct (chk' None (EStr p s)) as [ti di]. destruct (chk' None (parser_fold o')) as [t dop].
    rewrite (index_node_ext (parser_fold o) (parser_fold o') (EStr p s) (EStr p s') ti t);
      auto using etok_recase.
    cbn. match goal with H : same_fold _ _ |- _ => rewrite H end. reflexivity.
  - (* ! *)
    destruct nw as [tr|].
    + rewrite !chk_not_some. now apply IHx.
    + rewrite !chk_not_none. rewrite (IHx _ None) by eassumption. reflexivity.
  - (* comparison *)
    rewrite !chk_cmp. rewrite (IHl _ None), (IHr _ None) by eassumption.
    rewrite (etok_recase l l') by assumption. reflexivity.
  - (* && || with narrowing *)
    assert (LOGICAL : logical_of mg fa E op (parser_fold l) (parser_fold r) =
                      logical_of mg fa E op (parser_fold l') (parser_fold r')).
    { unfold logical_of. rewrite (IHl _ (Some match op with LAnd => false | LOr => true end)), (IHr _ None) by eassumption.
      reflexivity. }
    destruct nw as [tr|]; [|rewrite !chk_log_none; exact LOGICAL].
    rewrite !chk_log_some. rewrite LOGICAL. unfold seq2_of.
    rewrite (IHl _ None), (IHr _ None) by eassumption. reflexivity.
  - (* function call *)
    rewrite !chk_call.
    match goal with H : same_fold c _ |- _ => rewrite H; rename H into Hc end.
    destruct (lookup (lower c') (e_funcs E)) as [sigs|]; [|reflexivity].
    match goal with H : Forall2 recase_rel args _ |- _ => rename H into Ha end.
    assert (ARGS : chk_args mg fa E (map parser_fold args) = chk_args mg fa E (map parser_fold args')).
    { clear Hc R. revert args' Ha. induction IHargs as [|a l Hh _ IHl]; intros l' Ha; inversion Ha; subst; cbn; [reflexivity|].
      rewrite (Hh _ None) by eassumption. rewrite (IHl _ ltac:(eassumption)).
      rewrite (etok_recase a y) by assumption. reflexivity. }
    rewrite ARGS. destruct (chk_args mg fa E (map parser_fold args')) as [tys ds].
    unfold call_node. destruct (resolve p sigs tys) as [sig|errs]; [|now rewrite Hc].
    rewrite (builtin_call_recase mg E p c c' args args' sig) by assumption. reflexivity.
Qed.
End ChkRecase.

(* C08 on one expression: for every environment, two spellings of an expression get the same
   result type and the same diagnostics (position and class, in the same order) *)
Theorem check_recase_expr E e e' : recase_rel e e' ->
  check E (parser_fold e) = check E (parser_fold e').
Proof. apply chk_recase. Qed.

Corollary sema_obs_recase E e e' : recase_rel e e' -> sema_obs E e = sema_obs E e'.
Proof. intros R. unfold sema_obs. now rewrite (check_recase_expr E e e' R). Qed.

(* ... in the narrowing mode too (left operand of && / ||), and for the unrepaired Merge / `.*` *)
Theorem check_recase_expr_gen mg fa E nw e e' : recase_rel e e' ->
  chk mg fa E nw (parser_fold e) = chk mg fa E nw (parser_fold e').
Proof. apply chk_recase. Qed.

(* keywords and ordinary string literals are not name occurrences: the relation fixes them *)
Lemma recase_rel_keywords e' :
  (forall p, recase_rel (ENull p) e' -> e' = ENull p) /\
  (forall p b, recase_rel (EBool p b) e' -> e' = EBool p b) /\
  (forall p s, recase_rel (EStr p s) e' -> e' = EStr p s).
Proof. repeat split; intros; match goal with H : recase_rel _ _ |- _ => inversion H end; reflexivity. Qed.

(* ... and they do matter: a string literal compared with a number, in another case, is still a
   string, but the *checker* is not indifferent to literals in general — the format string of
   format() is read: recasing is not allowed to touch it, and changing it changes the verdict *)
Definition P0 : tpos := {| t_off := 0; t_line := 1; t_col := 1 |}.
Definition env0 : env :=
  {| e_vars := [("github", TObj [("event_name", TStr)] None)];
     e_funcs := [("format", [FSig "format" TStr [TStr] true]); ("fromjson", [FSig "fromJSON" TAny [TStr] false])];
     e_avail := ["github"]; e_spavail := []; e_special := []; e_config := None;
     e_json := [("{""Foo"": 1}", JOk (JObj [("Foo", JNum)]))] |}.

Example literal_content_matters :
  snd (check env0 (ECall P0 "format" [EStr P0 "{0}"; EInt P0 1])) = [] /\
  snd (check env0 (ECall P0 "format" [EStr P0 "{1}"; EInt P0 1])) <> [].
Proof. split; [reflexivity|cbn; discriminate]. Qed.

(* the hypothesis is satisfiable non-trivially: a tree with every name kind in upper case *)
Example recase_witness :
  let e := EIndex (EDeref (EVar P0 "github") "event") (EStr P0 "name") in
  let e' := EIndex (EDeref (EVar P0 "GITHUB") "EVENT") (EStr P0 "NAME") in
  recase_rel e e' /\ e <> e'.
Proof. split; [apply (recase_rel_upper (EIndex (EDeref (EVar P0 "github") "event") (EStr P0 "name")))|discriminate]. Qed.

(* ---- defect #8: the index literal was looked up as written ---------------------------- *)
(* the checker before repo_patches/case/01-fix-index-literal-case.patch *)
Definition chk_index_old (E : env) (o i : expr) : ty * list diag :=
  let '(ti, di) := check E i in let '(t, dop) := check E o in
  let '(u, own) := index_node_old o i ti t in (u, (di ++ dop) ++ own).

Theorem index_literal_old_refuted : exists E o p s s',
  recase_rel (EIndex o (EStr p s)) (EIndex o (EStr p s')) /\
  snd (chk_index_old E o (EStr p s)) = [] /\
  snd (chk_index_old E o (EStr p s')) <> [] /\
  (* the repaired checker accepts both *)
  snd (check E (EIndex o (EStr p s))) = [] /\ snd (check E (EIndex o (EStr p s'))) = [].
Proof.
  exists env0, (EVar P0 "github"), P0, "event_name", "EVENT_NAME".
  split; [apply RIndexLit; [apply recase_rel_refl|reflexivity]|].
  split; [reflexivity|]. split; [cbn; discriminate|]. split; reflexivity.
Qed.

(* ---- typeOfJSONValue --------------------------------------------------------------- *)
(* sort_kv is the generic stable insertion sort of Out/StableSort.v *)
Lemma sort_kv_ssort {V} (l : list (string * V)) : sort_kv l = ssort fst str_leb l.
Proof.
  unfold sort_kv, ssort. induction l as [|kv l IH]; cbn; [reflexivity|]. rewrite IH.
  generalize (fold_right (sinsert fst str_leb) [] l). intros m.
  induction m as [|x m IHm]; cbn; [reflexivity|]. now rewrite IHm.
Qed.

Lemma str_leb_cons x a y b : str_leb (String x a) (String y b) =
  if nat_of_ascii x <? nat_of_ascii y then true else if nat_of_ascii x =? nat_of_ascii y then str_leb a b else false.
Proof. reflexivity. Qed.

Lemma str_leb_total a : forall b, str_leb a b = true \/ str_leb b a = true.
Proof.
  induction a as [|x a IH]; intros [|y b]; try (cbn [str_leb]; auto; fail).
  rewrite !str_leb_cons.
  destruct (Nat.ltb_spec (nat_of_ascii x) (nat_of_ascii y)); [auto|].
  destruct (Nat.ltb_spec (nat_of_ascii y) (nat_of_ascii x)); [auto|].
  assert (nat_of_ascii x = nat_of_ascii y) as Heq by lia. rewrite Heq, Nat.eqb_refl. apply IH.
Qed.

Lemma str_leb_trans a : forall b c, str_leb a b = true -> str_leb b c = true -> str_leb a c = true.
Proof.
  induction a as [|x a IH]; intros [|y b] [|z c]; try (cbn [str_leb]; auto; discriminate).
  rewrite !str_leb_cons.
  destruct (Nat.ltb_spec (nat_of_ascii x) (nat_of_ascii y)).
  - intros _. destruct (Nat.ltb_spec (nat_of_ascii y) (nat_of_ascii z)).
    + intros _. destruct (Nat.ltb_spec (nat_of_ascii x) (nat_of_ascii z)); [reflexivity|lia].
    + destruct (Nat.eqb_spec (nat_of_ascii y) (nat_of_ascii z)); [|discriminate].
      intros _. destruct (Nat.ltb_spec (nat_of_ascii x) (nat_of_ascii z)); [reflexivity|lia].
  - destruct (Nat.eqb_spec (nat_of_ascii x) (nat_of_ascii y)) as [Exy|]; [|discriminate]. rewrite Exy.
    intros H1. destruct (Nat.ltb_spec (nat_of_ascii y) (nat_of_ascii z)); [reflexivity|].
    destruct (Nat.eqb_spec (nat_of_ascii y) (nat_of_ascii z)); [|discriminate]. apply IH. exact H1.
Qed.

Lemma str_leb_antisym a : forall b, str_leb a b = true -> str_leb b a = true -> a = b.
Proof.
  induction a as [|x a IH]; intros [|y b]; try (cbn [str_leb]; auto; discriminate).
  rewrite !str_leb_cons.
  destruct (Nat.ltb_spec (nat_of_ascii x) (nat_of_ascii y)).
  - intros _. destruct (Nat.ltb_spec (nat_of_ascii y) (nat_of_ascii x)); [lia|].
    destruct (Nat.eqb_spec (nat_of_ascii y) (nat_of_ascii x)); [lia|discriminate].
  - destruct (Nat.eqb_spec (nat_of_ascii x) (nat_of_ascii y)) as [Exy|]; [|discriminate].
    intros H1. rewrite Exy. rewrite Nat.ltb_irrefl, Nat.eqb_refl. intros H2.
    f_equal; [|now apply IH].
    rewrite <- (ascii_nat_embedding x), <- (ascii_nat_embedding y). now rewrite Exy.
Qed.

(* two lists with distinct keys that are permutations of each other have the same sorting *)
Lemma with_key_distinct {V} (l : list (string * V)) k :
  NoDup (map fst l) ->
  with_key fst str_leb k l = match find (fun kv => String.eqb (fst kv) k) l with Some kv => [kv] | None => [] end.
Proof.
  unfold with_key.
  induction l as [|[k0 v0] l IH]; [reflexivity|]. intros ND. inversion ND as [|? ? Hn ND']; subst.
  cbn [filter find fst]. unfold keqb at 1. cbn [fst].
  destruct (String.eqb_spec k0 k) as [->|Hne].
  - assert (str_leb k k = true) as Hr by (destruct (str_leb_total k k); assumption). rewrite Hr. cbn [andb].
    f_equal. rewrite IH by assumption.
    destruct (find (fun kv => String.eqb (fst kv) k) l) as [kv|] eqn:F; [|reflexivity].
    apply find_some in F. destruct F as [I Hk]. apply String.eqb_eq in Hk. exfalso. apply Hn. subst k.
    now apply in_map.
  - destruct (str_leb k0 k && str_leb k k0) eqn:B; [|now apply IH].
    apply andb_prop in B. destruct B as [B1 B2]. exfalso. apply Hne. now apply str_leb_antisym.
Qed.

Lemma find_key_perm {V} (l l' : list (string * V)) k : Permutation l l' -> NoDup (map fst l) ->
  find (fun kv => String.eqb (fst kv) k) l = find (fun kv => String.eqb (fst kv) k) l'.
Proof.
  intros P ND.
  assert (ND' : NoDup (map fst l')) by (eapply Permutation_NoDup; [apply Permutation_map; exact P|exact ND]).
  assert (F : forall (m : list (string * V)) kv, NoDup (map fst m) ->
              (find (fun kv => String.eqb (fst kv) k) m = Some kv <-> In kv m /\ fst kv = k)).
  { induction m as [|[k0 v0] m IH]; cbn; intros kv N.
    - split; [discriminate|intros [[] _]].
    - inversion N as [|? ? Hn N']; subst. destruct (String.eqb_spec k0 k) as [->|Hne].
      + split.
        * intros H; inversion H; subst. auto.
        * intros [[<-|I] Hk]; [reflexivity|]. exfalso. apply Hn. rewrite <- Hk. now apply in_map.
      + rewrite IH by assumption. split.
        * intros [I Hk]. auto.
        * intros [[<-|I] Hk]; [cbn in Hk; congruence|auto]. }
  destruct (find (fun kv => String.eqb (fst kv) k) l) as [kv|] eqn:F1.
  - symmetry. apply F; [assumption|]. apply F in F1; [|assumption]. destruct F1 as [I Hk]. split; [|assumption].
    eapply Permutation_in; eauto.
  - destruct (find (fun kv => String.eqb (fst kv) k) l') as [kv|] eqn:F2; [|reflexivity].
    apply F in F2; [|assumption]. destruct F2 as [I Hk].
    assert (find (fun kv => String.eqb (fst kv) k) l = Some kv) as C.
    { apply F; [assumption|]. split; [|assumption]. eapply Permutation_in; [apply Permutation_sym; exact P|exact I]. }
    congruence.
Qed.

Lemma sort_kv_perm {V} (l l' : list (string * V)) : Permutation l l' -> NoDup (map fst l) -> sort_kv l = sort_kv l'.
Proof.
  intros P ND. rewrite !sort_kv_ssort. apply (ssort_unique fst str_leb str_leb_total).
  { intros a b c. apply str_leb_trans. }
  intros k. rewrite !with_key_distinct; auto.
  - now rewrite (find_key_perm l l' k P ND).
  - eapply Permutation_NoDup; [apply Permutation_map; exact P|exact ND].
Qed.

Lemma sort_kv_is_perm {V} (l : list (string * V)) : Permutation l (sort_kv l).
Proof. rewrite sort_kv_ssort. apply ssort_perm. Qed.

(* ---- json_keys_recase ----------------------------------------------------------------- *)
Section JSONRecase.
Variable mg : ty -> ty -> ty.
Notation T := (type_of_json_gen mg).

Definition json_elem_step (acc : option ty) (e : jval) : option ty :=
  Some (match acc with None => T e | Some t => mg t (T e) end).
Definition lowkey (kt : string * ty) : string * ty := (lower (fst kt), snd kt).

Lemma toj_arr es : T (JArr es) =
  TArr (match fold_left json_elem_step es None with Some t => t | None => TAny end) false.
Proof.
  reflexivity.
Qed.

Lemma toj_obj ps : T (JObj ps) =
  TObj (sort_kv (fold_left (json_put mg) (sort_kv (map (fun kv : string * jval => (fst kv, T (snd kv))) ps)) [])) None.
Proof.
  reflexivity.
Qed.

Lemma upsert_absent {V} k (v : V) m : lookup k m = None -> upsert k v m = m ++ [(k, v)].
Proof.
  induction m as [|[k0 v0] m IH]; cbn; [reflexivity|].
  destruct (String.eqb k k0); [discriminate|]. intros H. now rewrite IH.
Qed.

Lemma lookup_app_none {V} k (m m' : list (string * V)) : lookup k (m ++ m') = None <-> lookup k m = None /\ lookup k m' = None.
Proof.
  induction m as [|[k0 v0] m IH]; cbn; [tauto|].
  destruct (String.eqb k k0); [|exact IH]. split; [discriminate|intros [H _]; discriminate].
Qed.

(* no two keys differ in case only: the loop just lower-cases the keys *)
Lemma json_put_fold_distinct L : forall acc,
  NoDup (map (fun kt : string * ty => lower (fst kt)) L) ->
  (forall kt, In kt L -> lookup (lower (fst kt)) acc = None) ->
  fold_left (json_put mg) L acc = acc ++ map lowkey L.
Proof.
  induction L as [|kt L IH]; intros acc ND Hacc; cbn [fold_left map]; [now rewrite app_nil_r|].
  inversion ND as [|? ? Hn ND']; subst.
  unfold json_put at 2. rewrite (Hacc kt (or_introl eq_refl)). rewrite upsert_absent by (apply Hacc; now left).
  rewrite IH; [now rewrite <- app_assoc| assumption |].
  intros kt' I. apply lookup_app_none. split; [apply Hacc; now right|].
  cbn. destruct (String.eqb_spec (lower (fst kt')) (lower (fst kt))) as [Heq|]; [|reflexivity].
  exfalso. apply Hn. rewrite <- Heq. now apply (in_map (fun kt : string * ty => lower (fst kt))).
Qed.

Lemma toj_obj_distinct ps : NoDup (map (fun kv : string * jval => lower (fst kv)) ps) ->
  T (JObj ps) = TObj (sort_kv (map (fun kv : string * jval => (lower (fst kv), T (snd kv))) ps)) None.
Proof.
  intros ND. rewrite toj_obj. f_equal.
  set (tys := map (fun kv : string * jval => (fst kv, T (snd kv))) ps).
  assert (NDt : NoDup (map (fun kt : string * ty => lower (fst kt)) tys)).
  { unfold tys. rewrite map_map. exact ND. }
  assert (NDs : NoDup (map (fun kt : string * ty => lower (fst kt)) (sort_kv tys))).
  { eapply Permutation_NoDup; [apply Permutation_map; apply sort_kv_is_perm|exact NDt]. }
  rewrite json_put_fold_distinct; [|exact NDs|reflexivity]. cbn [app].
  replace (map (fun kv : string * jval => (lower (fst kv), T (snd kv))) ps) with (map lowkey tys)
    by (unfold tys; rewrite map_map; reflexivity).
  apply sort_kv_perm.
  - apply Permutation_map. apply Permutation_sym. apply sort_kv_is_perm.
  - rewrite map_map. exact NDs.
Qed.

(* typeOfJSONValue of a JSON value and of the same value with re-cased keys are equal *)
Lemma json_keys_recase_gen v : forall v', jrecase v v' -> jkeys_fold_distinct v -> T v = T v'.
Proof.
  induction v as [| | | |es IH|ps IH] using jval_ind'; intros v' R D; inversion R; subst; try reflexivity.
  - (* arrays *)
    rewrite !toj_arr. do 2 f_equal.
    match goal with H : Forall2 jrecase es _ |- _ => rename H into F2 end.
    generalize (@None ty). cbn in D. clear R. revert es' F2 D.
    induction IH as [|e es He _ IHes]; intros es' F2 D acc; inversion F2; subst; [reflexivity|].
    destruct D as [De Des]. cbn [fold_left]. unfold json_elem_step at 2 4. rewrite (He _ ltac:(eassumption) De).
    now apply IHes.
  - (* objects *)
    match goal with H : Forall2 _ ps _ |- _ => rename H into F2 end.
    destruct D as [ND D].
    assert (ND' : NoDup (map (fun kv : string * jval => lower (fst kv)) ps')).
    { replace (map (fun kv : string * jval => lower (fst kv)) ps') with (map (fun kv : string * jval => lower (fst kv)) ps); [exact ND|].
      clear -F2. induction F2 as [|kv kv' l l' [Hk _] _ IHl]; cbn; [reflexivity|]. now rewrite Hk, IHl. }
    rewrite !toj_obj_distinct by assumption. do 2 f_equal.
    clear ND ND' R. revert ps' F2 D.
    induction IH as [|kv ps Hkv _ IHps]; intros ps' F2 D; inversion F2; subst; [reflexivity|].
    destruct D as [Dkv Dps]. match goal with H : _ /\ _ |- _ => destruct H as [Hk Hv] end.
    cbn [map]. rewrite Hk, (Hkv _ Hv Dkv). f_equal. now apply IHps.
Qed.
End JSONRecase.

Theorem json_keys_recase v v' : jrecase v v' -> jkeys_fold_distinct v -> type_of_json v = type_of_json v'.
Proof. apply json_keys_recase_gen. Qed.

(* ---- defect #9: the keys of a JSON object kept their case -------------------------------- *)
Theorem json_keys_old_refuted : exists v v',
  jrecase v v' /\ jkeys_fold_distinct v /\ type_of_json_old v <> type_of_json_old v' /\
  (* seen from an expression: `.foo` on fromJSON('{"Foo": 1}') was reported, and is accepted now *)
  let e := EDeref (ECall P0 "fromJSON" [EStr P0 "{""Foo"": 1}"]) "foo" in
  snd (chk merge true env0 None e) = [] /\
  (* the same checker with the unrepaired typeOfJSONValue in the place of the repaired one *)
  deref_node env0 (ECall P0 "fromJSON" [EStr P0 "{""Foo"": 1}"]) "foo" (type_of_json_old (JObj [("Foo", JNum)])) =
    (TAny, [mkdiag P0 (DPropUndef (TObj [("Foo", TNum)] None))]).
Proof.
  exists (JObj [("Foo", JNum)]), (JObj [("foo", JNum)]).
  split; [constructor; constructor; [split; [reflexivity|constructor]|constructor]|].
  split; [cbn; split; [constructor; [intros []|constructor]|auto]|].
  split; [cbn; discriminate|]. split; reflexivity.
Qed.

(* keys that differ in case only: their types are merged, in the order of the sorted keys *)
Example json_keys_collide :
  type_of_json (JObj [("foo", JStr); ("Foo", JNum); ("b", JBool)]) = TObj [("b", TBool); ("foo", TStr)] None /\
  type_of_json (JObj [("Foo", JObj [("x", JNum)]); ("foo", JNum)]) = TObj [("foo", TAny)] None.
Proof. split; reflexivity. Qed.

(* ---- the untrusted-input checker hooked into check (C11) in the vocabulary of this file --- *)
Theorem untrusted_recase_rel roots funcs e e' : recase_rel e e' ->
  Untrusted.reported true roots (Untrusted.events funcs (parser_fold e)) =
  Untrusted.reported true roots (Untrusted.events funcs (parser_fold e')).
Proof.
  intros R. rewrite !parser_fold_pnorm. apply UntrustedProofs.untrusted_recase. now apply recase_rel_untrusted.
Qed.
