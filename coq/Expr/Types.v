(* Expr/Types.v — model of expr_type.go: the expression type system.

   ExprType implementations: AnyType, NullType, NumberType, BoolType,
   StringType, *ObjectType{Props, Mapped}, *ArrayType{Elem, Deref}.
   ObjectType.Props is a Go map: an association list (Base/AList.v);
   ObjectType.Mapped: nil = strict (closed) object, AnyType = loose (open)
   object, other = map object of that element type.

   Types are immutable values here.  The Go code shares and mutates
   *ArrayType values (checkArrayDeref sets Deref in place — defect #10, which
   belongs to property C09); DeepCopy is therefore the identity in this model.

   [merge] models the code after the repair `fix: merging array types with
   unknown elements lost the object filtering flag` (repo_patches/sema/02-…);
   [merge_old] is the code before it, kept for the `_refuted` lemmas. *)
From AL Require Export Base.AList.

Inductive ty : Type :=
| TAny | TNull | TNum | TBool | TStr
| TObj (props : list (string * ty)) (mapped : option ty)
| TArr (elem : ty) (deref : bool).

(* FuncSignature (expr_sema.go) lives here so that Gen/GenFuncs.v only needs this file *)
Record fsig := FSig { fs_name : string; fs_ret : ty; fs_params : list ty; fs_varlen : bool }.

(* ---- induction principle reaching into props and mapped ------------------ *)
Definition opt_all (P : ty -> Prop) (m : option ty) : Prop :=
  match m with Some t => P t | None => True end.

Section TyInd.
Variable P : ty -> Prop.
Hypothesis Hany : P TAny.
Hypothesis Hnull : P TNull.
Hypothesis Hnum : P TNum.
Hypothesis Hbool : P TBool.
Hypothesis Hstr : P TStr.
Hypothesis Hobj : forall ps m, Forall (fun kv => P (snd kv)) ps -> opt_all P m -> P (TObj ps m).
Hypothesis Harr : forall e d, P e -> P (TArr e d).

Fixpoint ty_ind' (t : ty) : P t :=
  match t with
  | TAny => Hany | TNull => Hnull | TNum => Hnum | TBool => Hbool | TStr => Hstr
  | TObj ps m =>
      Hobj ps m
        ((fix go (l : list (string * ty)) : Forall (fun kv => P (snd kv)) l :=
            match l with
            | [] => Forall_nil _
            | kv :: l' => Forall_cons kv (ty_ind' (snd kv)) (go l')
            end) ps)
        (match m return opt_all P m with Some t' => ty_ind' t' | None => I end)
  | TArr e d => Harr e d (ty_ind' e)
  end.
End TyInd.

(* ---- small predicates ---------------------------------------------------- *)
Definition is_any (t : ty) : bool := match t with TAny => true | _ => false end.
Definition is_obj (t : ty) : bool := match t with TObj _ _ => true | _ => false end.
Definition is_nil {A} (l : list A) : bool := match l with [] => true | _ => false end.
(* ObjectType.IsStrict / IsLoose on the Mapped field *)
Definition is_strict (m : option ty) : bool := match m with None => true | _ => false end.
Definition is_loose (m : option ty) : bool := match m with Some TAny => true | _ => false end.

(* ---- Assignable: p.Assignable(a) ----------------------------------------- *)
Fixpoint assignable (p a : ty) {struct p} : bool :=
  match p with
  | TAny => true
  | TNull => match a with TNull | TAny => true | _ => false end
  | TNum => match a with TNum | TAny => true | _ => false end
  | TBool => true
  | TStr => match a with TStr | TNum | TAny => true | _ => false end
  | TObj ps m =>
      match a with
      | TAny => true
      | TObj qs n =>
          match m with
          | Some mt =>
              match n with
              | Some nt => assignable mt nt
              | None => forallb (fun kv : string * ty => assignable mt (snd kv)) qs
              end
          | None =>
              match n with
              | Some nt =>
                  (fix all (l : list (string * ty)) : bool :=
                     match l with
                     | [] => true
                     | kv :: l' => assignable (snd kv) nt && all l'
                     end) ps
              | None =>
                  forallb (fun kr : string * ty =>
                             (fix find (l : list (string * ty)) : bool :=
                                match l with
                                | [] => false
                                | kv :: l' => if String.eqb (fst kr) (fst kv) then assignable (snd kv) (snd kr) else find l'
                                end) ps) qs
              end
          end
      | _ => false
      end
  | TArr e _ =>
      match a with
      | TAny => true
      | TArr f _ => assignable e f
      | _ => false
      end
  end.

(* EqualTypes *)
Definition equal_types (l r : ty) : bool := assignable l r && assignable r l.

(* ---- Merge: a.Merge(b).  Every recursive call of the Go code has a strict
   component of [other] as its argument, so the model recurses on [b].
   Object case: the Go code looks a key of other.Props up in the map under
   construction; the keys of a Go map are distinct, so this is the same as
   looking it up in the receiver's Props, which is what the model does. ----- *)
Section Merge.
(* the result of merging two arrays of which at least one has element type any *)
Variable arr_any : ty -> ty -> ty.

Fixpoint merge_gen (a b : ty) {struct b} : ty :=
  match a with
  | TAny => TAny
  | TNull => match b with TNull => TNull | _ => TAny end
  | TNum => match b with TNum => TNum | TStr => TStr | _ => TAny end
  | TBool => match b with TBool => TBool | TStr => TStr | _ => TAny end
  | TStr => match b with TStr | TNum | TBool => TStr | _ => TAny end
  | TObj ps m =>
      match b with
      | TObj qs n =>
          if is_nil ps && is_loose n then b
          else if is_nil qs && is_loose m then a
          else
            let mapped0 :=
              match m with
              | None => n
              | Some mt => match n with None => Some mt | Some nt => Some (merge_gen mt nt) end
              end in
            let acc :=
              (fix go (l : list (string * ty)) (acc : list (string * ty) * option ty) {struct l} :=
                 match l with
                 | [] => acc
                 | kr :: l' =>
                     go l' (match lookup (fst kr) ps with
                            | Some l0 => (upsert (fst kr) (merge_gen l0 (snd kr)) (fst acc), snd acc)
                            | None => (fst acc ++ [(fst kr, snd kr)],
                                       match snd acc with Some x => Some (merge_gen x (snd kr)) | None => None end)
                            end)
                 end) qs (ps, mapped0) in
            TObj (fst acc) (snd acc)
      | _ => TAny
      end
  | TArr e d =>
      match b with
      | TArr f d2 =>
          if is_any e || is_any f then arr_any a b
          else TArr (merge_gen e f) false
      | _ => TAny
      end
  end.
End Merge.

(* repaired code: array<any> built from both operands *)
Definition arr_any_new (a b : ty) : ty :=
  match a, b with
  | TArr _ d, TArr _ d2 => TArr TAny (d || d2)
  | _, _ => TAny
  end.
(* code before the repair: the receiver if its element type is any, else the argument *)
Definition arr_any_old (a b : ty) : ty :=
  match a with
  | TArr TAny _ => a
  | _ => b
  end.

Definition merge : ty -> ty -> ty := merge_gen arr_any_new.
Definition merge_old : ty -> ty -> ty := merge_gen arr_any_old.

(* ---- typeOfJSONValue: the decoded JSON value is an oracle input ----------- *)
Inductive jval : Type :=
| JNull | JBool | JNum | JStr
| JArr (es : list jval)
| JObj (ps : list (string * jval)).

(* behaviour of json.Unmarshal on a literal: value, *json.SyntaxError, other error *)
Inductive jres := JOk (v : jval) | JSyntaxErr | JOtherErr.

(* byte-wise string order (Go's < on strings, sort.Strings) and insertion sort of an
   association list by key; also used by [canon] below *)
Fixpoint str_leb (a b : string) : bool :=
  match a, b with
  | EmptyString, _ => true
  | String _ _, EmptyString => false
  | String x a', String y b' =>
      let nx := nat_of_ascii x in let ny := nat_of_ascii y in
      if nx <? ny then true else if nx =? ny then str_leb a' b' else false
  end.

Fixpoint insert_kv {V} (kv : string * V) (l : list (string * V)) : list (string * V) :=
  match l with
  | [] => [kv]
  | x :: l' => if str_leb (fst kv) (fst x) then kv :: l else x :: insert_kv kv l'
  end.
Definition sort_kv {V} (l : list (string * V)) : list (string * V) := fold_right insert_kv [] l.

Section JSON.
Variable mg : ty -> ty -> ty.

(* one round of the loop over the sorted keys of a JSON object (repaired code):
     id := strings.ToLower(k); if p, ok := props[id]; ok { t = p.Merge(t) }; props[id] = t *)
Definition json_put (acc : list (string * ty)) (kt : string * ty) : list (string * ty) :=
  let id := lower (fst kt) in
  upsert id (match lookup id acc with Some p => mg p (snd kt) | None => snd kt end) acc.

(* [fold_keys]: true = the repaired code (keys visited in sorted order, lower-cased, types of
   keys that differ only in case merged); false = the code before the repair (keys kept as
   written: repo_patches/case/02-fix-fromjson-keys-case.patch).
   The resulting Props is a Go map and has no order: the model lists it in key order (the outer
   [sort_kv]), so that the result is literally the same for two spellings of the keys. *)
Variable fold_keys : bool.

Fixpoint type_of_json_gen2 (v : jval) : ty :=
  match v with
  | JNull => TNull | JBool => TBool | JNum => TNum | JStr => TStr
  | JArr es =>
      TArr (match (fix go (l : list jval) (acc : option ty) {struct l} : option ty :=
                     match l with
                     | [] => acc
                     | e :: l' => go l' (Some (match acc with
                                               | None => type_of_json_gen2 e
                                               | Some t => mg t (type_of_json_gen2 e)
                                               end))
                     end) es None with
            | Some t => t
            | None => TAny
            end) false
  | JObj ps =>
      let tys := (fix go (l : list (string * jval)) : list (string * ty) :=
                    match l with
                    | [] => []
                    | kv :: l' => (fst kv, type_of_json_gen2 (snd kv)) :: go l'
                    end) ps in
      TObj (if fold_keys then sort_kv (fold_left json_put (sort_kv tys) []) else tys) None
  end.
End JSON.
(* typeOfJSONValue as it is now, and before the repair *)
Definition type_of_json_gen (mg : ty -> ty -> ty) : jval -> ty := type_of_json_gen2 mg true.
Definition type_of_json_old_gen (mg : ty -> ty -> ty) : jval -> ty := type_of_json_gen2 mg false.
Definition type_of_json := type_of_json_gen merge.
Definition type_of_json_old := type_of_json_old_gen merge.

(* ---- the `looser` relation of property C06 -------------------------------
   t ⊑ any; scalars ⊑ themselves; objects: same keys in the same order with
   pointwise looser members, and Mapped: closed ⊑ closed, closed ⊑ open,
   element type ⊑ looser element type; arrays: looser element type, and the
   Deref flag may only be gained (it only ever permits more). *)
Definition olooser_with (R : ty -> ty -> Prop) (m n : option ty) : Prop :=
  match m, n with
  | None, None => True
  | None, Some x => x = TAny
  | Some x, Some y => R x y
  | Some _, None => False
  end.

Fixpoint looser (a b : ty) {struct a} : Prop :=
  match b with
  | TAny => True
  | _ =>
    match a, b with
    | TNull, TNull | TNum, TNum | TBool, TBool | TStr, TStr => True
    | TObj ps m, TObj qs n =>
        (fix go (ps qs : list (string * ty)) {struct ps} : Prop :=
           match ps, qs with
           | [], [] => True
           | p :: ps', q :: qs' => fst p = fst q /\ looser (snd p) (snd q) /\ go ps' qs'
           | _, _ => False
           end) ps qs
        /\ match m, n with
           | None, None => True
           | None, Some x => x = TAny
           | Some x, Some y => looser x y
           | Some _, None => False
           end
    | TArr e d, TArr f d' => looser e f /\ (d = true -> d' = true)
    | _, _ => False
    end
  end.

Definition prop_looser (p q : string * ty) : Prop := fst p = fst q /\ looser (snd p) (snd q).
Definition props_looser : list (string * ty) -> list (string * ty) -> Prop := Forall2 prop_looser.
Definition olooser : option ty -> option ty -> Prop := olooser_with looser.

Definition sig_looser (s s' : fsig) : Prop :=
  fs_name s = fs_name s' /\ looser (fs_ret s) (fs_ret s') /\
  fs_params s = fs_params s' /\ fs_varlen s = fs_varlen s'.

(* ---- canonical form and decidable equality (for the correspondence check) -- *)
Fixpoint canon (t : ty) : ty :=
  match t with
  | TObj ps m =>
      TObj (sort_kv ((fix go (l : list (string * ty)) : list (string * ty) :=
                        match l with [] => [] | kv :: l' => (fst kv, canon (snd kv)) :: go l' end) ps))
           (match m with Some x => Some (canon x) | None => None end)
  | TArr e d => TArr (canon e) d
  | _ => t
  end.

Fixpoint ty_eqb (a b : ty) {struct a} : bool :=
  match a, b with
  | TAny, TAny | TNull, TNull | TNum, TNum | TBool, TBool | TStr, TStr => true
  | TObj ps m, TObj qs n =>
      (fix go (ps qs : list (string * ty)) {struct ps} : bool :=
         match ps, qs with
         | [], [] => true
         | p :: ps', q :: qs' => String.eqb (fst p) (fst q) && ty_eqb (snd p) (snd q) && go ps' qs'
         | _, _ => false
         end) ps qs
      && match m, n with
         | None, None => true
         | Some x, Some y => ty_eqb x y
         | _, _ => false
         end
  | TArr e d, TArr f d' => ty_eqb e f && Bool.eqb d d'
  | _, _ => false
  end.
