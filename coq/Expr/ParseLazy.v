(* Expr/ParseLazy.v — ExprParser as the code has it: a parser that holds one
   token of look-ahead (p.cur) and pulls the next token from the lexer each
   time it consumes one (p.next()), with ExprParser.Err() letting the lexer's
   first error win and Parse() counting the remaining tokens.

   Theorem parse_lazy_eq: this lazily lexing parser computes exactly
   ParseSrc.parse_src (lex everything up to `}}`/first error, parse the list,
   decide which diagnostic wins), so all theorems about parse_src are theorems
   about the faithful model. *)
From AL Require Import Expr.ParseSrc Expr.Grammar Expr.ParserProofs Expr.LexerSpec Expr.LexerProofs.
From Coq Require Import Lia.

Section Lazy.
Variable plus : bool.
Variable int_lit : string -> option Z.
Variable float_ok : string -> bool.

(* the parser's state: p.cur (None = an End token, sitting at z_end), the
   lexer behind it, lexer.lexErr *)
Record zst := mkZ { z_cur : option token; z_end : tpos; z_lex : lstate; z_lerr : option lexerr }.

(* p.cur = p.lexer.Next()  (lex.error keeps the first error) *)
Definition z_pull (lx : lstate) (lerr : option lexerr) : zst :=
  match lex_next plus lx with
  | (LTok t, lx') => mkZ (Some t) pos0 lx' lerr
  | (LEnd p, lx') => mkZ None p lx' lerr
  | (LErr e p, lx') => mkZ None p lx' (match lerr with None => Some e | Some _ => lerr end)
  end.

Definition z_next (z : zst) : zst := z_pull (z_lex z) (z_lerr z).

Inductive zres (A : Type) :=
| ZOk (a : A) (z : zst)
| ZErr (d : perr) (z : zst)     (* p.err set, nil returned *)
| ZFuel
| ZPanic.
Arguments ZOk {A}. Arguments ZErr {A}. Arguments ZFuel {A}. Arguments ZPanic {A}.

Definition zbind {A B} (r : zres A) (f : A -> zst -> zres B) : zres B :=
  match r with
  | ZOk a z => f a z
  | ZErr d z => ZErr d z
  | ZFuel => ZFuel
  | ZPanic => ZPanic
  end.

Definition zerr {A} (c : perr_class) (z : zst) : zres A := ZErr (mkPErr c (z_cur z)) z.

Definition zkind (z : zst) : option tkind := option_map tk_kind (z_cur z).

Fixpoint zp_or (n : nat) (z : zst) {struct n} : zres expr :=
  match n with
  | 0 => ZFuel
  | S n =>
      zbind (zp_and n z) (fun l z1 =>
        match zkind z1 with
        | Some TOr => zbind (zp_or n (z_next z1)) (fun r z2 => ZOk (ELog LOr l r) z2)
        | _ => ZOk l z1
        end)
  end

with zp_and (n : nat) (z : zst) {struct n} : zres expr :=
  match n with
  | 0 => ZFuel
  | S n =>
      zbind (zp_cmp n z) (fun l z1 =>
        match zkind z1 with
        | Some TAnd => zbind (zp_and n (z_next z1)) (fun r z2 => ZOk (ELog LAnd l r) z2)
        | _ => ZOk l z1
        end)
  end

with zp_cmp (n : nat) (z : zst) {struct n} : zres expr :=
  match n with
  | 0 => ZFuel
  | S n =>
      zbind (zp_pre n z) (fun l z1 =>
        match option_map cmp_of_kind (zkind z1) with
        | Some (Some op) => zbind (zp_cmp n (z_next z1)) (fun r z2 => ZOk (ECmp op l r) z2)
        | _ => ZOk l z1
        end)
  end

with zp_pre (n : nat) (z : zst) {struct n} : zres expr :=
  match n with
  | 0 => ZFuel
  | S n =>
      match z_cur z with
      | Some t =>
          match tk_kind t with
          | TNot => zbind (zp_pre n (z_next z)) (fun o z1 => ZOk (ENot (tk_pos t) o) z1)
          | _ => zp_post n z
          end
      | None => zp_post n z
      end
  end

with zp_post (n : nat) (z : zst) {struct n} : zres expr :=
  match n with
  | 0 => ZFuel
  | S n => zbind (zp_prim n z) (fun e z1 => zp_postloop n e z1)
  end

with zp_postloop (n : nat) (ret : expr) (z : zst) {struct n} : zres expr :=
  match n with
  | 0 => ZFuel
  | S n =>
      match zkind z with
      | Some TDot =>
          let z1 := z_next z in
          match z_cur z1 with
          | Some t2 =>
              match tk_kind t2 with
              | TStar => zp_postloop n (EArrDeref ret) (z_next z1)
              | TIdent => zp_postloop n (EDeref ret (lower (tk_val t2))) (z_next z1)
              | _ => zerr (PEUnexpected 4) z1
              end
          | None => zerr (PEUnexpected 4) z1
          end
      | Some TLBracket =>
          zbind (zp_or n (z_next z)) (fun idx z1 =>
            match zkind z1 with
            | Some TRBracket => zp_postloop n (EIndex ret idx) (z_next z1)
            | _ => zerr (PEUnexpected 5) z1
            end)
      | _ => ZOk ret z
      end
  end

with zp_prim (n : nat) (z : zst) {struct n} : zres expr :=
  match n with
  | 0 => ZFuel
  | S n =>
      match z_cur z with
      | Some t =>
          match tk_kind t with
          | TIdent =>
              let z1 := z_next z in
              match zkind z1 with
              | Some TLParen =>
                  let z2 := z_next z1 in
                  match zkind z2 with
                  | Some TRParen => ZOk (ECall (tk_pos t) (tk_val t) []) (z_next z2)
                  | _ => zbind (zp_args n z2) (fun args z3 => ZOk (ECall (tk_pos t) (tk_val t) args) z3)
                  end
              | _ => ZOk (ident_node t) z1
              end
          | TLParen =>
              zbind (zp_or n (z_next z)) (fun e z1 =>
                match zkind z1 with
                | Some TRParen => ZOk e (z_next z1)
                | _ => zerr (PEUnexpected 3) z1
                end)
          | TInt =>
              match int_lit (tk_val t) with
              | Some v => ZOk (EInt (tk_pos t) v) (z_next z)
              | None => zerr PEBadInt z
              end
          | TFloat =>
              if float_ok (tk_val t) then ZOk (EFloat (tk_pos t) (tk_val t)) (z_next z)
              else zerr PEBadFloat z
          | TString =>
              match unquote (tk_val t) with
              | Some s => ZOk (EStr (tk_pos t) s) (z_next z)
              | None => ZPanic
              end
          | _ => zerr (PEUnexpected 1) z
          end
      | None => zerr (PEUnexpected 1) z
      end
  end

with zp_args (n : nat) (z : zst) {struct n} : zres (list expr) :=
  match n with
  | 0 => ZFuel
  | S n =>
      zbind (zp_or n z) (fun a z1 =>
        match zkind z1 with
        | Some TComma => zbind (zp_args n (z_next z1)) (fun more z2 => ZOk (a :: more) z2)
        | Some TRParen => ZOk [a] (z_next z1)
        | _ => zerr (PEUnexpected 2) z1
        end)
  end.

(* the loop of Parse that counts the tokens left before End; lexical errors
   met here are not reported *)
Fixpoint z_count (fuel : nat) (lx : lstate) : nat :=
  match fuel with
  | 0 => 0
  | S fuel =>
      match lex_next plus lx with
      | (LTok _, lx') => S (z_count fuel lx')
      | _ => 0
      end
  end.

(* ExprParser.Parse *)
Definition parse_lazy (src : string) : outcome :=
  let z0 := z_pull (mkLS src pos0) None in
  (* fuel is a device of the model, not of the code: the amount parse_toks uses *)
  let n := parse_fuel (fst (lex_all plus src)) in
  match zp_or n z0 with
  | ZOk e z =>
      match z_lerr z with
      | Some le => OLexErr le
      | None =>
          match z_cur z with
          | None => OAccept e
          | Some t => OParseErr (PERemaining (S (z_count (S (String.length (ls_rest (z_lex z)))) (z_lex z)))) (tk_pos t)
          end
      end
  | ZErr d z =>
      match z_lerr z with
      | Some le => OLexErr le
      | None => OParseErr (pe_class d) (match pe_at d with Some t => tk_pos t | None => z_end z end)
      end
  | ZFuel => OFuel
  | ZPanic => OPanic
  end.

(* ------------------------------------------------------------ the lexer, one token at a time *)
Lemma lex_next_tok_shorter lx t lx' :
  lex_next plus lx = (LTok t, lx') -> String.length (ls_rest lx') < String.length (ls_rest lx).
Proof.
  rewrite lex_next_unfold. destruct (span is_ws (ls_rest lx)) as [w s1] eqn:S.
  apply span_sound in S. destruct S as (ER & _ & _). cbn zeta.
  destruct (scan_tok plus s1) as [k lxm rest|lxm rest|c consumed] eqn:T; intros H; inv H.
  apply scan_tok_sound in T. destruct T as (-> & L & _).
  destruct (lexeme_head _ _ _ _ L) as (c & r & -> & _).
  cbn [ls_rest]. rewrite ER, !slen_app. cbn. lia.
Qed.

Lemma lex_run_fuel_irrel f1 : forall f2 st,
  String.length (ls_rest st) < f1 -> String.length (ls_rest st) < f2 ->
  lex_run plus f1 st = lex_run plus f2 st.
Proof.
  induction f1 as [|f1 IH]; intros f2 st H1 H2; [lia|]. destruct f2 as [|f2]; [lia|].
  cbn [lex_run]. destruct (lex_next plus st) as [[t|p|e p] st'] eqn:N; try reflexivity.
  apply lex_next_tok_shorter in N. rewrite (IH f2 st') by lia. reflexivity.
Qed.

Lemma z_count_len fuel : forall lx, z_count fuel lx = length (fst (lex_run plus fuel lx)).
Proof.
  induction fuel as [|fuel IH]; intros lx; [reflexivity|]. cbn [z_count lex_run].
  destruct (lex_next plus lx) as [[t|p|e p] lx'] eqn:N; try reflexivity.
  rewrite IH. destruct (lex_run plus fuel lx'). reflexivity.
Qed.

(* the parser state [z] stands in front of the token list [ts] of a run that ends with [fin] *)
Definition zrel (z : zst) (ts : list token) (fin : lex_fin) : Prop :=
  match z_cur z with
  | Some t =>
      z_lerr z = None /\
      exists ts', ts = t :: ts' /\
                  lex_run plus (S (String.length (ls_rest (z_lex z)))) (z_lex z) = (ts', fin)
  | None =>
      ts = [] /\
      match fin with
      | FEnd p a => z_end z = p /\ z_lerr z = None
      | FErr e p => z_end z = p /\ z_lerr z = Some e
      | FFuel => False
      end
  end.

Lemma zrel_pull lx ts fin :
  lex_run plus (S (String.length (ls_rest lx))) lx = (ts, fin) -> fin <> FFuel ->
  zrel (z_pull lx None) ts fin.
Proof.
  intros H NF. cbn [lex_run] in H. unfold z_pull.
  destruct (lex_next plus lx) as [[t|p|e p] lx'] eqn:N.
  - destruct (lex_run plus (String.length (ls_rest lx)) lx') as [ts' f] eqn:R. inv H.
    unfold zrel. cbn [z_cur z_lerr z_lex z_end]. split; [reflexivity|]. exists ts'. split; [reflexivity|].
    rewrite <- R. apply lex_next_tok_shorter in N. apply lex_run_fuel_irrel; lia.
  - inv H. unfold zrel. cbn [z_cur z_lerr z_lex z_end]. auto.
  - inv H. unfold zrel. cbn [z_cur z_lerr z_lex z_end]. auto.
Qed.

Lemma zrel_fin z ts fin : zrel z ts fin -> fin <> FFuel.
Proof.
  unfold zrel. destruct (z_cur z).
  - intros (_ & ts' & _ & R). eapply lex_run_no_fuel; [|exact R]. lia.
  - intros (_ & H). destruct fin; try discriminate. contradiction.
Qed.

Lemma zrel_next z t ts' fin : zrel z (t :: ts') fin -> zrel (z_next z) ts' fin.
Proof.
  intros R. pose proof (zrel_fin _ _ _ R) as NF. revert R. unfold zrel at 1.
  destruct (z_cur z); [|intros (E & _); discriminate].
  intros (L & ts'' & E & R). inv E. unfold z_next. rewrite L. now apply zrel_pull.
Qed.

Lemma zrel_cur z ts fin : zrel z ts fin -> z_cur z = hd_error ts.
Proof.
  unfold zrel. destruct (z_cur z).
  - intros (_ & ts' & -> & _). reflexivity.
  - intros (-> & _). reflexivity.
Qed.

Lemma zrel_kind z ts fin : zrel z ts fin -> zkind z = option_map tk_kind (hd_error ts).
Proof. intros R. unfold zkind. now rewrite (zrel_cur _ _ _ R). Qed.

(* ------------------------------------------------------------ simulation *)
Definition sim {A} (r : res A) (zr : zres A) (fin : lex_fin) : Prop :=
  match r with
  | ROk a rest => exists z', zr = ZOk a z' /\ zrel z' rest fin
  | RErr d => exists z' rest', zr = ZErr d z' /\ zrel z' rest' fin /\ pe_at d = hd_error rest'
  | RFuel => zr = ZFuel
  | RPanic => zr = ZPanic
  end.

Lemma sim_bind {A B} (r : res A) zr fin (f : A -> list token -> res B) (g : A -> zst -> zres B) :
  sim r zr fin -> (forall a rest z', zrel z' rest fin -> sim (f a rest) (g a z') fin) ->
  sim (rbind r f) (zbind zr g) fin.
Proof.
  destruct r as [a rest|d| |]; cbn.
  - intros (z' & -> & R) H. cbn. now apply H.
  - intros (z' & rest' & -> & R & E) _. cbn. eauto.
  - intros -> _. reflexivity.
  - intros -> _. reflexivity.
Qed.

Lemma sim_err {A} c z rest fin : zrel z rest fin -> sim (@err_here A c rest) (zerr c z) fin.
Proof.
  intros R. cbn. exists z, rest. unfold zerr. rewrite (zrel_cur _ _ _ R). auto.
Qed.

Lemma sim_ok {A} (a : A) z rest fin : zrel z rest fin -> sim (ROk a rest) (ZOk a z) fin.
Proof. intros R. cbn. eauto. Qed.

Notation p_or := (p_or int_lit float_ok).
Notation p_and := (p_and int_lit float_ok).
Notation p_cmp := (p_cmp int_lit float_ok).
Notation p_pre := (p_pre int_lit float_ok).
Notation p_post := (p_post int_lit float_ok).
Notation p_postloop := (p_postloop int_lit float_ok).
Notation p_prim := (p_prim int_lit float_ok).
Notation p_args := (p_args int_lit float_ok).

Lemma sim_all n :
  (forall z ts fin, zrel z ts fin -> sim (p_or n ts) (zp_or n z) fin) /\
  (forall z ts fin, zrel z ts fin -> sim (p_and n ts) (zp_and n z) fin) /\
  (forall z ts fin, zrel z ts fin -> sim (p_cmp n ts) (zp_cmp n z) fin) /\
  (forall z ts fin, zrel z ts fin -> sim (p_pre n ts) (zp_pre n z) fin) /\
  (forall z ts fin, zrel z ts fin -> sim (p_post n ts) (zp_post n z) fin) /\
  (forall ret z ts fin, zrel z ts fin -> sim (p_postloop n ret ts) (zp_postloop n ret z) fin) /\
  (forall z ts fin, zrel z ts fin -> sim (p_prim n ts) (zp_prim n z) fin) /\
  (forall z ts fin, zrel z ts fin -> sim (p_args n ts) (zp_args n z) fin).
Proof.
  induction n as [|n IH].
  { repeat split; intros; reflexivity. }
  destruct IH as (IHor & IHand & IHcmp & IHpre & IHpost & IHloop & IHprim & IHargs).
  repeat split.
  - intros z ts fin R. rewrite p_or_S. cbn [zp_or]. apply sim_bind; [now apply IHand|].
    intros l rest z1 R1. rewrite (zrel_kind _ _ _ R1).
    destruct rest as [|t r]; cbn [hd_error option_map]; [now apply sim_ok|].
    destruct (tk_kind t) eqn:K; try (now apply sim_ok).
    apply sim_bind; [apply IHor; eapply zrel_next; eauto|]. intros; now apply sim_ok.
  - intros z ts fin R. rewrite p_and_S. cbn [zp_and]. apply sim_bind; [now apply IHcmp|].
    intros l rest z1 R1. rewrite (zrel_kind _ _ _ R1).
    destruct rest as [|t r]; cbn [hd_error option_map]; [now apply sim_ok|].
    destruct (tk_kind t) eqn:K; try (now apply sim_ok).
    apply sim_bind; [apply IHand; eapply zrel_next; eauto|]. intros; now apply sim_ok.
  - intros z ts fin R. rewrite p_cmp_S. cbn [zp_cmp]. apply sim_bind; [now apply IHpre|].
    intros l rest z1 R1. rewrite (zrel_kind _ _ _ R1).
    destruct rest as [|t r]; cbn [hd_error option_map]; [now apply sim_ok|].
    destruct (cmp_of_kind (tk_kind t)) eqn:K; [|now apply sim_ok].
    apply sim_bind; [apply IHcmp; eapply zrel_next; eauto|]. intros; now apply sim_ok.
  - intros z ts fin R. rewrite p_pre_S. cbn [zp_pre]. rewrite (zrel_cur _ _ _ R).
    destruct ts as [|t r]; cbn [hd_error]; [now apply IHpost|].
    destruct (tk_kind t) eqn:K; try (now apply IHpost).
    apply sim_bind; [apply IHpre; eapply zrel_next; eauto|]. intros; now apply sim_ok.
  - intros z ts fin R. rewrite p_post_S. cbn [zp_post]. apply sim_bind; [now apply IHprim|].
    intros e rest z1 R1. now apply IHloop.
  - intros ret z ts fin R. rewrite p_postloop_S. cbn [zp_postloop]. rewrite (zrel_kind _ _ _ R).
    destruct ts as [|t r]; cbn [hd_error option_map]; [now apply sim_ok|].
    destruct (tk_kind t) eqn:K; try (now apply sim_ok).
    + (* [ *)
      apply sim_bind; [apply IHor; eapply zrel_next; eauto|].
      intros idx r1 z1 R1. rewrite (zrel_kind _ _ _ R1).
      destruct r1 as [|t2 r2]; cbn [hd_error option_map]; [now apply sim_err|].
      destruct (tk_kind t2) eqn:K2; try (now apply sim_err).
      apply IHloop. eapply zrel_next; eauto.
    + (* . *)
      pose proof (zrel_next _ _ _ _ R) as R1. cbn zeta. rewrite (zrel_cur _ _ _ R1).
      destruct r as [|t2 r2]; cbn [hd_error]; [now apply sim_err|].
      destruct (tk_kind t2) eqn:K2; try (now apply sim_err).
      * apply IHloop. eapply zrel_next; eauto.
      * apply IHloop. eapply zrel_next; eauto.
  - intros z ts fin R. rewrite p_prim_S. cbn [zp_prim]. rewrite (zrel_cur _ _ _ R).
    destruct ts as [|t r]; cbn [hd_error]; [now apply sim_err|].
    destruct (tk_kind t) eqn:K; try (now apply sim_err).
    + (* ident *)
      pose proof (zrel_next _ _ _ _ R) as R1. cbn zeta. rewrite (zrel_kind _ _ _ R1).
      destruct r as [|lp r1]; cbn [hd_error option_map]; [now apply sim_ok|].
      destruct (tk_kind lp) eqn:KL; try (now apply sim_ok).
      pose proof (zrel_next _ _ _ _ R1) as R2. rewrite (zrel_kind _ _ _ R2).
      assert (HA : sim (rbind (p_args n r1) (fun args rest3 => ROk (ECall (tk_pos t) (tk_val t) args) rest3))
                       (zbind (zp_args n (z_next (z_next z))) (fun args z3 => ZOk (ECall (tk_pos t) (tk_val t) args) z3)) fin).
      { apply sim_bind; [now apply IHargs|]. intros; now apply sim_ok. }
      destruct r1 as [|rp r2]; cbn [hd_error option_map]; [exact HA|].
      destruct (tk_kind rp) eqn:KR; try exact HA.
      apply sim_ok. eapply zrel_next; eauto.
    + (* string *)
      destruct (unquote (tk_val t)); [|reflexivity]. apply sim_ok. eapply zrel_next; eauto.
    + (* int *)
      destruct (int_lit (tk_val t)); [|now apply sim_err]. apply sim_ok. eapply zrel_next; eauto.
    + (* float *)
      destruct (float_ok (tk_val t)); [|now apply sim_err]. apply sim_ok. eapply zrel_next; eauto.
    + (* paren *)
      apply sim_bind; [apply IHor; eapply zrel_next; eauto|].
      intros e r1 z1 R1. rewrite (zrel_kind _ _ _ R1).
      destruct r1 as [|rp r2]; cbn [hd_error option_map]; [now apply sim_err|].
      destruct (tk_kind rp) eqn:KR; try (now apply sim_err).
      apply sim_ok. eapply zrel_next; eauto.
  - intros z ts fin R. rewrite p_args_S. cbn [zp_args]. apply sim_bind; [now apply IHor|].
    intros a r1 z1 R1. rewrite (zrel_kind _ _ _ R1).
    destruct r1 as [|t r2]; cbn [hd_error option_map]; [now apply sim_err|].
    destruct (tk_kind t) eqn:K; try (now apply sim_err).
    + apply sim_ok. eapply zrel_next; eauto.
    + apply sim_bind; [apply IHargs; eapply zrel_next; eauto|]. intros; now apply sim_ok.
Qed.

(* ------------------------------------------------------------ the two models agree *)
Theorem parse_lazy_eq src : parse_lazy src = parse_src plus int_lit float_ok src.
Proof.
  unfold parse_lazy, parse_src. destruct (lex_all plus src) as [ts fin] eqn:L. cbn [fst].
  pose proof (lex_all_no_fuel _ _ _ _ L) as NF.
  assert (R0 : zrel (z_pull (mkLS src pos0) None) ts fin) by (apply zrel_pull; auto).
  destruct (sim_all (parse_fuel ts)) as (S & _). specialize (S _ _ _ R0).
  unfold ParseSrc.combine, parse_toks.
  destruct (Parser.p_or int_lit float_ok (parse_fuel ts) ts) as [e rest|d| |]; unfold sim in S.
  - destruct S as (z' & -> & R). pose proof (zrel_cur _ _ _ R) as C. unfold zrel in R.
    destruct rest as [|t r]; cbn in C; rewrite C in *.
    + destruct R as (_ & R). destruct fin as [p a|le p|]; [| |contradiction].
      * destruct R as (_ & ->). reflexivity.
      * destruct R as (_ & ->). reflexivity.
    + destruct R as (-> & ts' & E & R). inv E. rewrite z_count_len, R. cbn [fst length pe_class pe_at].
      destruct fin; [reflexivity|reflexivity|congruence].
  - destruct S as (z' & rest' & -> & R & E). pose proof (zrel_cur _ _ _ R) as C. unfold zrel in R.
    destruct rest' as [|t r]; cbn in C, E; rewrite C in R; rewrite E.
    + destruct R as (_ & R). destruct fin as [p a|le p|]; [| |contradiction].
      * destruct R as (-> & ->). reflexivity.
      * destruct R as (_ & ->). reflexivity.
    + destruct R as (-> & _). destruct fin; [reflexivity|reflexivity|congruence].
  - rewrite S. destruct fin; reflexivity.
  - rewrite S. destruct fin; [reflexivity|reflexivity|congruence].
Qed.

End Lazy.
