(* Expr/UntrustedFindings.v — the theorems instantiated with the table
   regenerated from /repo (Gen/GenUntrusted.v), witnesses that the automaton
   as it was before repo_patches/untrusted ([fixed := false]) violates the
   specification, and satisfiability examples.  All by computation. *)
From AL Require Import Expr.Untrusted Expr.UntrustedSpec Expr.UntrustedProofs Gen.GenUntrusted.
From Coq Require Import NArith.

Definition P (o l c : N) : tpos := {| t_off := o; t_line := l; t_col := c |}.

Definition old_reports (e : expr) : list report := reported false tree (events funcs e).
Definition new_reports (e : expr) : list report := reported true tree (events funcs e).
Definition demanded (e : expr) : list sreport := spec_paths tree (known funcs) e.

(* github.event.issue *)
Definition gh_issue (o : N) : expr :=
  EDeref (EDeref (EVar (P o 1 (o + 1)) "github") "event") "issue".
(* contains('a', 'b') at offset o *)
Definition safe_call (o : N) : expr :=
  ECall (P o 1 (o + 1)) "contains" [EStr (P (o + 9) 1 (o + 10)) "a"; EStr (P (o + 14) 1 (o + 15)) "b"].

(* #8  github.event.issue['TITLE']  — missed: the index literal was not lower-cased *)
Definition w_title_case : expr := EIndex (gh_issue 0) (EStr (P 19 1 20) "TITLE").

(* #14 contains('a', 'b')[github.event.issue.title] — missed: leaving the
   sanitising call did not end the pending chain, the index step then killed it *)
Definition w_safe_index : expr := EIndex (safe_call 0) (EDeref (gh_issue 19) "title").

(* the same defect as a false positive:
   github.event.issue == contains('a', 'b').title  was reported as github.event.issue.title *)
Definition w_safe_deref : expr := ECmp CEq (gh_issue 0) (EDeref (safe_call 22) "title").

(* github.event.commits['*'].message — reported though ['*'] is a property named `*`, not a filter *)
Definition w_star_literal : expr :=
  EDeref (EIndex (EDeref (EDeref (EVar (P 0 1 1) "github") "event") "commits") (EStr (P 21 1 22) "*")) "message".

Lemma title_case_old_refuted :
  parser_normal w_title_case /\
  demanded w_title_case = [(P 0 1 1, [["github"; "event"; "issue"; "title"]])] /\
  old_reports w_title_case = [] /\
  new_reports w_title_case = [(Some (P 0 1 1), [["github"; "event"; "issue"; "title"]])].
Proof. vm_compute. repeat split; try discriminate. Qed.

Lemma safe_index_old_refuted :
  parser_normal w_safe_index /\
  demanded w_safe_index = [(P 19 1 20, [["github"; "event"; "issue"; "title"]])] /\
  old_reports w_safe_index = [] /\
  new_reports w_safe_index = [(Some (P 19 1 20), [["github"; "event"; "issue"; "title"]])].
Proof. vm_compute. repeat split; try discriminate. Qed.

Lemma safe_deref_old_refuted :
  parser_normal w_safe_deref /\
  demanded w_safe_deref = [] /\
  old_reports w_safe_deref = [(Some (P 0 1 1), [["github"; "event"; "issue"; "title"]])] /\
  new_reports w_safe_deref = [].
Proof. vm_compute. repeat split; try discriminate. Qed.

Lemma star_literal_old_refuted :
  parser_normal w_star_literal /\
  demanded w_star_literal = [] /\
  old_reports w_star_literal = [(Some (P 0 1 1), [["github"; "event"; "commits"; "*"; "message"]])] /\
  new_reports w_star_literal = [].
Proof. vm_compute. repeat split; try discriminate. Qed.

(* the exactness theorem is false of the automaton as it was *)
Lemma untrusted_exact_old_refuted :
  exists e, parser_normal e /\ ~ reports_equiv (reported false tree (events funcs e)) (spec_paths tree (known funcs) e).
Proof.
  exists w_title_case. split; [apply title_case_old_refuted|].
  destruct title_case_old_refuted as (_ & Hd & Ho & _).
  change (~ reports_equiv (old_reports w_title_case) (demanded w_title_case)).
  rewrite Hd, Ho. intros H. inversion H.
Qed.

(* instances for the table of /repo *)
Lemma untrusted_exact_builtin e : parser_normal e ->
  reports_equiv (check_untrusted true tree funcs true e) (spec_paths tree (known funcs) e).
Proof. apply untrusted_exact. Qed.

(* the hypothesis parser_normal is satisfiable by a non-trivial expression, on
   which the theorem yields a non-empty result:
   format('{0}', github.event.*.body[0]) && !contains(github.event.issue.title, 'x') *)
Definition ex_nontrivial : expr :=
  ELog LAnd
    (ECall (P 0 1 1) "format"
       [EStr (P 7 1 8) "{0}";
        EIndex (EDeref (EArrDeref (EDeref (EVar (P 14 1 15) "github") "event")) "body") (EInt (P 35 1 36) 0)])
    (ENot (P 42 1 43)
       (ECall (P 43 1 44) "contains" [EDeref (gh_issue 52) "title"; EStr (P 78 1 79) "x"])).

Example parser_normal_satisfiable :
  parser_normal ex_nontrivial /\
  map fst (demanded ex_nontrivial) = [P 14 1 15] /\
  map (fun r => length (snd r)) (demanded ex_nontrivial) = [6].
Proof. vm_compute. repeat split; try discriminate. Qed.

(* recase relates genuinely different expressions *)
Example recase_satisfiable :
  recase w_title_case (EIndex (EDeref (EDeref (EVar (P 0 1 1) "GitHub") "EVENT") "Issue") (EStr (P 19 1 20) "title")).
Proof. vm_compute. repeat split; try discriminate. Qed.
