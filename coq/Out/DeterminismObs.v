(* Out/DeterminismObs.v — observables of the C02 site models compared with
   the implementation: the order in which same-position diagnostics appear. *)
From AL Require Import Base.AList Base.Corr Base.StrOrder Out.StableSort Out.Determinism.

Definition tuple_of_string (s : string) : tuple :=
  map (fun c => N.of_nat (nat_of_ascii c)) (list_ascii_of_string s).

Fixpoint N_range (n : nat) : list N :=
  match n with O => [] | S n' => N_range n' ++ [N.of_nat n'] end.

(* expr_sema.go checkBuiltinFuncCall "format": first the arguments that have no
   placeholder (loop i = 0..l-1, deleting the found ones), then the remaining
   placeholders in increasing order. *)
Definition run_format (c : N * list (N * unit)) : list tuple :=
  let (l, holders) := c in
  let missing := filter (fun i => negb (existsb (N.eqb i) (map fst holders))) (N_range (N.to_nat l)) in
  let rest := filter (fun h => (l <=? fst h)%N) holders in
  map (fun i => [0%N; i]) missing ++
  map (fun kv => [1%N; fst kv]) (sort_keys N.leb rest).

Lemma format_unused_keys p msg h :
  map dg_msg (format_unused p msg h) = map (fun kv => msg (fst kv)) (sort_keys N.leb h).
Proof.
  unfold format_unused, site_sorted, site_range.
  induction (sort_keys N.leb h) as [|x l IH]; cbn; [reflexivity|]. now rewrite IH.
Qed.

(* rule_action.go / rule_workflow_call.go *)
Definition run_required (c : list string * list (string * bool)) : list tuple :=
  let (supplied, declared) := c in
  map (fun d => tuple_of_string (dg_msg d)) (missing_required (1, 1)%N (fun n => n) supplied declared).

(* error.go ByErrorPosition.Less under sort.Stable, one file: the tags of the diagnostics in the
   order of the model's stable sort by (line, column) *)
Definition run_sort (c : list (N * N * N)) : list tuple :=
  [map snd (ssort (fun x : posn * N => fst x) pos_leb c)].
