(* Out/MessagesProofs.v — %q never produces a line break; a format all of whose
   pieces are safe yields a one-line message (C16). *)
From AL Require Import Base.Str Out.Render Out.RenderProofs Out.Messages.
From Coq Require Import ZArith Lia ZifyN ZifyNat ZifyBool.

Lemma hexd_not_nl n : hexd n <> NL.
Proof.
  unfold hexd. intro E. apply (f_equal N_of_ascii) in E.
  change (N_of_ascii NL) with 10%N in E.
  assert (n mod 16 < 16)%N as Hd by (apply N.mod_lt; discriminate).
  destruct (n mod 16 <? 10)%N eqn:E1; rewrite N_ascii_embedding in E by lia; lia.
Qed.

Lemma hex2_no_nl n : no_nl (hex2 n).
Proof. unfold hex2. intros [H|[H|[]]]; exact (hexd_not_nl _ H). Qed.
Lemma hex4_no_nl n : no_nl (hex4 n).
Proof. unfold hex4. apply no_nl_app. split; apply hex2_no_nl. Qed.
Lemma hex8_no_nl n : no_nl (hex8 n).
Proof. unfold hex8. apply no_nl_app. split; apply hex4_no_nl. Qed.

Ltac split_decode H :=
  repeat match type of H with
         | context[if N.eqb (bn ?a) ?k then _ else _] => destruct (N.eqb (bn a) k) eqn:?
         | context[match ?t with [] => _ | _ :: _ => _ end] => destruct t
         | context[if ?x then _ else _] => destruct x eqn:?
         end.

(* what DecodeRune can return *)
Lemma decode_cases s r w : decode_rune s = Some (r, w) ->
  (exists c0 t, s = c0 :: t /\ r = bn c0 /\ w = 1) \/
  (r = rune_error /\ w = 1) \/
  Forall (fun c => (128 <= bn c)%N) (firstn w s).
Proof.
  intro H. destruct s as [|c0 t]; [discriminate|]. cbn [decode_rune] in H. cbv zeta in H.
  destruct (bn c0 <? 128)%N eqn:E0.
  { left. inversion H. now exists c0, t. }
  right.
  split_decode H;
    inversion H; subst; clear H;
    first [ left; split; reflexivity
          | right; cbn [firstn]; unfold cont in *; repeat (apply Forall_cons; [lia|]); apply Forall_nil ].
Qed.

Ltac lit_ok := let H := fresh in intro H; cbn in H; repeat (destruct H as [H|H]; [discriminate|]); exact H.

Lemma quote_rune_no_nl ip s r w : decode_rune s = Some (r, w) -> no_nl (quote_rune ip r w (firstn w s)).
Proof.
  intro H. unfold quote_rune.
  destruct (N.eqb r rune_error && Nat.eqb w 1)%bool eqn:Eerr.
  { apply no_nl_app. split; [lit_ok|apply hex2_no_nl]. }
  destruct (r =? 34)%N; [lit_ok|]. destruct (r =? 92)%N; [lit_ok|].
  destruct (r <? 128)%N eqn:E128.
  - destruct (32 <=? r)%N eqn:E32; cbn [andb].
    + destruct (r <? 127)%N eqn:E127.
      * (* printable ASCII: the byte itself *)
        destruct (decode_cases _ _ _ H) as [(c0 & t & -> & -> & ->)|[(-> & _)|Hhi]].
        -- cbn [firstn]. intros [E|[]]. subst c0. cbn in E32. discriminate.
        -- cbn in E128. discriminate.
        -- (* cannot be: the rune is < 128 *)
           destruct s as [|c0 t]; [discriminate|]. cbn [decode_rune] in H. cbv zeta in H.
           destruct (bn c0 <? 128)%N eqn:E0.
           ++ inversion H; subst. cbn [firstn]. intros [E|[]]. subst c0. cbn in E32. discriminate.
           ++ exfalso.
              split_decode H; inversion H; subst; unfold rune_error, cont in *; try discriminate; lia.
      * repeat match goal with |- no_nl (if ?x then _ else _) => destruct x end; try lit_ok.
        apply no_nl_app. split; [lit_ok|apply hex2_no_nl].
    + repeat match goal with |- no_nl (if ?x then _ else _) => destruct x end; try lit_ok.
      apply no_nl_app. split; [lit_ok|apply hex2_no_nl].
  - destruct (ip r).
    + (* printable non-ASCII rune: its bytes are all >= 128 *)
      destruct (decode_cases _ _ _ H) as [(c0 & t & -> & -> & ->)|[(-> & ->)|Hhi]].
      * exfalso. cbn [decode_rune] in H. cbv zeta in H. destruct (bn c0 <? 128)%N eqn:E0; [congruence|].
        split_decode H; inversion H; subst; try discriminate;
          match goal with Hx : _ = bn c0 |- _ => idtac | _ => idtac end;
          try (cbn in Eerr; discriminate).
        all: try (rewrite <- H1 in Eerr; cbn in Eerr; discriminate).
      * cbn in Eerr. discriminate.
      * apply no_nl_forall. eapply Forall_impl; [|exact Hhi].
        intros c Hc E. subst c. cbn in Hc. lia.
    + destruct (r <? 65536)%N; apply no_nl_app; split; try lit_ok; [apply hex4_no_nl|apply hex8_no_nl].
Qed.

Lemma quote_go_no_nl ip fuel : forall s, no_nl (quote_go ip fuel s).
Proof.
  induction fuel as [|f IH]; intro s; cbn [quote_go]; [intros []|].
  destruct (decode_rune s) as [[r w]|] eqn:E; [|intros []].
  apply no_nl_app. split; [now apply quote_rune_no_nl|apply IH].
Qed.

(* strconv.Quote / %q output never contains a line feed, whatever the text
   and whatever IsPrint says about non-ASCII runes *)
Theorem quote_no_nl : forall ip s, no_nl (quote ip s).
Proof.
  intros ip s. unfold quote. repeat (apply no_nl_app; split); try lit_ok. apply quote_go_no_nl.
Qed.

(* a diagnostic built from a one-line format string, %q of arbitrary user
   text, %d, and %s/%v of one-line values is one line *)
Theorem messages_single_line : forall ip ps,
  Forall piece_safe ps -> no_nl (sprintf ip ps).
Proof.
  intros ip ps H. unfold sprintf. induction H as [|p ps Hp _ IH]; [intros []|].
  cbn [map concat]. apply no_nl_app. split; [|exact IH].
  destruct p; cbn [render_piece]; cbn in Hp; auto using quote_no_nl, decz_no_nl.
Qed.

(* the old cron message: %s of text that may contain a line feed is not safe *)
Lemma messages_single_line_unsafe_refuted : exists ip ps,
  ~ no_nl (sprintf ip ps) /\ (forall p, In p ps -> match p with VS _ => True | _ => piece_safe p end).
Proof.
  exists (fun _ => true),
    [Lit (b "invalid CRON format "); VQ (b "@x" ++ [NL] ++ b "y"); Lit (b " in schedule event: ");
     VS (b "unrecognized descriptor: @x" ++ [NL] ++ b "y")].
  split.
  - intro H. apply H. vm_compute. repeat (first [left; reflexivity | right]).
  - intros p [<-|[<-|[<-|[<-|[]]]]]; cbn; auto; intro H; vm_compute in H;
      repeat (destruct H as [H|H]; [discriminate|]); exact H.
Qed.
