(* Out/Filter.v — model of the ignore filter, the per-path configuration
   lookup, the position sort and the exit status.

     linter.go   Linter.filterErrors, the tail of Linter.check
     config.go   IgnorePatterns.Match, Config.PathConfigs
     error.go    ByErrorPosition (sort.Stable)
     command.go  Command.Main

   Regular-expression matching ([regexp.MatchString]) and glob matching
   ([doublestar.MatchUnvalidated]) are library code: they are Section
   variables, so every theorem holds whatever the libraries answer; the
   correspondence check instantiates them with tables evaluated in Go. *)
From AL Require Import Base.Str.
From Coq Require Import Permutation.

Section Filter.
Variables (pat msg glob : Type).
Variable matches : pat -> msg -> bool.          (* r.MatchString(err.Message) *)
Variable glob_match : glob -> string -> bool.   (* doublestar.MatchUnvalidated(p, path) *)

Record diag := mkDiag { d_line : N; d_col : N; d_msg : msg }.

(* config.go: func (pats IgnorePatterns) Match(err *Error) bool *)
Fixpoint pats_match (ps : list pat) (e : diag) : bool :=
  match ps with
  | [] => false
  | r :: ps' => if matches r (d_msg e) then true else pats_match ps' e
  end.

(* PathConfig{Ignore} *)
Definition pathcfg := list pat.

(* inner loop of filterErrors: for _, c := range cfgs { if c.Ignore.Match(err) {continue Loop} } *)
Fixpoint cfgs_match (cfgs : list pathcfg) (e : diag) : bool :=
  match cfgs with
  | [] => false
  | c :: cfgs' => if pats_match c e then true else cfgs_match cfgs' e
  end.

(* filterErrors, loop with accumulator [filtered = append(filtered, err)] *)
Fixpoint filter_loop (cli : list pat) (cfgs : list pathcfg) (es acc : list diag) : list diag :=
  match es with
  | [] => acc
  | e :: es' =>
      if pats_match cli e then filter_loop cli cfgs es' acc
      else if cfgs_match cfgs e then filter_loop cli cfgs es' acc
      else filter_loop cli cfgs es' (acc ++ [e])
  end.

Definition filter_errors (cli : list pat) (cfgs : list pathcfg) (es : list diag) : list diag :=
  if (Nat.eqb (length cli) 0 && Nat.eqb (length cfgs) 0)%bool then es
  else filter_loop cli cfgs es [].

(* the property's wording: a diagnostic is ignored iff its message matches an
   applicable pattern *)
Definition ignored (cli : list pat) (cfgs : list pathcfg) (e : diag) : bool :=
  (existsb (fun r => matches r (d_msg e)) cli
   || existsb (fun c => existsb (fun r => matches r (d_msg e)) c) cfgs)%bool.

(* config.go PathConfigs: the map cfg.Paths is an association list in an
   arbitrary order; [p] is the slash path *)
Definition path_configs (paths : list (glob * pathcfg)) (p : string) : list pathcfg :=
  map snd (filter (fun gc => glob_match (fst gc) p) paths).

(* a `paths` entry applies to a file iff its glob matches the path *)
Definition applicable (paths : list (glob * pathcfg)) (p : string) (c : pathcfg) : Prop :=
  exists g, In (g, c) paths /\ glob_match g p = true.

(* ---- sort.Stable(ByErrorPosition(all)) within one file ---------------- *)

Definition pos_le (a b : diag) : bool :=
  (N.ltb (d_line a) (d_line b) || (N.eqb (d_line a) (d_line b) && N.leb (d_col a) (d_col b)))%bool.

(* stable insertion: x (earlier in the input) goes in front of the first y with x <= y *)
Fixpoint insert_d (x : diag) (l : list diag) : list diag :=
  match l with
  | [] => [x]
  | y :: l' => if pos_le x y then x :: l else y :: insert_d x l'
  end.

Definition sort_d (l : list diag) : list diag := fold_right insert_d [] l.

(* tail of check(): filter, then sort *)
Definition check_tail (cli : list pat) (paths : list (glob * pathcfg)) (cfgpath : string)
           (es : list diag) : list diag :=
  sort_d (filter_errors cli (path_configs paths cfgpath) es).

End Filter.

Arguments mkDiag {msg}.
Arguments d_line {msg}.
Arguments d_col {msg}.
Arguments d_msg {msg}.

(* ---- command.go Command.Main ----------------------------------------- *)

Inductive flag_outcome := FlagHelp | FlagError | FlagOk.       (* flags.Parse: ErrHelp / other error / nil *)
Inductive lint_outcome := LintFatal | LintDone (remaining : nat).  (* runLinter: err != nil / len(errs) *)

Definition main_status (fo : flag_outcome) (version_flag : bool) (lo : lint_outcome) : N :=
  match fo with
  | FlagHelp => 0
  | FlagError => 2
  | FlagOk =>
      if version_flag then 0
      else match lo with
           | LintFatal => 3
           | LintDone 0 => 0
           | LintDone (S _) => 1
           end
  end%N.
