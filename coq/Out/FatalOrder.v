(* Out/FatalOrder.v — which fatal error a multi-file run returns (Linter.LintFiles).
   Every file is checked by its own goroutine; [rs] is what each check ends with
   (None = no fatal error), a function of the file alone.  A schedule is the order
   in which the goroutines finish.

   Before ec824d0 the run returned errgroup.Wait(): the error of the goroutine
   that failed FIRST ([result_old]).  From ec824d0 on every goroutine records its
   error in its own slot and, when all have finished, the slots are scanned in the
   order of the arguments ([result_new]). *)
From Coq Require Import List Arith Lia Permutation Bool.
Import ListNotations.

Section Fatal.
Context {E : Type}.

Fixpoint set_nth (i : nat) (v : option E) (l : list (option E)) : list (option E) :=
  match l, i with
  | [], _ => []
  | _ :: t, O => v :: t
  | h :: t, S i' => h :: set_nth i' v t
  end.

Definition finish (rs : list (option E)) (slots : list (option E)) (i : nat) : list (option E) :=
  set_nth i (nth i rs None) slots.

Definition run_slots (rs : list (option E)) (sched : list nat) : list (option E) :=
  fold_left (finish rs) sched (repeat None (length rs)).

Fixpoint first_error (slots : list (option E)) : option E :=
  match slots with
  | [] => None
  | Some e :: _ => Some e
  | None :: t => first_error t
  end.

Definition result_new (rs : list (option E)) (sched : list nat) : option E := first_error (run_slots rs sched).

Definition result_old (rs : list (option E)) (sched : list nat) : option E :=
  match find (fun i => match nth i rs None with Some _ => true | None => false end) sched with
  | Some i => nth i rs None
  | None => None
  end.

Lemma set_nth_length i v l : length (set_nth i v l) = length l.
Proof. revert i; induction l as [|h t IH]; intros [|i]; cbn; auto. Qed.

Lemma nth_set_nth i j v l : i < length l -> nth j (set_nth i v l) None = if Nat.eqb i j then v else nth j l None.
Proof.
  revert i j; induction l as [|h t IH]; intros i j H; cbn in H; [lia|].
  destruct i as [|i], j as [|j]; cbn; auto. apply IH. lia.
Qed.

Lemma set_nth_oob i v l : length l <= i -> set_nth i v l = l.
Proof.
  revert i; induction l as [|h t IH]; intros [|i] H; cbn in *; auto; [lia|]. f_equal. apply IH. lia.
Qed.

(* the slots after any sequence of finishing goroutines: slot j holds the result of
   file j if j has finished, nothing otherwise *)
Lemma run_slots_spec rs sched : forall slots, length slots = length rs ->
  let out := fold_left (finish rs) sched slots in
  length out = length rs /\
  forall j, nth j out None = if existsb (Nat.eqb j) sched then nth j rs None else nth j slots None.
Proof.
  induction sched as [|i sched IH]; intros slots L; cbn [fold_left existsb].
  - split; [exact L|reflexivity].
  - assert (length (finish rs slots i) = length rs) as L2 by (unfold finish; now rewrite set_nth_length).
    destruct (IH _ L2) as [H1 H2]. split; [exact H1|]. intros j. rewrite H2.
    destruct (existsb (Nat.eqb j) sched) eqn:Ex; [now rewrite orb_true_r|]. rewrite orb_false_r.
    unfold finish. destruct (Nat.lt_ge_cases i (length slots)) as [Hlt|Hge].
    + rewrite nth_set_nth by exact Hlt. rewrite (Nat.eqb_sym j i). destruct (Nat.eqb i j) eqn:Eij; [|reflexivity].
      apply Nat.eqb_eq in Eij. now subst.
    + rewrite set_nth_oob by exact Hge. destruct (Nat.eqb j i) eqn:Eji; [|reflexivity].
      apply Nat.eqb_eq in Eji. subst j. rewrite (nth_overflow slots) by exact Hge.
      rewrite nth_overflow; [reflexivity|lia].
Qed.

(* when every goroutine has finished - in whatever order - the slots are the results *)
Theorem run_slots_complete rs sched : Permutation sched (seq 0 (length rs)) -> run_slots rs sched = rs.
Proof.
  intros P. unfold run_slots.
  destruct (run_slots_spec rs sched (repeat None (length rs)) (repeat_length _ _)) as [L H].
  apply nth_ext with (d := None) (d' := None); [exact L|].
  intros j Hj. rewrite H. rewrite L in Hj.
  assert (existsb (Nat.eqb j) sched = true) as ->; [|reflexivity].
  apply existsb_exists. exists j. split; [|apply Nat.eqb_refl].
  apply (Permutation_in _ (Permutation_sym P)). apply in_seq. lia.
Qed.

(* C02: the fatal error of a run does not depend on the order in which the files finish *)
Theorem result_new_schedule_independent rs s1 s2 :
  Permutation s1 (seq 0 (length rs)) -> Permutation s2 (seq 0 (length rs)) ->
  result_new rs s1 = result_new rs s2.
Proof. intros P1 P2. unfold result_new. now rewrite !run_slots_complete. Qed.

Theorem result_new_is_first_in_argument_order rs sched :
  Permutation sched (seq 0 (length rs)) -> result_new rs sched = first_error rs.
Proof. intros P. unfold result_new. now rewrite run_slots_complete. Qed.

End Fatal.

(* before the repair: two files fail, the one that finishes first is named *)
Theorem result_old_refuted : exists (rs : list (option nat)) s1 s2,
  Permutation s1 (seq 0 (length rs)) /\ Permutation s2 (seq 0 (length rs)) /\
  result_old rs s1 <> result_old rs s2.
Proof.
  exists [Some 1; None; Some 3], [0; 1; 2], [2; 1; 0]. repeat split.
  - apply Permutation_refl.
  - cbn. apply Permutation_sym. change [0; 1; 2] with ([0; 1] ++ [2]). change [2; 1; 0] with ([2] ++ [1; 0]).
    eapply Permutation_trans; [apply Permutation_app_comm|]. cbn. constructor.
    apply (Permutation_app_comm [0] [1]).
  - cbn. discriminate.
Qed.

Example result_new_same : result_new [Some 1; None; Some 3] [0; 1; 2] = result_new [Some 1; None; Some 3] [2; 1; 0].
Proof. reflexivity. Qed.

(* correspondence: [rs] = per file, Some (i+1) if file i cannot be read; observable = the number
   of the file the returned fatal error names (0 = no fatal error).  The schedule does not
   matter ([result_new_is_first_in_argument_order]); the identity schedule is evaluated. *)
From AL Require Import Base.Corr.
From Coq Require Import NArith.
Definition run_fatal (rs : list (option N)) : list tuple :=
  [[match result_new rs (seq 0 (length rs)) with Some i => i | None => 0%N end]].

