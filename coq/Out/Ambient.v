(* Out/Ambient.v — the determinism theorems (Out/Determinism.v) treat every rule as a function of
   the workflow, the configuration and the options.  The places of the package that read anything
   else (clock, environment, process, machine, random source) are listed from the source on
   every run (Gen/GenAmbient.v, harness/cmd/c02/ambient.go); here every listed place is shown to
   be one of the known ones, none of which reaches a diagnostic:
     - ElapsedLog: time.Now / time.Since around a phase, printed to the verbose / debug log only;
     - DefaultCwd: os.Getwd as the default of LinterOptions.WorkingDir (an option of the run);
     - PoolSize:   runtime.NumCPU, the capacity of the process pool (C20; the result of a run is
                   assembled by slot: Out/Determinism.v lint_files_slot_indep).
   A new read (say time.Now in a rule) makes [ambient_sites_known] fail. *)
From AL Require Import Base.Str Gen.GenAmbient.

Inductive ambient_class := ElapsedLog | DefaultCwd | PoolSize.

Definition allowed : list (string * string * string * ambient_class) := [
  ("linter.go", "Linter.Lint", "runtime.NumCPU", PoolSize);
  ("linter.go", "Linter.LintFile", "runtime.NumCPU", PoolSize);
  ("linter.go", "Linter.LintFiles", "runtime.NumCPU", PoolSize);
  ("linter.go", "Linter.LintRepository", "runtime.NumCPU", PoolSize);
  ("linter.go", "Linter.LintStdin", "runtime.NumCPU", PoolSize);
  ("linter.go", "Linter.check", "time.Now", ElapsedLog);
  ("linter.go", "Linter.check", "time.Since", ElapsedLog);
  ("linter.go", "NewLinter", "os.Getwd", DefaultCwd);
  ("pass.go", "Visitor.Visit", "time.Now", ElapsedLog);
  ("pass.go", "Visitor.Visit", "time.Since", ElapsedLog);
  ("pass.go", "Visitor.reportElapsedTime", "time.Since", ElapsedLog);
  ("pass.go", "Visitor.visitJob", "time.Now", ElapsedLog);
  ("pass.go", "Visitor.visitStep", "time.Now", ElapsedLog)
].

Definition site_eqb (a : string * string * string) (b : string * string * string * ambient_class) : bool :=
  let '(f, g, c) := a in let '(f', g', c', _) := b in
  String.eqb f f' && String.eqb g g' && String.eqb c c'.

Definition known (s : string * string * string) : bool := existsb (site_eqb s) allowed.

Lemma ambient_sites_known_b : forallb known ambient_sites = true.
Proof. vm_compute. reflexivity. Qed.

Lemma site_eqb_eq a b : site_eqb a b = true -> fst b = a.
Proof.
  destruct a as [[f g] c], b as [[[f' g'] c'] k]. cbn.
  rewrite !Bool.andb_true_iff, !String.eqb_eq. intros [[-> ->] ->]. reflexivity.
Qed.

(* every place of the source that reads ambient state is a known one, with its class *)
Lemma ambient_sites_known s : In s ambient_sites -> exists k, In (s, k) allowed.
Proof.
  intros H. pose proof ambient_sites_known_b as A. rewrite forallb_forall in A.
  specialize (A s H). unfold known in A. rewrite existsb_exists in A.
  destruct A as [[s' k] [Hin He]]. apply site_eqb_eq in He. cbn in He. subst s'. now exists k.
Qed.

(* non-vacuity: the list extracted from the source is not empty, and the clock is among it *)
Example ambient_sites_nonempty : existsb (fun s => String.eqb (snd s) "time.Now") ambient_sites = true.
Proof. vm_compute. reflexivity. Qed.
