(* Out/OneLine.v — oneLine (error.go): the text of a library's error (cron
   parser, YAML decoder, OS) is flattened before it is put into a message.  The
   text is a list of code points here.  strings.NewReplacer with the pairs
   "\r\n", "\n", "\r", NEL, LS, PS -> " " scans left to right and, at each
   position, applies the first pair that matches (CR LF is one space). *)
From Coq Require Import List NArith Bool Lia.
From AL Require Import Base.Corr.
Import ListNotations.
Open Scope N_scope.

Definition LF := 10. Definition CR := 13. Definition NEL := 133. Definition LS := 8232. Definition PS := 8233.
Definition SP := 32.

(* what a consumer of the output reads as the end of a line *)
Definition is_break (c : N) : bool :=
  (c =? LF) || (c =? CR) || (c =? NEL) || (c =? LS) || (c =? PS).

Fixpoint one_line (s : list N) : list N :=
  match s with
  | [] => []
  | c :: rest =>
      if c =? CR then
        match rest with
        | d :: rest' => if d =? LF then SP :: one_line rest' else SP :: one_line rest
        | [] => [SP]
        end
      else if is_break c then SP :: one_line rest
      else c :: one_line rest
  end.

(* the flattening before 040a767: LF only *)
Definition one_line_old (s : list N) : list N := map (fun c => if c =? LF then SP else c) s.

Lemma one_line_ind_principle (P : list N -> Prop) :
  P [] -> (forall c rest, P rest -> (forall d rest', rest = d :: rest' -> P rest') -> P (c :: rest)) ->
  forall s, P s.
Proof.
  intros H0 HS.
  assert (forall (n : nat) s, (length s <= n)%nat -> P s) as H.
  { induction n as [|n IH]; intros s Hl.
    - destruct s; [exact H0|cbn in Hl; lia].
    - destruct s as [|c rest]; [exact H0|]. cbn in Hl. apply HS.
      + apply IH. lia.
      + intros d rest' ->. apply IH. cbn in Hl. lia. }
  intros s. apply (H (length s)). lia.
Qed.

(* no line break of any kind is left *)
Theorem one_line_no_break : forall s, forallb (fun c => negb (is_break c)) (one_line s) = true.
Proof.
  apply one_line_ind_principle; [reflexivity|].
  intros c rest IH IH2. cbn [one_line].
  destruct (c =? CR) eqn:Ec.
  - destruct rest as [|d rest']; [reflexivity|].
    destruct (d =? LF); cbn [forallb]; [now rewrite (IH2 d rest' eq_refl)|now rewrite IH].
  - destruct (is_break c) eqn:Eb; cbn [forallb]; [exact IH|]. now rewrite Eb, IH.
Qed.

(* a text without line breaks is not changed *)
Theorem one_line_id : forall s, forallb (fun c => negb (is_break c)) s = true -> one_line s = s.
Proof.
  induction s as [|c rest IH]; [reflexivity|]. cbn [forallb]. intros H.
  apply andb_prop in H. destruct H as [Hc Hr]. cbn [one_line].
  assert (c =? CR = false) as ->.
  { unfold is_break in Hc. destruct (c =? CR); [|reflexivity]. rewrite !orb_true_r in Hc. cbn in Hc. discriminate. }
  apply negb_true_iff in Hc. rewrite Hc. now rewrite IH.
Qed.

(* everything that is not a line break is kept, in order *)
Theorem one_line_keeps_text : forall s,
  filter (fun c => negb (c =? SP)) (one_line s) = filter (fun c => negb (is_break c) && negb (c =? SP)) s.
Proof.
  apply one_line_ind_principle; [reflexivity|].
  intros c rest IH IH2. cbn [one_line].
  destruct (c =? CR) eqn:Ec.
  - apply N.eqb_eq in Ec. subst c.
    destruct rest as [|d rest']; [reflexivity|].
    destruct (d =? LF) eqn:Ed.
    + apply N.eqb_eq in Ed. subst d. cbn [filter]. cbn. apply (IH2 LF rest' eq_refl).
    + cbn [filter]. change (negb (SP =? SP)) with false. cbn [filter] in IH. rewrite IH. reflexivity.
  - destruct (is_break c) eqn:Eb; cbn [filter].
    + change (negb (SP =? SP)) with false. cbn. rewrite Eb. cbn. exact IH.
    + rewrite Eb. cbn [negb andb]. destruct (negb (c =? SP)); now rewrite IH.
Qed.

(* flattening twice is flattening once: a text that was flattened by one layer (the cron or YAML
   library's wrapper) and again by the next is what one flattening gives *)
Theorem one_line_idem : forall s, one_line (one_line s) = one_line s.
Proof. intros s. apply one_line_id, one_line_no_break. Qed.

(* the text never grows, and it shrinks only by the LF of a CR LF pair *)
Theorem one_line_length : forall s, (length (one_line s) <= length s)%nat.
Proof.
  apply one_line_ind_principle; [cbn; lia|].
  intros c rest IH IH2. cbn [one_line].
  destruct (c =? CR).
  - destruct rest as [|d rest']; [cbn; lia|].
    destruct (d =? LF); cbn [length] in *; [specialize (IH2 d rest' eq_refl)|]; lia.
  - destruct (is_break c); cbn [length]; lia.
Qed.

(* pieces put together: unless the cut falls inside a CR LF pair, flattening the concatenation is
   concatenating the flattenings (fmt's %s of two library texts next to each other) *)
Theorem one_line_app : forall a b,
  (forall a', a = a' ++ [CR] -> forall b', b = LF :: b' -> False) ->
  one_line (a ++ b) = one_line a ++ one_line b.
Proof.
  intros a; pattern a; revert a. apply one_line_ind_principle; [reflexivity|].
  intros c rest IH IH2 b Hcut. cbn [app one_line].
  destruct (c =? CR) eqn:Ec.
  - apply N.eqb_eq in Ec. subst c. destruct rest as [|d rest'].
    + cbn [app]. destruct b as [|d b']; [reflexivity|].
      destruct (d =? LF) eqn:Ed; [|reflexivity].
      apply N.eqb_eq in Ed. subst d. exfalso. exact (Hcut [] eq_refl b' eq_refl).
    + cbn [app]. destruct (d =? LF).
      * cbn [app]. f_equal. refine (IH2 d rest' eq_refl b _).
        intros a' Ha b' Hb. subst. exact (Hcut (CR :: d :: a') eq_refl b' eq_refl).
      * cbn [app]. f_equal. change (d :: rest' ++ b) with ((d :: rest') ++ b). refine (IH b _).
        intros a' Ha b' Hb. subst. refine (Hcut (CR :: a') _ b' eq_refl). cbn [app]. now rewrite Ha.
  - assert (one_line (rest ++ b) = one_line rest ++ one_line b) as E.
    { refine (IH b _). intros a' Ha b' Hb. subst. exact (Hcut (c :: a') eq_refl b' eq_refl). }
    destruct (is_break c); cbn [app]; now rewrite E.
Qed.

(* and inside a CR LF pair the concatenation is one space shorter: the hypothesis above is needed *)
Theorem one_line_app_cut_refuted : exists a b, one_line (a ++ b) <> one_line a ++ one_line b.
Proof. exists [CR], [LF]. cbv. discriminate. Qed.

(* the old flattening left CR (and NEL, LS, PS) in the message *)
Theorem one_line_old_refuted : exists s, existsb is_break (one_line_old s) = true.
Proof. exists [64; 120; CR; 121]. reflexivity. Qed.

(* correspondence *)
Definition run_one_line (s : list N) : list tuple := [one_line s].
