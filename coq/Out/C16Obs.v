(* Out/C16Obs.v — the C16 models run on recorded inputs for the correspondence
   check.  Byte strings travel as hexadecimal text (cheap to parse). *)
From AL Require Import Base.Str Base.Corr Out.Render Out.Matcher.
From Coq Require Export ZArith.

Definition hexval (c : ascii) : N :=
  let n := N_of_ascii c in
  if N.leb 97 n then n - 87 else if N.leb 65 n then n - 55 else n - 48.

Fixpoint unhex (s : string) : bytes :=
  match s with
  | String h (String l s') => ascii_of_N (hexval h * 16 + hexval l) :: unhex s'
  | _ => []
  end.

Fixpoint bytes_eqb (x y : bytes) : bool :=
  match x, y with
  | [], [] => true
  | c :: x', d :: y' => (Ascii.eqb c d && bytes_eqb x' y')%bool
  | _, _ => false
  end.

(* width tables evaluated by go-runewidth *)
Definition rw_of (t : list (N * nat)) (r : N) : nat :=
  match find (fun e => N.eqb (fst e) r) t with Some e => snd e | None => 251 end.
Definition sw_of (t : list (string * nat)) (s : bytes) : nat :=
  match find (fun e => bytes_eqb (unhex (fst e)) s) t with Some e => snd e | None => 251 end.

Definition herr := (string * string * Z * Z * string)%type.   (* message, file, line, column, kind — hex *)
Definition to_err (h : herr) : err :=
  let '(m, f, l, c, k) := h in mkErr (unhex m) (unhex f) l c (unhex k).

(* (a) whole-output rendering: Linter.printErrors in default / -oneline mode *)
Record rcase := mkRc {
  rc_errs : list herr; rc_src : string; rc_rw : list (N * nat); rc_sw : list (string * nat);
  rc_oneline : bool; rc_stdout : string }.

Definition run_render (c : rcase) : list tuple :=
  match print_errors (rw_of (rc_rw c)) (sw_of (rc_sw c)) (rc_oneline c) (map to_err (rc_errs c)) (unhex (rc_src c)) with
  | Ok out => if bytes_eqb out (unhex (rc_stdout c)) then [[1%N]] else [[0%N]]
  | Panic => [[2%N]]
  end.

(* (b) snippet sweep: PrettyPrint and GetTemplateFields at one source, many positions.
   Expected: "!" = the Go code panicked, otherwise hex of the output. *)
Record scase := mkSc {
  sc_src : string; sc_rw : list (N * nat); sc_sw : list (string * nat);
  sc_points : list (Z * Z * string * string * Z) }.   (* line, col, PrettyPrint output, snippet, end column *)

Definition point_ok (c : scase) (p : Z * Z * string * string * Z) : bool :=
  let '(l, co, pp, snip, endc) := p in
  let e := mkErr (b "msg") (b "f.yml") l co (b "kind") in
  let src := unhex (sc_src c) in
  (match pretty_print (rw_of (sc_rw c)) (sw_of (sc_sw c)) e src with
   | Ok out => negb (String.eqb pp "!") && bytes_eqb out (unhex pp)
   | Panic => String.eqb pp "!"
   end &&
   match template_fields (rw_of (sc_rw c)) (sw_of (sc_sw c)) e src with
   | Ok (s, ec) => negb (String.eqb snip "!") && bytes_eqb s (unhex snip) && Z.eqb ec endc
   | Panic => String.eqb snip "!"
   end)%bool.

Fixpoint bad_points (c : scase) (i : N) (ps : list (Z * Z * string * string * Z)) : list tuple :=
  match ps with
  | [] => []
  | p :: ps' => if point_ok c p then bad_points c (N.succ i) ps' else [i] :: bad_points c (N.succ i) ps'
  end.

Definition run_sweep (c : scase) : list tuple := bad_points c 0%N (sc_points c).

(* (c) the problem matcher: pattern text of the tree + lines with Go's regexp answer *)
Record mcase := mkMc {
  mc_pattern : string;
  mc_lines : list (string * option (string * string * string * string * string)) }.

Definition groups_eqb (g : groups) (h : string * string * string * string * string) : bool :=
  let '(f, l, c, m, k) := g in
  let '(f', l', c', m', k') := h in
  (bytes_eqb f (unhex f') && bytes_eqb l (unhex l') && bytes_eqb c (unhex c') &&
   bytes_eqb m (unhex m') && bytes_eqb k (unhex k'))%bool.

Fixpoint bad_lines (i : N) (ls : list (string * option (string * string * string * string * string))) : list tuple :=
  match ls with
  | [] => []
  | (l, want) :: ls' =>
      let ok := match matcher (unhex l), want with
                | None, None => true
                | Some g, Some h => groups_eqb g h
                | _, _ => false
                end in
      if ok then bad_lines (N.succ i) ls' else [i] :: bad_lines (N.succ i) ls'
  end.

Definition run_matcher (c : mcase) : list tuple :=
  (if String.eqb (mc_pattern c) shipped_pattern then [] else [[9999%N]]) ++ bad_lines 0%N (mc_lines c).
