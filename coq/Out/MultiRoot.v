(* Out/MultiRoot.v — C15 over SEVERAL repositories in one run (a repository
   nested in another one, or side by side): composition of
     - Multi/Project.v  (project.go Projects.At: nearest enclosing root,
                          whatever was looked up before), and
     - Out/Paths.v      (linter.go pathFromProjectRoot: the string handed to
                          Config.PathConfigs),
     - Out/Filter.v     (the tail of Linter.check).
   "A `paths` entry applies to a file iff its glob matches the file's path
   relative to the root of the repository CONTAINING it": for every file of a
   multi-file run the configuration consulted is that of the nearest
   enclosing root and the string matched is the path below that root, for
   every working directory, spelling and order of the arguments. *)
From AL Require Import Base.Str Out.Paths Out.PathsProofs Out.Filter Out.FilterProofs Multi.Project.

Section MultiRoot.
Variables (pat msg glob : Type).
Variable matches : pat -> msg -> bool.
Variable glob_match : glob -> string -> bool.

(* one repository: the components of its absolute root and the `paths`
   section of its configuration (None: no configuration file) *)
Definition repo := (list string * option (list (glob * pathcfg pat)))%type.

Definition roots (rs : list repo) : list Project.path := map fst rs.

Fixpoint repo_lookup (rs : list repo) (r : Project.path) : option (option (list (glob * pathcfg pat))) :=
  match rs with
  | [] => None
  | (r', c) :: rs' => if path_eqb r r' then Some c else repo_lookup rs' r
  end.

(* LintFiles: `p, err := l.projects.At(w.path)`; [known] is the cache of
   Projects built by the files resolved before this one *)
Definition project_of (rs : list repo) (known : list Project.path) (cwd arg : Paths.path) : option Project.path :=
  fst (at_ (roots rs) known (p_comps (abs_path cwd arg))).

(* the tail of check() for one file of the run *)
Definition check_file (rs : list repo) (known : list Project.path) (cli : list pat)
           (cwd arg : Paths.path) (es : list (diag msg)) : list (diag msg) :=
  match project_of rs known cwd arg with
  | Some r =>
      match repo_lookup rs r with
      | Some (Some paths) =>
          check_tail pat msg glob matches glob_match cli paths
                     (show_path (cfg_path cwd (mkPath true r) arg)) es
      | _ => check_tail pat msg glob matches glob_match cli [] "" es
      end
  | None => check_tail pat msg glob matches glob_match cli [] "" es
  end.

(* the whole run: files in argument order, the project cache threaded through *)
Fixpoint check_files (rs : list repo) (known : list Project.path) (cli : list pat) (cwd : Paths.path)
         (files : list (Paths.path * list (diag msg))) : list (list (diag msg)) :=
  match files with
  | [] => []
  | (arg, es) :: files' =>
      let known' := snd (at_ (roots rs) known (p_comps (abs_path cwd arg))) in
      check_file rs known cli cwd arg es :: check_files rs known' cli cwd files'
  end.

(* ---- theorems ------------------------------------------------------------ *)

(* the repository consulted is the nearest enclosing root, whatever the cache holds *)
Theorem project_of_nearest rs history cwd arg :
  match project_of rs (known_after (roots rs) history) cwd arg with
  | Some r => nearest_root (roots rs) (p_comps (abs_path cwd arg)) r
  | None => forall r, is_root (roots rs) r = true -> is_prefix r (p_comps (abs_path cwd arg)) = false
  end.
Proof. unfold project_of. apply project_attribution. Qed.

Lemma project_of_find rs known cwd arg :
  project_of rs known cwd arg = find_root (roots rs) (p_comps (abs_path cwd arg)).
Proof.
  unfold project_of, at_. destruct (find_root (roots rs) _) as [r|]; [|reflexivity].
  destruct (existsb (path_eqb r) known); reflexivity.
Qed.

(* ... and does not depend on the cache at all: a file's result is the same at
   every place of the argument list *)
Theorem check_file_cache_indep rs k1 k2 cli cwd arg es :
  check_file rs k1 cli cwd arg es = check_file rs k2 cli cwd arg es.
Proof. unfold check_file. now rewrite !project_of_find. Qed.

Lemma check_files_spec rs cli cwd files : forall known,
  check_files rs known cli cwd files = map (fun f => check_file rs [] cli cwd (fst f) (snd f)) files.
Proof.
  induction files as [|[arg es] files IH]; intros known; cbn [check_files map fst snd]; [reflexivity|].
  rewrite IH. f_equal. apply check_file_cache_indep.
Qed.

(* every file of a multi-file run gets exactly the result it gets alone *)
Theorem check_files_each_alone rs known cli cwd files i arg es :
  nth_error files i = Some (arg, es) ->
  nth_error (check_files rs known cli cwd files) i = Some (check_file rs [] cli cwd arg es).
Proof.
  intros H. rewrite check_files_spec. rewrite nth_error_map, H. reflexivity.
Qed.

(* the string matched against the globs of THAT repository is the path below
   its root *)
Theorem multi_path_applicability rs known cli cwd arg es r paths suffix :
  clean_abs cwd -> names r ->
  project_of rs known cwd arg = Some r ->
  repo_lookup rs r = Some (Some paths) ->
  abs_path cwd arg = mkPath true (r ++ suffix) ->
  check_file rs known cli cwd arg es =
  check_tail pat msg glob matches glob_match cli paths (show_path (mkPath false suffix)) es.
Proof.
  intros Hc Hr Hp Hl Ha. unfold check_file. rewrite Hp, Hl.
  rewrite (path_applicability cwd (mkPath true r) arg suffix Hc); [reflexivity| |exact Ha].
  split; [reflexivity|exact Hr].
Qed.

(* ... and the result is the unfiltered list minus what an applicable pattern
   of that repository (or a -ignore pattern) matches *)
Corollary multi_filter_exact rs known cli cwd arg es r paths suffix :
  clean_abs cwd -> names r ->
  project_of rs known cwd arg = Some r ->
  repo_lookup rs r = Some (Some paths) ->
  abs_path cwd arg = mkPath true (r ++ suffix) ->
  check_file rs known cli cwd arg es =
  filter (fun e => negb (ignored pat msg matches cli
                           (path_configs pat glob glob_match paths (show_path (mkPath false suffix))) e))
         (sort_d msg es).
Proof.
  intros Hc Hr Hp Hl Ha.
  rewrite (multi_path_applicability rs known cli cwd arg es r paths suffix Hc Hr Hp Hl Ha).
  apply (check_tail_exact pat msg glob matches glob_match).
Qed.

End MultiRoot.

(* non-vacuity: an inner repository nested in an outer one; patterns and
   messages are numbers, a pattern matches the message with the same number;
   the glob "1" matches exactly ".github/workflows/e.yml" *)
Example multi_root_example :
  let rs : list (repo nat nat) :=
    [(["w"; "repo"], Some [(1, [7])]); (["w"; "repo"; "nested"; "inner"], Some [(1, [8])])] in
  let gm := fun (g : nat) (p : string) => String.eqb p ".github/workflows/e.yml" in
  let es := [mkDiag 3%N 1%N 7; mkDiag 4%N 1%N 8] in
  let cwd := mkPath true ["w"] in
  (* the inner file: the INNER configuration applies (message 8 ignored), whatever was resolved before *)
  check_file nat nat nat Nat.eqb gm rs [["w"; "repo"]] [] cwd
             (mkPath false ["repo"; "nested"; "inner"; ".github"; "workflows"; "e.yml"]) es
  = [mkDiag 3%N 1%N 7] /\
  (* a file of the outer repository with the same name below its root: the OUTER one (message 7 ignored) *)
  check_file nat nat nat Nat.eqb gm rs [] [] cwd
             (mkPath false ["repo"; ".github"; "workflows"; "e.yml"]) es
  = [mkDiag 4%N 1%N 8].
Proof. vm_compute. split; reflexivity. Qed.
