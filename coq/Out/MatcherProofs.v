(* Out/MatcherProofs.v — the shipped problem-matcher pattern parses a header
   line back to the five fields of the diagnostic (C16), under the conditions
   that make this true; without the condition on the message it is false. *)
From AL Require Import Base.Str Out.Render Out.RenderProofs Out.Matcher.
From Coq Require Import ZArith Lia ZifyN ZifyNat ZifyBool.

Definition all_digits (d : bytes) : Prop := Forall (fun c => is_digit c = true) d.

(* " [" occurs in s *)
Fixpoint has_sb (s : bytes) : bool :=
  match s with
  | c1 :: (c2 :: _) as t => (Ascii.eqb c1 " "%char && Ascii.eqb c2 "["%char) || has_sb t
  | _ => false
  end.

Definition file_ok (f : bytes) : Prop := f <> [] /\ no_nl f /\ ~ In ":"%char f.
Definition msg_ok (m : bytes) : Prop := m <> [] /\ no_nl m /\ has_sb m = false.
Definition kind_ok (k : bytes) : Prop := k <> [] /\ no_nl k.

(* ---- the combinators ------------------------------------------------------------ *)

Lemma lazy_plus_first {R} (k : bytes -> bytes -> option R) m : forall pre rest r,
  m <> [] -> no_nl m ->
  (forall m1 m2, m = m1 ++ m2 -> m1 <> [] -> m2 <> [] -> k (pre ++ m1) (m2 ++ rest) = None) ->
  k (pre ++ m) rest = Some r ->
  lazy_plus pre (m ++ rest) k = Some r.
Proof.
  induction m as [|c m IH]; intros pre rest r Hne Hnl Hfail Hk; [congruence|].
  cbn [app lazy_plus].
  assert (is_nl c = false) as E.
  { unfold is_nl. apply Ascii.eqb_neq. intro; subst. apply Hnl. now left. }
  rewrite E. destruct m as [|c' m'].
  - cbn [app] in *. now rewrite Hk.
  - rewrite (Hfail [c] (c' :: m') eq_refl) by discriminate.
    apply IH.
    + discriminate.
    + intro Hin. apply Hnl. now right.
    + intros m1 m2 Hm H1 H2. rewrite <- app_assoc. cbn [app].
      apply (Hfail (c :: m1) m2); [cbn; now rewrite Hm|discriminate|exact H2].
    + rewrite <- app_assoc. exact Hk.
Qed.

Definition starts_nondigit (s : bytes) : Prop :=
  match s with [] => True | c :: _ => is_digit c = false end.

Lemma greedy_digits_all {R} (k : bytes -> bytes -> option R) d : forall pre rest r,
  all_digits d -> d <> [] -> starts_nondigit rest ->
  k (pre ++ d) rest = Some r ->
  greedy_digits pre (d ++ rest) k = Some r.
Proof.
  induction d as [|c d IH]; intros pre rest r Hd Hne Hrest Hk; [congruence|].
  inversion Hd as [|? ? Hc Hd']; subst.
  cbn [app greedy_digits]. rewrite Hc. destruct d as [|c' d'].
  - cbn [app] in *.
    assert (greedy_digits (pre ++ [c]) rest k = None) as ->.
    { destruct rest as [|x rest']; [reflexivity|]. cbn [greedy_digits]. cbn in Hrest. now rewrite Hrest. }
    exact Hk.
  - rewrite (IH (pre ++ [c]) rest r); [reflexivity|exact Hd'|discriminate|exact Hrest|].
    rewrite <- app_assoc. exact Hk.
Qed.

Lemma lit_app p s : lit p (p ++ s) = Some s.
Proof. induction p as [|x p IH]; [reflexivity|]. cbn. now rewrite Ascii.eqb_refl. Qed.

Lemma has_sb_suffix m1 m2 : has_sb (m1 ++ m2) = false -> has_sb m2 = false.
Proof.
  induction m1 as [|c m1 IH]; intro H; [exact H|].
  apply IH. cbn [app] in H. destruct (m1 ++ m2) as [|c2 t] eqn:E.
  - reflexivity.
  - cbn [has_sb] in H. apply orb_false_iff in H. tauto.
Qed.

(* inside a message without " [" the continuation " [" kind "]" cannot start early *)
Lemma lit_sb_fails m2 t : m2 <> [] -> has_sb m2 = false ->
  lit [" "%char; "["%char] (m2 ++ " "%char :: "["%char :: t) = None.
Proof.
  intros Hne H. destruct m2 as [|c1 [|c2 m']]; [congruence| |].
  - cbn [app lit]. destruct (Ascii.eqb " " c1); [|reflexivity].
    change (Ascii.eqb "[" " ") with false. reflexivity.
  - cbn [has_sb] in H. apply orb_false_iff in H. destruct H as [H _].
    cbn [app lit]. rewrite (Ascii.eqb_sym " "%char c1), (Ascii.eqb_sym "["%char c2).
    destruct (Ascii.eqb c1 " "); [|reflexivity]. cbn in H. now rewrite H.
Qed.

(* ---- round trip --------------------------------------------------------------------- *)

Theorem matcher_roundtrip_fields : forall f l c m k,
  file_ok f -> all_digits l -> l <> [] -> all_digits c -> c <> [] -> msg_ok m -> kind_ok k ->
  matcher (f ++ b ":" ++ l ++ b ":" ++ c ++ b ": " ++ m ++ b " [" ++ k ++ b "]") = Some (f, l, c, m, k).
Proof.
  intros f l c m k (Hf1 & Hf2 & Hf3) Hl Hl0 Hc Hc0 (Hm1 & Hm2 & Hm3) (Hk1 & Hk2).
  change (b ":") with [":"%char]. change (b ": ") with [":"%char; " "%char].
  change (b " [") with [" "%char; "["%char]. change (b "]") with ["]"%char].
  unfold matcher. apply lazy_plus_first; [exact Hf1|exact Hf2| |].
  - (* no earlier end of the file group: the next byte is not ':' *)
    intros f1 f2 Hf _ H2. destruct f2 as [|x f2']; [congruence|].
    unfold k_file. change (b ":") with [":"%char]. cbn [app lit].
    destruct (Ascii.eqb ":" x) eqn:E; [|reflexivity].
    apply Ascii.eqb_eq in E. subst x. exfalso. apply Hf3. rewrite Hf. apply in_app_iff. right. now left.
  - cbn [app]. unfold k_file. change (b ":") with [":"%char].
    change (":"%char :: l ++ ?x) with ([":"%char] ++ l ++ x). rewrite lit_app.
    apply greedy_digits_all; [exact Hl|exact Hl0|reflexivity|].
    cbn [app]. unfold k_line. change (b ":") with [":"%char].
    change (":"%char :: c ++ ?x) with ([":"%char] ++ c ++ x). rewrite lit_app.
    apply greedy_digits_all; [exact Hc|exact Hc0|reflexivity|].
    cbn [app]. unfold k_col. change (b ": ") with [":"%char; " "%char].
    change (":"%char :: " "%char :: m ++ ?x) with ([":"%char; " "%char] ++ m ++ x). rewrite lit_app.
    apply lazy_plus_first; [exact Hm1|exact Hm2| |].
    + intros m1 m2 Hm _ H2. unfold k_msg. change (b " [") with [" "%char; "["%char].
      cbn [app]. rewrite lit_sb_fails; [reflexivity|exact H2|].
      rewrite Hm in Hm3. exact (has_sb_suffix _ _ Hm3).
    + cbn [app]. unfold k_msg. change (b " [") with [" "%char; "["%char].
      change (" "%char :: "["%char :: k ++ ?x) with ([" "%char; "["%char] ++ k ++ x). rewrite lit_app.
      apply (lazy_plus_first _ k [] ["]"%char]); [exact Hk1|exact Hk2| |].
      * intros k1 k2 Hk _ H2. unfold k_kind. destruct k2 as [|x [|y k2']]; [congruence|reflexivity|reflexivity].
      * cbn. reflexivity.
Qed.

(* %d of a natural number is a non-empty digit string *)
Lemma digit_char_is_digit d : (d < 10)%N -> is_digit (digit_char d) = true.
Proof.
  intro H. unfold is_digit. rewrite digit_char_code by exact H.
  apply andb_true_iff. split; apply N.leb_le; lia.
Qed.

Lemma dec_all_digits n : all_digits (dec n).
Proof. unfold all_digits, dec. apply dec_go_forall; [apply digit_char_is_digit|constructor]. Qed.

Lemma decz_nonneg z : (0 <= z)%Z -> decz z = dec (Z.to_N z).
Proof. intro H. unfold decz. destruct (z <? 0)%Z eqn:E; [apply Z.ltb_lt in E; lia|reflexivity]. Qed.

(* C16: the header of a diagnostic is parsed back to the same file, line,
   column, message and kind *)
Theorem matcher_roundtrip : forall e,
  file_ok (e_file e) -> msg_ok (e_msg e) -> kind_ok (e_kind e) ->
  (0 <= e_line e)%Z -> (0 <= e_col e)%Z ->
  matcher (error_string e) = Some (e_file e, decz (e_line e), decz (e_col e), e_msg e, e_kind e).
Proof.
  intros e Hf Hm Hk Hl Hc. unfold error_string.
  rewrite (decz_nonneg _ Hl), (decz_nonneg _ Hc).
  apply matcher_roundtrip_fields; auto using dec_all_digits, dec_nonempty.
Qed.

Example matcher_roundtrip_nonvacuous :
  let e := mkErr (b "undefined variable ""x""") (b ".github/workflows/ci.yml") 12 7 (b "expression") in
  file_ok (e_file e) /\ msg_ok (e_msg e) /\ kind_ok (e_kind e) /\
  matcher (error_string e) = Some (e_file e, b "12", b "7", e_msg e, e_kind e).
Proof.
  cbn zeta. repeat split; try discriminate; try (vm_compute; reflexivity);
    try (intro H; vm_compute in H; repeat (destruct H as [H|H]; [discriminate|]); exact H).
Qed.

(* without the condition on the message the statement is false: the example
   of docs/checks.md for the cron check *)
Lemma matcher_roundtrip_full_refuted : exists e,
  file_ok (e_file e) /\ e_msg e <> [] /\ no_nl (e_msg e) /\ kind_ok (e_kind e) /\
  (0 <= e_line e)%Z /\ (0 <= e_col e)%Z /\
  matcher (error_string e) <> Some (e_file e, decz (e_line e), decz (e_col e), e_msg e, e_kind e).
Proof.
  exists (mkErr (b "invalid CRON format ""0 */3 * *"" in schedule event: expected exactly 5 fields, found 4: [0 */3 * *]")
                (b "test.yaml") 4 13 (b "events")).
  repeat split; try discriminate; try lia;
    try (intro H; vm_compute in H; repeat (destruct H as [H|H]; [discriminate|]); exact H).
Qed.
