(* Out/C15Obs.v — the C15 model run on one recorded command invocation, for
   the correspondence check.  Regexp and glob answers come as tables that the
   Go harness evaluated with the real libraries. *)
From AL Require Import Base.Str Base.Corr Out.Paths Out.Filter.

Record frun := mkFrun {
  f_arg : string;                 (* the file argument exactly as spelled *)
  f_es : list (N * N * N)         (* unfiltered diagnostics of the file: line, column, message id *)
}.

Record c15_in := mkIn {
  i_mode : N;                     (* 0 lint run, 1 -h, 2 flag error, 3 fatal error, 4 -version *)
  i_cwd : string;
  i_root : string;
  i_files : list frun;
  i_cli : list (list N);          (* -ignore patterns: ids of the messages each one matches *)
  i_paths : list (N * list (list N));   (* `paths` entries: glob id, `ignore` patterns *)
  i_glob : list (N * string * bool)     (* doublestar answers: glob id, path string, result *)
}.

Definition tbl_matches (p : list N) (m : N) : bool := existsb (N.eqb m) p.

Fixpoint glob_lookup (t : list (N * string * bool)) (g : N) (p : string) : option bool :=
  match t with
  | [] => None
  | (g', p', b) :: t' => if (N.eqb g g' && String.eqb p p')%bool then Some b else glob_lookup t' g p
  end.

Definition tbl_glob (t : list (N * string * bool)) (g : N) (p : string) : bool :=
  match glob_lookup t g p with Some b => b | None => false end.

Definition to_diag (e : N * N * N) : diag N := let '(l, c, m) := e in mkDiag l c m.

(* the string handed to PathConfigs for one argument *)
Definition cfg_string (i : c15_in) (arg : string) : string :=
  show_path (cfg_path (parse_path (i_cwd i)) (parse_path (i_root i)) (parse_path arg)).

Definition run_file (i : c15_in) (k : N) (f : frun) : list tuple :=
  let p := cfg_string i (f_arg f) in
  if forallb (fun gc => match glob_lookup (i_glob i) (fst gc) p with Some _ => true | None => false end) (i_paths i)
  then
    map (fun d => [k; d_line d; d_col d; d_msg d])
        (check_tail (list N) N N tbl_matches (tbl_glob (i_glob i)) (i_cli i) (i_paths i) p (map to_diag (f_es f)))
  else [[9999%N; k]].   (* the model asked for a path string the harness did not anticipate *)

Fixpoint run_files (i : c15_in) (k : N) (fs : list frun) : list tuple :=
  match fs with
  | [] => []
  | f :: fs' => run_file i k f ++ run_files i (N.succ k) fs'
  end.

Definition run_c15 (i : c15_in) : list tuple :=
  let out := if N.eqb (i_mode i) 0 then run_files i 0%N (i_files i) else [] in
  let fo := if N.eqb (i_mode i) 1 then FlagHelp else if N.eqb (i_mode i) 2 then FlagError else FlagOk in
  let lo := if N.eqb (i_mode i) 3 then LintFatal else LintDone (length out) in
  out ++ [[1000%N; main_status fo (N.eqb (i_mode i) 4) lo]].

(* ---- several repositories (nested.go stream of the harness) -------------- *)
From AL Require Import Multi.Project Out.MultiRoot.

Record c15n_in := mkNIn {
  n_cwd : string;
  n_repos : list (string * option (list (N * list (list N))));   (* root, `paths` section (glob id, ignore patterns) *)
  n_files : list frun;                                            (* in argument order *)
  n_cli : list (list N);
  n_glob : list (N * string * bool)
}.

Definition n_repo_list (i : c15n_in) : list (repo (list N) N) :=
  map (fun rc => (p_comps (parse_path (fst rc)), snd rc)) (n_repos i).

(* every (glob, path) question the model asks must have been answered by the harness *)
Definition n_asked (i : c15n_in) (arg : string) : bool :=
  let cwd := parse_path (n_cwd i) in
  match project_of (list N) N (n_repo_list i) [] cwd (parse_path arg) with
  | Some r =>
      match repo_lookup (list N) N (n_repo_list i) r with
      | Some (Some paths) =>
          let p := show_path (cfg_path cwd (mkPath true r) (parse_path arg)) in
          forallb (fun gc => match glob_lookup (n_glob i) (fst gc) p with Some _ => true | None => false end) paths
      | _ => true
      end
  | None => true
  end.

Fixpoint n_tuples (k : N) (outs : list (list (diag N))) : list tuple :=
  match outs with
  | [] => []
  | ds :: outs' => map (fun d => [k; d_line d; d_col d; d_msg d]) ds ++ n_tuples (N.succ k) outs'
  end.

Definition run_c15n (i : c15n_in) : list tuple :=
  if forallb (fun f => n_asked i (f_arg f)) (n_files i) then
    let outs := check_files (list N) N N tbl_matches (tbl_glob (n_glob i)) (n_repo_list i) [] (n_cli i)
                            (parse_path (n_cwd i))
                            (map (fun f => (parse_path (f_arg f), map to_diag (f_es f))) (n_files i)) in
    let out := n_tuples 0%N outs in
    out ++ [[1000%N; main_status FlagOk false (LintDone (length out))]]
  else [[9999%N]].
