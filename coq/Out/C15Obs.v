(* Out/C15Obs.v — the C15 model run on one recorded command invocation, for
   the correspondence check.  Regexp and glob answers come as tables that the
   Go harness evaluated with the real libraries. *)
From AL Require Import Base.Str Base.Corr Out.Paths Out.Filter.

Record frun := mkFrun {
  f_arg : string;                 (* the file argument exactly as spelled *)
  f_es : list (N * N * N)         (* unfiltered diagnostics of the file: line, column, message id *)
}.

Record c15_in := mkIn {
  i_mode : N;                     (* 0 lint run, 1 -h, 2 flag error, 3 fatal error, 4 -version *)
  i_cwd : string;
  i_root : string;
  i_files : list frun;
  i_cli : list (list N);          (* -ignore patterns: ids of the messages each one matches *)
  i_paths : list (N * list (list N));   (* `paths` entries: glob id, `ignore` patterns *)
  i_glob : list (N * string * bool)     (* doublestar answers: glob id, path string, result *)
}.

Definition tbl_matches (p : list N) (m : N) : bool := existsb (N.eqb m) p.

Fixpoint glob_lookup (t : list (N * string * bool)) (g : N) (p : string) : option bool :=
  match t with
  | [] => None
  | (g', p', b) :: t' => if (N.eqb g g' && String.eqb p p')%bool then Some b else glob_lookup t' g p
  end.

Definition tbl_glob (t : list (N * string * bool)) (g : N) (p : string) : bool :=
  match glob_lookup t g p with Some b => b | None => false end.

Definition to_diag (e : N * N * N) : diag N := let '(l, c, m) := e in mkDiag l c m.

(* the string handed to PathConfigs for one argument *)
Definition cfg_string (i : c15_in) (arg : string) : string :=
  show_path (cfg_path (parse_path (i_cwd i)) (parse_path (i_root i)) (parse_path arg)).

Definition run_file (i : c15_in) (k : N) (f : frun) : list tuple :=
  let p := cfg_string i (f_arg f) in
  if forallb (fun gc => match glob_lookup (i_glob i) (fst gc) p with Some _ => true | None => false end) (i_paths i)
  then
    map (fun d => [k; d_line d; d_col d; d_msg d])
        (check_tail (list N) N N tbl_matches (tbl_glob (i_glob i)) (i_cli i) (i_paths i) p (map to_diag (f_es f)))
  else [[9999%N; k]].   (* the model asked for a path string the harness did not anticipate *)

Fixpoint run_files (i : c15_in) (k : N) (fs : list frun) : list tuple :=
  match fs with
  | [] => []
  | f :: fs' => run_file i k f ++ run_files i (N.succ k) fs'
  end.

Definition run_c15 (i : c15_in) : list tuple :=
  let out := if N.eqb (i_mode i) 0 then run_files i 0%N (i_files i) else [] in
  let fo := if N.eqb (i_mode i) 1 then FlagHelp else if N.eqb (i_mode i) 2 then FlagError else FlagOk in
  let lo := if N.eqb (i_mode i) 3 then LintFatal else LintDone (length out) in
  out ++ [[1000%N; main_status fo (N.eqb (i_mode i) 4) lo]].
