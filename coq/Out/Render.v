(* Out/Render.v — model of the renderers of error.go and linter.go printErrors:

     Error.Error            error_string       "%s:%d:%d: %s [%s]"
     Error.PrettyPrint      pretty_print       header + optional snippet + indicator (colour off)
     Error.getLine          get_line           bufio.Scanner / ScanLines
     Error.getIndicator     get_indicator      slicing is partial: [Panic] when out of range
     Error.GetTemplateFields  template_fields  snippet and end_column handed to -format templates
     Linter.printErrors     print_errors

   Byte strings are [list ascii].  Display widths (github.com/mattn/go-runewidth:
   RuneWidth, StringWidth) are library code: Section variables.  UTF-8 decoding
   (strings.Reader.ReadRune) is modelled ([decode_rune]).  Not modelled: colour
   escape sequences (the checks run with -no-color), bufio.Scanner's 64 KiB
   token limit, Go int overflow. *)
From AL Require Import Base.Str.
From Coq Require Import ZArith.

Definition bytes := list ascii.
Definition b (s : string) : bytes := list_ascii_of_string s.

Definition NL : ascii := "010"%char.
Definition CR : ascii := "013"%char.
Definition is_nl (c : ascii) : bool := Ascii.eqb c NL.

Inductive res (A : Type) := Ok (a : A) | Panic.
Arguments Ok {A}.
Arguments Panic {A}.

(* ---- %d ------------------------------------------------------------------- *)

Definition digit_char (d : N) : ascii := ascii_of_N (48 + d).

Fixpoint dec_go (fuel : nat) (n : N) (acc : bytes) : bytes :=
  match fuel with
  | O => acc
  | S f => let acc' := digit_char (N.modulo n 10) :: acc in
           if N.ltb n 10 then acc' else dec_go f (N.div n 10) acc'
  end.

(* enough fuel: a number has at most log2 n + 1 decimal digits *)
Definition dec (n : N) : bytes := dec_go (S (N.to_nat (N.log2 n))) n [].

Definition decz (z : Z) : bytes :=
  if Z.ltb z 0 then "-"%char :: dec (Z.to_N (- z)) else dec (Z.to_N z).

(* ---- the diagnostic record ---------------------------------------------------- *)

Record err := mkErr { e_msg : bytes; e_file : bytes; e_line : Z; e_col : Z; e_kind : bytes }.

(* Error.Error(): fmt.Sprintf("%s:%d:%d: %s [%s]", Filepath, Line, Column, Message, Kind) *)
Definition error_string (e : err) : bytes :=
  e_file e ++ b ":" ++ decz (e_line e) ++ b ":" ++ decz (e_col e) ++ b ": " ++ e_msg e ++ b " [" ++ e_kind e ++ b "]".

(* PrettyPrint writes the header piece by piece (each piece through a colour
   object that adds nothing when colour is off) *)
Definition header_writes (e : err) : list bytes :=
  [ e_file e; b ":"; decz (e_line e); b ":"; decz (e_col e); b ": "; e_msg e;
    b " [" ++ e_kind e ++ b "]" ++ [NL] ].

(* ---- getLine: bufio.ScanLines ------------------------------------------------- *)

(* NL-terminated lines; an unterminated non-empty rest is a last line *)
Fixpoint lines_go (cur : bytes) (s : bytes) : list bytes :=
  match s with
  | [] => match cur with [] => [] | _ => [cur] end
  | c :: s' => if is_nl c then cur :: lines_go [] s' else lines_go (cur ++ [c]) s'
  end.

Definition drop_cr (l : bytes) : bytes :=
  match rev l with
  | c :: r => if Ascii.eqb c CR then rev r else l
  | [] => l
  end.

Definition scan_lines (src : bytes) : list bytes := map drop_cr (lines_go [] src).

(* l := 0; for s.Scan() { l++; if l == e.Line { return s.Text(), true } }; return "", false *)
Definition get_line (src : bytes) (line : Z) : option bytes :=
  if Z.leb line 0 then None else nth_error (scan_lines src) (Z.to_nat (line - 1)).

(* ---- UTF-8 (utf8.DecodeRuneInString as used by strings.Reader.ReadRune) ----- *)

Definition bn (c : ascii) : N := N_of_ascii c.
Definition cont (x : N) : bool := (N.leb 128 x && N.leb x 191)%bool.
Definition rune_error : N := 65533%N.

Definition decode_rune (s : bytes) : option (N * nat) :=
  match s with
  | [] => None
  | c0 :: t =>
      let b0 := bn c0 in
      if N.ltb b0 128 then Some (b0, 1)
      else
        let bad := Some (rune_error, 1) in
        if (N.leb 194 b0 && N.leb b0 223)%bool then
          match t with
          | c1 :: _ => if cont (bn c1) then Some (((b0 - 192) * 64 + (bn c1 - 128))%N, 2) else bad
          | _ => bad
          end
        else if (N.leb 224 b0 && N.leb b0 239)%bool then
          match t with
          | c1 :: c2 :: _ =>
              let lo := if N.eqb b0 224 then 160%N else 128%N in
              let hi := if N.eqb b0 237 then 159%N else 191%N in
              if (N.leb lo (bn c1) && N.leb (bn c1) hi && cont (bn c2))%bool
              then Some (((b0 - 224) * 4096 + (bn c1 - 128) * 64 + (bn c2 - 128))%N, 3) else bad
          | _ => bad
          end
        else if (N.leb 240 b0 && N.leb b0 244)%bool then
          match t with
          | c1 :: c2 :: c3 :: _ =>
              let lo := if N.eqb b0 240 then 144%N else 128%N in
              let hi := if N.eqb b0 244 then 143%N else 191%N in
              if (N.leb lo (bn c1) && N.leb (bn c1) hi && cont (bn c2) && cont (bn c3))%bool
              then Some (((b0 - 240) * 262144 + (bn c1 - 128) * 4096 + (bn c2 - 128) * 64 + (bn c3 - 128))%N, 4)
              else bad
          | _ => bad
          end
        else bad
  end.

Section Widths.
Variable rune_width : N -> nat.          (* runewidth.RuneWidth *)
Variable string_width : bytes -> nat.    (* runewidth.StringWidth *)

(* c == ' ' || c == '\t' || c == '\n' || c == '\r' *)
Definition is_stop (r : N) : bool := (N.eqb r 32 || N.eqb r 9 || N.eqb r 10 || N.eqb r 13)%bool.

(* the ReadRune loop of getIndicator; fuel = number of bytes left *)
Fixpoint uw_go (fuel : nat) (s : bytes) : nat :=
  match fuel with
  | O => 0
  | S f =>
      match decode_rune s with
      | None => 0
      | Some (r, sz) => if is_stop r then 0 else rune_width r + uw_go f (skipn sz s)
      end
  end.

Definition get_indicator (line : bytes) (col : Z) : res bytes :=
  if Z.leb col 0 then Ok []
  else
    let start := Z.to_nat (col - 1) in
    if Nat.ltb (length line) start then Panic      (* line[start:] : slice bounds out of range *)
    else
      let uw := uw_go (length line) (skipn start line) in
      let uw := match uw with O => O | S k => k end in
      let sw := string_width (firstn start line) in
      Ok (repeat " "%char sw ++ ["^"%char] ++ repeat "~"%char uw).

(* the part of PrettyPrint after the header *)
Definition snippet_block (e : err) (src : bytes) : res bytes :=
  if (Nat.eqb (length src) 0 || Z.leb (e_line e) 0)%bool then Ok []
  else
    match get_line src (e_line e) with
    | None => Ok []
    | Some line =>
        if Z.ltb (Z.of_nat (length line)) (e_col e - 1) then Ok []
        else
          let lnum := decz (e_line e) ++ b " | " in
          let indent := repeat " "%char (length lnum - 2) in
          match get_indicator line (e_col e) with
          | Panic => Panic
          | Ok ind =>
              Ok (indent ++ b "|" ++ [NL] ++ lnum ++ line ++ [NL] ++ indent ++ b "| " ++ ind ++ [NL])
          end
    end.

Definition pretty_print (e : err) (src : bytes) : res bytes :=
  match snippet_block e src with
  | Panic => Panic
  | Ok blk => Ok (concat (header_writes e) ++ blk)
  end.

(* GetTemplateFields: (Snippet, EndColumn); the other fields are copied *)
Definition template_fields (e : err) (src : bytes) : res (bytes * Z) :=
  if (Nat.ltb 0 (length src) && Z.ltb 0 (e_line e))%bool then
    match get_line src (e_line e) with
    | None => Ok ([], e_col e)
    | Some l =>
        if Z.geb (Z.of_nat (length l)) (e_col e - 1) then
          match get_indicator l (e_col e) with
          | Panic => Panic
          | Ok [] => Ok (l, e_col e)
          | Ok i => Ok (l ++ [NL] ++ i, Z.of_nat (length i))
          end
        else Ok (l, e_col e)
    end
  else Ok ([], e_col e).

(* Linter.printErrors: if l.oneline { src = nil }; for each error PrettyPrint *)
Fixpoint print_errors (oneline : bool) (es : list err) (src : bytes) : res bytes :=
  match es with
  | [] => Ok []
  | e :: es' =>
      match pretty_print e (if oneline then [] else src), print_errors oneline es' src with
      | Ok x, Ok y => Ok (x ++ y)
      | _, _ => Panic
      end
  end.

End Widths.
