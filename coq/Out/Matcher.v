(* Out/Matcher.v — the regular expression of the problem matcher shipped in
   .github/actionlint-matcher.json, implemented as a backtracking matcher with
   the leftmost-first (Perl/Go) semantics: lazy groups try the shortest
   prefix first, greedy ones the longest first.

   [shipped_pattern] is the JSON string value; the check compares it with the
   file of the current tree on every run (T).  On input without ESC bytes the
   optional colour groups (?:\x1b\[\d+m) can only match the empty string, so
   the pattern reads  ^(.+?):(\d+):(\d+): (.+?) \[(.+?)\]$  — that is what
   [matcher] implements; the correspondence check compares it with Go's
   regexp on the shipped pattern for ESC-free lines. *)
From AL Require Import Base.Str Out.Render.

Definition shipped_pattern : string :=
  "^(?:\x1b\[\d+m)?(.+?)(?:\x1b\[\d+m)*:(?:\x1b\[\d+m)*(\d+)(?:\x1b\[\d+m)*:(?:\x1b\[\d+m)*(\d+)(?:\x1b\[\d+m)*: (?:\x1b\[\d+m)*(.+?)(?:\x1b\[\d+m)* \[(.+?)\]$".

Definition is_digit (c : ascii) : bool :=
  let n := N_of_ascii c in (N.leb 48 n && N.leb n 57)%bool.

Section Combinators.
Context {R : Type}.

(* (.+?) K : shortest non-empty prefix (`.` does not match a line break) after which K succeeds *)
Fixpoint lazy_plus (pre s : bytes) (k : bytes -> bytes -> option R) : option R :=
  match s with
  | [] => None
  | c :: s' =>
      if is_nl c then None
      else match k (pre ++ [c]) s' with
           | Some r => Some r
           | None => lazy_plus (pre ++ [c]) s' k
           end
  end.

(* (\d+) K : longest run first, then shorter ones *)
Fixpoint greedy_digits (pre s : bytes) (k : bytes -> bytes -> option R) : option R :=
  match s with
  | [] => None
  | c :: s' =>
      if is_digit c then
        match greedy_digits (pre ++ [c]) s' k with
        | Some r => Some r
        | None => k (pre ++ [c]) s'
        end
      else None
  end.
End Combinators.

(* a literal *)
Fixpoint lit (p s : bytes) : option bytes :=
  match p, s with
  | [], _ => Some s
  | x :: p', y :: s' => if Ascii.eqb x y then lit p' s' else None
  | _ :: _, [] => None
  end.

Definition groups := (bytes * bytes * bytes * bytes * bytes)%type.   (* file, line, column, message, code *)

Definition k_kind (file line col msg : bytes) : bytes -> bytes -> option groups :=
  fun kind r => match r with
                | [c] => if Ascii.eqb c "]"%char then Some (file, line, col, msg, kind) else None
                | _ => None
                end.

Definition k_msg (file line col : bytes) : bytes -> bytes -> option groups :=
  fun msg r => match lit (b " [") r with
               | Some r' => lazy_plus [] r' (k_kind file line col msg)
               | None => None
               end.

Definition k_col (file line : bytes) : bytes -> bytes -> option groups :=
  fun col r => match lit (b ": ") r with
               | Some r' => lazy_plus [] r' (k_msg file line col)
               | None => None
               end.

Definition k_line (file : bytes) : bytes -> bytes -> option groups :=
  fun line r => match lit (b ":") r with
                | Some r' => greedy_digits [] r' (k_col file line)
                | None => None
                end.

Definition k_file : bytes -> bytes -> option groups :=
  fun file r => match lit (b ":") r with
                | Some r' => greedy_digits [] r' (k_line file)
                | None => None
                end.

Definition matcher (s : bytes) : option groups := lazy_plus [] s k_file.
