(* Out/PathsProofs.v — the string handed to the glob matcher of the `paths`
   configuration is the repository-root-relative path, for every working
   directory and every spelling of the argument (C15, second sentence). *)
From AL Require Import Base.Str Out.Paths.

Definition names (cs : list string) : Prop := forallb normal cs = true.
Definition clean_abs (p : path) : Prop := p_abs p = true /\ names (p_comps p).

Lemma normal_inv c : normal c = true -> is_empty c = false /\ is_dot c = false /\ is_dotdot c = false.
Proof.
  unfold normal. intro H. apply negb_true_iff in H.
  apply orb_false_iff in H. destruct H as [H H3]. apply orb_false_iff in H. tauto.
Qed.

Lemma names_cons c cs : names (c :: cs) <-> normal c = true /\ names cs.
Proof. unfold names. cbn [forallb]. rewrite andb_true_iff. tauto. Qed.

Lemma names_app a b : names (a ++ b) <-> names a /\ names b.
Proof. unfold names. rewrite forallb_app, andb_true_iff. tauto. Qed.

Lemma names_rev a : names a -> names (rev a).
Proof.
  induction a as [|c a IH]; intro H; [exact H|].
  apply names_cons in H. destruct H as [Hc Ha]. cbn [rev].
  apply names_app. split; [auto|]. apply names_cons. split; [exact Hc|reflexivity].
Qed.

(* Clean leaves a list of names alone (it only pushes) *)
Lemma clean_go_names abs cs : names cs -> forall st, clean_go abs st cs = rev st ++ cs.
Proof.
  induction cs as [|c cs IH]; intros H st.
  - cbn [clean_go]. now rewrite app_nil_r.
  - apply names_cons in H. destruct H as [Hc Hcs].
    destruct (normal_inv _ Hc) as (E1 & E2 & E3).
    cbn [clean_go]. rewrite E1, E2, E3. cbn [orb].
    rewrite IH by assumption. cbn [rev]. now rewrite <- app_assoc.
Qed.

Lemma clean_go_app_names abs xs rest st :
  names xs -> clean_go abs st (xs ++ rest) = clean_go abs (rev xs ++ st) rest.
Proof.
  revert st. induction xs as [|c xs IH]; intros st H; [reflexivity|].
  apply names_cons in H. destruct H as [Hc Hxs].
  destruct (normal_inv _ Hc) as (E1 & E2 & E3).
  cbn [app clean_go]. rewrite E1, E2, E3. cbn [orb].
  rewrite IH by assumption. cbn [rev]. now rewrite <- app_assoc.
Qed.

(* n times ".." pops n names *)
Lemma clean_go_pop ys st rest :
  names ys -> clean_go true (ys ++ st) (repeat ".." (length ys) ++ rest) = clean_go true st rest.
Proof.
  induction ys as [|y ys IH]; intro H; [reflexivity|].
  apply names_cons in H. destruct H as [Hy Hys].
  destruct (normal_inv _ Hy) as (_ & _ & E3).
  cbn [length repeat app clean_go]. cbn. rewrite E3. apply IH. exact Hys.
Qed.

(* an absolute cleaned path consists of names only *)
Lemma clean_go_true_names cs : forall st, names st -> names (clean_go true st cs).
Proof.
  induction cs as [|c cs IH]; intros st H.
  - cbn [clean_go]. now apply names_rev.
  - cbn [clean_go].
    destruct (is_empty c || is_dot c) eqn:E1; [now apply IH|].
    destruct (is_dotdot c) eqn:E2.
    + destruct st as [|top st'].
      * now apply IH.
      * apply names_cons in H. destruct H as [Ht Hst].
        destruct (normal_inv _ Ht) as (_ & _ & E3). rewrite E3. now apply IH.
    + apply IH. apply names_cons. split; [|exact H].
      unfold normal. apply orb_false_iff in E1. destruct E1 as [Ea Eb].
      now rewrite Ea, Eb, E2.
Qed.

Lemma clean_of_clean_abs p : clean_abs p -> clean p = p.
Proof.
  destruct p as [a cs]. intros [Ha Hn]. cbn in Ha, Hn. subst a.
  unfold clean. cbn [p_abs p_comps]. now rewrite clean_go_names.
Qed.

Lemma abs_path_clean_abs cwd p : clean_abs cwd -> clean_abs (abs_path cwd p).
Proof.
  intros [Hc Hn]. unfold abs_path.
  destruct (p_abs p) eqn:Ep.
  - unfold clean, clean_abs. cbn [p_abs p_comps]. rewrite Ep. split; [reflexivity|].
    now apply clean_go_true_names.
  - unfold join2, clean, clean_abs. cbn [p_abs p_comps]. rewrite Hc. split; [reflexivity|].
    now apply clean_go_true_names.
Qed.

Lemma strip_common_spec b t b' t' :
  strip_common b t = (b', t') -> exists c, b = c ++ b' /\ t = c ++ t'.
Proof.
  revert t. induction b as [|x b IH]; intros t H.
  - cbn in H. inversion H. now exists [].
  - destruct t as [|y t]; [cbn in H; inversion H; now exists []|].
    cbn [strip_common] in H. destruct (String.eqb x y) eqn:E.
    + apply String.eqb_eq in E. subst y. destruct (IH _ H) as (c & -> & ->). now exists (x :: c).
    + inversion H. now exists [].
Qed.

Lemma strip_common_app r s : strip_common r (r ++ s) = ([], s).
Proof.
  induction r as [|x r IH]; [now destruct s|].
  cbn [app strip_common]. now rewrite String.eqb_refl.
Qed.

Lemma existsb_dotdot_names l : names l -> existsb is_dotdot l = false.
Proof.
  induction l as [|c l IH]; intro H; [reflexivity|].
  apply names_cons in H. destruct H as [Hc Hl].
  destruct (normal_inv _ Hc) as (_ & _ & E3). cbn [existsb]. now rewrite E3, IH.
Qed.

(* Rel of two absolute clean paths, and Join(base, that) brings the target back *)
Lemma rel_join_roundtrip base targ :
  clean_abs base -> clean_abs targ ->
  exists r, rel_path base targ = Some r /\ p_abs r = false /\ join2 base r = targ.
Proof.
  intros Hb Ht. unfold rel_path.
  rewrite (clean_of_clean_abs _ Hb), (clean_of_clean_abs _ Ht).
  destruct base as [ba bc], targ as [ta tc]. destruct Hb as [Hb1 Hb2], Ht as [Ht1 Ht2].
  cbn [p_abs p_comps] in *. subst ba ta. cbn [Bool.eqb negb].
  destruct (strip_common bc tc) as [b' t'] eqn:E.
  destruct (strip_common_spec _ _ _ _ E) as (c & -> & ->).
  apply names_app in Hb2. destruct Hb2 as [Hc Hb'].
  apply names_app in Ht2. destruct Ht2 as [_ Ht'].
  rewrite (existsb_dotdot_names _ Hb').
  eexists. split; [reflexivity|]. split; [reflexivity|].
  unfold join2, clean. cbn [p_abs p_comps]. f_equal.
  rewrite <- app_assoc.
  rewrite clean_go_app_names by assumption. rewrite app_nil_r.
  rewrite clean_go_app_names by assumption.
  rewrite <- (rev_length b').
  rewrite clean_go_pop by now apply names_rev.
  rewrite clean_go_names by assumption. now rewrite rev_involutive.
Qed.

(* ---- C15: the `paths` globs see the root-relative path ------------------ *)

Theorem path_applicability : forall cwd root arg suffix,
  clean_abs cwd -> clean_abs root ->
  abs_path cwd arg = mkPath true (p_comps root ++ suffix) ->
  cfg_path cwd root arg = mkPath false suffix.
Proof.
  intros cwd root arg suffix Hcwd Hroot HA.
  pose proof (abs_path_clean_abs cwd arg Hcwd) as HAc.
  assert (Hp : (let sp := shown_path cwd arg in
                abs_path cwd (if p_abs sp then sp else join2 cwd sp)) = abs_path cwd arg).
  { unfold shown_path. destruct (p_abs arg) eqn:Ea.
    - (* absolute argument: shortened by Rel, brought back by Join *)
      assert (Hclean : clean_abs (clean arg)).
      { unfold abs_path in HAc. now rewrite Ea in HAc. }
      destruct (rel_join_roundtrip cwd (clean arg) Hcwd Hclean) as (r & Hr & Hrabs & Hj).
      assert (Hrel : rel_path cwd arg = Some r).
      { unfold rel_path in *. rewrite (clean_of_clean_abs _ Hclean) in Hr. exact Hr. }
      rewrite Hrel. cbn zeta. rewrite Hrabs, Hj.
      unfold abs_path at 2. rewrite Ea.
      unfold abs_path. destruct Hclean as [H1 H2]. rewrite H1.
      apply clean_of_clean_abs. now split.
    - (* relative argument: Rel(cwd, arg) fails, the path stays as spelled *)
      assert (Hrel : rel_path cwd arg = None).
      { unfold rel_path. rewrite (clean_of_clean_abs _ Hcwd).
        destruct Hcwd as [Hc _]. rewrite Hc. unfold clean at 1. cbn [p_abs]. now rewrite Ea. }
      rewrite Hrel. cbn zeta. rewrite Ea.
      assert (Hj : clean_abs (join2 cwd arg)).
      { unfold abs_path in HAc. now rewrite Ea in HAc. }
      unfold abs_path at 1. destruct Hj as [H1 H2]. rewrite H1.
      unfold abs_path. rewrite Ea. apply clean_of_clean_abs. now split. }
  unfold cfg_path. cbn zeta in Hp. rewrite Hp, HA.
  unfold rel_path. rewrite (clean_of_clean_abs _ Hroot).
  rewrite HA in HAc. rewrite (clean_of_clean_abs _ HAc).
  destruct Hroot as [Hr1 Hr2]. rewrite Hr1. cbn [p_abs p_comps Bool.eqb negb].
  rewrite strip_common_app. cbn [existsb length repeat app]. reflexivity.
Qed.

(* independence of the working directory and of the spelling *)
Corollary cfg_path_cwd_independent : forall cwd1 cwd2 root arg1 arg2 suffix,
  clean_abs cwd1 -> clean_abs cwd2 -> clean_abs root ->
  abs_path cwd1 arg1 = mkPath true (p_comps root ++ suffix) ->
  abs_path cwd2 arg2 = mkPath true (p_comps root ++ suffix) ->
  cfg_path cwd1 root arg1 = cfg_path cwd2 root arg2.
Proof.
  intros. rewrite (path_applicability cwd1 root arg1 suffix), (path_applicability cwd2 root arg2 suffix); auto.
Qed.

(* the hypotheses are satisfiable: /w/repo, cwd /w/repo/.github, argument ../.github/./workflows//a.yml *)
Example path_applicability_nonvacuous :
  let cwd := mkPath true ["w"; "repo"; ".github"] in
  let root := mkPath true ["w"; "repo"] in
  let arg := mkPath false [".."; ".github"; "."; "workflows"; ""; "a.yml"] in
  clean_abs cwd /\ clean_abs root /\
  abs_path cwd arg = mkPath true (p_comps root ++ [".github"; "workflows"; "a.yml"]) /\
  cfg_path cwd root arg = mkPath false [".github"; "workflows"; "a.yml"].
Proof. vm_compute. repeat split; reflexivity. Qed.

(* the pinned code (before the fix) handed over the cwd-relative path *)
Lemma path_applicability_old_refuted : exists cwd root arg suffix,
  clean_abs cwd /\ clean_abs root /\
  abs_path cwd arg = mkPath true (p_comps root ++ suffix) /\
  cfg_path_old cwd root arg <> mkPath false suffix.
Proof.
  exists (mkPath true ["w"; "repo"; ".github"; "workflows"]), (mkPath true ["w"; "repo"]),
         (mkPath false ["a.yml"]), [".github"; "workflows"; "a.yml"].
  vm_compute. repeat split; try reflexivity. discriminate.
Qed.
