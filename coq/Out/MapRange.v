(* Out/MapRange.v — every `for ... range <map>` loop of the package is one whose result does not
   depend on the order in which Go visits the map.  The loops are listed from the source on every
   run (Gen/GenMapRange.v, harness/cmd/c02/maprange.go: go/parser + go/types); here each listed
   loop is shown to be one of the loops that were read and classified by hand:

     KeysSorted  the entries (or their keys) are collected and SORTED (by name, or by source
                 position) before anything observable happens        -> [site_sorted_det], [by_position_det]
     Pure        the loop computes a value that is the same for every order: a copy, a set or a
                 map with one assignment per distinct key, a conjunction / disjunction over
                 the entries, the minimum of distinct positions        -> [fold_comm_perm]
     DistinctPos one check per entry; whatever it reports lies inside that entry's own source
                 text, so two entries never report at one position and the final stable sort
                 by position erases the visiting order                  -> [site_range_det_distinct]
     FoldMerge   ObjectType.Merge: the properties are merged per distinct key (Pure); the
                 element type `Mapped` is folded with Merge over the new properties, which is
                 order independent because every element type of the tables is string (or any):
                 [fold_merge_str_perm]; for an arbitrary start it is not ([fold_merge_order_matters])
     NotAMap     the operand comes from an imported package (yaml.Node.Content, a regexp match,
                 a string): a slice or a string, not a map

   Each entry carries a hash of the loop BODY as it was when it was read (the class is a statement
   about the body).  A new loop, a second loop over the same expression in the same function, or
   an edited body makes [map_range_sites_known_b] fail: the loop has to be read again.  The classification itself is part of the trusted base. *)
From AL Require Import Base.Str Base.AList Expr.Types Gen.GenMapRange.
From Coq Require Import Permutation.

Inductive range_class := KeysSorted | Pure | DistinctPos | FoldMerge | NotAMap.

Definition allowed : list (string * string * string * N * string * range_class) := [
  ("ast.go", "RawYAMLObject.Equals", "o.Props", 0%N, "3632aeb6", Pure);
  ("ast.go", "RawYAMLObject.String", "o.Props", 0%N, "494d9e57", KeysSorted);
  ("config.go", "Config.PathConfigs", "cfg.Paths", 0%N, "51551126", Pure);
  ("config.go", "IgnorePatterns.UnmarshalYAML", "?untyped: n.Content", 0%N, "-", NotAMap);
  ("error.go", "NewErrorFormatter", "r", 0%N, "ed997a5c", KeysSorted);
  ("error.go", "toPascalCase", "?untyped: s", 0%N, "-", NotAMap);
  ("error.go", "toPascalCase", "?untyped: ss", 0%N, "-", NotAMap);
  ("expr_insecure.go", "UntrustedInputChecker.onObjectFilter", "cur.Children", 0%N, "44e91f8c", Pure);
  ("expr_sema.go", "ExprSemanticsChecker.UpdateDispatchInputs", "ty.Props", 0%N, "97bb5cb9", Pure);
  ("expr_sema.go", "ExprSemanticsChecker.UpdateSecrets", "ty.Props", 0%N, "6cdbce94", Pure);
  ("expr_sema.go", "ExprSemanticsChecker.checkArrayDeref", "ty.Props", 0%N, "51186f54", Pure);
  ("expr_sema.go", "ExprSemanticsChecker.checkBuiltinFuncCall", "holders", 0%N, "7ff1a9f8", KeysSorted);
  ("expr_sema.go", "ExprSemanticsChecker.checkFuncCall", "sema.funcs", 0%N, "89753c73", KeysSorted);
  ("expr_sema.go", "ExprSemanticsChecker.checkVariable", "sema.vars", 0%N, "89753c73", KeysSorted);
  ("expr_sema.go", "ExprSemanticsChecker.ensureVarsCopied", "sema.vars", 0%N, "ebe29899", Pure);
  ("expr_type.go", "ObjectType.Assignable", "other.Props", 0%N, "d1160a1e", Pure);
  ("expr_type.go", "ObjectType.Assignable", "other.Props", 1%N, "70d65860", Pure);
  ("expr_type.go", "ObjectType.Assignable", "ty.Props", 0%N, "1376b96f", Pure);
  ("expr_type.go", "ObjectType.DeepCopy", "ty.Props", 0%N, "0e72bd62", Pure);
  ("expr_type.go", "ObjectType.Merge", "other.Props", 0%N, "360eab31", FoldMerge);
  ("expr_type.go", "ObjectType.Merge", "ty.Props", 0%N, "9526b5f8", Pure);
  ("expr_type.go", "ObjectType.String", "ty.Props", 0%N, "448f0f8b", KeysSorted);
  ("expr_type.go", "typeOfJSONValue", "v", 0%N, "942287a2", KeysSorted);
  ("parse.go", "handleYAMLError", "?untyped: te.Errors", 0%N, "-", NotAMap);
  ("parse.go", "parser.parseEvents", "?untyped: n.Content", 0%N, "-", NotAMap);
  ("parse.go", "parser.parseMatrix", "?untyped: kv.val.Content", 0%N, "-", NotAMap);
  ("parse.go", "parser.parseMatrixCombinations", "?untyped: n.Content", 0%N, "-", NotAMap);
  ("parse.go", "parser.parseRawYAMLValue", "?untyped: n.Content", 0%N, "-", NotAMap);
  ("parse.go", "parser.parseScheduleEvent", "?untyped: n.Content", 0%N, "-", NotAMap);
  ("parse.go", "parser.parseSteps", "?untyped: n.Content", 0%N, "-", NotAMap);
  ("parse.go", "parser.parseStringSequence", "?untyped: n.Content", 0%N, "-", NotAMap);
  ("pass.go", "Visitor.Visit", "n.Jobs", 0%N, "7ce2eff7", KeysSorted);
  ("reusable_workflow.go", "LocalReusableWorkflowCache.WriteWorkflowCallEvent", "event.Outputs", 0%N, "f75ee667", Pure);
  ("reusable_workflow.go", "LocalReusableWorkflowCache.WriteWorkflowCallEvent", "event.Secrets", 0%N, "7b25a65f", Pure);
  ("reusable_workflow.go", "parseReusableWorkflowMetadata", "?untyped: n.Content", 0%N, "-", NotAMap);
  ("rule_action.go", "RuleAction.checkAction", "exec.Inputs", 0%N, "7847db3a", DistinctPos);
  ("rule_action.go", "RuleAction.checkAction", "meta.Inputs", 0%N, "da536ae3", KeysSorted);
  ("rule_action.go", "RuleAction.checkAction", "meta.Inputs", 1%N, "4ea7a1be", KeysSorted);
  ("rule_action.go", "RuleAction.checkAction", "meta.Inputs", 2%N, "9847eb36", KeysSorted);
  ("rule_credentials.go", "RuleCredentials.VisitJobPre", "n.Services.Value", 0%N, "c42780df", DistinctPos);
  ("rule_deprecated_commands.go", "RuleDeprecatedCommands.VisitStep", "?untyped: deprecatedCommandsPattern.FindAllStringSubmatch(r.Run.Value, -1)", 0%N, "-", NotAMap);
  ("rule_env_var.go", "RuleEnvVar.VisitJobPre", "n.Services.Value", 0%N, "61a0adc4", DistinctPos);
  ("rule_env_var.go", "RuleEnvVar.checkEnv", "env.Vars", 0%N, "32ae5842", DistinctPos);
  ("rule_events.go", "RuleEvents.checkWorkflowDispatchEvent", "event.Inputs", 0%N, "b4e75c58", DistinctPos);
  ("rule_expression.go", "RuleExpression.VisitJobPost", "n.Outputs", 0%N, "71409529", DistinctPos);
  ("rule_expression.go", "RuleExpression.VisitJobPre", "n.Services.Value", 0%N, "6591cc09", DistinctPos);
  ("rule_expression.go", "RuleExpression.VisitStep", "e.Inputs", 0%N, "e03a7e8d", DistinctPos);
  ("rule_expression.go", "RuleExpression.VisitWorkflowPre", "e.Inputs", 0%N, "981574aa", DistinctPos);
  ("rule_expression.go", "RuleExpression.VisitWorkflowPre", "e.Outputs", 0%N, "a5e1850e", DistinctPos);
  ("rule_expression.go", "RuleExpression.VisitWorkflowPre", "e.Secrets", 0%N, "9c5efeae", DistinctPos);
  ("rule_expression.go", "RuleExpression.checkEnv", "env.Vars", 0%N, "3197e653", DistinctPos);
  ("rule_expression.go", "RuleExpression.checkMatrix", "combi.Assigns", 0%N, "7aeaa4d0", DistinctPos);
  ("rule_expression.go", "RuleExpression.checkMatrix", "combi.Assigns", 1%N, "5249e955", DistinctPos);
  ("rule_expression.go", "RuleExpression.checkMatrix", "m.Rows", 0%N, "bf35e80d", DistinctPos);
  ("rule_expression.go", "RuleExpression.checkMatrix", "merged.Props", 0%N, "4823410c", Pure);
  ("rule_expression.go", "RuleExpression.checkMatrixExpression", "matTy.Props", 0%N, "4823410c", Pure);
  ("rule_expression.go", "RuleExpression.checkMatrixExpression", "o.Props", 0%N, "63b6238b", Pure);
  ("rule_expression.go", "RuleExpression.checkRawYAMLValue", "v.Props", 0%N, "488f7c1f", DistinctPos);
  ("rule_expression.go", "RuleExpression.checkWorkflowCall", "c.Inputs", 0%N, "85c53756", DistinctPos);
  ("rule_expression.go", "RuleExpression.checkWorkflowCall", "c.Secrets", 0%N, "a5de8f72", DistinctPos);
  ("rule_expression.go", "RuleExpression.checkWorkflowCallOutputs", "j.Outputs", 0%N, "97bb5cb9", Pure);
  ("rule_expression.go", "RuleExpression.checkWorkflowCallOutputs", "jobs", 0%N, "a1edf340", Pure);
  ("rule_expression.go", "RuleExpression.checkWorkflowCallOutputs", "outputs", 0%N, "815c5338", DistinctPos);
  ("rule_expression.go", "RuleExpression.getWorkflowCallOutputsType", "m.Outputs", 0%N, "97bb5cb9", Pure);
  ("rule_expression.go", "RuleExpression.populateDependantNeedsTypes", "j.Outputs", 0%N, "49d80564", Pure);
  ("rule_expression.go", "typeOfActionOutputs", "meta.Outputs", 0%N, "5f3f4e08", Pure);
  ("rule_job_needs.go", "RuleJobNeeds.VisitWorkflowPost", "edges", 0%N, "d6904da7", Pure);
  ("rule_job_needs.go", "RuleJobNeeds.VisitWorkflowPost", "rule.nodes", 0%N, "fba81a7b", DistinctPos);
  ("rule_job_needs.go", "detectFirstCycle", "nodes", 0%N, "4745d5bb", KeysSorted);
  ("rule_matrix.go", "RuleMatrix.VisitJobPre", "m.Rows", 0%N, "09680204", DistinctPos);
  ("rule_matrix.go", "RuleMatrix.checkExclude", "c.Assigns", 0%N, "7979c51b", Pure);
  ("rule_matrix.go", "RuleMatrix.checkExclude", "c.Assigns", 1%N, "7eac8842", DistinctPos);
  ("rule_matrix.go", "RuleMatrix.checkExclude", "m.Rows", 0%N, "43bc1462", Pure);
  ("rule_matrix.go", "RuleMatrix.checkExclude", "rows", 0%N, "fd741afe", KeysSorted);
  ("rule_matrix.go", "isYAMLValueSubset", "sub.Props", 0%N, "edfdfa69", Pure);
  ("rule_permissions.go", "RulePermissions.checkPermissions", "allPermissionScopes", 0%N, "23fa98f6", KeysSorted);
  ("rule_permissions.go", "RulePermissions.checkPermissions", "p.Scopes", 0%N, "ecf1e1c9", DistinctPos);
  ("rule_runner_label.go", "RuleRunnerLabel.checkConflict", "rule.compats", 0%N, "7b209986", KeysSorted);
  ("rule_workflow_call.go", "RuleWorkflowCall.checkWorkflowCallUsesLocal", "call.Inputs", 0%N, "3a150f0f", DistinctPos);
  ("rule_workflow_call.go", "RuleWorkflowCall.checkWorkflowCallUsesLocal", "call.Secrets", 0%N, "15559ed1", DistinctPos);
  ("rule_workflow_call.go", "RuleWorkflowCall.checkWorkflowCallUsesLocal", "m.Inputs", 0%N, "153576bb", KeysSorted);
  ("rule_workflow_call.go", "RuleWorkflowCall.checkWorkflowCallUsesLocal", "m.Secrets", 0%N, "cbf2d7f5", KeysSorted);
  ("rule_workflow_call.go", "sortedMapKeys", "m", 0%N, "18c5873e", KeysSorted)
].

Definition site_eqb (a : string * string * string * N * string) (b : string * string * string * N * string * range_class) : bool :=
  let '(f, g, e, k, h) := a in let '(f', g', e', k', h', _) := b in
  String.eqb f f' && String.eqb g g' && String.eqb e e' && N.eqb k k' && String.eqb h h'.

Definition known (s : string * string * string * N * string) : bool := existsb (site_eqb s) allowed.

Lemma map_range_sites_known_b : forallb known map_range_sites = true.
Proof. vm_compute. reflexivity. Qed.

Lemma site_eqb_eq a b : site_eqb a b = true -> fst b = a.
Proof.
  destruct a as [[[[f g] e] k] h], b as [[[[[f' g'] e'] k'] h'] c]. cbn.
  rewrite !Bool.andb_true_iff, !String.eqb_eq, N.eqb_eq. intros [[[[-> ->] ->] ->] ->]. reflexivity.
Qed.

(* every loop over a map in the source is a classified one *)
Theorem map_range_sites_known s : In s map_range_sites -> exists c, In (s, c) allowed.
Proof.
  intros H. pose proof map_range_sites_known_b as A. rewrite forallb_forall in A.
  specialize (A s H). unfold known in A. rewrite existsb_exists in A.
  destruct A as [[s' c] [Hin He]]. apply site_eqb_eq in He. cbn in He. subst s'. now exists c.
Qed.

(* non-vacuity: the list taken from the source has loops of the interesting classes *)
Example map_range_sites_nonempty :
  existsb (fun s => String.eqb (snd (fst (fst s))) "rule.compats") map_range_sites = true /\
  existsb (fun s => String.eqb (snd (fst (fst s))) "exec.Inputs") map_range_sites = true.
Proof. split; vm_compute; reflexivity. Qed.

(* ---- Pure: a fold whose step commutes is the same for every visiting order ---- *)
Lemma fold_comm_perm {A B} (f : B -> A -> B) :
  (forall b x y, f (f b x) y = f (f b y) x) ->
  forall l l', Permutation l l' -> forall b, fold_left f l b = fold_left f l' b.
Proof.
  intros Hc l l' P. induction P as [|x l l' P IH|x y l|l l' l'' P1 IH1 P2 IH2]; intros b; cbn.
  - reflexivity.
  - apply IH.
  - now rewrite Hc.
  - now rewrite IH1.
Qed.

(* instances used by the classification: conjunction, disjunction, one assignment per distinct key *)
Corollary all_perm {A} (p : A -> bool) l l' : Permutation l l' -> forallb p l = forallb p l'.
Proof.
  intros P. induction P as [|x l l' P IH|x y l|l l' l'' P1 IH1 P2 IH2]; cbn; try congruence.
  now rewrite !Bool.andb_assoc, (Bool.andb_comm (p y)).
Qed.

Corollary any_perm {A} (p : A -> bool) l l' : Permutation l l' -> existsb p l = existsb p l'.
Proof.
  intros P. induction P as [|x l l' P IH|x y l|l l' l'' P1 IH1 P2 IH2]; cbn; try congruence.
  now rewrite !Bool.orb_assoc, (Bool.orb_comm (p y)).
Qed.

(* ---- FoldMerge: the element type of a merged object ---- *)
Definition str_like (t : ty) : bool := match t with TStr | TNum | TBool => true | _ => false end.

Lemma merge_any_l t : merge TAny t = TAny.
Proof. destruct t; reflexivity. Qed.

Lemma merge_str_l t : merge TStr t = if str_like t then TStr else TAny.
Proof. destruct t; reflexivity. Qed.

Lemma fold_merge_any xs : fold_left merge xs TAny = TAny.
Proof. induction xs as [|x xs IH]; cbn [fold_left]; [reflexivity|now rewrite merge_any_l]. Qed.

Lemma fold_merge_str xs : fold_left merge xs TStr = if forallb str_like xs then TStr else TAny.
Proof.
  induction xs as [|x xs IH]; [reflexivity|].
  cbn [fold_left forallb]. rewrite merge_str_l. destruct (str_like x); cbn.
  - exact IH.
  - apply fold_merge_any.
Qed.

(* started from string (every element type of the built-in tables: env, secrets, vars, outputs,
   ports, ...) or from any, the fold does not depend on the order of the new properties *)
Theorem fold_merge_str_perm xs ys : Permutation xs ys -> fold_left merge xs TStr = fold_left merge ys TStr.
Proof. intros P. now rewrite !fold_merge_str, (all_perm str_like xs ys P). Qed.

Theorem fold_merge_any_perm xs ys : Permutation xs ys -> fold_left merge xs TAny = fold_left merge ys TAny.
Proof. intros _. now rewrite !fold_merge_any. Qed.

(* ... which is a property of these two starts, not of Merge: it is not associative *)
Theorem fold_merge_order_matters :
  exists xs ys, Permutation xs ys /\ fold_left merge xs TNum <> fold_left merge ys TNum.
Proof.
  exists [TBool; TStr], [TStr; TBool]. split; [apply perm_swap|]. cbn. discriminate.
Qed.
