(* Out/StableSort.v — the final `sort.Stable(ByErrorPosition(all))` of
   linter.go, modelled as a stable insertion sort.  [ssort_unique] shows that
   the result of stable sorting is a function of the per-key sub-sequences
   only, so every stable sorting algorithm (Go's included) computes it. *)
From Coq Require Import List Bool Arith NArith Permutation Lia.
Import ListNotations.

Section StableSort.
Context {A K : Type}.
Variable key : A -> K.
Variable leb : K -> K -> bool.
Hypothesis leb_total : forall a b, leb a b = true \/ leb b a = true.
Hypothesis leb_trans : forall a b c, leb a b = true -> leb b c = true -> leb a c = true.

Definition keqb (a b : K) : bool := leb a b && leb b a.

(* x is inserted in front of the first element whose key is >= key x; since
   [ssort] inserts the elements from the right end of the list, an earlier
   element ends up in front of later elements with an equal key. *)
Fixpoint sinsert (x : A) (l : list A) : list A :=
  match l with
  | [] => [x]
  | y :: l' => if leb (key x) (key y) then x :: l else y :: sinsert x l'
  end.

Definition ssort (l : list A) : list A := fold_right sinsert [] l.

Inductive sorted : list A -> Prop :=
| sorted_nil : sorted []
| sorted_one x : sorted [x]
| sorted_cons x y l : leb (key x) (key y) = true -> sorted (y :: l) -> sorted (x :: y :: l).

Definition with_key (k : K) (l : list A) : list A := filter (fun x => keqb (key x) k) l.

Lemma sinsert_perm x l : Permutation (x :: l) (sinsert x l).
Proof.
  induction l as [|y l IH]; cbn; [reflexivity|].
  destruct (leb (key x) (key y)); [reflexivity|].
  rewrite perm_swap. now constructor.
Qed.

Theorem ssort_perm l : Permutation l (ssort l).
Proof.
  induction l as [|x l IH]; cbn; [constructor|].
  rewrite <- sinsert_perm. now constructor.
Qed.

Lemma leb_false_flip a b : leb a b = false -> leb b a = true.
Proof. intros H. destruct (leb_total a b) as [H1|H1]; congruence. Qed.

Lemma sinsert_sorted x l : sorted l -> sorted (sinsert x l).
Proof.
  induction 1 as [|y|y z l Hyz Hs IH]; cbn.
  - constructor.
  - destruct (leb (key x) (key y)) eqn:E.
    + constructor; [assumption|constructor].
    + constructor; [now apply leb_false_flip|constructor].
  - destruct (leb (key x) (key y)) eqn:E.
    + constructor; [assumption|now constructor].
    + cbn in IH. destruct (leb (key x) (key z)) eqn:E2.
      * constructor; [now apply leb_false_flip|]. constructor; assumption.
      * constructor; assumption.
Qed.

Theorem ssort_sorted l : sorted (ssort l).
Proof. induction l as [|x l IH]; cbn; [constructor|now apply sinsert_sorted]. Qed.

Lemma leb_refl k : leb k k = true.
Proof. destruct (leb_total k k); assumption. Qed.

Lemma keqb_refl k : keqb k k = true.
Proof. unfold keqb. now rewrite leb_refl. Qed.

Lemma keqb_sym a b : keqb a b = keqb b a.
Proof. unfold keqb. apply andb_comm. Qed.

Lemma keqb_leb_l a b k : keqb a k = true -> leb a b = leb k b.
Proof.
  unfold keqb. intros H. apply andb_prop in H. destruct H as [H1 H2].
  destruct (leb a b) eqn:E1, (leb k b) eqn:E2; try reflexivity.
  - rewrite (leb_trans k a b H2 E1) in E2. discriminate.
  - rewrite (leb_trans a k b H1 E2) in E1. discriminate.
Qed.

Lemma keqb_leb_r a b k : keqb b k = true -> leb a b = leb a k.
Proof.
  unfold keqb. intros H. apply andb_prop in H. destruct H as [H1 H2].
  destruct (leb a b) eqn:E1, (leb a k) eqn:E2; try reflexivity.
  - rewrite (leb_trans a b k E1 H1) in E2. discriminate.
  - rewrite (leb_trans a k b E2 H2) in E1. discriminate.
Qed.

(* inserting x puts it in front of the elements that have its key and does
   not disturb the sub-sequence of any other key *)
Lemma sinsert_with_key x l k :
  with_key k (sinsert x l) = if keqb (key x) k then x :: with_key k l else with_key k l.
Proof.
  unfold with_key.
  induction l as [|y l IH]; cbn.
  - destruct (keqb (key x) k); reflexivity.
  - destruct (leb (key x) (key y)) eqn:E; cbn.
    + destruct (keqb (key x) k); reflexivity.
    + rewrite IH. destruct (keqb (key x) k) eqn:Ex, (keqb (key y) k) eqn:Ey; try reflexivity.
      exfalso. rewrite (keqb_leb_l _ _ _ Ex), (keqb_leb_r _ _ _ Ey), leb_refl in E. discriminate.
Qed.

(* stability *)
Theorem ssort_stable l k : with_key k (ssort l) = with_key k l.
Proof.
  induction l as [|x l IH]; [reflexivity|].
  change (ssort (x :: l)) with (sinsert x (ssort l)).
  rewrite sinsert_with_key, IH. reflexivity.
Qed.

Lemma sorted_tail x l : sorted (x :: l) -> sorted l.
Proof. intros H; inversion H; subst; [constructor|assumption]. Qed.

Lemma sorted_head_le x l : sorted (x :: l) -> forall z, In z l -> leb (key x) (key z) = true.
Proof.
  revert x; induction l as [|y l IH]; intros x H z I; [destruct I|].
  inversion H as [| |? ? ? Hxy Hs]; subst.
  destruct I as [->|I]; [assumption|].
  eapply leb_trans; [exact Hxy|]. now apply IH.
Qed.

Lemma with_key_nil_of_lt k l :
  (forall z, In z l -> keqb (key z) k = false) -> with_key k l = [].
Proof.
  induction l as [|y l IH]; intros H; cbn; [reflexivity|].
  rewrite (H y (or_introl eq_refl)). apply IH. intros z I. apply H. now right.
Qed.

(* two sorted lists with the same per-key sub-sequences are equal *)
Theorem sorted_unique l1 : forall l2, sorted l1 -> sorted l2 ->
  (forall k, with_key k l1 = with_key k l2) -> l1 = l2.
Proof.
  induction l1 as [|x l1 IH]; intros l2 S1 S2 H.
  - destruct l2 as [|y l2]; [reflexivity|].
    specialize (H (key y)). cbn in H. rewrite keqb_refl in H. discriminate.
  - destruct l2 as [|y l2].
    { specialize (H (key x)). cbn in H. rewrite keqb_refl in H. discriminate. }
    assert (x = y) as ->.
    { destruct (keqb (key y) (key x)) eqn:E.
      - specialize (H (key x)). cbn in H. rewrite keqb_refl, E in H. now inversion H.
      - exfalso. unfold keqb in E.
        destruct (leb (key y) (key x)) eqn:Eyx.
        + (* key y < key x strictly: nothing in x :: l1 has key y *)
          cbn in E.
          specialize (H (key y)). cbn in H. rewrite keqb_refl in H.
          assert (with_key (key y) (x :: l1) = []) as Hn.
          { apply with_key_nil_of_lt. intros z I. unfold keqb.
            assert (leb (key x) (key z) = true) as Hxz.
            { destruct I as [->|I]; [apply leb_refl|now apply (sorted_head_le x l1)]. }
            destruct (leb (key z) (key y)) eqn:Ezy; [|reflexivity].
            exfalso. rewrite (leb_trans _ _ _ Hxz Ezy) in E. discriminate. }
          cbn in Hn. rewrite Hn in H. discriminate.
        + (* key x < key y strictly: nothing in y :: l2 has key x *)
          specialize (H (key x)). cbn in H. rewrite keqb_refl in H.
          assert (with_key (key x) (y :: l2) = []) as Hn.
          { apply with_key_nil_of_lt. intros z I. unfold keqb.
            assert (leb (key y) (key z) = true) as Hyz.
            { destruct I as [->|I]; [apply leb_refl|now apply (sorted_head_le y l2)]. }
            destruct (leb (key z) (key x)) eqn:Ezx; [|reflexivity].
            exfalso. rewrite (leb_trans _ _ _ Hyz Ezx) in Eyx. discriminate. }
          cbn in Hn. rewrite Hn in H. discriminate. }
    f_equal. apply IH; [eapply sorted_tail; eauto|eapply sorted_tail; eauto|].
    intros k. specialize (H k). cbn in H.
    destruct (keqb (key y) k); [now inversion H|assumption].
Qed.

(* C02: the final stable sort erases every re-ordering of the collected
   diagnostics that keeps the diagnostics of each position in the same
   relative order. *)
Theorem ssort_unique l l' :
  (forall k, with_key k l = with_key k l') -> ssort l = ssort l'.
Proof.
  intros H. apply sorted_unique; try apply ssort_sorted.
  intros k. now rewrite !ssort_stable.
Qed.

(* and it is idempotent *)
Theorem ssort_idem l : ssort (ssort l) = ssort l.
Proof. apply ssort_unique. intros k. apply ssort_stable. Qed.

End StableSort.

(* --- instance: positions (line, column), ByErrorPosition.Less for one file --- *)
Definition posn : Type := (N * N)%type.

Definition pos_leb (a b : posn) : bool :=
  (fst a <? fst b)%N || ((fst a =? fst b)%N && (snd a <=? snd b)%N).

Lemma pos_leb_total a b : pos_leb a b = true \/ pos_leb b a = true.
Proof.
  unfold pos_leb. destruct a as [a1 a2], b as [b1 b2]; cbn.
  destruct (N.ltb_spec a1 b1); [now left|].
  destruct (N.ltb_spec b1 a1); [now right|].
  assert (a1 = b1) by lia. subst. rewrite N.eqb_refl. cbn.
  destruct (N.leb_spec a2 b2); [now left|right].
  apply N.leb_le. lia.
Qed.

Lemma pos_leb_trans a b c : pos_leb a b = true -> pos_leb b c = true -> pos_leb a c = true.
Proof.
  unfold pos_leb. destruct a as [a1 a2], b as [b1 b2], c as [c1 c2]; cbn.
  intros H1 H2.
  apply orb_true_iff in H1. apply orb_true_iff in H2. apply orb_true_iff.
  rewrite !andb_true_iff, !N.ltb_lt, !N.eqb_eq, !N.leb_le in *.
  lia.
Qed.
