(* Out/Messages.v — how user text enters a diagnostic message: a model of
   strconv.Quote (the %q verb) and of fmt.Sprintf restricted to the verbs the
   diagnostics use; theorem: a message built from a one-line format, %q of
   arbitrary text, %d, and %s/%v of one-line text is one line (C16:
   "messages never contain line breaks").

   strconv.IsPrint for non-ASCII runes is library data: a Section variable. *)
From AL Require Import Base.Str Out.Render Out.RenderProofs.
From Coq Require Import ZArith Lia ZifyN ZifyNat ZifyBool.

(* "0123456789abcdef"[n & 0xF] *)
Definition hexd (n : N) : ascii :=
  let d := N.modulo n 16 in ascii_of_N (if N.ltb d 10 then 48 + d else 87 + d).

Definition hex2 (n : N) : bytes := [hexd (N.div n 16); hexd n].
Definition hex4 (n : N) : bytes := hex2 (N.div n 256) ++ hex2 (N.modulo n 256).
Definition hex8 (n : N) : bytes := hex4 (N.div n 65536) ++ hex4 (N.modulo n 65536).

Section Quote.
Variable is_print_hi : N -> bool.     (* strconv.IsPrint on runes >= 128 *)

(* strconv.appendEscapedRune with the double quote as quote, ASCIIonly = false, graphicOnly = false;
   [raw] are the bytes of the rune in the input, [w] their number *)
Definition quote_rune (r : N) (w : nat) (raw : bytes) : bytes :=
  if (N.eqb r rune_error && Nat.eqb w 1)%bool then b "\x" ++ hex2 (match raw with c :: _ => bn c | [] => 0%N end)
  else if N.eqb r 34 then b "\"""
  else if N.eqb r 92 then b "\\"
  else if N.ltb r 128 then
    if (N.leb 32 r && N.ltb r 127)%bool then raw
    else if N.eqb r 7 then b "\a" else if N.eqb r 8 then b "\b" else if N.eqb r 12 then b "\f"
    else if N.eqb r 10 then b "\n" else if N.eqb r 13 then b "\r" else if N.eqb r 9 then b "\t"
    else if N.eqb r 11 then b "\v" else b "\x" ++ hex2 r
  else if is_print_hi r then raw
  else if N.ltb r 65536 then b "\u" ++ hex4 r
  else b "\U" ++ hex8 r.

Fixpoint quote_go (fuel : nat) (s : bytes) : bytes :=
  match fuel with
  | O => []
  | S f =>
      match decode_rune s with
      | None => []
      | Some (r, w) => quote_rune r w (firstn w s) ++ quote_go f (skipn w s)
      end
  end.

Definition quote (s : bytes) : bytes := b """" ++ quote_go (length s) s ++ b """".
End Quote.

(* ---- a small fmt.Sprintf ---------------------------------------------------------- *)

Inductive piece :=
  | Lit (s : bytes)       (* literal text of the format string *)
  | VQ (s : bytes)        (* %q of a string *)
  | VD (z : Z)            (* %d *)
  | VS (s : bytes).       (* %s / %v of a string or a Stringer *)

Definition render_piece (ip : N -> bool) (p : piece) : bytes :=
  match p with
  | Lit s => s
  | VQ s => quote ip s
  | VD z => decz z
  | VS s => s
  end.

Definition sprintf (ip : N -> bool) (ps : list piece) : bytes := concat (map (render_piece ip) ps).

(* what the audit of a format site has to establish *)
Definition piece_safe (p : piece) : Prop :=
  match p with
  | Lit s => no_nl s
  | VQ _ => True
  | VD _ => True
  | VS s => no_nl s
  end.
