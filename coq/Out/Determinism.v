(* Out/Determinism.v — C02: diagnostics emitted while ranging over a Go map.
   A map is an association list in an arbitrary order; "for every map
   iteration order" is invariance under [Permutation].  The collected
   diagnostics go through the final stable sort by position ([final]). *)
From AL Require Import Base.AList Base.StrOrder Out.StableSort.

Record diag := { dg_pos : posn; dg_msg : string }.

(* linter.go: sort.Stable(ByErrorPosition(all)) for one file *)
Definition final (ds : list diag) : list diag := ssort dg_pos pos_leb ds.

Lemma pos_leb_antisym a b : pos_leb a b = true -> pos_leb b a = true -> a = b.
Proof.
  unfold pos_leb. destruct a as [a1 a2], b as [b1 b2]; cbn. intros H1 H2.
  apply orb_true_iff in H1. apply orb_true_iff in H2.
  rewrite !andb_true_iff, !N.ltb_lt, !N.eqb_eq, !N.leb_le in *.
  f_equal; lia.
Qed.

Lemma pos_keqb_eq a b : keqb pos_leb a b = true <-> a = b.
Proof.
  unfold keqb. rewrite andb_true_iff. split.
  - intros [H1 H2]. now apply pos_leb_antisym.
  - intros ->. split; apply (leb_refl pos_leb pos_leb_total).
Qed.

Definition final_unique := ssort_unique dg_pos pos_leb pos_leb_total pos_leb_trans.

(* A comparison through ONE packed key (line shifted by [k] bits, or-ed with the column) is not the
   comparison by position: two different positions of one line get the same key as soon as the
   column reaches 2^k, so the sort with that key keeps them in the order of emission - the order
   of a map iteration - although every position carries one diagnostic.  (The shape of the seeded
   change C02-r9-1; the code compares line, then column.) *)
Definition packed_key (k : N) (p : posn) : N := N.lor (N.shiftl (fst p) k) (snd p).
Definition final_packed (k : N) (ds : list diag) : list diag :=
  ssort (fun d => packed_key k (dg_pos d)) N.leb ds.

Lemma packed_key_collides : forall k, exists p q, p <> q /\ packed_key k p = packed_key k q.
Proof.
  intros k. exists (1, 0)%N, (1, 2 ^ k)%N. split.
  - intros E. injection E as E. assert (0 < 2 ^ k)%N by (apply N.neq_0_lt_0, N.pow_nonzero; discriminate). lia.
  - unfold packed_key. cbn [fst snd]. rewrite N.lor_0_r, N.shiftl_1_l. now rewrite N.lor_diag.
Qed.

Lemma final_packed_refuted :
  exists (l l' : list diag), Permutation l l' /\ NoDup (map dg_pos l) /\
    final l = final l' /\ final_packed 10 l <> final_packed 10 l'.
Proof.
  exists [ {| dg_pos := (1, 15)%N; dg_msg := "a" |}; {| dg_pos := (1, 1039)%N; dg_msg := "b" |} ],
         [ {| dg_pos := (1, 1039)%N; dg_msg := "b" |}; {| dg_pos := (1, 15)%N; dg_msg := "a" |} ].
  split; [apply perm_swap|]. split.
  - repeat constructor; cbn; intuition discriminate.
  - split; [vm_compute; reflexivity|vm_compute; discriminate].
Qed.

(* ---------------------------------------------------------------------- *)
(* maps keyed by an ordered type                                          *)

Section Keyed.
Context {K V : Type}.
Variable kleb : K -> K -> bool.
Hypothesis kleb_total : forall a b, kleb a b = true \/ kleb b a = true.
Hypothesis kleb_trans : forall a b c, kleb a b = true -> kleb b c = true -> kleb a c = true.
Hypothesis kleb_antisym : forall a b, kleb a b = true -> kleb b a = true -> a = b.

Definition kNoDup (m : list (K * V)) : Prop := NoDup (map fst m).

(* sort.Strings / sort.Ints / sort.Slice by position on the keys of a map *)
Definition sort_keys (m : list (K * V)) : list (K * V) := ssort fst kleb m.

Lemma kkeqb_eq a b : keqb kleb a b = true <-> a = b.
Proof.
  unfold keqb. rewrite andb_true_iff. split.
  - intros [H1 H2]. now apply kleb_antisym.
  - intros ->. split; apply (leb_refl kleb kleb_total).
Qed.

Lemma with_key_notin k (m : list (K * V)) :
  ~ In k (map fst m) -> with_key fst kleb k m = [].
Proof.
  intros H. apply with_key_nil_of_lt. intros z I.
  destruct (keqb kleb (fst z) k) eqn:E; [|reflexivity].
  apply kkeqb_eq in E. exfalso. apply H. subst k. now apply in_map.
Qed.

(* in a map (distinct keys) the entries with key k are at most one, and which
   one does not depend on the order *)
Lemma with_key_perm (m m' : list (K * V)) :
  Permutation m m' -> kNoDup m -> forall k, with_key fst kleb k m = with_key fst kleb k m'.
Proof.
  unfold kNoDup, with_key.
  induction 1 as [|x l l' P IH|x y l|l l' l'' P1 IH1 P2 IH2]; intros ND k.
  - reflexivity.
  - cbn. inversion ND; subst. rewrite IH by assumption. reflexivity.
  - cbn. cbn in ND. inversion ND as [|? ? Hn ND']; subst.
    destruct (keqb kleb (fst y) k) eqn:Ey, (keqb kleb (fst x) k) eqn:Ex; try reflexivity.
    apply kkeqb_eq in Ey. apply kkeqb_eq in Ex. exfalso. apply Hn. left. congruence.
  - rewrite IH1 by assumption. apply IH2.
    eapply Permutation_NoDup; [|exact ND]. now apply Permutation_map.
Qed.

(* the sorted key order is canonical: independent of the iteration order *)
Theorem sort_keys_perm (m m' : list (K * V)) :
  Permutation m m' -> kNoDup m -> sort_keys m = sort_keys m'.
Proof.
  intros P ND. apply (ssort_unique fst kleb kleb_total kleb_trans).
  now apply with_key_perm.
Qed.

(* ---------------------------------------------------------------------- *)
(* emission sites                                                         *)

Variable emit : K -> V -> list diag.   (* diagnostics for one map entry *)

(* `for k, v := range m { ... Errorf ... }` *)
Definition site_range (m : list (K * V)) : list diag :=
  flat_map (fun kv => emit (fst kv) (snd kv)) m.

(* keys collected, sorted, then visited *)
Definition site_sorted (m : list (K * V)) : list diag := site_range (sort_keys m).

(* a site that visits the sorted keys emits the same list for every
   iteration order of the map — also when all diagnostics share one position *)
Theorem site_sorted_det (m m' : list (K * V)) :
  Permutation m m' -> kNoDup m -> site_sorted m = site_sorted m'.
Proof. intros P ND. unfold site_sorted. now rewrite (sort_keys_perm m m' P ND). Qed.

Lemma with_key_flat_map {B} (f : B -> list diag) p (l : list B) :
  with_key dg_pos pos_leb p (flat_map f l) = flat_map (fun x => with_key dg_pos pos_leb p (f x)) l.
Proof.
  unfold with_key. induction l as [|x l IH]; cbn; [reflexivity|].
  now rewrite filter_app, IH.
Qed.

Lemma flat_map_perm_single {B C} (g : B -> list C) (l l' : list B) :
  Permutation l l' -> NoDup l ->
  (forall x y, In x l -> In y l -> x <> y -> g x = [] \/ g y = []) ->
  flat_map g l = flat_map g l'.
Proof.
  induction 1 as [|x l l' P IH|x y l|l l' l'' P1 IH1 P2 IH2]; intros ND H.
  - reflexivity.
  - cbn. inversion ND; subst. rewrite IH; auto. intros a b Ia Ib. apply H; now right.
  - cbn. inversion ND as [|? ? Hn ND']; subst.
    assert (y <> x) as Nxy by (intros ->; apply Hn; now left).
    destruct (H y x (or_introl eq_refl) (or_intror (or_introl eq_refl)) Nxy) as [E|E]; rewrite E; cbn;
      now rewrite ?app_nil_r.
  - rewrite IH1; auto. apply IH2.
    + eapply Permutation_NoDup; eauto.
    + intros a b Ia Ib. apply H; eapply Permutation_in; try apply Permutation_sym; eauto.
Qed.

(* a site that ranges over the map directly is deterministic after the final
   stable sort when different entries never emit at the same position *)
Theorem site_range_det_distinct (m m' : list (K * V)) :
  Permutation m m' -> kNoDup m ->
  (forall kv1 kv2 d1 d2, In kv1 m -> In kv2 m -> kv1 <> kv2 ->
     In d1 (emit (fst kv1) (snd kv1)) -> In d2 (emit (fst kv2) (snd kv2)) -> dg_pos d1 <> dg_pos d2) ->
  final (site_range m) = final (site_range m').
Proof.
  intros P ND H. apply final_unique. intros p.
  unfold site_range. rewrite !with_key_flat_map.
  apply flat_map_perm_single; [assumption| |].
  - unfold kNoDup in ND. eapply NoDup_map_inv; eauto.
  - intros x y Ix Iy Nxy.
    destruct (with_key dg_pos pos_leb p (emit (fst x) (snd x))) as [|d1 r1] eqn:E1; [now left|].
    destruct (with_key dg_pos pos_leb p (emit (fst y) (snd y))) as [|d2 r2] eqn:E2; [now right|].
    exfalso.
    assert (In d1 (with_key dg_pos pos_leb p (emit (fst x) (snd x)))) as I1 by (rewrite E1; now left).
    assert (In d2 (with_key dg_pos pos_leb p (emit (fst y) (snd y)))) as I2 by (rewrite E2; now left).
    unfold with_key in I1, I2. apply filter_In in I1. apply filter_In in I2.
    destruct I1 as [I1 K1], I2 as [I2 K2].
    apply pos_keqb_eq in K1. apply pos_keqb_eq in K2.
    apply (H x y d1 d2 Ix Iy Nxy I1 I2). congruence.
Qed.

End Keyed.

(* ---------------------------------------------------------------------- *)
(* without sorting, a same-position site is order dependent (the shape the
   six sites had before the fix: commits)                                   *)
Theorem site_range_same_pos_refuted :
  exists (emit : string -> unit -> list diag) (m m' : list (string * unit)),
    Permutation m m' /\ NoDup (map fst m) /\
    final (site_range emit m) <> final (site_range emit m').
Proof.
  exists (fun k _ => [{| dg_pos := (3, 7)%N; dg_msg := k |}]),
         [("a", tt); ("b", tt)], [("b", tt); ("a", tt)].
  split; [apply perm_swap|]. split.
  - cbn. constructor; [intros [H|[]]; discriminate|constructor; [intros []|constructor]].
  - vm_compute. intros H. discriminate H.
Qed.

(* ---------------------------------------------------------------------- *)
(* instances mirroring the code after the fix: commits                     *)

Definition N_leb_total (a b : N) : (a <=? b)%N = true \/ (b <=? a)%N = true.
Proof. destruct (N.leb_spec a b); [now left|right; apply N.leb_le; lia]. Qed.
Definition N_leb_trans (a b c : N) : (a <=? b)%N = true -> (b <=? c)%N = true -> (a <=? c)%N = true.
Proof. rewrite !N.leb_le. lia. Qed.
Definition N_leb_antisym (a b : N) : (a <=? b)%N = true -> (b <=? a)%N = true -> a = b.
Proof. rewrite !N.leb_le. lia. Qed.

(* expr_sema.go, format(): the unused placeholder indices (keys of the map
   `holders` that remain) are reported in increasing order at the call *)
Definition format_unused (callpos : posn) (msg : N -> string) (holders : list (N * unit)) : list diag :=
  site_sorted N.leb (fun i _ => [{| dg_pos := callpos; dg_msg := msg i |}]) holders.

Theorem format_unused_det callpos msg h h' :
  Permutation h h' -> NoDup (map fst h) -> format_unused callpos msg h = format_unused callpos msg h'.
Proof. apply (site_sorted_det N.leb N_leb_total N_leb_trans N_leb_antisym). Qed.

(* rule_action.go / rule_workflow_call.go: missing required inputs (secrets):
   one diagnostic per required-and-not-supplied name, all at `uses:`,
   visited in sorted order of the lower-cased name *)
Definition missing_required (usespos : posn) (msg : string -> string) (supplied : list string)
           (declared : list (string * bool)) : list diag :=
  site_sorted String.leb
    (fun name required =>
       if required && negb (existsb (String.eqb name) supplied)
       then [{| dg_pos := usespos; dg_msg := msg name |}] else [])
    declared.

Theorem missing_required_det usespos msg supplied d d' :
  Permutation d d' -> NoDup (map fst d) ->
  missing_required usespos msg supplied d = missing_required usespos msg supplied d'.
Proof. apply (site_sorted_det String.leb String.leb_total string_leb_trans String.leb_antisym). Qed.

(* unknown inputs are reported while ranging over the `with:` map directly,
   each at the position of its own key: deterministic after the final sort *)
Definition unknown_inputs (msg : string -> string) (declared : list string)
           (given : list (string * posn)) : list diag :=
  site_range (fun name p =>
                if existsb (String.eqb name) declared then []
                else [{| dg_pos := p; dg_msg := msg name |}]) given.

Theorem unknown_inputs_det msg declared g g' :
  Permutation g g' -> NoDup (map fst g) -> NoDup (map snd g) ->
  final (unknown_inputs msg declared g) = final (unknown_inputs msg declared g').
Proof.
  intros P ND NDp.
  apply site_range_det_distinct; auto.
  intros [k1 p1] [k2 p2] d1 d2 I1 I2 Nkv; cbn.
  destruct (existsb (String.eqb k1) declared); [intros []|].
  destruct (existsb (String.eqb k2) declared); [intros _ []|].
  intros [<-|[]] [<-|[]]; cbn. intros E. subst p2.
  (* two different entries with the same position contradict NoDup (map snd g) *)
  assert (k1 <> k2) as Nk by (intros ->; now apply Nkv).
  clear - I1 I2 Nk NDp.
  induction g as [|[k p] g IH]; [destruct I1|].
  cbn in NDp. inversion NDp as [|? ? Hn ND']; subst.
  destruct I1 as [E1|I1], I2 as [E2|I2].
  - congruence.
  - inversion E1; subst. apply Hn. change p1 with (snd (k2, p1)). now apply in_map.
  - inversion E2; subst. apply Hn. change p1 with (snd (k1, p1)). now apply in_map.
  - now apply IH.
Qed.

(* pass.go / rule_job_needs.go / rule_runner_label.go: entities are visited in
   the order of their source positions; positions are distinct *)
Definition by_position {V} (m : list (posn * V)) : list (posn * V) := sort_keys pos_leb m.

Theorem by_position_det {V} (m m' : list (posn * V)) :
  Permutation m m' -> NoDup (map fst m) -> by_position m = by_position m'.
Proof. apply (sort_keys_perm pos_leb pos_leb_total pos_leb_trans pos_leb_antisym). Qed.

(* rule_runner_label.go checkConflict: the first registered label, in source
   order, whose compatibility set is disjoint from the new one *)
Definition first_conflict (disjoint : N -> bool) (compats : list (posn * N)) : option (posn * N) :=
  find (fun pc => disjoint (snd pc)) (by_position compats).

Theorem first_conflict_det disjoint c c' :
  Permutation c c' -> NoDup (map fst c) -> first_conflict disjoint c = first_conflict disjoint c'.
Proof. intros P ND. unfold first_conflict. now rewrite (by_position_det c c' P ND). Qed.

(* linter.go LintFiles: task i writes its result into slot i; after the
   barrier the slots are read in argument order.  [order] is the order in
   which the tasks complete. *)
Fixpoint set_slot {A} (i : nat) (x : A) (l : list (option A)) : list (option A) :=
  match i, l with
  | O, _ :: l' => Some x :: l'
  | S i', y :: l' => y :: set_slot i' x l'
  | _, [] => []
  end.

Definition assemble {A} (results : list A) (order : list nat) : list (option A) :=
  fold_left (fun slots i => match nth_error results i with
                            | Some r => set_slot i r slots
                            | None => slots end)
            order (repeat None (length results)).

Lemma set_slot_nth {A} i j (x : A) l : i < length l ->
  nth_error (set_slot i x l) j = if Nat.eqb i j then Some (Some x) else nth_error l j.
Proof.
  revert i j; induction l as [|y l IH]; intros i j H; [cbn in H; lia|].
  destruct i, j; cbn; try reflexivity. apply IH. cbn in H. lia.
Qed.

Lemma set_slot_length {A} i (x : A) l : length (set_slot i x l) = length l.
Proof. revert i; induction l as [|y l IH]; intros [|i]; cbn; auto. Qed.

Lemma assemble_spec {A} (results : list A) (order : list nat) (slots : list (option A)) :
  length slots = length results ->
  let out := fold_left (fun slots i => match nth_error results i with
                                       | Some r => set_slot i r slots
                                       | None => slots end) order slots in
  length out = length results /\
  forall j, nth_error out j =
            if existsb (Nat.eqb j) order then option_map Some (nth_error results j)
            else nth_error slots j.
Proof.
  revert slots; induction order as [|i order IH]; intros slots HL; cbn.
  - split; [assumption|reflexivity].
  - destruct (nth_error results i) as [r|] eqn:Ei.
    + assert (i < length results) as Hi by (apply nth_error_Some; congruence).
      specialize (IH (set_slot i r slots)). rewrite set_slot_length in IH. specialize (IH HL).
      destruct IH as [IH1 IH2]. split; [exact IH1|]. intros j. rewrite IH2.
      destruct (existsb (Nat.eqb j) order) eqn:Ex; [now rewrite orb_true_r|].
      rewrite orb_false_r. rewrite set_slot_nth by lia.
      rewrite (Nat.eqb_sym j i). destruct (Nat.eqb i j) eqn:Eij; [|reflexivity].
      apply Nat.eqb_eq in Eij. subst j. now rewrite Ei.
    + specialize (IH slots HL). destruct IH as [IH1 IH2]. split; [exact IH1|]. intros j. rewrite IH2.
      destruct (Nat.eqb j i) eqn:Eji; [|reflexivity]. apply Nat.eqb_eq in Eji. subst j. cbn.
      assert (length results <= i) as Hi by (apply nth_error_None; assumption).
      rewrite Ei. cbn. destruct (existsb (Nat.eqb i) order); [reflexivity|].
      apply (proj2 (nth_error_None slots i)). lia.
Qed.

Lemma nth_error_ext' {A} (l l' : list A) : (forall n, nth_error l n = nth_error l' n) -> l = l'.
Proof.
  revert l'; induction l as [|x l IH]; intros [|y l'] H; try reflexivity;
    try (specialize (H 0); discriminate).
  f_equal.
  - specialize (H 0). now inversion H.
  - apply IH. intros n. apply (H (S n)).
Qed.

(* every completion order that contains every task yields the same slots:
   the results in argument order *)
Theorem multi_file_order_indep {A} (results : list A) (order : list nat) :
  (forall i, i < length results -> In i order) ->
  assemble results order = map Some results.
Proof.
  intros H. unfold assemble.
  destruct (assemble_spec results order (repeat None (length results)) (repeat_length _ _)) as [HL HN].
  apply nth_error_ext'. intros j. rewrite HN. rewrite nth_error_map.
  destruct (existsb (Nat.eqb j) order) eqn:E; [reflexivity|].
  destruct (nth_error results j) as [r|] eqn:Ej.
  - exfalso. assert (j < length results) as Hj by (apply nth_error_Some; congruence).
    specialize (H j Hj).
    assert (existsb (Nat.eqb j) order = true) as E' by (apply existsb_exists; exists j; split; [assumption|apply Nat.eqb_refl]).
    congruence.
  - cbn. apply nth_error_None. rewrite repeat_length. now apply nth_error_None.
Qed.
