(* Out/FormatArgs.v — what the diagnostics print without quoting.  Every %s / %v verb of every
   diagnostic format of the package (and every message built by concatenation) is listed from
   the source on every run with the expression it prints (Gen/GenFormats.v,
   harness/cmd/c16/formats.go); here each is shown to be a known one:

     Quoted        a list or value built by one of the quoting functions (sortedQuotes, quotes,
                   quotesAll, the type printer ExprType.String / quoteUnlessPlain, RawYAMLValue.String,
                   describe(meta), the glob validator's message which names the character with %q):
                   Out/Messages.v models strconv.Quote, no line break survives it
     Words         one of a fixed set of words chosen by the code (node kind names, ordinals,
                   section names, notes)
     Position      line:col of a node
     Number        a parsed number
     LibraryError  the text of an error of strconv / net/url / encoding/json / yaml.v3 / robfig-cron:
                   the libraries quote their input; where they do not (yaml, cron) the line breaks
                   are replaced before the text gets here (fix: commits of round 1)
     Tool          a path, command line or message that belongs to the person who runs actionlint
                   or to the external tool (fatal errors; shellcheck / pyflakes issue texts)

   A string taken from the workflow is printed with %q.  A new %s / %v (or a message glued together
   with +) makes [format_args_known_b] fail and has to be looked at. *)
From AL Require Import Base.Str Gen.GenFormats.

Inductive arg_class := Quoted | Words | Position | Number | LibraryError | Tool.

Definition allowed : list (string * string * string * string * string * arg_class) := [
  ("action_metadata.go", "FindMetadata", "%s", "msg", "could not parse action metadata in %q: %", LibraryError);
  ("error.go", "NewErrorFormatter", "%s", "format", "template to format error messages must c", Tool);
  ("expr_insecure.go", "end", "%s", "sortedQuotes(inputs)", "object filter extracts potentially untru", Quoted);
  ("expr_parser.go", "parseInt", "%s", "err", "parsing invalid integer literal %q: %s", LibraryError);
  ("expr_parser.go", "parseFloat", "%s", "err", "parsing invalid float literal %q: %s", LibraryError);
  ("expr_parser.go", "Parse", "%s", "qb.build()", "parser did not reach end of input after ", Quoted);
  ("expr_sema.go", "checkAvailableContext", "%s", "notes", "context %q is not allowed here. %s. see ", Words);
  ("expr_sema.go", "checkSpecialFunctionAvailability", "%s", "quotes(allowed)", "calling function %q is not allowed here.", Quoted);
  ("expr_sema.go", "checkVariable", "%s", "sortedQuotes(ss)", "undefined variable %q. available variabl", Quoted);
  ("expr_sema.go", "checkObjectDeref", "%s", "ty.String()", "property %q is not defined in object typ", Quoted);
  ("expr_sema.go", "checkObjectDeref", "%s", "et.String()", "property %q is not defined in object typ", Quoted);
  ("expr_sema.go", "checkConfigVariables", "%s", "sortedQuotes(sema.configVars)", "undefined configuration variable %q. def", Quoted);
  ("expr_sema.go", "checkIndexAccess", "%s", "ty.String()", "property %q is not defined in object typ", Quoted);
  ("expr_sema.go", "checkFuncSignature", "%s", "atLeast", "number of arguments is wrong. function %", Words);
  ("expr_sema.go", "checkFuncSignature", "%s", "ordinal(i + 1)", "%s argument of function call is not assi", Words);
  ("expr_sema.go", "checkFuncSignature", "%s", "ordinal(lp + i + 1)", "%s argument of function call is not assi", Words);
  ("expr_sema.go", "checkBuiltinFuncCall", "%s", "s", "broken JSON string is passed to fromJSON", LibraryError);
  ("expr_sema.go", "checkFuncCall", "%s", "sortedQuotes(ss)", "undefined function %q. available functio", Quoted);
  ("linter.go", "NewLinter", "%s", "err.Error()", "invalid regular expression for ignore pa", LibraryError);
  ("linter.go", "LintFiles", "%s", "w.path", "fatal error while checking %s: %w", Tool);
  ("parse.go", "checkSequence", "%s", "nodeKindName(n.Kind)", "%q section must be sequence node but got", Words);
  ("parse.go", "checkString", "%s", "nodeKindName(n.Kind)", "expected scalar node for string value bu", Words);
  ("parse.go", "missingExpression", "%s", "expecting", "expecting a single ${{...}} expression o", Words);
  ("parse.go", "parseBool", "%s", "nodeKindName(n.Kind)", "expected bool value but found %s node wi", Words);
  ("parse.go", "parseInt", "%s", "nodeKindName(n.Kind)", "expected scalar node for integer value b", Words);
  ("parse.go", "parseInt", "%s", "err.Error()", "invalid integer value: %q: %s", LibraryError);
  ("parse.go", "parseFloat", "%s", "nodeKindName(n.Kind)", "expected scalar node for float value but", Words);
  ("parse.go", "parseFloat", "%s", "err.Error()", "invalid float value: %q: %s", LibraryError);
  ("parse.go", "parseMapping", "%s", "what", "%s is %s node but mapping node is expect", Words);
  ("parse.go", "parseMapping", "%s", "nodeKindName(n.Kind)", "%s is %s node but mapping node is expect", Words);
  ("parse.go", "parseMapping", "%s", "what", "%s should not be empty. please remove th", Words);
  ("parse.go", "parseMapping", "%s", "what", "key %q is duplicated in %s. previously d", Words);
  ("parse.go", "parseMapping", "%s", "pos.String()", "key %q is duplicated in %s. previously d", Position);
  ("parse.go", "parseMapping", "%s", "note", "key %q is duplicated in %s. previously d", Words);
  ("parse.go", "parseMapping", "%s", "what", "%s should not be empty. please remove th", Words);
  ("parse.go", "parseEvents", "%s", "nodeKindName(n.Kind)", """on"" section value is expected to be map", Words);
  ("parse.go", "parseRawYAMLValue", "%s", "nodeKindName(n.Kind)", "unexpected %s node on parsing value in m", Words);
  ("parse.go", "parseMaxParallel", "%v", "i.Value", "value at ""max-parallel"" must be greater ", Number);
  ("parse.go", "parseTimeoutMinutes", "%v", "f.Value", "value at ""timeout-minutes"" must be great", Number);
  ("process.go", "run", "%s", "e.cmd", "%s was terminated. stderr: %q", Tool);
  ("process.go", "run", "%s", "e.cmd", "%s exited with status %d but stdout was ", Tool);
  ("reusable_workflow.go", "expectedMapping", "%s", "where", "yaml: %s must be mapping node but %s nod", Words);
  ("reusable_workflow.go", "expectedMapping", "%s", "nodeKindName(n.Kind)", "yaml: %s must be mapping node but %s nod", Words);
  ("reusable_workflow.go", "FindMetadata", "%s", "msg", "could not read reusable workflow file fo", LibraryError);
  ("reusable_workflow.go", "FindMetadata", "%s", "msg", "error while parsing reusable workflow %q", LibraryError);
  ("rule_action.go", "invalidActionFormat", "%s", "why", "specifying action %q in invalid format b", Words);
  ("rule_action.go", "missingRunsProp", "%s", "ty", "%q is required in ""runs"" section because", Words);
  ("rule_action.go", "checkInvalidRunsProps", "%s", "ty", "%q is not allowed in ""runs"" section beca", Words);
  ("rule_action.go", "checkDockerAction", "%s", "err.Error()", "URI for Docker container %q is invalid: ", LibraryError);
  ("rule_action.go", "checkAction", "%s", "describe(meta)", "input %q is not defined in action %s. av", Quoted);
  ("rule_action.go", "checkAction", "%s", "sortedQuotes(ns)", "input %q is not defined in action %s. av", Quoted);
  ("rule_action.go", "checkAction", "%s", "describe(meta)", "missing input %q which is required by ac", Quoted);
  ("rule_action.go", "checkAction", "%s", "sortedQuotes(ns)", "missing input %q which is required by ac", Quoted);
  ("rule_credentials.go", "checkContainer", "%s", "where", """password"" section in %s should be speci", Words);
  ("rule_deprecated_commands.go", "VisitStep", "%s", "a", "workflow command %q was deprecated. use ", Words);
  ("rule_events.go", "checkCron", "%s", "msg", "invalid CRON format %q in schedule event", LibraryError);
  ("rule_events.go", "filterNotAvailable", "%s", "hook", "%q filter is not available for %s event.", Words);
  ("rule_events.go", "filterNotAvailable", "%s", "strings.Join(available, "", "")", "%q filter is not available for %s event.", Words);
  ("rule_events.go", "filterNotAvailable", "%s", "e", "%q filter is not available for %s event.", Words);
  ("rule_events.go", "checkTypes", "%s", "sortedQuotes(expected)", "invalid activity type %q for %q Webhook ", Quoted);
  ("rule_events.go", "checkWorkflowCallEvent", "%s", "err", "input of workflow_call event %q is typed", LibraryError);
  ("rule_events.go", "checkWorkflowDispatchEvent", "%s", "err", "type of %q input is ""number"" but its def", LibraryError);
  ("rule_expression.go", "VisitWorkflowPre", "%s", "ts[0].ty.String()", "type of input %q must be bool but found ", Quoted);
  ("rule_expression.go", "VisitWorkflowPre", "%s", "ts[0].ty.String()", "type of input %q must be number but foun", Quoted);
  ("rule_expression.go", "checkObjectTy", "%s", "ty.String()", "type of expression at %q must be object ", Quoted);
  ("rule_expression.go", "checkArrayTy", "%s", "ty.String()", "type of expression at %q must be array b", Quoted);
  ("rule_expression.go", "checkNumberTy", "%s", "ty.String()", "type of expression at %q must be number ", Quoted);
  ("rule_expression.go", "checkWorkflowCall", "%s", "mi.Type.String()", "input %q is typed as %s by reusable work", Quoted);
  ("rule_expression.go", "checkWorkflowCall", "%s", "ty.String()", "input %q is typed as %s by reusable work", Quoted);
  ("rule_expression.go", "checkTemplateEvaluatedType", "%s", "t.ty", "object, array, and null values should no", Quoted);
  ("rule_expression.go", "checkBool", "%s", "ty.String()", "type of expression must be bool but foun", Quoted);
  ("rule_id.go", "VisitStep", "%s", "prev.String()", "step ID %q duplicates. previously define", Position);
  ("rule_id.go", "validateConvention", "%s", "what", "invalid %s ID %q. %s ID must start with ", Words);
  ("rule_id.go", "validateConvention", "%s", "what", "invalid %s ID %q. %s ID must start with ", Words);
  ("rule_job_needs.go", "VisitJobPre", "%s", "prev.pos.String()", "job ID %q duplicates. previously defined", Position);
  ("rule_matrix.go", "checkDuplicateInRow", "%s", "v.String()", "duplicate value %s is found in matrix %q", Quoted);
  ("rule_matrix.go", "checkDuplicateInRow", "%s", "p.Pos().String()", "duplicate value %s is found in matrix %q", Position);
  ("rule_matrix.go", "checkExclude", "%s", "sortedQuotes(ss)", "%q in ""exclude"" section does not exist i", Quoted);
  ("rule_matrix.go", "checkExclude", "%s", "a.Value.String()", "value %s in ""exclude"" does not match in ", Quoted);
  ("rule_matrix.go", "checkExclude", "%s", "strings.Join(ss, "", "")", "value %s in ""exclude"" does not match in ", Quoted);
  ("rule_permissions.go", "checkPermissions", "%s", "sortedQuotes(ss)", "unknown permission scope %q. all availab", Quoted);
  ("rule_pyflakes.go", "runPyflakes", "%s", "rule.cmd.exe", "`%s` did not run successfully while chec", Tool);
  ("rule_pyflakes.go", "runPyflakes", "%s", "pos", "`%s` did not run successfully while chec", Position);
  ("rule_pyflakes.go", "parseNextError", "%s", "pos", "error message from pyflakes does not end", Position);
  ("rule_pyflakes.go", "parseNextError", "%s", "oneLine(string(msg))", "pyflakes reported issue in this script: ", LibraryError);
  ("rule_runner_label.go", "verifyRunnerLabel", "%v", "err", "label pattern %q is an invalid glob. kin", LibraryError);
  ("rule_runner_label.go", "verifyRunnerLabel", "%s", "quotesAll( allGitHubHostedRunnerLabels, selfHostedRunnerPres", "label %q is unknown. available labels ar", Quoted);
  ("rule_runner_label.go", "checkConflict", "%s", "l.Pos", "label %q conflicts with label %q defined", Position);
  ("rule_shell_name.go", "checkShellName", "%s", "onPlatform", "shell name %q is invalid%s. available na", Words);
  ("rule_shell_name.go", "checkShellName", "%s", "sortedQuotes(available)", "shell name %q is invalid%s. available na", Quoted);
  ("rule_shellcheck.go", "runShellcheck", "%s", "rule.cmd.exe", "`%s %s` did not run successfully while c", Tool);
  ("rule_shellcheck.go", "runShellcheck", "%s", "strings.Join(args, "" "")", "`%s %s` did not run successfully while c", Tool);
  ("rule_shellcheck.go", "runShellcheck", "%s", "pos", "`%s %s` did not run successfully while c", Position);
  ("rule_shellcheck.go", "runShellcheck", "%s", "oneLine(err.Level)", "shellcheck reported issue in this script", Tool);
  ("rule_shellcheck.go", "runShellcheck", "%s", "msg", "shellcheck reported issue in this script", LibraryError);
  ("rule_workflow_call.go", "checkWorkflowCallUsesLocal", "%s", "note", "input %q is not defined in %q reusable w", Words);
  ("rule_workflow_call.go", "checkWorkflowCallUsesLocal", "%s", "note", "secret %q is not defined in %q reusable ", Words);
  ("rule_glob.go", "globErrors", "%s", "err.Message", "%s. note: filter pattern syntax is expla", Quoted)
].

Definition arg_eqb (a : string * string * string * string * string) (b : string * string * string * string * string * arg_class) : bool :=
  let '(f, g, v, e, h) := a in let '(f', g', v', e', h', _) := b in
  String.eqb f f' && String.eqb g g' && String.eqb v v' && String.eqb e e' && String.eqb h h'.

Definition known (a : string * string * string * string * string) : bool := existsb (arg_eqb a) allowed.

Lemma format_args_known_b : forallb known format_args = true.
Proof. vm_compute. reflexivity. Qed.

Lemma arg_eqb_eq a b : arg_eqb a b = true -> fst b = a.
Proof.
  destruct a as [[[[f g] v] e] h], b as [[[[[f' g'] v'] e'] h'] c]. cbn.
  rewrite !Bool.andb_true_iff, !String.eqb_eq. intros [[[[-> ->] ->] ->] ->]. reflexivity.
Qed.

Theorem format_args_known a : In a format_args -> exists c, In (a, c) allowed.
Proof.
  intros H. pose proof format_args_known_b as A. rewrite forallb_forall in A.
  specialize (A a H). unfold known in A. rewrite existsb_exists in A.
  destruct A as [[a' c] [Hin He]]. apply arg_eqb_eq in He. cbn in He. subst a'. now exists c.
Qed.

Example format_args_nonempty : existsb (fun a => String.eqb (snd (fst (fst (fst a)))) "checkObjectDeref") format_args = true.
Proof. vm_compute. reflexivity. Qed.
