(* Out/Paths.v — component-list model of the path arithmetic that decides which
   string is handed to the glob matcher of the `paths` configuration
   (linter.go: LintFile/LintFiles shorten the path with filepath.Rel(l.cwd, path),
   check() calls cfg.PathConfigs(..); project.go: absPath; config.go: PathConfigs
   applies filepath.ToSlash).

   Unix flavour of path/filepath (separator '/', ToSlash = identity).  A path
   is (absolute?, components); components are the pieces between slashes,
   possibly "" (from "//" or a trailing slash), "." and "..".

     filepath.Clean   clean
     filepath.Join    join2           (Clean (a + "/" + b))
     filepath.Abs     abs_path cwd    (cwd = the process working directory, as
                                       os.Getwd returns it: absolute and clean)
     filepath.Rel     rel_path
     filepath.IsAbs   p_abs                                                     *)
From AL Require Import Base.Str.

Record path := mkPath { p_abs : bool; p_comps : list string }.

Definition is_dot (c : string) : bool := String.eqb c ".".
Definition is_dotdot (c : string) : bool := String.eqb c "..".
Definition is_empty (c : string) : bool := String.eqb c "".

(* a component that Clean keeps as a name *)
Definition normal (c : string) : bool := negb (is_empty c || is_dot c || is_dotdot c).

(* Clean as a stack machine.  [st] is the reversed list of components kept so
   far: names, and for relative paths possibly leading "..".  *)
Fixpoint clean_go (abs : bool) (st : list string) (cs : list string) : list string :=
  match cs with
  | [] => rev st
  | c :: cs' =>
      if is_empty c || is_dot c then clean_go abs st cs'
      else if is_dotdot c then
        match st with
        | top :: st' =>
            if is_dotdot top then clean_go abs (c :: st) cs'   (* relative: "../.." accumulates *)
            else clean_go abs st' cs'                          (* pop a name *)
        | [] => if abs then clean_go abs [] cs'                (* "/.." = "/" *)
                else clean_go abs [c] cs'
        end
      else clean_go abs (c :: st) cs'
  end.

Definition clean (p : path) : path := mkPath (p_abs p) (clean_go (p_abs p) [] (p_comps p)).

(* filepath.Join(a, b) for non-empty a: Clean(a + "/" + b); absoluteness is a's *)
Definition join2 (a b : path) : path := clean (mkPath (p_abs a) (p_comps a ++ p_comps b)).

(* project.go absPath / filepath.Abs with the process working directory cwd *)
Definition abs_path (cwd p : path) : path := if p_abs p then clean p else join2 cwd p.

(* filepath.Rel(base, targ): None is the error case ("can't make targ relative to base") *)
Fixpoint strip_common (b t : list string) : list string * list string :=
  match b, t with
  | x :: b', y :: t' => if String.eqb x y then strip_common b' t' else (b, t)
  | _, _ => (b, t)
  end.

Definition rel_path (base targ : path) : option path :=
  let b := clean base in
  let t := clean targ in
  if negb (Bool.eqb (p_abs b) (p_abs t)) then None
  else
    let '(b', t') := strip_common (p_comps b) (p_comps t) in
    if existsb is_dotdot b' then None
    else Some (mkPath false (repeat ".." (length b') ++ t')).

(* ---- the code under study --------------------------------------------- *)

(* linter.go LintFile / LintFiles:
     if r, err := filepath.Rel(l.cwd, path); err == nil { path = r }           *)
Definition shown_path (cwd arg : path) : path :=
  match rel_path cwd arg with Some r => r | None => arg end.

(* the string handed to Config.PathConfigs.
   OLD (pinned tree): the shortened path itself — relative to the cwd.        *)
Definition cfg_path_old (cwd root arg : path) : path := shown_path cwd arg.

(* REPAIRED (repo_patches/out/01-fix-paths-config-root-relative.patch):
     func (l *Linter) pathFromProjectRoot(path string, project *Project) string {
       p := path
       if !filepath.IsAbs(p) { p = filepath.Join(l.cwd, p) }
       if r, err := filepath.Rel(project.RootDir(), absPath(p)); err == nil { return r }
       return path }                                                           *)
Definition cfg_path (cwd root arg : path) : path :=
  let sp := shown_path cwd arg in
  let p := if p_abs sp then sp else join2 cwd sp in
  match rel_path root (abs_path cwd p) with
  | Some r => r
  | None => sp
  end.

(* ---- strings <-> paths (used by the correspondence check only) --------- *)

Fixpoint split_slash_go (cur : string) (s : string) : list string :=
  match s with
  | EmptyString => [cur]
  | String c s' =>
      if Ascii.eqb c "/"%char then cur :: split_slash_go "" s'
      else split_slash_go (cur ++ String c "")%string s'
  end.

Definition parse_path (s : string) : path :=
  match s with
  | String c s' => if Ascii.eqb c "/"%char then mkPath true (split_slash_go "" s')
                   else mkPath false (split_slash_go "" s)
  | EmptyString => mkPath false []
  end.

Fixpoint join_slash (cs : list string) : string :=
  match cs with
  | [] => ""
  | [c] => c
  | c :: cs' => (c ++ "/" ++ join_slash cs')%string
  end.

(* how Go prints a cleaned path: "/" + comps, or "." for the empty relative path *)
Definition show_path (p : path) : string :=
  if p_abs p then ("/" ++ join_slash (p_comps p))%string
  else match p_comps p with [] => "." | cs => join_slash cs end.

(* the shortened path is printed as it is (it is either a Rel result, which
   is clean, or the argument exactly as spelled) *)
Definition show_raw (p : path) : string :=
  if p_abs p then ("/" ++ join_slash (p_comps p))%string else join_slash (p_comps p).
