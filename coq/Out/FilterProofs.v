(* Out/FilterProofs.v — the ignore filter is exactly "unfiltered list minus
   the diagnostics whose message matches an applicable pattern, order
   unchanged"; it commutes with the position sort; exit status (C15). *)
From AL Require Import Base.Str Out.Filter.
From Coq Require Import Permutation.

Section FilterProofs.
Variables (pat msg glob : Type).
Variable matches : pat -> msg -> bool.
Variable glob_match : glob -> string -> bool.

Notation diag := (diag msg).
Notation pats_match := (pats_match pat msg matches).
Notation cfgs_match := (cfgs_match pat msg matches).
Notation filter_loop := (filter_loop pat msg matches).
Notation filter_errors := (filter_errors pat msg matches).
Notation ignored := (ignored pat msg matches).
Notation path_configs := (path_configs pat glob glob_match).
Notation applicable := (applicable pat glob glob_match).
Notation sort_d := (sort_d msg).
Notation insert_d := (insert_d msg).
Notation check_tail := (check_tail pat msg glob matches glob_match).

Lemma pats_match_existsb ps e : pats_match ps e = existsb (fun r => matches r (d_msg e)) ps.
Proof. induction ps as [|r ps IH]; cbn; [reflexivity|]. now destruct (matches r (d_msg e)). Qed.

Lemma cfgs_match_existsb cfgs e :
  cfgs_match cfgs e = existsb (fun c => existsb (fun r => matches r (d_msg e)) c) cfgs.
Proof.
  induction cfgs as [|c cfgs IH]; cbn; [reflexivity|].
  rewrite pats_match_existsb, IH. now destruct (existsb _ c).
Qed.

Lemma filter_loop_spec cli cfgs es : forall acc,
  filter_loop cli cfgs es acc = acc ++ filter (fun e => negb (ignored cli cfgs e)) es.
Proof.
  induction es as [|e es IH]; intro acc; cbn [Filter.filter_loop filter].
  - now rewrite app_nil_r.
  - unfold Filter.ignored at 1. rewrite <- pats_match_existsb, <- cfgs_match_existsb.
    destruct (pats_match cli e); cbn [orb negb]; [apply IH|].
    destruct (cfgs_match cfgs e); cbn [negb]; [apply IH|].
    rewrite IH, <- app_assoc. reflexivity.
Qed.

(* C15, first sentence *)
Theorem filter_exact : forall cli cfgs es,
  filter_errors cli cfgs es = filter (fun e => negb (ignored cli cfgs e)) es.
Proof.
  intros cli cfgs es. unfold Filter.filter_errors.
  destruct cli as [|r cli]; [destruct cfgs as [|c cfgs]|]; cbn [length Nat.eqb andb].
  - (* fast path: no pattern at all, nothing is ignored *)
    unfold Filter.ignored. cbn [existsb orb negb].
    induction es as [|e es IH]; cbn; [reflexivity|]. now rewrite <- IH.
  - now rewrite filter_loop_spec.
  - now rewrite filter_loop_spec.
Qed.

(* ... spelled out: membership, and nothing else changes *)
Corollary filter_exact_in : forall cli cfgs es e,
  In e (filter_errors cli cfgs es) <-> In e es /\ ignored cli cfgs e = false.
Proof.
  intros. rewrite filter_exact, filter_In, negb_true_iff. tauto.
Qed.

Lemma existsb_perm {A} (f : A -> bool) l l' : Permutation l l' -> existsb f l = existsb f l'.
Proof.
  induction 1; cbn; try congruence.
  - destruct (f x), (f y); reflexivity.
Qed.

(* Config.Paths is a Go map: the order in which matching entries are
   collected is arbitrary and does not matter; neither does the order of the
   -ignore flags *)
Theorem filter_order_independent : forall cli cli' cfgs cfgs' es,
  Permutation cli cli' -> Permutation cfgs cfgs' ->
  filter_errors cli cfgs es = filter_errors cli' cfgs' es.
Proof.
  intros cli cli' cfgs cfgs' es H1 H2. rewrite !filter_exact.
  apply filter_ext. intro e. unfold Filter.ignored.
  now rewrite (existsb_perm _ _ _ H1), (existsb_perm _ _ _ H2).
Qed.

(* which patterns are "applicable": the CLI ones, and those of every `paths`
   entry whose glob matches the path handed to PathConfigs *)
Theorem ignored_spec : forall cli paths p e,
  ignored cli (path_configs paths p) e = true <->
  (exists r, In r cli /\ matches r (d_msg e) = true) \/
  (exists c r, applicable paths p c /\ In r c /\ matches r (d_msg e) = true).
Proof.
  intros cli paths p e. unfold Filter.ignored, Filter.applicable, Filter.path_configs.
  rewrite orb_true_iff, !existsb_exists. split.
  - intros [H|(c & Hc & Hr)]; [now left|right].
    apply in_map_iff in Hc. destruct Hc as ([g c'] & <- & Hin).
    apply filter_In in Hin. destruct Hin as [Hin Hg]. cbn in Hg.
    apply existsb_exists in Hr. destruct Hr as (r & Hr & Hm).
    exists c', r. split; [exists g; now split|now split].
  - intros [H|(c & r & (g & Hin & Hg) & Hr & Hm)]; [now left|right].
    exists c. split.
    + apply in_map_iff. exists (g, c). split; [reflexivity|]. apply filter_In. now split.
    + apply existsb_exists. now exists r.
Qed.

(* ---- sorting ------------------------------------------------------------ *)

Lemma pos_le_iff (a b : diag) :
  pos_le msg a b = true <->
  (d_line a < d_line b \/ (d_line a = d_line b /\ d_col a <= d_col b))%N.
Proof.
  unfold pos_le. rewrite orb_true_iff, andb_true_iff, N.ltb_lt, N.eqb_eq, N.leb_le. tauto.
Qed.

Lemma pos_le_trans a b c : pos_le msg a b = true -> pos_le msg b c = true -> pos_le msg a c = true.
Proof. rewrite !pos_le_iff. lia. Qed.

Lemma pos_le_total a b : pos_le msg a b = false -> pos_le msg b a = true.
Proof.
  intro H. apply pos_le_iff. destruct (pos_le msg a b) eqn:E; [discriminate|].
  assert (~ (d_line a < d_line b \/ (d_line a = d_line b /\ d_col a <= d_col b))%N) as N
    by (rewrite <- pos_le_iff; congruence).
  lia.
Qed.

Fixpoint sorted (l : list diag) : bool :=
  match l with
  | [] => true
  | x :: l' => forallb (pos_le msg x) l' && sorted l'
  end.

Lemma forallb_insert f x l : forallb f (insert_d x l) = f x && forallb f l.
Proof.
  induction l as [|y l IH]; cbn; [reflexivity|].
  destruct (pos_le msg x y); cbn; [reflexivity|]. rewrite IH.
  destruct (f x), (f y); reflexivity.
Qed.

Lemma forallb_le_trans x y l :
  pos_le msg x y = true -> forallb (pos_le msg y) l = true -> forallb (pos_le msg x) l = true.
Proof.
  intros Hxy H. rewrite forallb_forall in *. intros z Hz. eapply pos_le_trans; eauto.
Qed.

Lemma insert_sorted x l : sorted l = true -> sorted (insert_d x l) = true.
Proof.
  induction l as [|y l IH]; intro H; [reflexivity|].
  cbn [sorted] in H. apply andb_true_iff in H. destruct H as [Hy Hl].
  cbn [Filter.insert_d]. destruct (pos_le msg x y) eqn:E.
  - cbn [sorted forallb]. rewrite E, Hy, Hl, (forallb_le_trans x y l E Hy). reflexivity.
  - cbn [sorted]. rewrite forallb_insert, (pos_le_total _ _ E), Hy, (IH Hl). reflexivity.
Qed.

Lemma sort_sorted l : sorted (sort_d l) = true.
Proof. induction l as [|x l IH]; [reflexivity|]. cbn. now apply insert_sorted. Qed.

Lemma forallb_filter {A} (f p : A -> bool) l : forallb f l = true -> forallb f (filter p l) = true.
Proof.
  rewrite !forallb_forall. intros H z Hz. apply filter_In in Hz. now apply H.
Qed.

Lemma insert_front x l : forallb (pos_le msg x) l = true -> insert_d x l = x :: l.
Proof. destruct l as [|y l]; [reflexivity|]. cbn. intro H. apply andb_true_iff in H. now rewrite (proj1 H). Qed.

Lemma filter_insert p x l : sorted l = true ->
  filter p (insert_d x l) = if p x then insert_d x (filter p l) else filter p l.
Proof.
  induction l as [|y l IH]; intro H.
  - cbn. now destruct (p x).
  - cbn [sorted] in H. apply andb_true_iff in H. destruct H as [Hy Hl].
    cbn [Filter.insert_d]. destruct (pos_le msg x y) eqn:E.
    + cbn [filter]. destruct (p x); [|reflexivity].
      symmetry. apply insert_front.
      change (forallb (pos_le msg x) (filter p (y :: l)) = true). apply forallb_filter.
      cbn [forallb]. now rewrite E, (forallb_le_trans x y l E Hy).
    + cbn [filter]. rewrite (IH Hl). destruct (p x), (p y); cbn [Filter.insert_d]; try rewrite E; reflexivity.
Qed.

Theorem filter_sort_commute_gen : forall (p : diag -> bool) l,
  filter p (sort_d l) = sort_d (filter p l).
Proof.
  intros p l. induction l as [|x l IH]; [reflexivity|].
  change (sort_d (x :: l)) with (insert_d x (sort_d l)).
  rewrite filter_insert by apply sort_sorted. rewrite IH.
  cbn [filter]. now destruct (p x).
Qed.

(* filtering before sorting (what check() does) = filtering the sorted list *)
Theorem filter_sort_commute : forall cli cfgs es,
  sort_d (filter_errors cli cfgs es) = filter_errors cli cfgs (sort_d es).
Proof. intros. rewrite !filter_exact. symmetry. apply filter_sort_commute_gen. Qed.

Theorem check_tail_exact : forall cli paths p es,
  check_tail cli paths p es =
  filter (fun e => negb (ignored cli (path_configs paths p) e)) (sort_d es).
Proof. intros. unfold Filter.check_tail. now rewrite filter_sort_commute, filter_exact. Qed.

End FilterProofs.

(* ---- exit status --------------------------------------------------------- *)

Theorem exit_status_spec : forall fo ver lo,
  let s := main_status fo ver lo in
  (s = 2%N <-> fo = FlagError) /\
  (s = 3%N <-> fo = FlagOk /\ ver = false /\ lo = LintFatal) /\
  (s = 1%N <-> fo = FlagOk /\ ver = false /\ exists n, lo = LintDone (S n)) /\
  (s = 0%N <-> fo = FlagHelp \/ (fo = FlagOk /\ (ver = true \/ lo = LintDone 0))).
Proof.
  intros fo ver lo. destruct fo, ver, lo as [|[|n]]; cbn; repeat split; intros;
    repeat match goal with
           | H : _ /\ _ |- _ => destruct H
           | H : _ \/ _ |- _ => destruct H
           | H : exists _, _ |- _ => destruct H
           end; try discriminate; try tauto; eauto.
Qed.

(* for a completed run: 1 iff at least one diagnostic remains, 0 iff none *)
Corollary exit_status_run : forall n,
  (main_status FlagOk false (LintDone n) = 1%N <-> n >= 1) /\
  (main_status FlagOk false (LintDone n) = 0%N <-> n = 0).
Proof. intros [|n]; cbn; repeat split; intros; try lia; try discriminate. Qed.
