(* Out/RenderProofs.v — header format, one line per diagnostic, order and
   count preserved, the snippet is the referenced line with the caret under the
   column, and no slicing can panic (C16). *)
From AL Require Import Base.Str Out.Render.
From Coq Require Import ZArith Lia ZifyN ZifyNat ZifyBool.

Definition no_nl (s : bytes) : Prop := ~ In NL s.
Definition err_no_nl (e : err) : Prop := no_nl (e_msg e) /\ no_nl (e_file e) /\ no_nl (e_kind e).

Lemma no_nl_app x y : no_nl (x ++ y) <-> no_nl x /\ no_nl y.
Proof. unfold no_nl. rewrite in_app_iff. tauto. Qed.

Lemma no_nl_forall s : no_nl s <-> Forall (fun c => c <> NL) s.
Proof.
  unfold no_nl. rewrite Forall_forall. split.
  - intros H c Hc E. subst. tauto.
  - intros H Hin. exact (H _ Hin eq_refl).
Qed.

(* ---- %d ------------------------------------------------------------------- *)

Lemma dec_go_forall (P : ascii -> Prop) :
  (forall d, (d < 10)%N -> P (digit_char d)) ->
  forall f n acc, Forall P acc -> Forall P (dec_go f n acc).
Proof.
  intros HP f. induction f as [|f IH]; intros n acc Hacc; cbn [dec_go]; [exact Hacc|].
  assert (Forall P (digit_char (n mod 10) :: acc)) as H'.
  { constructor; [|exact Hacc]. apply HP. apply N.mod_lt. discriminate. }
  destruct (n <? 10)%N; [exact H'|]. now apply IH.
Qed.

Lemma dec_go_nonempty f n acc : acc <> [] -> dec_go f n acc <> [].
Proof.
  revert n acc. induction f as [|f IH]; intros n acc H; cbn [dec_go]; [exact H|].
  destruct (n <? 10)%N; [discriminate|]. apply IH. discriminate.
Qed.

Lemma dec_nonempty n : dec n <> [].
Proof.
  unfold dec. cbn [dec_go]. destruct (n <? 10)%N; [discriminate|]. apply dec_go_nonempty. discriminate.
Qed.

Lemma digit_char_code d : (d < 10)%N -> N_of_ascii (digit_char d) = (48 + d)%N.
Proof. intro H. unfold digit_char. apply N_ascii_embedding. lia. Qed.

Lemma digit_char_not_nl d : (d < 10)%N -> digit_char d <> NL.
Proof.
  intros H E. apply (f_equal N_of_ascii) in E. rewrite digit_char_code in E by exact H.
  change (N_of_ascii NL) with 10%N in E. lia.
Qed.

Lemma dec_no_nl n : no_nl (dec n).
Proof. apply no_nl_forall. unfold dec. apply dec_go_forall; [apply digit_char_not_nl|constructor]. Qed.

Lemma decz_no_nl z : no_nl (decz z).
Proof.
  unfold decz. destruct (z <? 0)%Z; [|apply dec_no_nl].
  intros [E|H]; [discriminate|]. exact (dec_no_nl _ H).
Qed.

(* ---- header ------------------------------------------------------------------ *)

(* the pieces PrettyPrint writes make up exactly Error.Error() and a line feed *)
Theorem header_format : forall e,
  concat (header_writes e) = error_string e ++ [NL] /\
  error_string e = e_file e ++ b ":" ++ decz (e_line e) ++ b ":" ++ decz (e_col e) ++ b ": "
                   ++ e_msg e ++ b " [" ++ e_kind e ++ b "]".
Proof.
  intro e. split; [|reflexivity].
  unfold header_writes, error_string. cbn [concat]. rewrite app_nil_r.
  repeat rewrite <- app_assoc. reflexivity.
Qed.

Ltac lit_no_nl := let H := fresh in intro H; cbn in H; repeat (destruct H as [H|H]; [discriminate|]); exact H.

Lemma error_string_no_nl e : err_no_nl e -> no_nl (error_string e).
Proof.
  intros (Hm & Hf & Hk). unfold error_string.
  repeat (apply no_nl_app; split); auto using decz_no_nl; lit_no_nl.
Qed.

(* ---- lines --------------------------------------------------------------------- *)

Lemma lines_go_line l : no_nl l -> forall cur rest,
  lines_go cur (l ++ NL :: rest) = (cur ++ l) :: lines_go [] rest.
Proof.
  induction l as [|c l IH]; intros H cur rest.
  - cbn. now rewrite app_nil_r.
  - cbn [app lines_go].
    assert (is_nl c = false) as E.
    { unfold is_nl. apply Ascii.eqb_neq. intro; subst. apply H. now left. }
    rewrite E, IH by (intro Hin; apply H; now right).
    now rewrite <- app_assoc.
Qed.

Section WithWidths.
Variable rune_width : N -> nat.
Variable string_width : bytes -> nat.
Notation get_indicator := (get_indicator rune_width string_width).
Notation snippet_block := (snippet_block rune_width string_width).
Notation pretty_print := (pretty_print rune_width string_width).
Notation template_fields := (template_fields rune_width string_width).
Notation print_errors := (print_errors rune_width string_width).

(* ---- no panic ----------------------------------------------------------------- *)

Lemma get_indicator_ok line col :
  (col - 1 <= Z.of_nat (length line))%Z -> exists i, get_indicator line col = Ok i.
Proof.
  intro H. unfold Render.get_indicator.
  destruct (col <=? 0)%Z; [eauto|].
  destruct (Nat.ltb (length line) (Z.to_nat (col - 1))) eqn:E; [|eauto].
  apply Nat.ltb_lt in E. lia.
Qed.

Lemma snippet_block_ok e src : exists blk, snippet_block e src = Ok blk.
Proof.
  unfold Render.snippet_block.
  destruct (Nat.eqb (length src) 0 || (e_line e <=? 0)%Z)%bool; [eauto|].
  destruct (get_line src (e_line e)) as [line|]; [|eauto].
  destruct (Z.of_nat (length line) <? e_col e - 1)%Z eqn:E; [eauto|].
  apply Z.ltb_ge in E. destruct (get_indicator_ok line (e_col e) E) as (i & ->). eauto.
Qed.

(* rendering never panics, whatever line, column and source *)
Theorem snippet_no_panic : forall e src,
  pretty_print e src <> Panic /\ template_fields e src <> Panic.
Proof.
  intros e src. split.
  - unfold Render.pretty_print. destruct (snippet_block_ok e src) as (blk & ->). discriminate.
  - unfold Render.template_fields.
    destruct (Nat.ltb 0 (length src) && (0 <? e_line e)%Z)%bool; [|discriminate].
    destruct (get_line src (e_line e)) as [l|]; [|discriminate].
    destruct (Z.of_nat (length l) >=? e_col e - 1)%Z eqn:E; [|discriminate].
    apply Z.geb_le in E. destruct (get_indicator_ok l (e_col e) E) as (i & ->).
    destruct i; discriminate.
Qed.

Corollary print_errors_no_panic : forall ol es src, print_errors ol es src <> Panic.
Proof.
  intros ol es src. induction es as [|e es IH]; cbn [Render.print_errors]; [discriminate|].
  destruct (pretty_print e (if ol then [] else src)) eqn:E1.
  - destruct (print_errors ol es src); [discriminate|tauto].
  - exfalso. exact (proj1 (snippet_no_panic _ _) E1).
Qed.

(* ---- one line per diagnostic ----------------------------------------------------- *)

Lemma pretty_print_nosrc e : pretty_print e [] = Ok (error_string e ++ [NL]).
Proof.
  unfold Render.pretty_print, Render.snippet_block. cbn [length Nat.eqb orb].
  rewrite app_nil_r. now rewrite (proj1 (header_format e)).
Qed.

Theorem oneline_one_line : forall e, err_no_nl e ->
  exists out, pretty_print e [] = Ok out /\ lines_go [] out = [error_string e].
Proof.
  intros e H. exists (error_string e ++ [NL]). split; [apply pretty_print_nosrc|].
  rewrite (lines_go_line _ (error_string_no_nl e H) [] []). reflexivity.
Qed.

(* -oneline: the output lines are exactly the headers of the diagnostics, in order *)
Theorem render_preserves_order_count : forall es src, Forall err_no_nl es ->
  exists out, print_errors true es src = Ok out /\ lines_go [] out = map error_string es.
Proof.
  intros es src H. induction H as [|e es He Hes (out & IH1 & IH2)].
  - exists (@nil ascii). split; reflexivity.
  - exists ((error_string e ++ [NL]) ++ out). cbn [Render.print_errors map].
    rewrite pretty_print_nosrc, IH1. split; [reflexivity|].
    rewrite <- app_assoc. cbn [app].
    rewrite (lines_go_line _ (error_string_no_nl e He) [] out). cbn [app]. now rewrite IH2.
Qed.

(* every mode: the output is, per diagnostic and in order, its header followed
   by its (possibly empty) snippet block *)
Theorem render_shape : forall (ol : bool) es src,
  exists blocks,
    Forall2 (fun e blk => snippet_block e (if ol then @nil ascii else src) = Ok blk) es blocks /\
    print_errors ol es src =
      Ok (concat (map (fun p => error_string (fst p) ++ [NL] ++ snd p) (combine es blocks))).
Proof.
  intros ol es src. induction es as [|e es (blocks & IH1 & IH2)].
  - exists (@nil bytes). split; [constructor|reflexivity].
  - destruct (snippet_block_ok e (if ol then @nil ascii else src)) as (blk & Hb).
    exists (blk :: blocks). split; [now constructor|].
    cbn [Render.print_errors combine map concat fst snd]. unfold Render.pretty_print.
    rewrite Hb, IH2, (proj1 (header_format e)). now rewrite <- !app_assoc.
Qed.

(* ---- the snippet ------------------------------------------------------------------ *)

(* when a snippet is shown it consists of the separator, the referenced source
   line (line-1 th token of bufio.ScanLines) and the indicator *)
Theorem snippet_spec : forall e src blk,
  snippet_block e src = Ok blk -> blk <> [] ->
  exists line ind,
    (1 <= e_line e)%Z /\
    nth_error (scan_lines src) (Z.to_nat (e_line e - 1)) = Some line /\
    get_indicator line (e_col e) = Ok ind /\
    let lnum := decz (e_line e) ++ b " | " in
    let indent := repeat " "%char (length lnum - 2) in
    blk = indent ++ b "|" ++ [NL] ++ lnum ++ line ++ [NL] ++ indent ++ b "| " ++ ind ++ [NL].
Proof.
  intros e src blk H Hne. unfold Render.snippet_block in H.
  destruct (Nat.eqb (length src) 0 || (e_line e <=? 0)%Z)%bool eqn:E0; [inversion H; congruence|].
  apply orb_false_iff in E0. destruct E0 as [_ E0]. apply Z.leb_gt in E0.
  destruct (get_line src (e_line e)) as [line|] eqn:El; [|inversion H; congruence].
  destruct (Z.of_nat (length line) <? e_col e - 1)%Z; [inversion H; congruence|].
  destruct (get_indicator line (e_col e)) as [ind|] eqn:Ei; [|discriminate].
  exists line, ind. split; [lia|]. split.
  - unfold get_line in El. destruct (e_line e <=? 0)%Z eqn:E1; [apply Z.leb_le in E1; lia|exact El].
  - split; [exact Ei|]. cbn zeta. now inversion H.
Qed.

(* the caret is under the reported column: for a prefix of printable ASCII
   (display width = number of bytes) it is preceded by exactly col-1 spaces *)
Theorem indicator_caret : forall line col,
  (1 <= col)%Z -> (col - 1 <= Z.of_nat (length line))%Z ->
  string_width (firstn (Z.to_nat (col - 1)) line) = Z.to_nat (col - 1) ->
  exists uw, get_indicator line col = Ok (repeat " "%char (Z.to_nat (col - 1)) ++ ["^"%char] ++ repeat "~"%char uw).
Proof.
  intros line col H1 H2 Hw. unfold Render.get_indicator.
  destruct (col <=? 0)%Z eqn:E; [apply Z.leb_le in E; lia|].
  destruct (Nat.ltb (length line) (Z.to_nat (col - 1))) eqn:E2; [apply Nat.ltb_lt in E2; lia|].
  rewrite Hw. eauto.
Qed.

End WithWidths.
