(* Graph/DfsProofs.v — correctness of the cycle search of Graph/Dfs.v for every
   finite graph and every visiting order:
     - the DFS never runs out of the fuel [S (length vs)] (termination),
     - if it reports no back edge, no vertex lies on a cycle (completeness),
     - if it reports a back edge, the active vertices form the DFS stack, and
       collectCycle walks exactly the stack segment from the target of the back
       edge to its source (never taking its delete branch), the printing loop
       follows that segment once around and stops (termination, no nil
       dereference), and what it prints is a closed walk along edges
       (soundness).
   Invariants: a vertex is active iff it is on the (ghost) stack; the stack has
   no repetition; consecutive stack entries p, c satisfy "c is a successor of p
   and every successor listed before c is finished"; finished vertices are
   closed under successors and lie on no cycle. *)
From Coq Require Import List Bool Arith Lia Permutation.
From AL Require Import Graph.Dfs.
Import ListNotations.

(* ---- consecutive pairs of a list ----------------------------------------- *)

Fixpoint consec {A} (P : A -> A -> Prop) (l : list A) : Prop :=
  match l with
  | a :: ((b :: _) as tl) => P a b /\ consec P tl
  | _ => True
  end.

Lemma consec_app_l {A} (P : A -> A -> Prop) l1 l2 : consec P (l1 ++ l2) -> consec P l1.
Proof.
  induction l1 as [|a l1 IH]; cbn; [trivial|].
  destruct l1 as [|b l1]; cbn in *; [trivial|].
  intros [H1 H2]. split; [exact H1|]. apply IH. exact H2.
Qed.

Lemma consec_app_r {A} (P : A -> A -> Prop) l1 l2 : consec P (l1 ++ l2) -> consec P l2.
Proof.
  induction l1 as [|a l1 IH]; cbn; [trivial|].
  destruct l1 as [|b l1]; cbn in *.
  - destruct l2; [trivial|]. intros [_ H]. exact H.
  - intros [_ H]. apply IH. exact H.
Qed.

Lemma consec_join {A} (P : A -> A -> Prop) l1 x l2 :
  consec P (l1 ++ [x]) -> consec P (x :: l2) -> consec P (l1 ++ x :: l2).
Proof.
  induction l1 as [|a l1 IH]; cbn; [trivial|].
  destruct l1 as [|b l1]; cbn in *.
  - intros [H _] H2. split; assumption.
  - intros [H1 H2] H3. split; [exact H1|]. apply IH; assumption.
Qed.

Lemma consec_mono {A} (P Q : A -> A -> Prop) l :
  (forall a b, P a b -> Q a b) -> consec P l -> consec Q l.
Proof.
  intros HPQ. induction l as [|a l IH]; cbn; [trivial|].
  destruct l as [|b l]; [trivial|]. intros [H1 H2]. split; [auto|]. apply IH. exact H2.
Qed.

Lemma consec_snoc {A} (P : A -> A -> Prop) l x y :
  consec P (l ++ [x]) -> P x y -> consec P ((l ++ [x]) ++ [y]).
Proof.
  intros H1 H2. rewrite <- app_assoc. cbn. apply consec_join; [exact H1|]. cbn. auto.
Qed.

(* rotation of a cyclic sequence: if P holds along l1 ++ s :: l2 and back to
   its head, it holds along s :: l2 ++ l1 and back to s *)
Lemma consec_rotate {A} (P : A -> A -> Prop) l1 s l2 :
  consec P ((l1 ++ s :: l2) ++ [hd s l1]) -> consec P (s :: (l2 ++ l1) ++ [s]).
Proof.
  destruct l1 as [|h l1]; cbn [hd app].
  - rewrite app_nil_r. cbn. trivial.
  - intros H.
    (* H : consec P (h :: (l1 ++ s :: l2) ++ [h]) *)
    change (h :: l1 ++ s :: l2) with ((h :: l1) ++ s :: l2) in H.
    rewrite <- app_assoc in H. cbn [app] in H.
    (* (h :: l1) ++ s :: (l2 ++ [h]) *)
    pose proof (consec_app_r P (h :: l1) (s :: l2 ++ [h]) H) as Hr.
    assert (Hl : consec P ((h :: l1) ++ [s])).
    { apply (consec_app_l P ((h :: l1) ++ [s]) (l2 ++ [h])).
      rewrite <- app_assoc. exact H. }
    replace (s :: (l2 ++ h :: l1) ++ [s]) with ((s :: l2) ++ h :: (l1 ++ [s])).
    2:{ cbn. rewrite <- app_assoc. reflexivity. }
    apply consec_join; [exact Hr|exact Hl].
Qed.

Lemma NoDup_snoc {A} (l : list A) x : NoDup (l ++ [x]) <-> ~ In x l /\ NoDup l.
Proof.
  split.
  - intros H. assert (H2 : NoDup (x :: l)).
    { eapply Permutation_NoDup; [|exact H]. apply Permutation_sym, Permutation_cons_append. }
    inversion H2; auto.
  - intros [H1 H2]. eapply Permutation_NoDup; [apply Permutation_cons_append|]. now constructor.
Qed.

Lemma NoDup_app_r {A} (l1 l2 : list A) : NoDup (l1 ++ l2) -> NoDup l2.
Proof. induction l1 as [|a l1 IH]; cbn; [trivial|]. intros H. inversion H; auto. Qed.

Lemma filter_len_le {A} (f g : A -> bool) l :
  (forall x, In x l -> f x = true -> g x = true) -> length (filter f l) <= length (filter g l).
Proof.
  induction l as [|a l IH]; cbn; intros H; [lia|].
  assert (IH' : length (filter f l) <= length (filter g l)) by (apply IH; intros; apply H; auto).
  destruct (f a) eqn:Ef.
  - rewrite (H a (or_introl eq_refl) Ef). cbn. lia.
  - destruct (g a); cbn; lia.
Qed.

Lemma filter_len_lt {A} (f g : A -> bool) l v :
  (forall x, In x l -> f x = true -> g x = true) -> In v l -> f v = false -> g v = true ->
  length (filter f l) < length (filter g l).
Proof.
  induction l as [|a l IH]; cbn; intros H Hin Hf Hg; [contradiction|].
  assert (Hle : length (filter f l) <= length (filter g l)) by (apply filter_len_le; intros; apply H; auto).
  destruct Hin as [->|Hin].
  - rewrite Hf, Hg. cbn. lia.
  - assert (IH' : length (filter f l) < length (filter g l)) by (apply IH; auto).
    destruct (f a) eqn:Ef.
    + rewrite (H a (or_introl eq_refl) Ef). cbn. lia.
    + destruct (g a); cbn; lia.
Qed.

Section Proofs.
Context {V : Type}.
Variable eqb : V -> V -> bool.
Variable succ : V -> list V.
Variable before : V -> V -> bool.
Hypothesis eqb_spec : forall a b, reflect (a = b) (eqb a b).
Variable vs : list V.                         (* the vertices *)
Hypothesis succ_closed : forall v w, In v vs -> In w (succ v) -> In w vs.

Notation sts := (@sts V).
Notation upd := (upd eqb).
Notation dfs := (dfs eqb succ).
Notation dfs_loop := (dfs_loop eqb).
Notation detect_first := (detect_first eqb succ).

Lemma eqb_refl a : eqb a a = true.
Proof. destruct (eqb_spec a a); congruence. Qed.

Lemma eqb_neq a b : a <> b -> eqb a b = false.
Proof. destruct (eqb_spec a b); congruence. Qed.

Lemma upd_same (st : sts) v s : upd st v s v = s.
Proof. unfold Dfs.upd. now rewrite eqb_refl. Qed.

Lemma upd_other (st : sts) v s u : u <> v -> upd st v s u = st u.
Proof. intros H. unfold Dfs.upd. now rewrite eqb_neq. Qed.

(* ---- the graph ---------------------------------------------------------------- *)

Definition edge (u w : V) : Prop := In w (succ u).

Inductive path : V -> V -> Prop :=
| path1 u w : edge u w -> path u w
| pathS u w x : edge u w -> path w x -> path u x.

Lemma path_trans u w x : path u w -> path w x -> path u x.
Proof. induction 1; intros H2; [eapply pathS; eauto|eapply pathS; eauto]. Qed.

Lemma consec_edge_path l : forall x y, consec edge (x :: l ++ [y]) -> path x y.
Proof.
  induction l as [|a l IH]; cbn; intros x y.
  - intros [H _]. now apply path1.
  - intros [H1 H2]. eapply pathS; [exact H1|]. apply IH. exact H2.
Qed.

(* ---- fuel measure: number of vertices still new -------------------------------- *)

Definition cnt (st : sts) : nat := length (filter (fun v => is_new (st v)) vs).

Definition le_sts (st st' : sts) : Prop := forall u, st u <> SNew -> st' u = st u.

Lemma le_sts_refl st : le_sts st st.
Proof. intros u _. reflexivity. Qed.

Lemma le_sts_trans st1 st2 st3 : le_sts st1 st2 -> le_sts st2 st3 -> le_sts st1 st3.
Proof. intros H1 H2 u Hu. rewrite H2; [now apply H1|]. rewrite H1; assumption. Qed.

Lemma cnt_le st st' : le_sts st st' -> cnt st' <= cnt st.
Proof.
  intros H. unfold cnt. apply filter_len_le. intros x _ Hx.
  destruct (st x) eqn:E; [reflexivity| |]; rewrite H in Hx by congruence; rewrite E in Hx; discriminate.
Qed.

Lemma cnt_upd_lt st v : In v vs -> st v = SNew -> cnt (upd st v SActive) < cnt st.
Proof.
  intros Hin Hv. unfold cnt. apply filter_len_lt with (v := v); auto.
  - intros x _. destruct (eqb_spec x v) as [->|N].
    + rewrite upd_same. discriminate.
    + now rewrite upd_other.
  - now rewrite upd_same.
  - now rewrite Hv.
Qed.

(* ---- invariants -------------------------------------------------------------------- *)

Definition fin (st : sts) (w : V) : Prop := st w = SFinished.

(* c is a successor of p and everything listed before it is finished *)
Definition fa (st : sts) (p c : V) : Prop :=
  exists pre post, succ p = pre ++ c :: post /\ Forall (fin st) pre.

Definition fin_closed (st : sts) : Prop :=
  forall u w, st u = SFinished -> In w (succ u) -> st w = SFinished.

Record Inv (st : sts) (stack : list V) : Prop := {
  inv_act : forall v, st v = SActive <-> In v stack;
  inv_nd : NoDup stack;
  inv_closed : fin_closed st;
  inv_chain : consec (fa st) stack;
  inv_nocyc : forall u, st u = SFinished -> ~ path u u;
  inv_dom : forall v, st v <> SNew -> In v vs }.

Lemma fa_edge st p c : fa st p c -> edge p c.
Proof. intros [pre [post [H _]]]. unfold edge. rewrite H. apply in_or_app. right. now left. Qed.

Lemma fa_mono st st' p c : (forall u, fin st u -> fin st' u) -> fa st p c -> fa st' p c.
Proof.
  intros H [pre [post [H1 H2]]]. exists pre, post. split; [exact H1|].
  eapply Forall_impl; [|exact H2]. exact H.
Qed.

Lemma closed_path st u w : fin_closed st -> st u = SFinished -> path u w -> st w = SFinished.
Proof. intros Hc Hu Hp. induction Hp; eauto. Qed.

Lemma Inv_init : Inv (fun _ => SNew) [].
Proof.
  constructor.
  - intros v. split; [discriminate|contradiction].
  - constructor.
  - intros u w H. discriminate.
  - exact I.
  - intros u H. discriminate.
  - intros v H. congruence.
Qed.

Lemma push_inv st stack v :
  Inv st stack -> st v = SNew -> In v vs -> consec (fa st) (stack ++ [v]) ->
  Inv (upd st v SActive) (stack ++ [v]).
Proof.
  intros I Hv Hin Hc.
  assert (Hfin : forall u, fin st u -> fin (upd st v SActive) u).
  { unfold fin. intros u Hu. rewrite upd_other; [exact Hu|]. intros ->. congruence. }
  constructor.
  - intros u. rewrite in_app_iff. cbn. destruct (eqb_spec u v) as [->|N].
    + rewrite upd_same. tauto.
    + rewrite upd_other by exact N. rewrite (inv_act _ _ I). split; [tauto|]. intros [H|[H|[]]]; [exact H|congruence].
  - apply NoDup_snoc. split; [|apply (inv_nd _ _ I)].
    intros H. apply (inv_act _ _ I) in H. congruence.
  - intros u w Hu Hw. destruct (eqb_spec u v) as [->|N].
    + rewrite upd_same in Hu. discriminate.
    + rewrite upd_other in Hu by exact N. apply Hfin. eapply (inv_closed _ _ I); eauto.
  - eapply consec_mono; [|exact Hc]. intros a b. apply fa_mono. exact Hfin.
  - intros u Hu. destruct (eqb_spec u v) as [->|N].
    + rewrite upd_same in Hu. discriminate.
    + rewrite upd_other in Hu by exact N. now apply (inv_nocyc _ _ I).
  - intros u Hu. destruct (eqb_spec u v) as [->|N]; [exact Hin|].
    rewrite upd_other in Hu by exact N. now apply (inv_dom _ _ I).
Qed.

Lemma finish_inv st stack v :
  Inv st (stack ++ [v]) -> (forall w, In w (succ v) -> st w = SFinished) ->
  Inv (upd st v SFinished) stack.
Proof.
  intros I Hs.
  pose proof (inv_nd _ _ I) as Hnd. apply NoDup_snoc in Hnd. destruct Hnd as [Hnin Hnd].
  assert (Hva : st v = SActive).
  { apply (inv_act _ _ I). apply in_or_app. right. now left. }
  assert (Hfin : forall u, fin st u -> fin (upd st v SFinished) u).
  { unfold fin. intros u Hu. destruct (eqb_spec u v) as [->|N]; [now rewrite upd_same|now rewrite upd_other]. }
  constructor.
  - intros u. destruct (eqb_spec u v) as [->|N].
    + rewrite upd_same. split; [discriminate|]. intros H. contradiction.
    + rewrite upd_other by exact N. rewrite (inv_act _ _ I), in_app_iff. cbn.
      split; [|tauto]. intros [H|[H|[]]]; [exact H|congruence].
  - exact Hnd.
  - intros u w Hu Hw. destruct (eqb_spec u v) as [->|N].
    + apply Hfin. now apply Hs.
    + rewrite upd_other in Hu by exact N. apply Hfin. eapply (inv_closed _ _ I); eauto.
  - eapply consec_mono; [|exact (consec_app_l _ _ _ (inv_chain _ _ I))].
    intros a b. apply fa_mono. exact Hfin.
  - intros u Hu. destruct (eqb_spec u v) as [->|N].
    + intros Hp.
      assert (Hx : forall x, path v x -> st x = SFinished).
      { intros x Hpx. inversion Hpx as [? ? He|? w ? He Hp']; subst.
        - now apply Hs.
        - eapply closed_path; [exact (inv_closed _ _ I)|apply Hs; exact He|exact Hp']. }
      specialize (Hx v Hp). congruence.
    + rewrite upd_other in Hu by exact N. now apply (inv_nocyc _ _ I).
  - intros u Hu. destruct (eqb_spec u v) as [->|N].
    + apply (inv_dom _ _ I). congruence.
    + rewrite upd_other in Hu by exact N. now apply (inv_dom _ _ I).
Qed.

(* ---- the DFS ----------------------------------------------------------------------- *)

Definition dfs_post (st : sts) (stack : list V) (v : V) (r : res (option (V * V) * sts)) : Prop :=
  match r with
  | Done (None, st') => Inv st' stack /\ st' v = SFinished /\ le_sts st st'
  | Done (Some (a, b), st') => exists fr, Inv st' (fr ++ [a]) /\ In b (fr ++ [a]) /\ fa st' a b
  | _ => False
  end.

Definition loop_post (st : sts) (stack : list V) (v : V) (r : res (option (V * V) * sts)) : Prop :=
  match r with
  | Done (None, st') => Inv st' stack /\ st' v = SFinished /\ (forall u, u <> v -> st u <> SNew -> st' u = st u)
  | Done (Some (a, b), st') => exists fr, Inv st' (fr ++ [a]) /\ In b (fr ++ [a]) /\ fa st' a b
  | _ => False
  end.

Definition dfs_ok (f : nat) : Prop :=
  forall st v stack, Inv st stack -> st v = SNew -> In v vs ->
    consec (fa st) (stack ++ [v]) -> cnt st <= f -> dfs_post st stack v (dfs f st v).

Lemma loop_spec f (IHf : dfs_ok f) : forall ws pre st v stack,
  succ v = pre ++ ws -> Forall (fin st) pre -> Inv st (stack ++ [v]) -> In v vs -> cnt st <= f ->
  loop_post st stack v (dfs_loop (dfs f) v ws st).
Proof.
  induction ws as [|w ws IH]; intros pre st v stack Hs Hpre I Hin Hcnt; cbn.
  - rewrite app_nil_r in Hs. split; [|split].
    + apply finish_inv; [exact I|]. intros w Hw. rewrite Hs in Hw.
      rewrite Forall_forall in Hpre. now apply Hpre.
    + apply upd_same.
    + intros u N _. now apply upd_other.
  - assert (Hfa : fa st v w) by (exists pre, ws; auto).
    assert (Hs' : succ v = (pre ++ [w]) ++ ws) by (rewrite <- app_assoc; exact Hs).
    destruct (st w) eqn:Ew.
    + (* new: recursive call *)
      assert (Hw : In w vs).
      { apply (succ_closed v); [exact Hin|]. rewrite Hs. apply in_or_app. right. now left. }
      pose proof (IHf st w (stack ++ [v]) I Ew Hw (consec_snoc _ _ _ _ (inv_chain _ _ I) Hfa) Hcnt) as Hr.
      destruct (dfs f st w) as [| |[[[a b]|] st']]; cbn in Hr; try contradiction.
      * exact Hr.
      * destruct Hr as [I' [Hwf Hle]].
        assert (Hpre' : Forall (fin st') (pre ++ [w])).
        { apply Forall_app. split.
          - eapply Forall_impl; [|exact Hpre]. unfold fin. intros u Hu. rewrite Hle; congruence.
          - constructor; [exact Hwf|constructor]. }
        pose proof (IH (pre ++ [w]) st' v stack Hs' Hpre' I' Hin ltac:(pose proof (cnt_le _ _ Hle); lia)) as Hl.
        destruct (dfs_loop (dfs f) v ws st') as [| |[[[a b]|] st'']]; cbn in Hl |- *; try contradiction.
        -- exact Hl.
        -- destruct Hl as [I'' [Hv Hu]]. split; [exact I''|split; [exact Hv|]].
           intros u N Hnn. rewrite Hu; [now apply Hle|exact N|]. rewrite Hle; assumption.
    + (* active: back edge *)
      cbn. exists stack. split; [exact I|split; [|exact Hfa]].
      now apply (inv_act _ _ I).
    + (* finished: skip *)
      apply (IH (pre ++ [w])); auto.
      apply Forall_app. split; [exact Hpre|]. constructor; [exact Ew|constructor].
Qed.

Lemma dfs_spec : forall f, dfs_ok f.
Proof.
  induction f as [|f IHf]; intros st v stack I Hv Hin Hc Hcnt.
  - pose proof (cnt_upd_lt st v Hin Hv). lia.
  - cbn [Dfs.dfs].
    pose proof (push_inv st stack v I Hv Hin Hc) as I1.
    pose proof (cnt_upd_lt st v Hin Hv) as Hlt.
    pose proof (loop_spec f IHf (succ v) [] (upd st v SActive) v stack eq_refl (Forall_nil _) I1 Hin ltac:(lia)) as Hl.
    destruct (dfs_loop (dfs f) v (succ v) (upd st v SActive)) as [| |[[[a b]|] st']]; cbn in Hl |- *; try contradiction.
    + exact Hl.
    + destruct Hl as [I' [Hvf Hu]]. split; [exact I'|split; [exact Hvf|]].
      intros u Hnn. assert (N : u <> v) by (intros ->; congruence).
      rewrite Hu; [now apply upd_other|exact N|]. rewrite upd_other; assumption.
Qed.

Definition first_post (ord : list V) (st : sts) (r : res (option (V * V) * sts)) : Prop :=
  match r with
  | Done (None, st') => Inv st' [] /\ le_sts st st' /\ (forall v, In v ord -> st' v = SFinished)
  | Done (Some (a, b), st') => exists fr, Inv st' (fr ++ [a]) /\ In b (fr ++ [a]) /\ fa st' a b
  | _ => False
  end.

Lemma detect_first_spec fuel : forall ord st,
  Inv st [] -> (forall v, In v ord -> In v vs) -> cnt st <= fuel ->
  first_post ord st (detect_first fuel ord st).
Proof.
  induction ord as [|v ord IH]; intros st I Hord Hcnt; cbn.
  - split; [exact I|split; [apply le_sts_refl|contradiction]].
  - assert (Hnact : forall u, st u <> SActive).
    { intros u Hu. apply (inv_act _ _ I) in Hu. contradiction. }
    assert (Hskip : st v = SFinished -> first_post (v :: ord) st (detect_first fuel ord st)).
    { intros Hv. pose proof (IH st I (fun u H => Hord u (or_intror H)) Hcnt) as Hr.
      destruct (detect_first fuel ord st) as [| |[[[a b]|] st']]; cbn in Hr |- *; try contradiction; [exact Hr|].
      destruct Hr as [I' [Hle Hall]]. split; [exact I'|split; [exact Hle|]].
      intros u [<-|Hu]; [rewrite Hle; congruence|now apply Hall]. }
    destruct (st v) eqn:Ev.
    + pose proof (dfs_spec fuel st v [] I Ev (Hord v (or_introl eq_refl)) ltac:(cbn; trivial) Hcnt) as Hr.
      destruct (dfs fuel st v) as [| |[[[a b]|] st']]; cbn in Hr |- *; try contradiction; [exact Hr|].
      destruct Hr as [I' [Hvf Hle]].
      pose proof (IH st' I' (fun u H => Hord u (or_intror H)) ltac:(pose proof (cnt_le _ _ Hle); lia)) as Hr2.
      destruct (detect_first fuel ord st') as [| |[[[a b]|] st'']]; cbn in Hr2 |- *; try contradiction; [exact Hr2|].
      destruct Hr2 as [I'' [Hle2 Hall]]. split; [exact I''|split; [eapply le_sts_trans; eauto|]].
      intros u [<-|Hu]; [rewrite Hle2; congruence|now apply Hall].
    + exfalso. now apply (Hnact v).
    + now apply Hskip.
Qed.

(* ---- termination and completeness of the search ---------------------------------- *)

Lemma cnt_le_len st : cnt st <= length vs.
Proof.
  unfold cnt. generalize vs. intros l. induction l as [|a l IH]; cbn; [lia|].
  destruct (is_new (st a)); cbn; lia.
Qed.

Lemma detect_first_init fuel ord :
  (forall v, In v ord -> In v vs) -> length vs <= fuel ->
  first_post ord (fun _ => SNew) (detect_first fuel ord (fun _ => SNew)).
Proof.
  intros Hord Hf. apply detect_first_spec; [apply Inv_init|exact Hord|].
  pose proof (cnt_le_len (fun _ => SNew)). lia.
Qed.

Lemma first_post_nocycle ord st st' :
  (forall v, In v vs -> In v ord) -> first_post ord st (Done (None, st')) ->
  forall u, In u vs -> ~ path u u.
Proof.
  intros Hcov [I [_ Hall]] u Hu. apply (inv_nocyc _ _ I). apply Hall, Hcov, Hu.
Qed.

(* ---- the edges map ------------------------------------------------------------------- *)

Notation eget := (eget eqb).
Notation eset := (eset eqb).
Notation emem := (emem eqb).
Notation collect := (collect eqb succ).
Notation collect_loop := (collect_loop eqb).
Notation print_loop := (print_loop eqb).
Notation pick_start := (pick_start before).

Lemma eget_eset_same (E : emap) k v : eget (eset E k v) k = Some v.
Proof.
  induction E as [|[k' v'] E IH]; cbn.
  - now rewrite eqb_refl.
  - destruct (eqb_spec k k') as [->|N]; cbn.
    + now rewrite eqb_refl.
    + rewrite eqb_neq by exact N. exact IH.
Qed.

Lemma eget_eset_other (E : emap) k v k' : k' <> k -> eget (eset E k v) k' = eget E k'.
Proof.
  intros N. induction E as [|[k2 v2] E IH]; cbn.
  - now rewrite eqb_neq.
  - destruct (eqb_spec k k2) as [->|N2]; cbn.
    + now rewrite !eqb_neq by exact N.
    + destruct (eqb k' k2); [reflexivity|exact IH].
Qed.

Lemma keys_eset (E : emap) k v k' : In k' (map fst (eset E k v)) -> k' = k \/ In k' (map fst E).
Proof.
  induction E as [|[k2 v2] E IH]; cbn.
  - intros [H|[]]; auto.
  - destruct (eqb_spec k k2) as [->|N]; cbn.
    + intros [H|H]; auto.
    + intros [H|H]; auto. destruct (IH H); auto.
Qed.

Lemma emem_eget (E : emap) k : emem E k = true <-> exists v, eget E k = Some v.
Proof.
  unfold Dfs.emem. destruct (eget E k) as [v|]; split; try discriminate; eauto.
  intros [v H]. discriminate.
Qed.

Lemma emem_false (E : emap) k : eget E k = None -> emem E k = false.
Proof. unfold Dfs.emem. now intros ->. Qed.

(* ---- collectCycle walks the stack segment ------------------------------------------- *)

Lemma collect_loop_skip rec (st : sts) src pre ds E :
  Forall (fin st) pre -> collect_loop rec st src (pre ++ ds) E = collect_loop rec st src ds E.
Proof.
  induction 1 as [|d pre Hd _ IH]; cbn; [reflexivity|].
  unfold fin in Hd. rewrite Hd. cbn. exact IH.
Qed.

Definition enext (E : emap) (p c : V) : Prop := eget E p = Some c.

Lemma collect_walk (st : sts) t : forall l x E fuel,
  consec (fa st) (x :: l ++ [t]) ->
  (forall z, In z (l ++ [t]) -> st z = SActive) ->
  NoDup (x :: l) ->
  (forall z, In z l -> eget E z = None) ->
  (emem E t = true \/ t = x) ->
  length l < fuel ->
  exists E', collect fuel st x E = Done (true, E') /\
    consec (enext E') (x :: l ++ [t]) /\
    (forall k, ~ In k (x :: l) -> eget E' k = eget E k) /\
    (forall k, In k (map fst E') -> In k (map fst E) \/ In k (x :: l)).
Proof.
  induction l as [|y l IH]; intros x E fuel Hc Hact Hnd Hnone Ht Hf;
    (destruct fuel as [|f]; [lia|]); cbn [Dfs.collect].
  - cbn in Hc. destruct Hc as [[pre [post [Hs Hpre]]] _].
    rewrite Hs, collect_loop_skip by exact Hpre. cbn [Dfs.collect_loop].
    rewrite (Hact t) by (now left). cbn [is_active].
    assert (Hm : emem (eset E x t) t = true).
    { apply emem_eget. destruct Ht as [Ht| ->].
      - destruct (eqb_spec t x) as [->|N]; [eexists; apply eget_eset_same|].
        rewrite eget_eset_other by exact N. now apply emem_eget.
      - eexists; apply eget_eset_same. }
    rewrite Hm. eexists. split; [reflexivity|]. split; [|split].
    + cbn. split; [apply eget_eset_same|trivial].
    + intros k Hk. apply eget_eset_other. intros ->. apply Hk. now left.
    + intros k Hk. apply keys_eset in Hk. destruct Hk as [->|Hk]; [right; now left|now left].
  - cbn [app] in Hc. cbn in Hc. destruct Hc as [[pre [post [Hs Hpre]]] Hc].
    rewrite Hs, collect_loop_skip by exact Hpre. cbn [Dfs.collect_loop].
    rewrite (Hact y) by (now left). cbn [is_active].
    inversion Hnd as [|? ? Hx Hnd']; subst.
    assert (Nyx : y <> x) by (intros ->; apply Hx; now left).
    assert (Hm : emem (eset E x y) y = false).
    { apply emem_false. rewrite eget_eset_other by exact Nyx. apply Hnone. now left. }
    rewrite Hm.
    destruct (IH y (eset E x y) f) as [E' [Hcol [Hcon [Hsame Hkeys]]]].
    + exact Hc.
    + intros z Hz. apply Hact. now right.
    + exact Hnd'.
    + intros z Hz. rewrite eget_eset_other.
      * apply Hnone. now right.
      * intros ->. apply Hx. now right.
    + destruct Ht as [Ht| ->].
      * destruct (eqb_spec t x) as [->|N].
        -- left. apply emem_eget. eexists. apply eget_eset_same.
        -- left. apply emem_eget. rewrite eget_eset_other by exact N. now apply emem_eget.
      * left. apply emem_eget. eexists. apply eget_eset_same.
    + cbn in Hf. lia.
    + rewrite Hcol. exists E'. split; [reflexivity|]. split; [|split].
      * cbn [app]. cbn. split; [|exact Hcon].
        unfold enext. rewrite Hsame; [apply eget_eset_same|].
        intros Hin. apply Hx. exact Hin.
      * intros k Hk. rewrite Hsame.
        -- apply eget_eset_other. intros ->. apply Hk. now left.
        -- intros Hin. apply Hk. now right.
      * intros k Hk. apply Hkeys in Hk. destruct Hk as [Hk|Hk].
        -- apply keys_eset in Hk. destruct Hk as [->|Hk]; [right; now left|now left].
        -- right. now right.
Qed.

(* ---- the printing loop -------------------------------------------------------------- *)

Lemma print_walk (E : emap) start : forall l t fuel,
  consec (enext E) (t :: l ++ [start]) -> ~ In start (t :: l) -> length l + 2 <= fuel ->
  print_loop fuel E start (Some t) = Done (t :: l ++ [start]).
Proof.
  induction l as [|y l IH]; intros t fuel Hc Hn Hf;
    (destruct fuel as [|f]; [lia|]); cbn [Dfs.print_loop].
  - rewrite eqb_neq by (intros ->; apply Hn; now left).
    cbn in Hc. destruct Hc as [Hc _]. unfold enext in Hc. rewrite Hc.
    destruct f as [|f]; [cbn in Hf; lia|]. cbn [Dfs.print_loop]. now rewrite eqb_refl.
  - rewrite eqb_neq by (intros ->; apply Hn; now left).
    cbn [app] in Hc. cbn in Hc. destruct Hc as [Hc1 Hc2]. unfold enext in Hc1. rewrite Hc1.
    rewrite (IH y f); [reflexivity|exact Hc2| |cbn in Hf; lia].
    intros Hin. apply Hn. now right.
Qed.

Lemma pick_start_in (E : emap) from : In (pick_start E from) (from :: map fst E).
Proof.
  unfold Dfs.pick_start. generalize (map fst E). intros ks. revert from.
  induction ks as [|k ks IH]; intros from; cbn [fold_left].
  - now left.
  - destruct (before k from).
    + destruct (IH k) as [H|H]; [right; left; exact H|right; right; exact H].
    + destruct (IH from) as [H|H]; [left; exact H|right; right; exact H].
Qed.

(* [before] is a strict order with negatively transitive complement (positions:
   lexicographic order on (line, column)) *)
Hypothesis before_asym : forall a b, before a b = true -> before b a = false.
Hypothesis before_ntrans : forall y s n, before y s = false -> before n s = true -> before y n = false.

Lemma before_irrefl a : before a a = false.
Proof. destruct (before a a) eqn:E; [|reflexivity]. pose proof (before_asym _ _ E). congruence. Qed.

Lemma fold_min : forall ks s seen,
  (forall y, In y seen -> before y s = false) ->
  forall y, In y (seen ++ s :: ks) ->
    before y (fold_left (fun start n => if before n start then n else start) ks s) = false.
Proof.
  induction ks as [|n ks IH]; intros s seen Hseen y Hy; cbn [fold_left].
  - apply in_app_or in Hy. destruct Hy as [Hy|[<-|[]]]; [now apply Hseen|apply before_irrefl].
  - destruct (before n s) eqn:E.
    + apply (IH n (seen ++ [s])).
      * intros z Hz. apply in_app_or in Hz. destruct Hz as [Hz|[<-|[]]].
        -- eapply before_ntrans; [apply Hseen; exact Hz|exact E].
        -- now apply before_asym.
      * rewrite <- app_assoc. cbn. apply in_app_or in Hy. apply in_or_app.
        destruct Hy as [Hy|[<-|[<-|Hy]]]; [now left|right; now left|right; right; now left|right; right; now right].
    + apply (IH s (seen ++ [n])).
      * intros z Hz. apply in_app_or in Hz. destruct Hz as [Hz|[<-|[]]]; [now apply Hseen|exact E].
      * rewrite <- app_assoc. cbn. apply in_app_or in Hy. apply in_or_app.
        destruct Hy as [Hy|[<-|[<-|Hy]]]; [now left|right; right; now left|right; now left|right; right; now right].
Qed.

Lemma pick_start_min (E : emap) from y :
  In y (from :: map fst E) -> before y (pick_start E from) = false.
Proof. intros H. unfold Dfs.pick_start. apply (fold_min (map fst E) from []); [intros ? []|exact H]. Qed.

Lemma eget_key (E : emap) k v : eget E k = Some v -> In k (map fst E).
Proof.
  induction E as [|[k' v'] E IH]; cbn; [discriminate|].
  destruct (eqb_spec k k') as [->|N]; [now left|]. intros H. right. now apply IH.
Qed.

Lemma consec_src {A} (P : A -> A -> Prop) l x : consec P (l ++ [x]) -> forall p, In p l -> exists c, P p c.
Proof.
  induction l as [|a l IH]; intros H p Hp; [contradiction|].
  destruct l as [|b l]; cbn in H.
  - destruct Hp as [<-|[]]. exists x. tauto.
  - destruct H as [H1 H2]. destruct Hp as [<-|Hp]; [eauto|]. now apply IH.
Qed.

(* what the rule prints: a closed walk x -> ... -> x along edges, without
   repetition except for the end points, inside the vertex set *)
Definition is_cycle (c : list V) : Prop :=
  exists x r, c = x :: r ++ [x] /\ consec edge c /\ NoDup (x :: r) /\ incl c vs.

Lemma is_cycle_path c : is_cycle c -> exists x, In x vs /\ path x x.
Proof.
  intros [x [r [-> [Hc [_ Hi]]]]]. exists x. split; [apply Hi; now left|].
  now apply consec_edge_path with (l := r).
Qed.

Lemma split_stack (fr : list V) a b :
  In b (fr ++ [a]) ->
  exists below mid, fr ++ [a] = below ++ b :: mid /\
    ((mid = [] /\ b = a) \/ exists mid', mid = mid' ++ [a]).
Proof.
  intros H. apply in_split in H. destruct H as [l1 [l2 H]].
  exists l1, l2. split; [exact H|].
  destruct l2 as [|q l2].
  - left. split; [reflexivity|].
    apply app_inj_tail in H. now destruct H.
  - right. destruct (@exists_last _ (q :: l2)) as [l2' [z Hz]]; [discriminate|].
    rewrite Hz in H |- *. exists l2'.
    replace (l1 ++ b :: l2' ++ [z]) with ((l1 ++ b :: l2') ++ [z]) in H by (rewrite <- app_assoc; reflexivity).
    apply app_inj_tail in H. destruct H as [_ ->]. reflexivity.
Qed.

Lemma report_spec (st : sts) fr a b :
  Inv st (fr ++ [a]) -> In b (fr ++ [a]) -> fa st a b ->
  exists c, report eqb succ before (S (length vs)) st (a, b) = Done (hd a c, c) /\ is_cycle c /\
            forall y, In y c -> before y (hd a c) = false.
Proof.
  intros I Hb Hab.
  destruct (split_stack fr a b Hb) as [below [mid [Hsplit Hmid]]].
  set (cyc := b :: mid).
  assert (Hchain : consec (fa st) cyc).
  { pose proof (inv_chain _ _ I) as H. rewrite Hsplit in H. exact (consec_app_r _ _ _ H). }
  assert (Hnd : NoDup cyc).
  { pose proof (inv_nd _ _ I) as H. rewrite Hsplit in H. exact (NoDup_app_r _ _ H). }
  assert (Hact : forall z, In z cyc -> st z = SActive).
  { intros z Hz. apply (inv_act _ _ I). rewrite Hsplit. apply in_or_app. now right. }
  assert (Hvs : incl cyc vs).
  { intros z Hz. apply (inv_dom _ _ I). rewrite (Hact z Hz). discriminate. }
  assert (Hlen : length cyc <= length vs) by (apply NoDup_incl_length; assumption).
  assert (Ha : In a cyc).
  { destruct Hmid as [[-> ->]|[mid' ->]]; [now left|]. right. apply in_or_app. right. now left. }
  (* the map after collectCycle *)
  assert (HE : exists E' ok, collect (S (length vs)) st b (eset [] a b) = Done (ok, E') /\
             consec (enext E') (cyc ++ [b]) /\ (forall k, In k (map fst E') -> In k cyc)).
  { destruct Hmid as [[Hm ->]|[mid' Hm]].
    - (* self loop *)
      subst cyc. rewrite Hm in *.
      destruct (collect_walk st a [] a (eset [] a a) (S (length vs))) as [E' [Hcol [Hcon [_ Hkeys]]]].
      + cbn. auto.
      + intros z [<-|[]]. apply Hact. now left.
      + constructor; [intros []|constructor].
      + intros z [].
      + now right.
      + cbn. lia.
      + exists E', true. split; [exact Hcol|]. split; [exact Hcon|].
        intros k Hk. apply Hkeys in Hk. cbn in Hk.
        destruct Hk as [[<-|[]]|[<-|[]]]; now left.
    - subst cyc. rewrite Hm in *.
      assert (Hnd2 : ~ In a (b :: mid') /\ NoDup (b :: mid')).
      { apply NoDup_snoc. exact Hnd. }
      destruct Hnd2 as [Hna Hnd2].
      destruct (collect_walk st a mid' b (eset [] a b) (S (length vs))) as [E' [Hcol [Hcon [Hsame Hkeys]]]].
      + exact Hchain.
      + intros z Hz. apply Hact. now right.
      + exact Hnd2.
      + intros z Hz. cbn. rewrite eqb_neq; [reflexivity|]. intros ->. apply Hna. now right.
      + left. cbn. unfold Dfs.emem. cbn. now rewrite eqb_refl.
      + cbn in Hlen. rewrite app_length in Hlen. cbn in Hlen. lia.
      + exists E', true. split; [exact Hcol|]. split.
        * replace ((b :: mid' ++ [a]) ++ [b]) with ((b :: mid') ++ a :: [b]) by (cbn; rewrite <- app_assoc; reflexivity).
          apply consec_join; [exact Hcon|]. cbn. split; [|trivial].
          unfold enext. rewrite Hsame by exact Hna. cbn. now rewrite eqb_refl.
        * intros k Hk. apply Hkeys in Hk. cbn in Hk. destruct Hk as [[<-|[]]|Hk].
          -- exact Ha.
          -- change (b :: mid' ++ [a]) with ((b :: mid') ++ [a]). apply in_or_app. now left. }
  destruct HE as [E' [ok [Hcol [Hnext Hkeys]]]].
  assert (Hedges : consec edge (cyc ++ [b])).
  { apply consec_mono with (P := fa st); [intros p c; apply fa_edge|].
    destruct Hmid as [[Hm ->]|[mid' Hm]]; subst cyc; rewrite Hm in *.
    - cbn. split; [exact Hab|trivial].
    - replace ((b :: mid' ++ [a]) ++ [b]) with ((b :: mid') ++ a :: [b]) by (cbn; rewrite <- app_assoc; reflexivity).
      apply consec_join; [exact Hchain|]. cbn. split; [exact Hab|trivial]. }
  set (start := pick_start E' a).
  assert (Hstart : In start cyc).
  { destruct (pick_start_in E' a) as [H|H]; fold start in H; [now rewrite <- H|now apply Hkeys]. }
  destruct (in_split _ _ Hstart) as [l1 [l2 Hl]].
  assert (Hhd : b = hd start l1).
  { subst cyc. destruct l1; cbn in Hl |- *; congruence. }
  pose proof Hnext as Hnext0.
  rewrite Hl, Hhd in Hnext, Hedges.
  apply consec_rotate in Hnext. apply consec_rotate in Hedges.
  assert (Hnd' : NoDup (start :: l2 ++ l1)).
  { eapply Permutation_NoDup; [|exact Hnd]. rewrite Hl.
    etransitivity; [apply Permutation_app_comm|]. cbn. apply perm_skip. apply Permutation_refl. }
  assert (Hlen' : S (length (l2 ++ l1)) <= length vs).
  { rewrite Hl in Hlen. rewrite app_length in *. cbn in Hlen. lia. }
  assert (Hincl : forall z, In z (start :: (l2 ++ l1) ++ [start]) -> In z cyc).
  { intros z Hz. rewrite Hl.
    cbn in Hz. destruct Hz as [<-|Hz]; [apply in_or_app; right; now left|].
    rewrite <- app_assoc in Hz. apply in_app_or in Hz. destruct Hz as [Hz|Hz].
    + apply in_or_app. right. now right.
    + apply in_app_or in Hz. destruct Hz as [Hz|[<-|[]]].
      * apply in_or_app. now left.
      * apply in_or_app. right. now left. }
  exists (start :: (l2 ++ l1) ++ [start]). split; [|split].
  - unfold report. rewrite Hcol. fold start. cbn [hd].
    destruct (l2 ++ l1) as [|t R] eqn:ER.
    + cbn in Hnext. destruct Hnext as [Hn _]. unfold enext in Hn. rewrite Hn.
      cbn [Dfs.print_loop]. now rewrite eqb_refl.
    + cbn [app] in Hnext. cbn in Hnext. destruct Hnext as [Hn1 Hn2]. unfold enext in Hn1. rewrite Hn1.
      rewrite (print_walk E' start R t); [reflexivity|exact Hn2| |cbn in Hlen'; lia].
      inversion Hnd'; assumption.
  - exists start, (l2 ++ l1). split; [reflexivity|]. split; [exact Hedges|]. split; [exact Hnd'|].
    intros z Hz. apply Hvs. now apply Hincl.
  - cbn [hd]. intros y Hy. apply Hincl in Hy. unfold start. apply pick_start_min. right.
    destruct (consec_src _ _ _ Hnext0 y Hy) as [c Hc]. eapply eget_key. exact Hc.
Qed.

(* ---- the whole search ------------------------------------------------------------------ *)

Definition detect_post (r : res (option (V * list V))) : Prop :=
  match r with
  | Done None => forall u, In u vs -> ~ path u u
  | Done (Some (start, c)) => is_cycle c /\ hd start c = start /\ forall y, In y c -> before y start = false
  | _ => False
  end.

Theorem detect_spec ord :
  (forall v, In v ord <-> In v vs) ->
  detect_post (detect eqb succ before (S (length vs)) ord).
Proof.
  intros Hord. unfold detect.
  pose proof (detect_first_init (S (length vs)) ord (fun v H => proj1 (Hord v) H) ltac:(lia)) as Hf.
  destruct (detect_first (S (length vs)) ord (fun _ => SNew)) as [| |[[[a b]|] st']]; cbn in Hf; try contradiction.
  - destruct Hf as [fr [I [Hb Hab]]].
    destruct (report_spec st' fr a b I Hb Hab) as [c [Hr [Hc Hmin]]].
    rewrite Hr. cbn. split; [exact Hc|]. split; [|exact Hmin].
    destruct Hc as [x [r [-> _]]]. reflexivity.
  - cbn. eapply first_post_nocycle; [|exact Hf]. intros v Hv. now apply Hord.
Qed.

End Proofs.
