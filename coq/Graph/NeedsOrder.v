(* Graph/NeedsOrder.v — the result of RuleJobNeeds does not depend on the
   iteration order of the Go map rule.nodes (C02 for this rule, C18's "exactly
   one cycle diagnostic" made precise: WHICH cycle is a function of the graph).

   [ord] and [ord'] are two iteration orders of the same node table.  When the
   nodes have pairwise distinct positions (distinct keys of one YAML mapping):
     - detectFirstCycle sorts them into the same list, so the cyclic
       diagnostic is the same term for both orders;
     - the "does not exist" diagnostics are emitted in map order, all
       diagnostics of one node at that node's position: after the final stable
       sort by position (linter.go) the two lists are equal. *)
From AL Require Import Base.Str Base.AList Out.StableSort Out.Determinism Graph.Dfs Graph.Needs Graph.NeedsProofs.

Definition d_pos (d : Needs.diag) : posn :=
  match d with
  | DDupNeed p _ => p
  | DDupJob p _ => p
  | DMissing p _ _ => p
  | DCycle p _ => p
  end.

(* linter.go: sort.Stable(ByErrorPosition(...)) restricted to this rule's diagnostics *)
Definition final_needs (ds : list Needs.diag) : list Needs.diag := ssort d_pos pos_leb ds.

Definition distinct_pos (m : nodes) : Prop := NoDup (map (pos_of m) (keys m)).

(* ---- generic: entries with pairwise distinct keys -------------------------- *)
Section GenKey.
Context {A : Type}.
Variable key : A -> posn.

Lemma with_key_perm_gen (l l' : list A) :
  Permutation l l' -> NoDup (map key l) -> forall k, with_key key pos_leb k l = with_key key pos_leb k l'.
Proof.
  unfold with_key.
  induction 1 as [|x l l' P IH|x y l|l l' l'' P1 IH1 P2 IH2]; intros ND k.
  - reflexivity.
  - cbn. inversion ND; subst. rewrite IH by assumption. reflexivity.
  - cbn. cbn in ND. inversion ND as [|? ? Hn ND']; subst.
    destruct (keqb pos_leb (key y) k) eqn:Ey, (keqb pos_leb (key x) k) eqn:Ex; try reflexivity.
    apply pos_keqb_eq in Ey. apply pos_keqb_eq in Ex. exfalso. apply Hn. left. congruence.
  - rewrite IH1 by assumption. apply IH2.
    eapply Permutation_NoDup; [|exact ND]. now apply Permutation_map.
Qed.

Theorem ssort_perm_distinct (l l' : list A) :
  Permutation l l' -> NoDup (map key l) -> ssort key pos_leb l = ssort key pos_leb l'.
Proof.
  intros P ND. apply (ssort_unique key pos_leb pos_leb_total pos_leb_trans).
  now apply with_key_perm_gen.
Qed.
End GenKey.

(* ---- the node order of detectFirstCycle is canonical ------------------------ *)
Theorem sort_nodes_det m ord ord' :
  Permutation ord ord' -> NoDup (map (pos_of m) ord) -> sort_nodes m ord = sort_nodes m ord'.
Proof. intros P ND. unfold sort_nodes. now apply ssort_perm_distinct. Qed.

Theorem detect_needs_order_indep m ord ord' :
  distinct_pos m -> Permutation ord (keys m) -> Permutation ord' (keys m) ->
  detect_needs m ord = detect_needs m ord'.
Proof.
  intros D P P'. unfold detect_needs. f_equal. apply sort_nodes_det.
  - eapply Permutation_trans; [exact P|apply Permutation_sym; exact P'].
  - unfold distinct_pos in D. eapply Permutation_NoDup; [|exact D].
    apply Permutation_map. now apply Permutation_sym.
Qed.

(* ---- the resolution loop -------------------------------------------------------- *)
Lemma with_key_app k (a b : list Needs.diag) :
  with_key d_pos pos_leb k (a ++ b) = with_key d_pos pos_leb k a ++ with_key d_pos pos_leb k b.
Proof. unfold with_key. apply filter_app. Qed.

Lemma with_key_flat_map_needs {B} (f : B -> list Needs.diag) p (l : list B) :
  with_key d_pos pos_leb p (flat_map f l) = flat_map (fun x => with_key d_pos pos_leb p (f x)) l.
Proof.
  unfold with_key. induction l as [|x l IH]; cbn; [reflexivity|].
  now rewrite filter_app, IH.
Qed.

Lemma missing_of_pos m kn d : In d (missing_of m kn) -> d_pos d = n_pos (snd kn).
Proof.
  unfold missing_of. intros H. apply in_map_iff in H. destruct H as [dep [<- _]]. reflexivity.
Qed.

Lemma entries_perm m ord ord' : Permutation ord ord' -> Permutation (entries m ord) (entries m ord').
Proof. intros P. unfold entries. now apply Permutation_flat_map. Qed.

Lemma entries_keys_nodup m ord :
  NoDupKeys m -> Permutation ord (keys m) -> distinct_pos m ->
  NoDup (map (fun kn => n_pos (snd kn)) (entries m ord)).
Proof.
  intros ND P D.
  assert (E : map (fun kn => n_pos (snd kn)) (entries m ord) = map (pos_of m) ord).
  { assert (Hin : forall k, In k ord -> In k (keys m)) by (intros k; apply Permutation_in; exact P).
    clear P. induction ord as [|k ord IH]; cbn; [reflexivity|].
    assert (Hk : In k (keys m)) by (apply Hin; now left).
    unfold pos_of at 1. destruct (lookup k m) as [nd|] eqn:L.
    - cbn. f_equal. apply IH. intros k' H'. apply Hin. now right.
    - exfalso. unfold keys in Hk. apply in_map_iff in Hk. destruct Hk as [[k0 nd] [<- Hk]].
      cbn in L. rewrite (In_lookup k0 nd m ND Hk) in L. discriminate. }
  rewrite E. unfold distinct_pos in D. eapply Permutation_NoDup; [|exact D].
  apply Permutation_map. now apply Permutation_sym.
Qed.

Theorem missing_order_indep m ord ord' (pre : list Needs.diag) :
  NoDupKeys m -> distinct_pos m -> Permutation ord (keys m) -> Permutation ord' (keys m) ->
  Permutation (flat_map (missing_of m) (entries m ord)) (flat_map (missing_of m) (entries m ord')) /\
  final_needs (pre ++ flat_map (missing_of m) (entries m ord)) =
  final_needs (pre ++ flat_map (missing_of m) (entries m ord')).
Proof.
  intros ND D P P'.
  assert (PE : Permutation (entries m ord) (entries m ord')).
  { apply entries_perm. eapply Permutation_trans; [exact P|apply Permutation_sym; exact P']. }
  split; [now apply Permutation_flat_map|].
  apply (ssort_unique d_pos pos_leb pos_leb_total pos_leb_trans). intros p.
  rewrite !with_key_app. f_equal. rewrite !with_key_flat_map_needs.
  pose proof (entries_keys_nodup m ord ND P D) as NDE.
  apply flat_map_perm_single; [exact PE|eapply NoDup_map_inv; exact NDE|].
  intros x y Ix Iy Nxy.
  destruct (with_key d_pos pos_leb p (missing_of m x)) as [|d1 r1] eqn:E1; [now left|].
  destruct (with_key d_pos pos_leb p (missing_of m y)) as [|d2 r2] eqn:E2; [now right|].
  exfalso.
  assert (I1 : In d1 (with_key d_pos pos_leb p (missing_of m x))) by (rewrite E1; now left).
  assert (I2 : In d2 (with_key d_pos pos_leb p (missing_of m y))) by (rewrite E2; now left).
  unfold with_key in I1, I2. apply filter_In in I1. apply filter_In in I2.
  destruct I1 as [I1 K1], I2 as [I2 K2].
  apply pos_keqb_eq in K1. apply pos_keqb_eq in K2.
  apply missing_of_pos in I1. apply missing_of_pos in I2.
  (* two different entries with the same position *)
  assert (Epos : n_pos (snd x) = n_pos (snd y)) by congruence.
  clear - NDE Ix Iy Nxy Epos.
  induction (entries m ord) as [|e l IH]; [contradiction|].
  cbn in NDE. inversion NDE as [|? ? Hn NDl]; subst.
  destruct Ix as [->|Ix], Iy as [->|Iy].
  - now apply Nxy.
  - apply Hn. rewrite Epos. now apply (in_map (fun kn => n_pos (snd kn))).
  - apply Hn. rewrite <- Epos. now apply (in_map (fun kn => n_pos (snd kn))).
  - now apply IH.
Qed.

(* ---- VisitWorkflowPost and the whole rule ------------------------------------------ *)
Theorem workflow_post_order_indep m ord ord' (pre : list Needs.diag) :
  NoDupKeys m -> distinct_pos m -> Permutation ord (keys m) -> Permutation ord' (keys m) ->
  exists ds ds', workflow_post m ord = Done ds /\ workflow_post m ord' = Done ds' /\
    Permutation ds ds' /\
    filter is_cycle_diag ds = filter is_cycle_diag ds' /\
    final_needs (pre ++ ds) = final_needs (pre ++ ds').
Proof.
  intros ND D P P'.
  destruct (missing_order_indep m ord ord' pre ND D P P') as [PM FM].
  destruct (workflow_post_total m ord P) as [ds Hd], (workflow_post_total m ord' P') as [ds' Hd'].
  exists ds, ds'. split; [exact Hd|split; [exact Hd'|]].
  unfold workflow_post in Hd, Hd'.
  rewrite <- (detect_needs_order_indep m ord ord' D P P') in Hd'.
  destruct (flat_map (missing_of m) (entries m ord)) as [|a l] eqn:E1;
    destruct (flat_map (missing_of m) (entries m ord')) as [|a' l'] eqn:E2.
  - destruct (detect_needs m ord) as [| |[[s c]|]]; try discriminate;
      inversion Hd; inversion Hd'; subst; repeat split; auto.
  - apply Permutation_nil in PM. discriminate PM.
  - apply Permutation_sym, Permutation_nil in PM. discriminate PM.
  - inversion Hd; inversion Hd'; subst. split; [exact PM|]. split; [|exact FM].
    (* no cyclic diagnostic among the "does not exist" diagnostics *)
    assert (NC : forall mm oo, filter is_cycle_diag (flat_map (missing_of mm) oo) = []).
    { intros mm oo. induction oo as [|kn oo IH]; cbn; [reflexivity|].
      rewrite filter_app, IH, app_nil_r. unfold missing_of.
      induction (filter (fun d => negb (has mm d)) (n_needs (snd kn))) as [|x xs IHx]; cbn; auto. }
    rewrite <- E1, <- E2. now rewrite !NC.
Qed.

Theorem run_order_indep jobs ord ord' :
  distinct_pos (table jobs) ->
  Permutation ord (keys (table jobs)) -> Permutation ord' (keys (table jobs)) ->
  exists ds ds', run jobs ord = Done ds /\ run jobs ord' = Done ds' /\
    Permutation ds ds' /\
    filter is_cycle_diag ds = filter is_cycle_diag ds' /\
    final_needs ds = final_needs ds'.
Proof.
  intros D P P'.
  pose proof (table_nodup jobs) as ND.
  destruct (workflow_post_order_indep (table jobs) ord ord' (fst (collect_jobs [] jobs)) ND D P P')
    as [ds2 [ds2' [H1 [H2 [PM [FC FM]]]]]].
  exists (fst (collect_jobs [] jobs) ++ ds2), (fst (collect_jobs [] jobs) ++ ds2').
  rewrite !run_unfold, H1, H2. repeat split; auto.
  - now apply Permutation_app_head.
  - rewrite !filter_app. now rewrite FC.
Qed.

(* non-vacuity: the 3-cycle of NeedsProofs.v has pairwise distinct positions,
   and two different iteration orders give the same diagnostic *)
Example run_order_indep_example :
  distinct_pos (table ex_cycle3) /\
  run ex_cycle3 (keys (table ex_cycle3)) = run ex_cycle3 (rev (keys (table ex_cycle3))) /\
  exists p c, run ex_cycle3 (keys (table ex_cycle3)) = Done [DCycle p c].
Proof.
  split; [|split].
  - unfold distinct_pos. vm_compute. repeat constructor; cbn; intuition discriminate.
  - vm_compute. reflexivity.
  - vm_compute. eauto.
Qed.
