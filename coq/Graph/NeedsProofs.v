(* Graph/NeedsProofs.v — the rule-level theorems of C18 over the model
   Graph/Needs.v, from the graph-level results of Graph/DfsProofs.v. *)
From AL Require Import Base.Str Base.AList Out.StableSort Graph.Dfs Graph.Needs Graph.DfsProofs.

Definition is_cycle_diag (d : diag) : bool := match d with DCycle _ _ => true | _ => false end.
Definition is_missing_diag (d : diag) : bool := match d with DMissing _ _ _ => true | _ => false end.

(* ---- VisitJobPre never produces a missing/cyclic diagnostic ---------------- *)

Lemma scan_needs_kinds needs l :
  Forall (fun d => is_cycle_diag d = false /\ is_missing_diag d = false) (fst (scan_needs needs l)).
Proof.
  revert needs. induction l as [|[p v] l IH]; intros needs; cbn; [constructor|].
  destruct (contains needs (lower v)).
  - specialize (IH needs). destruct (scan_needs needs l) as [ds r]. cbn in *. constructor; auto.
  - destruct (is_empty (lower v)); apply IH.
Qed.

Lemma visit_job_pre_kinds m j :
  Forall (fun d => is_cycle_diag d = false /\ is_missing_diag d = false) (fst (visit_job_pre m j)).
Proof.
  unfold visit_job_pre. pose proof (scan_needs_kinds [] (j_needs j)) as H.
  destruct (scan_needs [] (j_needs j)) as [ds needs]. cbn in H.
  destruct (is_empty (lower (j_id j))); cbn; [exact H|].
  apply Forall_app. split; [exact H|].
  destruct (lookup (lower (j_id j)) m); repeat constructor.
Qed.

Lemma collect_jobs_kinds jobs : forall m,
  Forall (fun d => is_cycle_diag d = false /\ is_missing_diag d = false) (fst (collect_jobs m jobs)).
Proof.
  induction jobs as [|j js IH]; intros m; cbn; [constructor|].
  pose proof (visit_job_pre_kinds m j) as H1.
  destruct (visit_job_pre m j) as [d1 m1]. specialize (IH m1).
  destruct (collect_jobs m1 js) as [d2 m2]. cbn in *. apply Forall_app. now split.
Qed.

Lemma filter_none {A} (f : A -> bool) l : Forall (fun x => f x = false) l -> filter f l = [].
Proof. induction 1 as [|x l H _ IH]; cbn; [reflexivity|]. now rewrite H. Qed.

Lemma missing_of_kinds m kn : Forall (fun d => is_cycle_diag d = false) (missing_of m kn).
Proof. unfold missing_of. apply Forall_forall. intros d H. apply in_map_iff in H. destruct H as [x [<- _]]. reflexivity. Qed.

(* at most one cyclic-dependency diagnostic, whatever the graph and the order *)
Lemma at_most_one jobs ord ds :
  run jobs ord = Done ds -> length (filter is_cycle_diag ds) <= 1.
Proof.
  unfold run. pose proof (collect_jobs_kinds jobs []) as H0.
  destruct (collect_jobs [] jobs) as [d0 m]. cbn in H0.
  destruct (workflow_post m ord) as [| |ds2] eqn:E; try discriminate.
  intros H; inversion H; subst ds; clear H.
  rewrite filter_app, (filter_none is_cycle_diag d0).
  2:{ eapply Forall_impl; [|exact H0]. cbn. tauto. }
  cbn. unfold workflow_post in E.
  destruct (flat_map (missing_of m) (entries m ord)) as [|d miss] eqn:Em.
  - destruct (detect_needs m ord) as [| |[[s c]|]]; inversion E; subst; cbn; lia.
  - inversion E; subst ds2. rewrite <- Em.
    rewrite (filter_none is_cycle_diag); [cbn; lia|].
    apply Forall_forall. intros x Hx. apply in_flat_map in Hx. destruct Hx as [kn [_ Hx]].
    pose proof (missing_of_kinds m kn) as Hk. rewrite Forall_forall in Hk. now apply Hk.
Qed.

(* ====================================================================== *)
(* the graph of a node table, as the property speaks about it              *)


(* "v needs w": every entry of v's needs list, resolved or not *)
Definition needs_of (m : nodes) (v : string) : list string :=
  match lookup v m with Some nd => n_needs nd | None => [] end.

Definition needs_edge (m : nodes) (v w : string) : Prop := In w (needs_of m v).

(* all references resolve *)
Definition all_resolved (m : nodes) : Prop :=
  forall k nd d, In (k, nd) m -> In d (n_needs nd) -> has m d = true.

(* the graph contains a cycle (a self-dependency is a cycle of length 1) *)
Definition has_cycle (m : nodes) : Prop := exists u, path (needs_of m) u u.

(* c = x -> ... -> x is a closed walk of length >= 1 along "needs" edges
   between existing jobs, without repetition except for its end points *)
Definition real_cycle (m : nodes) (c : list string) : Prop :=
  exists x r, c = x :: r ++ [x] /\ consec (needs_edge m) c /\ NoDup (x :: r) /\
              forall y, In y c -> has m y = true.

Lemma has_true m k : has m k = true <-> In k (keys m).
Proof.
  unfold has. destruct (lookup k m) as [nd|] eqn:E.
  - split; [intros _; eapply lookup_Some_key; eauto|reflexivity].
  - split; [discriminate|]. intros H. apply lookup_None in E. contradiction.
Qed.

Lemma succ_of_sub m v w : In w (succ_of m v) -> In w (needs_of m v) /\ has m w = true.
Proof.
  unfold succ_of, needs_of, resolved. destruct (lookup v m); [|intros []].
  intros H. apply filter_In in H. exact H.
Qed.

Lemma succ_of_closed m v w : In v (keys m) -> In w (succ_of m v) -> In w (keys m).
Proof. intros _ H. apply succ_of_sub in H. now apply has_true. Qed.

Lemma path_succ_needs m u w : path (succ_of m) u w -> path (needs_of m) u w.
Proof.
  induction 1 as [u w He|u w x He _ IH].
  - apply path1. unfold edge in *. now apply succ_of_sub in He.
  - eapply pathS; [|exact IH]. unfold edge in *. now apply succ_of_sub in He.
Qed.

Lemma needs_edge_src m u w : In w (needs_of m u) -> has m u = true.
Proof. unfold needs_of, has. destruct (lookup u m); [reflexivity|intros []]. Qed.

Lemma path_src m u w : path (needs_of m) u w -> has m u = true.
Proof. intros H. inversion H as [? ? He|? ? ? He _]; subst; eapply needs_edge_src; exact He. Qed.

Lemma needs_succ_edge m u w : In w (needs_of m u) -> has m w = true -> In w (succ_of m u).
Proof.
  unfold needs_of, succ_of, resolved. destruct (lookup u m); [|intros []].
  intros H1 H2. apply filter_In. now split.
Qed.

Lemma path_needs_succ m u w : path (needs_of m) u w -> has m w = true -> path (succ_of m) u w.
Proof.
  induction 1 as [u w He|u w x He Hp IH]; intros Hw.
  - apply path1. now apply needs_succ_edge.
  - eapply pathS; [|now apply IH]. apply needs_succ_edge; [exact He|]. eapply path_src; exact Hp.
Qed.

Lemma has_cycle_succ m : has_cycle m <-> exists u, In u (keys m) /\ path (succ_of m) u u.
Proof.
  split.
  - intros [u Hp]. exists u. pose proof (path_src _ _ _ Hp) as Hu. split; [now apply has_true|].
    now apply path_needs_succ.
  - intros [u [_ Hp]]. exists u. now apply path_succ_needs.
Qed.

Lemma is_cycle_real m c : is_cycle (succ_of m) (keys m) c -> real_cycle m c.
Proof.
  intros [x [r [Hc [Hcon [Hnd Hin]]]]]. exists x, r. split; [exact Hc|]. split; [|split; [exact Hnd|]].
  - eapply consec_mono; [|exact Hcon]. intros a b He. unfold needs_edge. now apply succ_of_sub in He.
  - intros y Hy. apply has_true. now apply Hin.
Qed.

Lemma real_cycle_has_cycle m c : real_cycle m c -> has_cycle m.
Proof.
  intros [x [r [-> [Hcon _]]]]. exists x.
  apply (consec_edge_path (needs_of m) r x x). exact Hcon.
Qed.

(* ---- the cycle search on a node table --------------------------------------------- *)

Lemma is_before_asym p q : is_before p q = true -> is_before q p = false.
Proof.
  destruct p as [a b], q as [c d]. unfold is_before. cbn [fst snd].
  destruct (N.ltb_spec a c), (N.ltb_spec c a), (N.ltb_spec b d), (N.ltb_spec d b); try lia; congruence.
Qed.

Lemma is_before_ntrans y s n : is_before y s = false -> is_before n s = true -> is_before y n = false.
Proof.
  destruct y as [a b], s as [c d], n as [e f]. unfold is_before. cbn [fst snd].
  destruct (N.ltb_spec a c), (N.ltb_spec c a), (N.ltb_spec b d), (N.ltb_spec e c), (N.ltb_spec c e),
    (N.ltb_spec f d), (N.ltb_spec a e), (N.ltb_spec e a), (N.ltb_spec b f); try lia; congruence.
Qed.

Lemma detect_needs_spec m ord :
  Permutation ord (keys m) ->
  detect_post (succ_of m) (before_of m) (keys m) (detect_needs m ord).
Proof.
  intros P. unfold detect_needs, needs_fuel.
  replace (length m) with (length (keys m)) by (unfold keys; apply map_length).
  apply detect_spec.
  - exact String.eqb_spec.
  - apply succ_of_closed.
  - intros a b. apply is_before_asym.
  - intros y s n. apply is_before_ntrans.
  - assert (P2 : Permutation (sort_nodes m ord) (keys m)).
    { eapply Permutation_trans; [apply Permutation_sym; apply ssort_perm|exact P]. }
    intros v. split; intros H.
    + eapply Permutation_in; [exact P2|exact H].
    + eapply Permutation_in; [apply Permutation_sym; exact P2|exact H].
Qed.

(* ---- resolution of references ------------------------------------------------------ *)

Lemma entries_In m ord k nd :
  NoDupKeys m -> Permutation ord (keys m) -> (In (k, nd) (entries m ord) <-> In (k, nd) m).
Proof.
  intros ND P. unfold entries. rewrite in_flat_map. split.
  - intros [k' [Hk' H]]. destruct (lookup k' m) as [nd'|] eqn:E; [|contradiction].
    destruct H as [H|[]]. inversion H; subst. now apply lookup_In.
  - intros H. exists k. split.
    + eapply Permutation_in; [apply Permutation_sym; exact P|].
      unfold keys. change k with (fst (k, nd)). now apply in_map.
    + rewrite (In_lookup k nd m ND H). now left.
Qed.

Lemma missing_In m ord p id dep :
  NoDupKeys m -> Permutation ord (keys m) ->
  (In (DMissing p id dep) (flat_map (missing_of m) (entries m ord)) <->
   exists nd, In (id, nd) m /\ p = n_pos nd /\ In dep (n_needs nd) /\ has m dep = false).
Proof.
  intros ND P. rewrite in_flat_map. split.
  - intros [[k nd] [Hkn H]]. apply (entries_In m ord k nd ND P) in Hkn.
    unfold missing_of in H. cbn in H. apply in_map_iff in H. destruct H as [d [Hd H]].
    inversion Hd; subst. apply filter_In in H. destruct H as [H1 H2].
    exists nd. repeat split; auto. now destruct (has m dep).
  - intros [nd [H1 [-> [H2 H3]]]]. exists (id, nd). split; [now apply entries_In|].
    unfold missing_of. cbn. apply in_map_iff. exists dep. split; [reflexivity|].
    apply filter_In. split; [exact H2|]. now rewrite H3.
Qed.

Lemma resolved_no_missing m ord :
  NoDupKeys m -> Permutation ord (keys m) -> all_resolved m ->
  flat_map (missing_of m) (entries m ord) = [].
Proof.
  intros ND P AR. destruct (flat_map (missing_of m) (entries m ord)) as [|d l] eqn:E; [reflexivity|].
  exfalso. assert (H : In d (flat_map (missing_of m) (entries m ord))) by (rewrite E; now left).
  apply in_flat_map in H. destruct H as [[k nd] [Hkn H]].
  unfold missing_of in H. apply in_map_iff in H. destruct H as [dep [_ H]]. cbn in H.
  apply filter_In in H. destruct H as [H1 H2].
  apply (entries_In m ord k nd ND P) in Hkn. rewrite (AR k nd dep Hkn H1) in H2. discriminate.
Qed.

(* ---- the theorems about VisitWorkflowPost ------------------------------------------------- *)

(* termination / no nil dereference: for every table and every order the fuel
   the wrapper supplies suffices and the result is a list of diagnostics *)
Theorem workflow_post_total m ord :
  Permutation ord (keys m) -> exists ds, workflow_post m ord = Done ds.
Proof.
  intros P. unfold workflow_post.
  destruct (flat_map (missing_of m) (entries m ord)) as [|d l]; [|eauto].
  pose proof (detect_needs_spec m ord P) as H.
  destruct (detect_needs m ord) as [| |[[s c]|]]; cbn in H; try contradiction; eauto.
Qed.

Theorem unresolved_exact m ord ds :
  NoDupKeys m -> Permutation ord (keys m) -> workflow_post m ord = Done ds ->
  forall p id dep, In (DMissing p id dep) ds <->
    exists nd, In (id, nd) m /\ p = n_pos nd /\ In dep (n_needs nd) /\ has m dep = false.
Proof.
  intros ND P H p id dep. rewrite <- (missing_In m ord p id dep ND P).
  unfold workflow_post in H.
  destruct (flat_map (missing_of m) (entries m ord)) as [|d l] eqn:E.
  - split; [|intros []].
    destruct (detect_needs m ord) as [| |[[s c]|]]; inversion H; subst; cbn; [|tauto].
    intros [Hd|[]]. discriminate.
  - inversion H; subst. tauto.
Qed.

Theorem cycle_sound m ord ds p c :
  Permutation ord (keys m) -> workflow_post m ord = Done ds -> In (DCycle p c) ds ->
  real_cycle m c /\ p = pos_of m (hd EmptyString c) /\ ds = [DCycle p c] /\
  forall y, In y c -> is_before (pos_of m y) p = false.
Proof.
  intros P H Hin. unfold workflow_post in H.
  destruct (flat_map (missing_of m) (entries m ord)) as [|d l] eqn:E.
  - pose proof (detect_needs_spec m ord P) as Hd.
    destruct (detect_needs m ord) as [| |[[s c']|]]; inversion H; subst; cbn in Hd.
    + destruct Hin as [Hin|[]]. inversion Hin; subst. destruct Hd as [Hc [Hs Hmin]].
      split; [now apply is_cycle_real|]. split; [|split; [reflexivity|exact Hmin]].
      destruct Hc as [x [r [-> _]]]. cbn in *. now subst.
    + destruct Hin.
  - inversion H; subst. exfalso. rewrite <- E in Hin.
    apply in_flat_map in Hin. destruct Hin as [kn [_ Hin]].
    pose proof (missing_of_kinds m kn) as Hk. rewrite Forall_forall in Hk.
    specialize (Hk _ Hin). discriminate.
Qed.

Theorem cycle_complete m ord :
  NoDupKeys m -> Permutation ord (keys m) -> all_resolved m -> has_cycle m ->
  exists p c, workflow_post m ord = Done [DCycle p c].
Proof.
  intros ND P AR HC. unfold workflow_post. rewrite (resolved_no_missing m ord ND P AR).
  pose proof (detect_needs_spec m ord P) as Hd.
  destruct (detect_needs m ord) as [| |[[s c]|]]; cbn in Hd; try contradiction; [eauto|].
  exfalso. apply has_cycle_succ in HC. destruct HC as [u [Hu Hp]]. exact (Hd u Hu Hp).
Qed.

Theorem acyclic_none m ord :
  NoDupKeys m -> Permutation ord (keys m) -> all_resolved m -> ~ has_cycle m ->
  workflow_post m ord = Done [].
Proof.
  intros ND P AR HC. unfold workflow_post. rewrite (resolved_no_missing m ord ND P AR).
  pose proof (detect_needs_spec m ord P) as Hd.
  destruct (detect_needs m ord) as [| |[[s c]|]]; cbn in Hd; try contradiction; [|reflexivity].
  exfalso. apply HC. destruct Hd as [Hc _]. eapply real_cycle_has_cycle, is_cycle_real, Hc.
Qed.

(* ====================================================================== *)
(* VisitJobPre: the node table of a job list                               *)

Definition node_of (j : job) : node :=
  {| n_id := lower (j_id j); n_needs := snd (scan_needs [] (j_needs j)); n_pos := j_pos j |}.

(* what parse.go guarantees about w.Jobs: keys are distinct case-insensitively
   (parseMapping drops case-insensitive duplicates) and not empty *)
Definition wf_jobs (jobs : list job) : Prop :=
  NoDup (map (fun j => lower (j_id j)) jobs) /\ forall j, In j jobs -> lower (j_id j) <> EmptyString.

Lemma contains_In l s : contains l s = true <-> In s l.
Proof.
  unfold contains. rewrite existsb_exists. split.
  - intros [x [Hx He]]. apply String.eqb_eq in He. now subst.
  - intros H. exists s. split; [exact H|apply String.eqb_refl].
Qed.

Lemma is_empty_spec s : is_empty s = true <-> s = EmptyString.
Proof. destruct s; cbn; split; congruence. Qed.

(* the needs of a node: the lower-cased, non-empty entries of the job *)
Lemma scan_needs_spec l : forall acc d,
  In d (snd (scan_needs acc l)) <->
  In d acc \/ (d <> EmptyString /\ exists p v, In (p, v) l /\ lower v = d).
Proof.
  induction l as [|[p v] l IH]; intros acc d; cbn [scan_needs].
  - cbn. split; [auto|]. intros [H|[_ [p [v [[] _]]]]]. exact H.
  - destruct (contains acc (lower v)) eqn:Ec.
    + assert (Hs : snd (let (ds, r) := scan_needs acc l in (DDupNeed p v :: ds, r)) = snd (scan_needs acc l))
        by (destruct (scan_needs acc l); reflexivity).
      rewrite Hs, IH. apply contains_In in Ec. split.
      * intros [H|[Hd [q [w [Hin Hl]]]]]; [now left|]. right. split; [exact Hd|]. exists q, w. split; [now right|exact Hl].
      * intros [H|[Hd [q [w [[Hin|Hin] Hl]]]]]; [now left| |].
        -- inversion Hin; subst. now left.
        -- right. split; [exact Hd|]. eauto.
    + destruct (is_empty (lower v)) eqn:Ee.
      * apply is_empty_spec in Ee. rewrite IH. split.
        -- intros [H|[Hd [q [w [Hin Hl]]]]]; [now left|]. right. split; [exact Hd|]. exists q, w. split; [now right|exact Hl].
        -- intros [H|[Hd [q [w [[Hin|Hin] Hl]]]]]; [now left| |].
           ++ inversion Hin; subst. congruence.
           ++ right. split; [exact Hd|]. eauto.
      * assert (Hne : lower v <> EmptyString).
        { intros H. apply is_empty_spec in H. congruence. }
        rewrite IH, in_app_iff. cbn. split.
        -- intros [[H|[H|[]]]|[Hd [q [w [Hin Hl]]]]].
           ++ now left.
           ++ right. subst d. split; [exact Hne|]. exists p, v. split; [now left|reflexivity].
           ++ right. split; [exact Hd|]. exists q, w. split; [now right|exact Hl].
        -- intros [H|[Hd [q [w [[Hin|Hin] Hl]]]]].
           ++ left. now left.
           ++ inversion Hin; subst. left. right. now left.
           ++ right. split; [exact Hd|]. eauto.
Qed.

Lemma visit_job_pre_table m j :
  snd (visit_job_pre m j) =
  if is_empty (lower (j_id j)) then m else upsert (lower (j_id j)) (node_of j) m.
Proof.
  unfold visit_job_pre, node_of. destruct (scan_needs [] (j_needs j)) as [ds needs]. cbn [snd].
  destruct (is_empty (lower (j_id j))); reflexivity.
Qed.

Lemma collect_jobs_cons m j js :
  snd (collect_jobs m (j :: js)) = snd (collect_jobs (snd (visit_job_pre m j)) js).
Proof.
  cbn [collect_jobs]. destruct (visit_job_pre m j) as [d1 m1]. cbn [snd].
  destruct (collect_jobs m1 js). reflexivity.
Qed.

Lemma collect_jobs_nodup jobs : forall m, NoDupKeys m -> NoDupKeys (snd (collect_jobs m jobs)).
Proof.
  induction jobs as [|j js IH]; intros m ND; [exact ND|].
  rewrite collect_jobs_cons. apply IH. rewrite visit_job_pre_table.
  destruct (is_empty (lower (j_id j))); [exact ND|now apply NoDupKeys_upsert].
Qed.

Lemma table_nodup jobs : NoDupKeys (table jobs).
Proof. apply collect_jobs_nodup. constructor. Qed.

Lemma upsert_absent {V} k (v : V) m : ~ In k (keys m) -> upsert k v m = m ++ [(k, v)].
Proof.
  induction m as [|[k' v'] m IH]; cbn; intros H; [reflexivity|].
  destruct (String.eqb k k') eqn:E.
  - apply String.eqb_eq in E. subst. exfalso. apply H. now left.
  - rewrite IH; [reflexivity|]. intros Hin. apply H. now right.
Qed.

Lemma collect_jobs_In jobs : forall m k nd,
  NoDup (map (fun j => lower (j_id j)) jobs) ->
  (forall j, In j jobs -> lower (j_id j) <> EmptyString) ->
  (forall j, In j jobs -> ~ In (lower (j_id j)) (keys m)) ->
  (In (k, nd) (snd (collect_jobs m jobs)) <->
   In (k, nd) m \/ exists j, In j jobs /\ k = lower (j_id j) /\ nd = node_of j).
Proof.
  induction jobs as [|j js IH]; intros m k nd ND NE Hfresh.
  - cbn. split; [auto|]. intros [H|[j [[] _]]]. exact H.
  - rewrite collect_jobs_cons, visit_job_pre_table.
    assert (Hne : is_empty (lower (j_id j)) = false).
    { destruct (is_empty (lower (j_id j))) eqn:E; [|reflexivity].
      apply is_empty_spec in E. exfalso. apply (NE j); [now left|exact E]. }
    rewrite Hne. rewrite upsert_absent by (apply Hfresh; now left).
    cbn in ND. inversion ND as [|? ? Hj ND']; subst.
    rewrite IH; [| exact ND' | intros; apply NE; now right |].
    + rewrite in_app_iff. cbn. split.
      * intros [[H|[H|[]]]|[j' [Hin H]]].
        -- now left.
        -- inversion H; subst. right. exists j. auto.
        -- right. exists j'. split; [now right|exact H].
      * intros [H|[j' [[<-|Hin] [-> ->]]]].
        -- left. now left.
        -- left. right. now left.
        -- right. exists j'. auto.
    + intros j' Hin Hk. unfold keys in Hk. rewrite map_app, in_app_iff in Hk. cbn in Hk.
      destruct Hk as [Hk|[Hk|[]]].
      * apply (Hfresh j'); [now right|exact Hk].
      * apply Hj. rewrite Hk. apply in_map_iff. exists j'. auto.
Qed.

Lemma table_In jobs k nd : wf_jobs jobs ->
  (In (k, nd) (table jobs) <-> exists j, In j jobs /\ k = lower (j_id j) /\ nd = node_of j).
Proof.
  intros [ND NE]. unfold table. rewrite collect_jobs_In; auto.
  cbn. split; [intros [[]|H]; exact H|auto].
Qed.

Lemma table_has jobs dep : wf_jobs jobs ->
  (has (table jobs) dep = true <-> exists j, In j jobs /\ lower (j_id j) = dep).
Proof.
  intros W. rewrite has_true. unfold keys. rewrite in_map_iff. split.
  - intros [[k nd] [Hk Hin]]. cbn in Hk. subst k. apply (table_In jobs dep nd W) in Hin.
    destruct Hin as [j [Hj [-> _]]]. eauto.
  - intros [j [Hj <-]]. exists (lower (j_id j), node_of j). split; [reflexivity|].
    apply table_In; eauto.
Qed.

Lemma run_unfold jobs ord :
  run jobs ord = match workflow_post (table jobs) ord with
                 | Done ds2 => Done (fst (collect_jobs [] jobs) ++ ds2)
                 | OutOfFuel => OutOfFuel
                 | Panic => Panic
                 end.
Proof. unfold run, table. destruct (collect_jobs [] jobs). reflexivity. Qed.

Lemma run_inv jobs ord ds : run jobs ord = Done ds ->
  exists ds2, workflow_post (table jobs) ord = Done ds2 /\ ds = fst (collect_jobs [] jobs) ++ ds2.
Proof.
  rewrite run_unfold. destruct (workflow_post (table jobs) ord) as [| |ds2]; try discriminate.
  intros H. inversion H. eauto.
Qed.

Lemma pre_not_missing jobs p id dep : ~ In (DMissing p id dep) (fst (collect_jobs [] jobs)).
Proof.
  intros H. pose proof (collect_jobs_kinds jobs []) as Hk. rewrite Forall_forall in Hk.
  destruct (Hk _ H) as [_ Hm]. discriminate.
Qed.

Lemma pre_not_cycle jobs p c : ~ In (DCycle p c) (fst (collect_jobs [] jobs)).
Proof.
  intros H. pose proof (collect_jobs_kinds jobs []) as Hk. rewrite Forall_forall in Hk.
  destruct (Hk _ H) as [Hc _]. discriminate.
Qed.

(* ---- the theorems at the level of the whole rule ------------------------------------- *)

Theorem run_total jobs ord :
  Permutation ord (keys (table jobs)) -> exists ds, run jobs ord = Done ds.
Proof.
  intros P. rewrite run_unfold. destruct (workflow_post_total (table jobs) ord P) as [ds2 ->]. eauto.
Qed.

(* a (job, reference) pair is reported iff the lower-cased reference is the
   id of no job; the report sits at the referring job (position and id) *)
Theorem unresolved_exact_jobs jobs ord ds :
  wf_jobs jobs -> Permutation ord (keys (table jobs)) -> run jobs ord = Done ds ->
  forall p id dep, In (DMissing p id dep) ds <->
    exists j, In j jobs /\ p = j_pos j /\ id = lower (j_id j) /\ dep <> EmptyString /\
      (exists q v, In (q, v) (j_needs j) /\ lower v = dep) /\
      ~ (exists j', In j' jobs /\ lower (j_id j') = dep).
Proof.
  intros W P H p id dep. apply run_inv in H. destruct H as [ds2 [H ->]].
  rewrite in_app_iff.
  rewrite (unresolved_exact (table jobs) ord ds2 (table_nodup jobs) P H p id dep). split.
  - intros [Hpre|[nd [Hin [-> [Hd Hh]]]]]; [exfalso; eapply pre_not_missing; eauto|].
    apply (table_In jobs id nd W) in Hin. destruct Hin as [j [Hj [-> ->]]].
    exists j. cbn in Hd. apply scan_needs_spec in Hd. destruct Hd as [[]|[Hne Hex]].
    repeat split; auto. intros Hj'. apply (table_has jobs dep W) in Hj'. congruence.
  - intros [j [Hj [-> [-> [Hne [Hex Hno]]]]]]. right. exists (node_of j). split; [|split; [reflexivity|split]].
    + apply table_In; eauto.
    + cbn. apply scan_needs_spec. right. auto.
    + destruct (has (table jobs) dep) eqn:E; [|reflexivity].
      exfalso. apply Hno. now apply (table_has jobs dep W).
Qed.

Theorem cycle_sound_jobs jobs ord ds p c :
  Permutation ord (keys (table jobs)) -> run jobs ord = Done ds -> In (DCycle p c) ds ->
  real_cycle (table jobs) c /\ p = pos_of (table jobs) (hd EmptyString c).
Proof.
  intros P H Hin. apply run_inv in H. destruct H as [ds2 [H ->]].
  apply in_app_or in Hin. destruct Hin as [Hin|Hin]; [exfalso; eapply pre_not_cycle; eauto|].
  destruct (cycle_sound _ _ _ _ _ P H Hin) as [H1 [H2 _]]. auto.
Qed.

(* the printed cycle starts at the job with the smallest position among its jobs *)
Theorem cycle_start_min_jobs jobs ord ds p c :
  Permutation ord (keys (table jobs)) -> run jobs ord = Done ds -> In (DCycle p c) ds ->
  forall y, In y c -> is_before (pos_of (table jobs) y) p = false.
Proof.
  intros P H Hin. apply run_inv in H. destruct H as [ds2 [H ->]].
  apply in_app_or in Hin. destruct Hin as [Hin|Hin]; [exfalso; eapply pre_not_cycle; eauto|].
  destruct (cycle_sound _ _ _ _ _ P H Hin) as [_ [_ [_ H3]]]. exact H3.
Qed.

Theorem cycle_complete_jobs jobs ord ds :
  Permutation ord (keys (table jobs)) -> all_resolved (table jobs) -> has_cycle (table jobs) ->
  run jobs ord = Done ds -> exists p c, In (DCycle p c) ds.
Proof.
  intros P AR HC H. apply run_inv in H. destruct H as [ds2 [H ->]].
  destruct (cycle_complete _ _ (table_nodup jobs) P AR HC) as [p [c Hw]].
  rewrite Hw in H. inversion H; subst. exists p, c. apply in_or_app. right. now left.
Qed.

Theorem acyclic_none_jobs jobs ord ds :
  Permutation ord (keys (table jobs)) -> all_resolved (table jobs) -> ~ has_cycle (table jobs) ->
  run jobs ord = Done ds -> forall d, In d ds -> is_cycle_diag d = false /\ is_missing_diag d = false.
Proof.
  intros P AR HC H d Hd. apply run_inv in H. destruct H as [ds2 [H ->]].
  rewrite (acyclic_none _ _ (table_nodup jobs) P AR HC) in H. inversion H; subst.
  rewrite app_nil_r in Hd. pose proof (collect_jobs_kinds jobs []) as Hk. rewrite Forall_forall in Hk. auto.
Qed.

(* ---- non-vacuity --------------------------------------------------------------------- *)

Definition all_resolvedb (m : nodes) : bool :=
  forallb (fun kn => forallb (has m) (n_needs (snd kn))) m.

Lemma all_resolvedb_spec m : all_resolvedb m = true -> all_resolved m.
Proof.
  unfold all_resolvedb, all_resolved. rewrite forallb_forall. intros H k nd d Hin Hd.
  specialize (H (k, nd) Hin). cbn in H. rewrite forallb_forall in H. now apply H.
Qed.

Definition mkjob (id : string) (line : N) (needs : list string) : job :=
  {| j_id := id; j_pos := (line, 3%N); j_needs := map (fun v => ((line + 1, 13)%N, v)) needs |}.

(* a 3-cycle written with mixed case, a self loop, a DAG *)
Definition ex_cycle3 := [mkjob "a" 3 ["B"]; mkjob "b" 7 ["c"]; mkjob "C" 11 ["A"]].
Definition ex_self := [mkjob "a" 3 []; mkjob "b" 7 ["a"; "B"]].
Definition ex_dag := [mkjob "a" 3 []; mkjob "b" 7 ["a"]; mkjob "c" 11 ["a"; "b"]].

Example ex_cycle3_run :
  run ex_cycle3 ["c"; "a"; "b"] = Done [DCycle (3, 3)%N ["a"; "b"; "c"; "a"]].
Proof. vm_compute. reflexivity. Qed.

Example ex_cycle3_hyps :
  wf_jobs ex_cycle3 /\ all_resolved (table ex_cycle3) /\ has_cycle (table ex_cycle3).
Proof.
  split; [|split].
  - split.
    + vm_compute. repeat constructor; cbn; intuition discriminate.
    + intros j [<-|[<-|[<-|[]]]]; vm_compute; discriminate.
  - apply all_resolvedb_spec. vm_compute. reflexivity.
  - eapply real_cycle_has_cycle.
    refine (proj1 (cycle_sound_jobs ex_cycle3 ["c"; "a"; "b"] _ _ _ _ ex_cycle3_run (or_introl eq_refl))).
    vm_compute. apply (Permutation_cons_append ["a"; "b"] "c").
Qed.

Example ex_self_run :
  run ex_self ["a"; "b"] = Done [DCycle (7, 3)%N ["b"; "b"]].
Proof. vm_compute. reflexivity. Qed.

Example ex_self_hyps : all_resolved (table ex_self) /\ has_cycle (table ex_self).
Proof.
  split.
  - apply all_resolvedb_spec. vm_compute. reflexivity.
  - eapply real_cycle_has_cycle.
    refine (proj1 (cycle_sound_jobs ex_self ["a"; "b"] _ _ _ _ ex_self_run (or_introl eq_refl))).
    vm_compute. apply Permutation_refl.
Qed.

Example ex_dag_run : run ex_dag ["b"; "c"; "a"] = Done [].
Proof. vm_compute. reflexivity. Qed.

Example ex_dag_hyps : all_resolved (table ex_dag) /\ ~ has_cycle (table ex_dag).
Proof.
  split.
  - apply all_resolvedb_spec. vm_compute. reflexivity.
  - intros HC.
    assert (P : Permutation ["b"; "c"; "a"] (keys (table ex_dag))).
    { vm_compute. apply Permutation_sym, (Permutation_cons_append ["b"; "c"] "a"). }
    assert (AR : all_resolved (table ex_dag)) by (apply all_resolvedb_spec; vm_compute; reflexivity).
    destruct (cycle_complete_jobs ex_dag _ _ P AR HC ex_dag_run) as [p [c []]].
Qed.

(* a dangling, a duplicate and a case-variant reference *)
Example ex_missing_run :
  run [mkjob "A" 3 ["b"; "X"; "B"]; mkjob "b" 7 []] ["b"; "a"]
  = Done [DDupNeed (4, 13)%N "B"; DMissing (3, 3)%N "a" "x"].
Proof. vm_compute. reflexivity. Qed.
