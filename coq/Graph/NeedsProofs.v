(* Graph/NeedsProofs.v — the rule-level theorems of C18 over the model
   Graph/Needs.v, from the graph-level results of Graph/DfsProofs.v. *)
From AL Require Import Base.Str Base.AList Graph.Dfs Graph.Needs.

Definition is_cycle_diag (d : diag) : bool := match d with DCycle _ _ => true | _ => false end.
Definition is_missing_diag (d : diag) : bool := match d with DMissing _ _ _ => true | _ => false end.

(* ---- VisitJobPre never produces a missing/cyclic diagnostic ---------------- *)

Lemma scan_needs_kinds needs l :
  Forall (fun d => is_cycle_diag d = false /\ is_missing_diag d = false) (fst (scan_needs needs l)).
Proof.
  revert needs. induction l as [|[p v] l IH]; intros needs; cbn; [constructor|].
  destruct (contains needs (lower v)).
  - specialize (IH needs). destruct (scan_needs needs l) as [ds r]. cbn in *. constructor; auto.
  - destruct (is_empty (lower v)); apply IH.
Qed.

Lemma visit_job_pre_kinds m j :
  Forall (fun d => is_cycle_diag d = false /\ is_missing_diag d = false) (fst (visit_job_pre m j)).
Proof.
  unfold visit_job_pre. pose proof (scan_needs_kinds [] (j_needs j)) as H.
  destruct (scan_needs [] (j_needs j)) as [ds needs]. cbn in H.
  destruct (is_empty (lower (j_id j))); cbn; [exact H|].
  apply Forall_app. split; [exact H|].
  destruct (lookup (lower (j_id j)) m); repeat constructor.
Qed.

Lemma collect_jobs_kinds jobs : forall m,
  Forall (fun d => is_cycle_diag d = false /\ is_missing_diag d = false) (fst (collect_jobs m jobs)).
Proof.
  induction jobs as [|j js IH]; intros m; cbn; [constructor|].
  pose proof (visit_job_pre_kinds m j) as H1.
  destruct (visit_job_pre m j) as [d1 m1]. specialize (IH m1).
  destruct (collect_jobs m1 js) as [d2 m2]. cbn in *. apply Forall_app. now split.
Qed.

Lemma filter_none {A} (f : A -> bool) l : Forall (fun x => f x = false) l -> filter f l = [].
Proof. induction 1 as [|x l H _ IH]; cbn; [reflexivity|]. now rewrite H. Qed.

Lemma missing_of_kinds m kn : Forall (fun d => is_cycle_diag d = false) (missing_of m kn).
Proof. unfold missing_of. apply Forall_forall. intros d H. apply in_map_iff in H. destruct H as [x [<- _]]. reflexivity. Qed.

(* at most one cyclic-dependency diagnostic, whatever the graph and the order *)
Lemma at_most_one jobs ord ds :
  run jobs ord = Done ds -> length (filter is_cycle_diag ds) <= 1.
Proof.
  unfold run. pose proof (collect_jobs_kinds jobs []) as H0.
  destruct (collect_jobs [] jobs) as [d0 m]. cbn in H0.
  destruct (workflow_post m ord) as [| |ds2] eqn:E; try discriminate.
  intros H; inversion H; subst ds; clear H.
  rewrite filter_app, (filter_none is_cycle_diag d0).
  2:{ eapply Forall_impl; [|exact H0]. cbn. tauto. }
  cbn. unfold workflow_post in E.
  destruct (flat_map (missing_of m) (entries m ord)) as [|d miss] eqn:Em.
  - destruct (detect_needs m ord) as [| |[[s c]|]]; inversion E; subst; cbn; lia.
  - inversion E; subst ds2. rewrite <- Em.
    rewrite (filter_none is_cycle_diag); [cbn; lia|].
    apply Forall_forall. intros x Hx. apply in_flat_map in Hx. destruct Hx as [kn [_ Hx]].
    pose proof (missing_of_kinds m kn) as Hk. rewrite Forall_forall in Hk. now apply Hk.
Qed.
