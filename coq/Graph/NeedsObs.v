(* Graph/NeedsObs.v — observables of the model for the correspondence check and
   the comparison itself.  Go's map iteration order cannot be chosen, so a case
   records the observables the implementation produced (one per distinct
   outcome over its repetitions) and the model is run for EVERY iteration order
   [ord] (all permutations of the key list, or an explicit list of orders for
   large graphs).  Since detectFirstCycle sorts the nodes by position the
   model's set of diagnostics is the same for every order
   (NeedsOrder.v, [run_order_indep]); the comparison is exact: EVERY recorded
   observable must equal, as a set of tuples, the model's for EVERY order —
   an implementation whose reported cycle varies from run to run, or differs
   from the one the position order determines, fails it. *)
From AL Require Import Base.Str Base.AList Base.Corr Graph.Dfs Graph.Needs.
Local Open Scope N_scope.

Definition bytes (s : string) : list N :=
  map (fun c => N.of_nat (nat_of_ascii c)) (list_ascii_of_string s).

Definition obs_diag (m : nodes) (d : diag) : tuple :=
  match d with
  | DDupNeed (l, c) _ => [0; l; c]
  | DDupJob (l, c) _ => [1; l; c]
  | DMissing (l, c) id dep => 2 :: l :: c :: bytes id ++ 256 :: bytes dep
  | DCycle (l, c) cyc => 3 :: l :: c :: map (fun v => fst (pos_of m v) * 1000000 + snd (pos_of m v)) cyc
  end.

(* observable of VisitWorkflowPost on a table, after the diagnostics [pre] of VisitJobPre *)
Definition obs_table (pre : list diag) (m : nodes) (ord : list string) : list tuple :=
  match workflow_post m ord with
  | Done ds2 => map (obs_diag m) (pre ++ ds2)
  | OutOfFuel => [[98]]
  | Panic => [[99]]
  end.

Definition obs (jobs : list job) (ord : list string) : list tuple :=
  let (pre, m) := collect_jobs [] jobs in obs_table pre m ord.

(* [obs] is the projection of [run] *)
Lemma obs_run jobs ord :
  obs jobs ord = match run jobs ord with
                 | Done ds => map (obs_diag (table jobs)) ds
                 | OutOfFuel => [[98]]
                 | Panic => [[99]]
                 end.
Proof.
  unfold obs, run, table, obs_table. destruct (collect_jobs [] jobs) as [pre m]. cbn [snd].
  destruct (workflow_post m ord); reflexivity.
Qed.

Definition class_of (t : tuple) : tuple :=
  match t with
  | k :: _ => if N.eqb k 3 then [3] else t
  | [] => t
  end.

Fixpoint insert_all {A} (x : A) (l : list A) : list (list A) :=
  match l with
  | [] => [[x]]
  | y :: l' => (x :: l) :: map (cons y) (insert_all x l')
  end.

Fixpoint perms {A} (l : list A) : list (list A) :=
  match l with
  | [] => [[]]
  | x :: l' => flat_map (insert_all x) (perms l')
  end.

(* (jobs, explicit orders or [] for "all permutations", observables of the implementation) *)
Definition kcase := (list job * list (list string) * list (list tuple))%type.

Definition k_check (c : kcase) : bool :=
  let '(jobs, ords0, impl) := c in
  let (pre, m) := collect_jobs [] jobs in           (* VisitJobPre does not depend on [ord] *)
  let ords := match ords0 with [] => perms (keys m) | _ => ords0 end in
  let outs := map (obs_table pre m) ords in         (* = map (obs jobs) ords *)
  match impl with
  | [] => false
  | _ => forallb (fun o => forallb (fun x => same_set x o) outs) impl
  end.

Definition run_k (c : kcase) : list tuple := [[if k_check c then 1 else 0]].
