(* Graph/Dfs.v — model of the graph part of rule_job_needs.go:
   detectFirstCycle / detectCyclicNode (three-colour DFS that aborts on the
   first back edge), collectCycle (reconstruction of the cycle from the nodes
   still marked active) and the printing loop of VisitWorkflowPost.

   *jobNode pointers are an abstract vertex type V with a boolean equality;
   v.resolved is [succ v]; node.status is a finite map V -> status that is
   threaded through (in-place mutation made explicit); the Go map
   [edges map[*jobNode]*jobNode] is an association list that is threaded the
   same way.  Go has no fuel: every recursive function / unbounded loop gets a
   fuel argument and returns OutOfFuel when it runs out (DfsProofs.v shows the
   fuel the wrapper supplies is always enough).  A nil dereference (to.id with
   to == nil in the printing loop) is the outcome Panic. *)
From Coq Require Import List Bool Arith.
Import ListNotations.

Inductive status := SNew | SActive | SFinished.

Inductive res (A : Type) := OutOfFuel | Panic | Done (a : A).
Arguments OutOfFuel {A}.
Arguments Panic {A}.
Arguments Done {A} a.

Definition is_active (s : status) : bool := match s with SActive => true | _ => false end.
Definition is_new (s : status) : bool := match s with SNew => true | _ => false end.

Section Dfs.
Context {V : Type}.
Variable eqb : V -> V -> bool.          (* pointer equality *)
Variable succ : V -> list V.            (* v.resolved, in slice order *)
Variable before : V -> V -> bool.       (* a.pos.IsBefore(b.pos) *)

Definition sts := V -> status.
Definition upd (st : sts) (v : V) (s : status) : sts :=
  fun u => if eqb u v then s else st u.

(* func detectCyclicNode(v *jobNode) *edge {
     v.status = nodeStatusActive
     for _, w := range v.resolved {
       switch w.status {
       case nodeStatusActive: return &edge{v, w}
       case nodeStatusNew:    if e := detectCyclicNode(w); e != nil { return e }
       }
     }
     v.status = nodeStatusFinished
     return nil } *)
Fixpoint dfs_loop (rec : sts -> V -> res (option (V * V) * sts))
         (v : V) (ws : list V) (st : sts) : res (option (V * V) * sts) :=
  match ws with
  | [] => Done (None, upd st v SFinished)
  | w :: ws' =>
      match st w with
      | SActive => Done (Some (v, w), st)
      | SNew =>
          match rec st w with
          | Done (Some e, st') => Done (Some e, st')
          | Done (None, st') => dfs_loop rec v ws' st'
          | OutOfFuel => OutOfFuel
          | Panic => Panic
          end
      | SFinished => dfs_loop rec v ws' st
      end
  end.

Fixpoint dfs (fuel : nat) (st : sts) (v : V) : res (option (V * V) * sts) :=
  match fuel with
  | 0 => OutOfFuel
  | S f => dfs_loop (dfs f) v (succ v) (upd st v SActive)
  end.

(* func detectFirstCycle(nodes map[string]*jobNode) *edge {
     for _, v := range nodes {            // [ord]: the iteration order
       if v.status == nodeStatusNew {
         if e := detectCyclicNode(v); e != nil { return e } } }
     return nil } *)
Fixpoint detect_first (fuel : nat) (ord : list V) (st : sts) : res (option (V * V) * sts) :=
  match ord with
  | [] => Done (None, st)
  | v :: ord' =>
      match st v with
      | SNew =>
          match dfs fuel st v with
          | Done (Some e, st') => Done (Some e, st')
          | Done (None, st') => detect_first fuel ord' st'
          | OutOfFuel => OutOfFuel
          | Panic => Panic
          end
      | _ => detect_first fuel ord' st
      end
  end.

(* edges map[*jobNode]*jobNode *)
Definition emap := list (V * V).
Fixpoint eget (E : emap) (k : V) : option V :=
  match E with
  | [] => None
  | (k', v) :: E' => if eqb k k' then Some v else eget E' k
  end.
Fixpoint eset (E : emap) (k v : V) : emap :=
  match E with
  | [] => [(k, v)]
  | (k', v') :: E' => if eqb k k' then (k, v) :: E' else (k', v') :: eset E' k v
  end.
Fixpoint edel (E : emap) (k : V) : emap :=
  match E with
  | [] => []
  | (k', v') :: E' => if eqb k k' then edel E' k else (k', v') :: edel E' k
  end.
Definition emem (E : emap) (k : V) : bool :=
  match eget E k with Some _ => true | None => false end.

(* func collectCycle(src *jobNode, edges map[*jobNode]*jobNode) bool {
     for _, dest := range src.resolved {
       if dest.status != nodeStatusActive { continue }
       edges[src] = dest
       if _, ok := edges[dest]; ok { return true }
       if collectCycle(dest, edges) { return true }
       delete(edges, src)
     }
     return false } *)
Fixpoint collect_loop (rec : V -> emap -> res (bool * emap)) (st : sts)
         (src : V) (dests : list V) (E : emap) : res (bool * emap) :=
  match dests with
  | [] => Done (false, E)
  | d :: ds =>
      if is_active (st d) then
        let E1 := eset E src d in
        if emem E1 d then Done (true, E1)
        else match rec d E1 with
             | Done (true, E2) => Done (true, E2)
             | Done (false, E2) => collect_loop rec st src ds (edel E2 src)
             | OutOfFuel => OutOfFuel
             | Panic => Panic
             end
      else collect_loop rec st src ds E
  end.

Fixpoint collect (fuel : nat) (st : sts) (src : V) (E : emap) : res (bool * emap) :=
  match fuel with
  | 0 => OutOfFuel
  | S f => collect_loop (collect f st) st src (succ src) E
  end.

(* start := edge.from
   for n := range edges { if n.pos.IsBefore(start.pos) { start = n } }
   (the keys are visited in the order of the association list; with pairwise
   distinct positions the result does not depend on that order) *)
Definition pick_start (E : emap) (from : V) : V :=
  fold_left (fun start n => if before n start then n else start) (map fst E) from.

(* msg.WriteString(strconv.Quote(start.id))
   from, to := start, edges[start]
   for {
     msg.WriteString(" -> "); msg.WriteString(strconv.Quote(to.id))   // to == nil: panic
     from, to = to, edges[to]
     if from == start { break }
   }
   [print_loop] returns the ids written after the first one. *)
Fixpoint print_loop (fuel : nat) (E : emap) (start : V) (to : option V) : res (list V) :=
  match fuel with
  | 0 => OutOfFuel
  | S f =>
      match to with
      | None => Panic
      | Some t =>
          if eqb t start then Done [t]
          else match print_loop f E start (eget E t) with
               | Done l => Done (t :: l)
               | OutOfFuel => OutOfFuel
               | Panic => Panic
               end
      end
  end.

(* if edge := detectFirstCycle(rule.nodes); edge != nil {
     edges := map[*jobNode]*jobNode{}
     edges[edge.from] = edge.to
     collectCycle(edge.to, edges)          // result ignored
     ... pick start, print ...
     rule.Error(start.pos, msg.String()) }
   Result: (start, ids printed in order, the first one included). *)
Definition report (fuel : nat) (st : sts) (e : V * V) : res (V * list V) :=
  let (from, to) := e in
  let E0 := eset [] from to in
  match collect fuel st to E0 with
  | Done (_, E) =>
      let start := pick_start E from in
      match print_loop fuel E start (eget E start) with
      | Done l => Done (start, start :: l)
      | OutOfFuel => OutOfFuel
      | Panic => Panic
      end
  | OutOfFuel => OutOfFuel
  | Panic => Panic
  end.

Definition detect (fuel : nat) (ord : list V) : res (option (V * list V)) :=
  match detect_first fuel ord (fun _ => SNew) with
  | Done (Some e, st) =>
      match report fuel st e with
      | Done r => Done (Some r)
      | OutOfFuel => OutOfFuel
      | Panic => Panic
      end
  | Done (None, _) => Done None
  | OutOfFuel => OutOfFuel
  | Panic => Panic
  end.

End Dfs.
