(* Graph/Needs.v — model of RuleJobNeeds (rule_job_needs.go): VisitJobPre
   (node table keyed by the lower-cased job id, "needs" lower-cased and
   de-duplicated) and VisitWorkflowPost (resolution of the references, the
   cycle search of Graph/Dfs.v, the diagnostic).

   The Go map [rule.nodes] is an association list [nodes]; a *jobNode is
   identified with its key (the map holds exactly one node per key and
   node.id = key).  The iteration order of [range rule.nodes] is an INPUT of
   the model: [ord], a list of keys (theorems quantify over every permutation
   of the key list; the resolution loop ranges over the map directly, which
   only determines the order of its diagnostics; detectFirstCycle sorts the
   nodes by position first, see [sort_nodes]). *)
From AL Require Import Base.Str Base.AList Out.StableSort Graph.Dfs.

Definition pos := (N * N)%type.

(* ast.go: func (p *Pos) IsBefore(other *Pos) bool *)
Definition is_before (p q : pos) : bool :=
  if N.ltb (fst p) (fst q) then true
  else if N.ltb (fst q) (fst p) then false
  else N.ltb (snd p) (snd q).

(* projection of *Job: ID.Value, ID.Pos (= Job.Pos), Needs[i].(Pos, Value) *)
Record job := { j_id : string; j_pos : pos; j_needs : list (pos * string) }.

(* jobNode without the mutable fields (status, resolved) *)
Record node := { n_id : string; n_needs : list string; n_pos : pos }.

Definition nodes := list (string * node).

Inductive diag :=
| DDupNeed (p : pos) (raw : string)            (* job ID %q duplicates in "needs" section *)
| DDupJob (p : pos) (raw : string)             (* job ID %q duplicates. previously defined at *)
| DMissing (p : pos) (id dep : string)         (* job %q needs job %q which does not exist *)
| DCycle (p : pos) (cyc : list string).        (* cyclic dependencies ... detected cycle is a -> b -> a *)

Definition contains (l : list string) (s : string) : bool := existsb (String.eqb s) l.
Definition is_empty (s : string) : bool := match s with EmptyString => true | _ => false end.

(* the loop over n.Needs in VisitJobPre *)
Fixpoint scan_needs (needs : list string) (l : list (pos * string)) : list diag * list string :=
  match l with
  | [] => ([], needs)
  | (p, v) :: l' =>
      let id := lower v in
      if contains needs id then
        let (ds, r) := scan_needs needs l' in (DDupNeed p v :: ds, r)
      else if is_empty id then scan_needs needs l'
      else scan_needs (needs ++ [id]) l'
  end.

Definition visit_job_pre (m : nodes) (j : job) : list diag * nodes :=
  let (ds, needs) := scan_needs [] (j_needs j) in
  let id := lower (j_id j) in
  if is_empty id then (ds, m)
  else
    let d2 := match lookup id m with Some _ => [DDupJob (j_pos j) (j_id j)] | None => [] end in
    (ds ++ d2, upsert id {| n_id := id; n_needs := needs; n_pos := j_pos j |} m).

(* the visitor calls VisitJobPre once per job (in the iteration order of the
   map w.Jobs — the list order here) *)
Fixpoint collect_jobs (m : nodes) (jobs : list job) : list diag * nodes :=
  match jobs with
  | [] => ([], m)
  | j :: js =>
      let (d1, m1) := visit_job_pre m j in
      let (d2, m2) := collect_jobs m1 js in
      (d1 ++ d2, m2)
  end.

Definition has (m : nodes) (k : string) : bool :=
  match lookup k m with Some _ => true | None => false end.

(* node.resolved: the needs found in the table, in order *)
Definition resolved (m : nodes) (nd : node) : list string := filter (has m) (n_needs nd).

Definition succ_of (m : nodes) (v : string) : list string :=
  match lookup v m with Some nd => resolved m nd | None => [] end.

Definition pos_of (m : nodes) (v : string) : pos :=
  match lookup v m with Some nd => n_pos nd | None => (0, 0)%N end.

Definition before_of (m : nodes) (a b : string) : bool := is_before (pos_of m a) (pos_of m b).

(* the inner loop of "Resolve nodes" for one (id, node) *)
Definition missing_of (m : nodes) (kn : string * node) : list diag :=
  map (fun dep => DMissing (n_pos (snd kn)) (fst kn) dep)
      (filter (fun d => negb (has m d)) (n_needs (snd kn))).

(* the entries of the table in the iteration order [ord] *)
Definition entries (m : nodes) (ord : list string) : list (string * node) :=
  flat_map (fun k => match lookup k m with Some nd => [(k, nd)] | None => [] end) ord.

Definition needs_fuel (m : nodes) : nat := S (length m).

(* detectFirstCycle (as repaired by the determinism fix): the nodes are
   collected from the map in iteration order [ord] and sorted with
       sort.Slice(sorted, func(i, j) bool { return sorted[i].pos.IsBefore(sorted[j].pos) })
   before the search starts.  sort.Slice is not stable; the nodes of one
   workflow are distinct YAML keys and have pairwise distinct positions, and
   then every correct sort produces the same list (NeedsProofs.v,
   [sort_nodes_det]); the model uses the insertion sort of Out/StableSort.v. *)
Definition sort_nodes (m : nodes) (ord : list string) : list string :=
  ssort (pos_of m) pos_leb ord.

Definition detect_needs (m : nodes) (ord : list string) : res (option (string * list string)) :=
  detect String.eqb (succ_of m) (before_of m) (needs_fuel m) (sort_nodes m ord).

(* VisitWorkflowPost *)
Definition workflow_post (m : nodes) (ord : list string) : res (list diag) :=
  match flat_map (missing_of m) (entries m ord) with
  | (_ :: _) as miss => Done miss                    (* valid == false: return *)
  | [] =>
      match detect_needs m ord with
      | Done None => Done []
      | Done (Some (start, cyc)) => Done [DCycle (pos_of m start) cyc]
      | OutOfFuel => OutOfFuel
      | Panic => Panic
      end
  end.

(* the whole rule on one workflow *)
Definition run (jobs : list job) (ord : list string) : res (list diag) :=
  let (ds, m) := collect_jobs [] jobs in
  match workflow_post m ord with
  | Done ds2 => Done (ds ++ ds2)
  | OutOfFuel => OutOfFuel
  | Panic => Panic
  end.

Definition table (jobs : list job) : nodes := snd (collect_jobs [] jobs).
