(* Wf/WfAst.v — mirror of the workflow AST of /repo/ast.go, restricted to the
   fields through which a scalar of the source file can reach a rule: every
   *String, []*String, *Bool, *Int, *Float, RawYAMLValue field, the maps and
   slices of nodes that contain them, and the nil-ness the visitor of
   RuleExpression branches on.  Dropped: Pos-only fields, parsed literal values
   (Bool.Value, Int.Value, Float.Value), enums (input Type), flags
   (InheritSecrets) — none of them holds source text.

   Go maps are association lists (key = the lower-cased id the parser uses);
   nil-able pointers are [option]; a nil slice and an empty slice are both []
   (the visitor only ranges over them) — except Env.Vars, where nil-ness is
   branched on, hence [option (list ...)].

   [scalar]: a source scalar kept by the AST = the name of the field that holds
   it ("Struct.Field") and the String (text, quoted flag, position). *)
From AL Require Import Base.Str.
From Coq Require Import NArith.

Definition pos := (N * N)%type.

(* ast.go: type String struct { Value string; Quoted bool; Pos *Pos } *)
Record str := Str { sval : string; squoted : bool; spos : pos }.

(* Bool / Int / Float: only Expression can hold source text *)
Record boolv := BoolV { b_expr : option str; b_pos : pos }.
Record intv := IntV { i_expr : option str; i_pos : pos }.
Record floatv := FloatV { f_expr : option str; f_pos : pos }.

(* RawYAMLValue: RawYAMLString | RawYAMLArray | RawYAMLObject *)
Inductive raw :=
| RawStr (v : string) (p : pos)
| RawArr (es : list raw) (p : pos)
| RawObj (props : list (string * raw)) (p : pos).

Record evfilter := Filter { fl_name : option str; fl_values : list str }.

Record webhook_event := WebhookEvent {
  we_hook : option str; we_types : list str;
  we_branches : option evfilter; we_branches_ignore : option evfilter;
  we_tags : option evfilter; we_tags_ignore : option evfilter;
  we_paths : option evfilter; we_paths_ignore : option evfilter;
  we_workflows : list str }.

Record dispatch_input := DispatchInput {
  di_name : option str; di_description : option str; di_required : option boolv;
  di_default : option str; di_options : list str }.

Record call_input := CallInput {
  ci_name : option str; ci_description : option str; ci_default : option str;
  ci_required : option boolv; ci_id : string }.

Record call_secret := CallSecret {
  cs_name : option str; cs_description : option str; cs_required : option boolv }.

Record call_output := CallOutput {
  co_name : option str; co_description : option str; co_value : option str }.

Record call_event := CallEvent {
  ce_inputs : list call_input;
  ce_secrets : option (list (string * call_secret));   (* nil-ness is branched on *)
  ce_outputs : list (string * call_output) }.

Inductive event :=
| EWebhook (e : webhook_event)
| ESchedule (cron : list str)
| EDispatch (inputs : list (string * dispatch_input))
| ERepoDispatch (types : list str)
| ECall (e : call_event).

Record perm_scope := PermScope { ps_name : option str; ps_value : option str }.
Record permissions := Permissions { pm_all : option str; pm_scopes : list (string * perm_scope) }.

Record env_var := EnvVar { ev_name : option str; ev_value : option str }.
Record env := Env { en_vars : option (list (string * env_var)); en_expr : option str }.

Record defaults_run := DefaultsRun { dr_shell : option str; dr_workdir : option str }.
Record defaults := Defaults { df_run : option defaults_run }.

Record concurrency := Concurrency { cc_group : option str; cc_cancel : option boolv }.
Record environment := Environment { ev_ename : option str; ev_url : option str }.

Record input := Input { in_name : option str; in_value : option str }.

Inductive exec :=
| ExecRun (run shell workdir : option str)
| ExecAction (uses : option str) (inputs : list (string * input)) (entrypoint args : option str).

Record matrix_row := MatrixRow { mr_name : option str; mr_values : list raw; mr_expr : option str }.
Record matrix_assign := MatrixAssign { ma_key : option str; ma_value : raw }.
Record matrix_combination := MatrixCombination {
  mc_assigns : list (string * matrix_assign); mc_expr : option str }.
Record matrix_combinations := MatrixCombinations {
  mcs_combinations : list matrix_combination; mcs_expr : option str }.
Record matrix := Matrix {
  mx_rows : list (string * matrix_row);
  mx_include : option matrix_combinations; mx_exclude : option matrix_combinations;
  mx_expr : option str }.
Record strategy := Strategy {
  st_matrix : option matrix; st_fail_fast : option boolv; st_max_parallel : option intv }.

Record step := Step {
  sp_id : option str; sp_if : option str; sp_name : option str; sp_exec : option exec;
  sp_env : option env; sp_continue_on_error : option boolv; sp_timeout : option floatv }.

Record credentials := Credentials { cr_username : option str; cr_password : option str }.
Record container := Container {
  ct_image : option str; ct_credentials : option credentials; ct_env : option env;
  ct_ports : list str; ct_volumes : list str; ct_options : option str }.
Record service := Service { sv_name : option str; sv_container : option container }.
Record services := Services { ss_value : list (string * service); ss_expr : option str }.

Record output := Output { ou_name : option str; ou_value : option str }.
Record runner := Runner { rn_labels : list str; rn_labels_expr : option str; rn_group : option str }.

Record wcall_input := WCallInput { wi_name : option str; wi_value : option str }.
Record wcall_secret := WCallSecret { ws_name : option str; ws_value : option str }.
Record workflow_call := WorkflowCall {
  wc_uses : option str; wc_inputs : list (string * wcall_input);
  wc_secrets : list (string * wcall_secret) }.

Record job := Job {
  jb_id : option str; jb_name : option str; jb_needs : list str; jb_runs_on : option runner;
  jb_permissions : option permissions; jb_environment : option environment;
  jb_concurrency : option concurrency; jb_outputs : list (string * output);
  jb_env : option env; jb_defaults : option defaults; jb_if : option str;
  jb_steps : list step; jb_timeout : option floatv; jb_strategy : option strategy;
  jb_continue_on_error : option boolv; jb_container : option container;
  jb_services : option services; jb_call : option workflow_call }.

Record workflow := Workflow {
  wf_name : option str; wf_run_name : option str; wf_on : list event;
  wf_permissions : option permissions; wf_env : option env; wf_defaults : option defaults;
  wf_concurrency : option concurrency;
  wf_jobs : list (string * job)   (* in visiting order (pass.go sorts by position) *) }.

(* a source scalar held by the AST: (field "Struct.Field", String) *)
Definition scalar := (string * str)%type.
Definition sc_field (s : scalar) : string := fst s.
Definition sc_str (s : scalar) : str := snd s.

(* helpers to collect scalars *)
Definition of_ostr (f : string) (o : option str) : list scalar :=
  match o with Some s => [(f, s)] | None => [] end.
Definition of_strs (f : string) (l : list str) : list scalar := map (fun s => (f, s)) l.
Definition of_opt {A} (g : A -> list scalar) (o : option A) : list scalar :=
  match o with Some a => g a | None => [] end.
Definition of_bool (f : string) (o : option boolv) : list scalar :=
  match o with Some b => of_ostr f (b_expr b) | None => [] end.
Definition of_int (f : string) (o : option intv) : list scalar :=
  match o with Some b => of_ostr f (i_expr b) | None => [] end.
Definition of_float (f : string) (o : option floatv) : list scalar :=
  match o with Some b => of_ostr f (f_expr b) | None => [] end.
Definition of_map {A} (g : A -> list scalar) (m : list (string * A)) : list scalar :=
  flat_map (fun kv => g (snd kv)) m.

(* RawYAMLString is passed to checkExprsIn with quoted = false (rule_expression.go) *)
Fixpoint raw_strs (v : raw) : list str :=
  match v with
  | RawStr s p => [Str s false p]
  | RawArr es _ => flat_map raw_strs es
  | RawObj ps _ => flat_map (fun kv => raw_strs (snd kv)) ps
  end.
Definition of_raw (f : string) (v : raw) : list scalar := of_strs f (raw_strs v).
