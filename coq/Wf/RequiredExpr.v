(* Wf/RequiredExpr.v — `required:` of an input or a secret of on.workflow_call as it is WRITTEN:
   absent, a YAML boolean, one ${{ }} placeholder, or anything else.  The workflow parser
   (parse.go parseBool) accepts the first three; the interface decoded from the callee's file
   (reusable_workflow.go metadataBool.UnmarshalYAML, fix 776e2a6) now accepts exactly those and
   reads them like the parser, so that a callee which lints clean can always be read by its
   callers and both derivations of its interface agree.  Before the fix a placeholder made
   the file unreadable ("cannot unmarshal !!str into bool"): [decode_old_refuted]. *)
From AL Require Import Base.Str Base.AList Wf.Calls Wf.CallsProofs.

Inductive yreq := RqAbsent | RqBool (b : bool) | RqExpr | RqOther.

(* parse.go parseBool: the *Bool of the syntax tree (Value is false for an expression) and
   whether the value is accepted without a diagnostic *)
Definition ast_req (r : yreq) : option bool :=
  match r with RqAbsent => None | RqBool b => Some b | RqExpr | RqOther => Some false end.
Definition parser_accepts (r : yreq) : bool := match r with RqOther => false | _ => true end.

(* the decoder of the callee's file: None = `error while parsing reusable workflow` *)
Definition file_req (r : yreq) : option (option bool) :=
  match r with RqAbsent => Some None | RqBool b => Some (Some b) | RqExpr => Some (Some false) | RqOther => None end.
Definition file_req_old (r : yreq) : option (option bool) :=
  match r with RqExpr => None | _ => file_req r end.

Record wdeclr := { wr_required : yreq; wr_default : ydefault; wr_type : option string }.

Definition view (f : yreq -> option bool) (d : wdeclr) : wdecl :=
  {| wd_required := f (wr_required d); wd_default := wr_default d; wd_type := wr_type d |}.

(* what the syntax tree carries *)
Definition ast_inputs (ds : list (string * wdeclr)) : list (string * wdecl) :=
  map (fun kd => (fst kd, view ast_req (snd kd))) ds.
Definition ast_secrets (ss : list (string * yreq)) : list (string * option bool) :=
  map (fun kr => (fst kr, ast_req (snd kr))) ss.

(* what the decoder of the file yields: all or nothing *)
Fixpoint decode_inputs_with (f : yreq -> option (option bool)) (ds : list (string * wdeclr)) : option (list (string * wdecl)) :=
  match ds with
  | [] => Some []
  | (k, d) :: r =>
      match f (wr_required d), decode_inputs_with f r with
      | Some q, Some r' => Some ((k, {| wd_required := q; wd_default := wr_default d; wd_type := wr_type d |}) :: r')
      | _, _ => None
      end
  end.
Fixpoint decode_secrets_with (f : yreq -> option (option bool)) (ss : list (string * yreq)) : option (list (string * option bool)) :=
  match ss with
  | [] => Some []
  | (k, q) :: r =>
      match f q, decode_secrets_with f r with
      | Some b, Some r' => Some ((k, b) :: r')
      | _, _ => None
      end
  end.
Definition decode_inputs := decode_inputs_with file_req.
Definition decode_secrets := decode_secrets_with file_req.
Definition decode_inputs_old := decode_inputs_with file_req_old.

Definition all_accepted (ds : list (string * wdeclr)) : bool := forallb (fun kd => parser_accepts (wr_required (snd kd))) ds.
Definition all_accepted_s (ss : list (string * yreq)) : bool := forallb (fun kr => parser_accepts (snd kr)) ss.

Lemma file_req_accepts r : parser_accepts r = true -> file_req r = Some (ast_req r).
Proof. destruct r; cbn; congruence. Qed.

Lemma file_req_rejects r : parser_accepts r = false -> file_req r = None.
Proof. destruct r; cbn; congruence. Qed.

(* a callee whose `required:` values the parser accepts can be read, and is read as the
   syntax tree reads it *)
Theorem decode_accepts ds : all_accepted ds = true -> decode_inputs ds = Some (ast_inputs ds).
Proof.
  unfold decode_inputs, all_accepted. induction ds as [|[k d] r IH]; cbn; [reflexivity|].
  rewrite Bool.andb_true_iff. intros [Ha Hr]. rewrite (file_req_accepts _ Ha), (IH Hr). reflexivity.
Qed.

Theorem decode_secrets_accepts ss : all_accepted_s ss = true -> decode_secrets ss = Some (ast_secrets ss).
Proof.
  unfold decode_secrets, all_accepted_s. induction ss as [|[k q] r IH]; cbn; [reflexivity|].
  rewrite Bool.andb_true_iff. intros [Ha Hr]. rewrite (file_req_accepts _ Ha), (IH Hr). reflexivity.
Qed.

(* ... and only such a callee: a value the decoder rejects is one the parser reports *)
Theorem decode_rejects ds : decode_inputs ds = None -> all_accepted ds = false.
Proof.
  unfold decode_inputs, all_accepted. induction ds as [|[k d] r IH]; cbn; [discriminate|].
  destruct (parser_accepts (wr_required d)) eqn:A; [|reflexivity].
  rewrite (file_req_accepts _ A). destruct (decode_inputs_with file_req r) eqn:E; [discriminate|].
  intros _. cbn. now apply IH.
Qed.

(* hence: the interface a caller is checked against does not depend on whether the callee's
   file or its syntax tree reached the cache first *)
Theorem interface_agree_written ins secs outs ins' secs' :
  all_accepted ins = true -> all_accepted_s secs = true ->
  NoDup (map (fun kd => lower (fst kd)) ins) -> NoDup (map (fun kr => lower (fst kr)) secs) -> wf_names outs ->
  decode_inputs ins = Some ins' -> decode_secrets secs = Some secs' ->
  wf_meta false ins' secs' outs = wf_meta true (ast_inputs ins) (ast_secrets secs) outs.
Proof.
  intros A As N Ns W Di Ds.
  rewrite (decode_accepts _ A) in Di. rewrite (decode_secrets_accepts _ As) in Ds.
  injection Di as <-. injection Ds as <-.
  symmetry. apply interface_agree; [| |exact W].
  - unfold ast_inputs. rewrite map_map. cbn. exact N.
  - unfold ast_secrets. rewrite map_map. cbn. exact Ns.
Qed.

(* before 776e2a6: a callee that the parser accepts and that the decoder cannot read *)
Theorem decode_old_refuted :
  exists ds, all_accepted ds = true /\ decode_inputs_old ds = None /\ decode_inputs ds = Some (ast_inputs ds).
Proof.
  exists [("x", {| wr_required := RqExpr; wr_default := DfAbsent; wr_type := Some "string" |})].
  repeat split; reflexivity.
Qed.

(* a required-by-placeholder input demands nothing of the caller, in either derivation *)
Example expr_required_is_not_required :
  let ds := [("x", {| wr_required := RqExpr; wr_default := DfAbsent; wr_type := Some "string" |});
             ("y", {| wr_required := RqBool true; wr_default := DfAbsent; wr_type := None |})] in
  map (fun kv => (fst kv, wi_required (snd kv))) (wm_inputs (wf_meta true (ast_inputs ds) [] [])) = [("x", false); ("y", true)] /\
  option_map (fun ins => map (fun kv => (fst kv, wi_required (snd kv))) (wm_inputs (wf_meta false ins [] []))) (decode_inputs ds)
    = Some [("x", false); ("y", true)].
Proof. split; reflexivity. Qed.
