(* Wf/ScopeProofs.v — C05: a reference is reported as undefined iff the entity
   is not in scope there. *)
From AL Require Import Wf.Scope.

(* ---------------------------------------------------------------------- *)
(* generic facts                                                          *)

Lemma resolve_single_strict props k :
  resolve (SObj props None) [k] = VUndefined <-> ~ In k (keys props).
Proof.
  cbn. destruct (lookup k props) as [t|] eqn:L.
  - split; [destruct t; discriminate|]. intros H. exfalso. apply H. eapply lookup_Some_key; eauto.
  - split; [intros _; now apply lookup_None|reflexivity].
Qed.

Lemma resolve_single_never_notobject props m k : resolve (SObj props m) [k] <> VNotObject.
Proof.
  cbn. destruct (lookup k props) as [t|]; [destruct t; discriminate|].
  destruct m as [t|]; [destruct t|]; discriminate.
Qed.

Lemma resolve_single_loose props k : resolve (SObj props (Some SAny)) [k] = VOk.
Proof. cbn. destruct (lookup k props) as [t|]; [destruct t|]; reflexivity. Qed.

Lemma resolve_cons_found props m k t rest :
  lookup k props = Some t -> resolve (SObj props m) (k :: rest) = resolve t rest.
Proof. intros L. cbn. now rewrite L. Qed.

Lemma keys_map_leaf (names : list string) : keys (map (fun n => (n, SLeaf)) names) = names.
Proof. unfold keys. rewrite map_map. cbn. apply map_id. Qed.

(* ---------------------------------------------------------------------- *)
(* steps                                                                  *)

Definition ids_of (l : list stepS) : list string :=
  flat_map (fun s => match st_id s with Some raw => [raw] | None => [] end) l.

Lemma fold_visit_step_keys l : forall st id,
  In id (keys (fst (fold_left visit_step l st))) <-> In id (keys (fst st)) \/ In id (map lower (ids_of l)).
Proof.
  induction l as [|s l IH]; intros st id; cbn [fold_left ids_of flat_map].
  - cbn. tauto.
  - rewrite IH. unfold visit_step. destruct (st_id s) as [raw|]; cbn [app map].
    + destruct st as [props loose]. cbn [fst]. rewrite keys_upsert.
      cbn. split; intros H; intuition (subst; auto).
    + cbn. tauto.
Qed.

Lemma fold_visit_step_loose l : forall st,
  snd (fold_left visit_step l st) = snd st || existsb contains_expr (ids_of l).
Proof.
  induction l as [|s l IH]; intros st; cbn [fold_left ids_of flat_map].
  - cbn. now rewrite orb_false_r.
  - rewrite IH. unfold visit_step. destruct (st_id s) as [raw|]; cbn.
    + destruct st as [props loose]. cbn. now rewrite orb_assoc.
    + reflexivity.
Qed.

(* C05: a step sees the ids of EARLIER steps of its job only (k = its index);
   job outputs and environment see all of them (k = number of steps); if an
   earlier id is built from an expression nothing is reported *)
Theorem steps_scope_spec steps k id :
  resolve (steps_scope steps k) [id] = VUndefined <->
  ~ In id (map lower (ids_of (firstn k steps))) /\
  existsb contains_expr (ids_of (firstn k steps)) = false.
Proof.
  unfold steps_scope, steps_ty.
  pose proof (fold_visit_step_keys (firstn k steps) ([], false) id) as K.
  pose proof (fold_visit_step_loose (firstn k steps) ([], false)) as L. cbn [snd orb] in L.
  destruct (fold_left visit_step (firstn k steps) ([], false)) as [props loose]. cbn [fst snd] in *.
  subst loose. destruct (existsb contains_expr (ids_of (firstn k steps))).
  - rewrite resolve_single_loose. split; [discriminate|intros [_ H]; discriminate H].
  - rewrite resolve_single_strict, K. cbn. tauto.
Qed.

Theorem steps_scope_total steps k id : resolve (steps_scope steps k) [id] <> VNotObject.
Proof. unfold steps_scope, steps_ty. apply resolve_single_never_notobject. Qed.

(* the step's own id and later ids are not visible: immediate from firstn *)
Corollary step_does_not_see_itself steps k s raw :
  nth_error steps k = Some s -> st_id s = Some raw ->
  ~ In (lower raw) (map lower (ids_of (firstn k steps))) ->
  existsb contains_expr (ids_of (firstn k steps)) = false ->
  resolve (steps_scope steps k) [lower raw] = VUndefined.
Proof. intros _ _ H1 H2. apply steps_scope_spec. auto. Qed.

(* ---------------------------------------------------------------------- *)
(* needs                                                                  *)

Lemma find_job_id jobs i j : find_job jobs i = Some j -> j_id j = i.
Proof.
  unfold find_job. intros H. apply find_some in H. destruct H as [_ H]. now apply String.eqb_eq in H.
Qed.

Lemma lookup_app {V} k (a b : list (string * V)) :
  lookup k (a ++ b) = match lookup k a with Some v => Some v | None => lookup k b end.
Proof.
  induction a as [|[k' v'] a IH]; cbn; [reflexivity|]. destruct (String.eqb k k'); auto.
Qed.

Lemma fold_add_need jobs root needs : forall props n,
  (forall k t, lookup k props = Some t -> exists j, find_job jobs k = Some j /\ t = needs_entry j) ->
  let props' := fold_left (add_need jobs root) needs props in
  (forall k t, lookup k props' = Some t -> exists j, find_job jobs k = Some j /\ t = needs_entry j) /\
  (In n (keys props') <->
   In n (keys props) \/ (In n (map lower needs) /\ n <> lower (j_rawid root) /\ find_job jobs n <> None)).
Proof.
  induction needs as [|id needs IH]; intros props n W; cbn [fold_left map].
  - split; [exact W|]. cbn. tauto.
  - assert (W1 : forall k t, lookup k (add_need jobs root props id) = Some t ->
                             exists j, find_job jobs k = Some j /\ t = needs_entry j).
    { unfold add_need. destruct (String.eqb (lower id) (lower (j_rawid root))); [exact W|].
      destruct (lookup (lower id) props) eqn:L; [exact W|].
      destruct (find_job jobs (lower id)) as [j|] eqn:F; [|exact W].
      intros k t Lk. rewrite lookup_app in Lk. destruct (lookup k props) as [t0|] eqn:L0.
      - apply W. rewrite L0. exact Lk.
      - cbn in Lk. destruct (String.eqb k (lower id)) eqn:E; [|discriminate].
        apply String.eqb_eq in E. subst k. inversion Lk; subst. exists j. auto. }
    destruct (IH (add_need jobs root props id) n W1) as [IH1 IH2].
    split; [exact IH1|]. rewrite IH2. clear IH1 IH2 IH.
    cbn [In]. unfold add_need.
    destruct (String.eqb (lower id) (lower (j_rawid root))) eqn:E1.
    { apply String.eqb_eq in E1. split; [tauto|]. intros [H|[[H|H] [H2 H3]]]; auto. congruence. }
    destruct (lookup (lower id) props) as [t0|] eqn:L.
    { split; [tauto|]. intros [H|[[H|H] [H2 H3]]]; auto.
      left. subst n. eapply lookup_Some_key; eauto. }
    destruct (find_job jobs (lower id)) as [j|] eqn:F.
    + unfold keys. rewrite map_app, in_app_iff. cbn [map In fst].
      apply String.eqb_neq in E1.
      split.
      * intros [[H|[H|[]]]|[H1 [H2 H3]]]; auto.
        right. subst n. split; [now left|]. split; [exact E1|congruence].
      * intros [H|[[H|H] [H2 H3]]]; auto; try (left; right; now left).
    + split; [tauto|]. intros [H|[[H|H] [H2 H3]]]; auto. subst n. contradiction.
Qed.

(* C05: `needs` sees exactly the directly needed jobs (that exist, other than
   the job itself), compared case-insensitively — nothing transitive *)
Theorem needs_scope_spec jobs job n :
  resolve (needs_scope jobs job) [n] = VUndefined <->
  ~ (In n (map lower (j_needs job)) /\ n <> lower (j_rawid job) /\ find_job jobs n <> None).
Proof.
  unfold needs_scope, strict_obj. rewrite resolve_single_strict.
  destruct (fold_add_need jobs job (j_needs job) [] n) as [_ H]; [intros k t L; discriminate L|].
  cbn zeta in H. rewrite H. cbn. tauto.
Qed.

(* ... and for a needed job exactly its declared outputs (or what the called
   reusable workflow declares) *)
Theorem needs_scope_entry jobs job n t rest :
  lookup n (fold_left (add_need jobs job) (j_needs job) []) = Some t ->
  exists j, find_job jobs n = Some j /\
            resolve (needs_scope jobs job) (n :: rest) = resolve (needs_entry j) rest.
Proof.
  intros L.
  destruct (fold_add_need jobs job (j_needs job) [] n) as [H _]; [intros k t' L'; discriminate L'|].
  cbn zeta in H. destruct (H n t L) as [j [F ->]].
  exists j. split; [exact F|]. unfold needs_scope, strict_obj. now apply resolve_cons_found.
Qed.

Theorem needs_outputs_spec (j : jobS) o :
  j_call j = None ->
  (resolve (needs_entry j) ["outputs"; o] = VUndefined <-> ~ In o (j_outputs j)).
Proof.
  intros C.
  assert (E : resolve (strict_obj [("outputs", strict_obj (map (fun n => (n, SLeaf)) (j_outputs j))); ("result", SLeaf)]) ["outputs"; o]
              = resolve (SObj (map (fun n => (n, SLeaf)) (j_outputs j)) None) [o]) by reflexivity.
  unfold needs_entry, outputs_ty. rewrite C, E.
  rewrite resolve_single_strict, keys_map_leaf. reflexivity.
Qed.

(* ---------------------------------------------------------------------- *)
(* matrix                                                                 *)

Lemma add_keys_keys ks : forall props k, In k (keys (add_keys props ks)) <-> In k (keys props) \/ In k ks.
Proof.
  unfold add_keys. induction ks as [|x ks IH]; intros props k; cbn [fold_left].
  - cbn. tauto.
  - rewrite IH, keys_upsert. cbn. split; intros H; intuition (subst; auto).
Qed.

Definition comb_keys (c : combS) : list string := match c with CombExpr => [] | CombAssigns ks => ks end.
Definition comb_is_expr (c : combS) : bool := match c with CombExpr => true | CombAssigns _ => false end.

Lemma fold_combs cs : forall props loose,
  let step (acc : list (string * sty) * bool) (c : combS) :=
      match c with
      | CombExpr => (fst acc, true)
      | CombAssigns ks => (add_keys (fst acc) ks, snd acc)
      end in
  let r := fold_left step cs (props, loose) in
  snd r = loose || existsb comb_is_expr cs /\
  forall k, In k (keys (fst r)) <-> In k (keys props) \/ In k (flat_map comb_keys cs).
Proof.
  induction cs as [|c cs IH]; intros props loose; cbn [fold_left].
  - cbn. rewrite orb_false_r. split; [reflexivity|intros k; tauto].
  - destruct c as [|ks]; cbn [fst snd].
    + destruct (IH props true) as [H1 H2]. cbn zeta in *. split.
      * rewrite H1. cbn. now rewrite orb_true_r.
      * intros k. rewrite H2. cbn. tauto.
    + destruct (IH (add_keys props ks) loose) as [H1 H2]. cbn zeta in *. split.
      * rewrite H1. reflexivity.
      * intros k. rewrite H2, add_keys_keys. cbn. rewrite in_app_iff. tauto.
Qed.

Definition incl_keys (i : inclS) : list string :=
  match i with InclList cs => flat_map comb_keys cs | _ => [] end.
Definition incl_has_expr (i : inclS) : bool :=
  match i with InclNone => false | InclExpr => true | InclList cs => existsb comb_is_expr cs end.

(* C05: `matrix` sees exactly the row keys plus the include keys; where the
   matrix, the include section or an include element is given by an
   expression nothing is reported *)
Theorem matrix_scope_spec m k :
  resolve (matrix_scope m) [k] = VUndefined <->
  mx_expr m = false /\ incl_has_expr (mx_include m) = false /\
  ~ In k (mx_rows m) /\ ~ In k (incl_keys (mx_include m)).
Proof.
  unfold matrix_scope. destruct (mx_expr m).
  - unfold loose_obj. rewrite resolve_single_loose. split; [discriminate|intros [H _]; discriminate H].
  - destruct (mx_include m) as [| |cs]; cbn [incl_has_expr incl_keys].
    + unfold strict_obj. rewrite resolve_single_strict, add_keys_keys. cbn. tauto.
    + unfold loose_obj. rewrite resolve_single_loose. split; [discriminate|intros [_ [H _]]; discriminate H].
    + pose proof (fold_combs cs (add_keys [] (mx_rows m)) false) as F. cbn zeta in F.
      destruct (fold_left _ cs (add_keys [] (mx_rows m), false)) as [props loose]. cbn [fst snd] in F.
      destruct F as [F1 F2]. subst loose. cbn [orb].
      destruct (existsb comb_is_expr cs).
      * rewrite resolve_single_loose. split; [discriminate|intros [_ [H _]]; discriminate H].
      * rewrite resolve_single_strict, F2, add_keys_keys. cbn. tauto.
Qed.

Theorem matrix_scope_total m k : resolve (matrix_scope m) [k] <> VNotObject.
Proof.
  unfold matrix_scope. destruct (mx_expr m); [apply resolve_single_never_notobject|].
  destruct (mx_include m); try apply resolve_single_never_notobject.
  destruct (fold_left _ _ _). apply resolve_single_never_notobject.
Qed.

(* ---------------------------------------------------------------------- *)
(* inputs, secrets, jobs                                                  *)

Lemma fold_union_keys b : forall ps k,
  In k (keys (fold_left (fun ps n => match lookup n ps with Some _ => ps | None => ps ++ [(n, SLeaf)] end) b ps))
  <-> In k (keys ps) \/ In k b.
Proof.
  induction b as [|n b IH]; intros ps k; cbn [fold_left].
  - cbn. tauto.
  - rewrite IH. destruct (lookup n ps) as [t|] eqn:L.
    + cbn. split; [tauto|]. intros [H|[H|H]]; auto. left. subst. eapply lookup_Some_key; eauto.
    + unfold keys. rewrite map_app, in_app_iff. cbn. tauto.
Qed.

(* C05: `inputs` sees exactly the declared names of workflow_call and workflow_dispatch *)
Theorem inputs_scope_spec c d k :
  resolve (inputs_scope c d) [k] = VUndefined <->
  ~ (In k (match c with Some a => a | None => [] end) \/ In k (match d with Some b => b | None => [] end)).
Proof.
  unfold inputs_scope, names_obj, strict_obj.
  destruct c as [a|], d as [b|]; try (rewrite resolve_single_strict, ?keys_map_leaf; cbn; tauto).
  destruct a as [|x a].
  - rewrite resolve_single_strict, keys_map_leaf. cbn. tauto.
  - rewrite resolve_single_strict, fold_union_keys, keys_map_leaf. tauto.
Qed.

(* C05: `secrets` sees the declared names plus the automatic ones; everything
   when the reusable workflow does not declare secrets *)
Theorem secrets_scope_spec declared k :
  resolve (secrets_scope declared) [k] = VUndefined <->
  exists names, declared = Some names /\ ~ In k auto_secrets /\ ~ In k names.
Proof.
  unfold secrets_scope. destruct declared as [names|].
  - unfold strict_obj. rewrite resolve_single_strict, keys_map_leaf, in_app_iff. split.
    + intros H. exists names. tauto.
    + intros [n [E [H1 H2]]]. inversion E; subst. tauto.
  - unfold map_obj. cbn. split; [discriminate|intros [n [E _]]; discriminate E].
Qed.

Lemma jobs_scope_lookup jobs n :
  lookup n (map (fun j => (j_id j,
                           strict_obj [("outputs", match j_call j with
                                                   | Some _ => loose_obj []
                                                   | None => strict_obj (map (fun n => (n, SLeaf)) (j_outputs j))
                                                   end)])) jobs)
  = match find_job jobs n with
    | Some j => Some (strict_obj [("outputs", match j_call j with
                                              | Some _ => loose_obj []
                                              | None => strict_obj (map (fun n => (n, SLeaf)) (j_outputs j))
                                              end)])
    | None => None
    end.
Proof.
  unfold find_job. induction jobs as [|j jobs IH]; cbn; [reflexivity|].
  rewrite (String.eqb_sym n (j_id j)). destruct (String.eqb (j_id j) n); [reflexivity|exact IH].
Qed.

(* C05: jobs.<job>.outputs.<name> *)
Lemma resolve_strict_cons props k rest :
  resolve (SObj props None) (k :: rest) = match lookup k props with Some t => resolve t rest | None => VUndefined end.
Proof. reflexivity. Qed.

Lemma resolve_outputs t o : resolve (SObj [("outputs", t)] None) ["outputs"; o] = resolve t [o].
Proof. reflexivity. Qed.

Theorem jobs_scope_spec jobs n o :
  resolve (jobs_scope jobs) [n; "outputs"; o] = VUndefined <->
  match find_job jobs n with
  | None => True
  | Some j => j_call j = None /\ ~ In o (j_outputs j)
  end.
Proof.
  unfold jobs_scope, strict_obj. rewrite resolve_strict_cons, jobs_scope_lookup.
  destruct (find_job jobs n) as [j|]; [|tauto].
  unfold strict_obj. rewrite resolve_outputs.
  destruct (j_call j) as [t|].
  - unfold loose_obj. rewrite resolve_single_loose. split; [discriminate|intros [H _]; discriminate H].
  - rewrite resolve_single_strict, keys_map_leaf. split; [intros H; auto|intros [_ H]; exact H].
Qed.

(* non-vacuity: a job with steps a, B, c: step 2 sees a and b but not c *)
Example steps_scope_example :
  let steps := [ {| st_id := Some "a"; st_outputs := map_obj SLeaf |};
                 {| st_id := Some "B"; st_outputs := map_obj SLeaf |};
                 {| st_id := Some "c"; st_outputs := map_obj SLeaf |} ] in
  resolve (steps_scope steps 2) ["b"] = VOk /\ resolve (steps_scope steps 2) ["c"] = VUndefined /\
  resolve (steps_scope steps 3) ["c"; "outputs"; "x"] = VOk.
Proof. vm_compute. auto. Qed.
