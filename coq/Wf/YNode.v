(* Wf/YNode.v — the input of layer L1: a yaml.v3 node tree exactly as
   yaml.Unmarshal hands it to actionlint's parser (parse.go).  yaml.v3 itself
   is outside the model; the harness dumps real trees in this shape.

   A node carries Kind, Tag, Value, Line, Column and Content.  Style, anchors
   and comments are not read by the parts of parse.go modelled here (Style is
   only copied into String.Quoted). *)
From AL Require Import Base.Str.
From Coq Require Import NArith.

Inductive ykind := KDoc | KSeq | KMap | KScalar | KAlias.

Definition ykind_eqb (a b : ykind) : bool :=
  match a, b with
  | KDoc, KDoc | KSeq, KSeq | KMap, KMap | KScalar, KScalar | KAlias, KAlias => true
  | _, _ => false
  end.

Lemma ykind_eqb_eq a b : ykind_eqb a b = true <-> a = b.
Proof. destruct a, b; cbn; split; intro H; try reflexivity; discriminate. Qed.

Definition pos := (N * N)%type.          (* (line, column), 1-based *)

Inductive ynode := Y (k : ykind) (tag value : string) (line col : N) (ch : list ynode).

Definition ykindof (n : ynode) := let 'Y k _ _ _ _ _ := n in k.
Definition ytag (n : ynode) := let 'Y _ t _ _ _ _ := n in t.
Definition yvalue (n : ynode) := let 'Y _ _ v _ _ _ := n in v.
Definition yline (n : ynode) := let 'Y _ _ _ l _ _ := n in l.
Definition ycol (n : ynode) := let 'Y _ _ _ _ c _ := n in c.
Definition ych (n : ynode) := let 'Y _ _ _ _ _ ch := n in ch.
Definition ypos (n : ynode) : pos := (yline n, ycol n).          (* posAt *)

Definition is_scalar (n : ynode) := ykind_eqb (ykindof n) KScalar.
Definition is_map (n : ynode) := ykind_eqb (ykindof n) KMap.
Definition is_seq (n : ynode) := ykind_eqb (ykindof n) KSeq.

(* parse.go: func isNull(n) bool { return n.Kind == yaml.ScalarNode && n.Tag == "!!null" } *)
Definition is_null (n : ynode) : bool := is_scalar n && String.eqb (ytag n) "!!null".

(* (key, value) pairs of a mapping node's Content.  yaml.v3 always produces an
   even number of children for a mapping node (the harness asserts this on
   every dumped tree); the Go loop [for i := 0; i < len; i += 2] would index
   out of range on an odd list (noted for C01), the model drops the odd
   leftover. *)
Fixpoint pairs (l : list ynode) : list (ynode * ynode) :=
  match l with
  | k :: v :: r => (k, v) :: pairs r
  | _ => []
  end.

Fixpoint unpairs (l : list (ynode * ynode)) : list ynode :=
  match l with
  | [] => []
  | (k, v) :: r => k :: v :: unpairs r
  end.

Lemma pairs_unpairs l : pairs (unpairs l) = l.
Proof. induction l as [|[k v] r IH]; cbn; [reflexivity|now rewrite IH]. Qed.

(* library fact assumed of yaml.v3 trees (checked by the dumper): *)
Fixpoint even_len (l : list ynode) : bool :=
  match l with
  | [] => true
  | [_] => false
  | _ :: _ :: r => even_len r
  end.

Lemma unpairs_pairs l : even_len l = true -> unpairs (pairs l) = l.
Proof.
  revert l. fix IH 1. intros [|k [|v r]]; cbn; intro H; [reflexivity|discriminate|].
  now rewrite IH.
Qed.

(* a mapping node with the given pairs, and insertion of a pair at pair index i *)
Definition with_pairs (n : ynode) (ps : list (ynode * ynode)) : ynode :=
  let 'Y k t v l c _ := n in Y k t v l c (unpairs ps).

Fixpoint insert_at {A} (i : nat) (x : A) (l : list A) : list A :=
  match i, l with
  | O, _ => x :: l
  | S i', [] => [x]
  | S i', y :: l' => y :: insert_at i' x l'
  end.

(* a plain scalar node, e.g. an inserted key *)
Definition yscalar (tag value : string) (p : pos) : ynode := Y KScalar tag value (fst p) (snd p) [].
