(* Wf/RoutingSites.v — the traversal model uses declared call sites only, for
   every workflow: each site in the chain of each call of [visit fx w] is an
   entry of the hand list [model_sites] (which the translator tie equates with
   the `rule.check*` calls found in rule_expression.go). *)
From AL Require Import Base.Str Wf.WfAst Wf.Routing Wf.RoutingCovers Wf.RoutingTies.
From Coq Require Import NArith.

Definition declared (s : site_id) : bool := existsb (site_id_eqb s) (map site_of model_sites).
Definition chain_ok (c : call) : Prop := forallb declared (c_chain c) = true.

Lemma ok_leaf ck key sc : Forall chain_ok (leaf ck key sc).
Proof. repeat constructor. Qed.
Lemma ok_at s cs : declared s = true -> Forall chain_ok cs -> Forall chain_ok (at_ s cs).
Proof.
  intros Hs H. unfold at_. apply Forall_forall. intros c Hc. apply in_map_iff in Hc. destruct Hc as [c0 [<- Hc0]].
  unfold chain_ok. cbn [c_chain forallb]. rewrite Hs. cbn. rewrite Forall_forall in H. now apply H.
Qed.
Lemma ok_flat_map {A} (g : A -> list call) l : (forall x, Forall chain_ok (g x)) -> Forall chain_ok (flat_map g l).
Proof. intros H. induction l; cbn; [constructor | apply Forall_app; split; [apply H | assumption]]. Qed.

Ltac oks :=
  repeat first
    [ apply Forall_nil
    | apply ok_leaf
    | apply Forall_app; split
    | apply ok_at; [vm_compute; reflexivity|]
    | apply ok_flat_map; intros
    | match goal with |- Forall _ (match ?x with _ => _ end) => destruct x end
    | match goal with |- Forall _ (if ?x then _ else _) => destruct x end ].

Lemma ok_raw f v : Forall chain_ok (check_raw_yaml_value f v).
Proof.
  induction v as [s p | es p IH | ps p IH] using raw_ind'; cbn [check_raw_yaml_value].
  - oks.
  - destruct es as [|e0 rest]; [constructor|]. inversion IH as [|? ? H0 Hr]; subst.
    apply Forall_app; split; [apply ok_at; [vm_compute; reflexivity | exact H0]|].
    induction rest as [|e r IHr]; cbn; [constructor|]. inversion Hr as [|? ? He Hr']; subst.
    apply Forall_app; split; [apply ok_at; [vm_compute; reflexivity | exact He] | apply IHr; [constructor; assumption | assumption]].
  - induction ps as [|kv r IHr]; cbn; [constructor|]. inversion IH as [|? ? Hk Hr]; subst.
    apply Forall_app; split; [apply ok_at; [vm_compute; reflexivity | exact Hk] | now apply IHr].
Qed.

Section Sites.
Variable fx : fixes.

Lemma ok_check_string key f o : Forall chain_ok (check_string key f o).
Proof. unfold check_string. oks. Qed.
Lemma ok_check_script key f o : Forall chain_ok (check_script_string key f o).
Proof. unfold check_script_string. oks. Qed.
Lemma ok_check_strings key f l : Forall chain_ok (check_strings key f l).
Proof. unfold check_strings. oks; try apply ok_check_string. Qed.
Lemma ok_one_as ck key f o : Forall chain_ok (check_one_expression_as ck key f o).
Proof. unfold check_one_expression_as. oks. Qed.
Lemma ok_one key f o : Forall chain_ok (check_one_expression key f o).
Proof. apply ok_one_as. Qed.
Lemma ok_object key f o : Forall chain_ok (check_object_expression key f o).
Proof. unfold check_object_expression. oks; try first [apply ok_one_as | apply ok_check_string]. Qed.
Lemma ok_array key f o : Forall chain_ok (check_array_expression key f o).
Proof. unfold check_array_expression. oks; try first [apply ok_one_as | apply ok_check_string]. Qed.
Lemma ok_number key f o : Forall chain_ok (check_number_expression key f o).
Proof. unfold check_number_expression. oks; try first [apply ok_one_as | apply ok_check_string]. Qed.
Lemma ok_bool key f o : Forall chain_ok (check_bool key f o).
Proof. unfold check_bool. oks; try first [apply ok_one_as | apply ok_check_string]. Qed.
Lemma ok_int key f o : Forall chain_ok (check_int key f o).
Proof. unfold check_int. oks; try first [apply ok_one_as | apply ok_check_string]. Qed.
Lemma ok_float key f o : Forall chain_ok (check_float key f o).
Proof. unfold check_float. oks; try first [apply ok_one_as | apply ok_check_string]. Qed.
Lemma ok_if key f o : Forall chain_ok (check_if_condition key f o).
Proof. unfold check_if_condition. oks; try first [apply ok_one_as | apply ok_check_string]. Qed.

Ltac leaves :=
  first [ apply ok_check_string | apply ok_check_script | apply ok_check_strings | apply ok_one_as | apply ok_one | apply ok_object
        | apply ok_array | apply ok_number | apply ok_bool | apply ok_int | apply ok_float | apply ok_if | apply ok_raw ].

Lemma ok_env key o : Forall chain_ok (check_env key o).
Proof. unfold check_env. oks; try leaves. Qed.
Lemma ok_container key pre o : Forall chain_ok (check_container key pre o).
Proof. unfold check_container. oks; try first [leaves | apply ok_env]. Qed.
Lemma ok_concurrency key o : Forall chain_ok (check_concurrency key o).
Proof. unfold check_concurrency. oks; try leaves. Qed.
Lemma ok_defaults key o : Forall chain_ok (check_defaults key o).
Proof. unfold check_defaults. oks; try leaves. Qed.
Lemma ok_wcall o : Forall chain_ok (check_workflow_call o).
Proof. unfold check_workflow_call. oks; try leaves. Qed.
Lemma ok_filter o : Forall chain_ok (check_webhook_event_filter o).
Proof. unfold check_webhook_event_filter. oks; try leaves. Qed.
Lemma ok_row r : Forall chain_ok (check_matrix_row r).
Proof. unfold check_matrix_row. oks; try leaves. Qed.
Lemma ok_matrix m : Forall chain_ok (check_matrix fx m).
Proof. unfold check_matrix, check_matrix_expression. oks; try first [leaves | apply ok_row]. Qed.
Lemma ok_event e : Forall chain_ok (visit_event fx e).
Proof. unfold visit_event. oks; try first [leaves | apply ok_filter]. Qed.
Lemma ok_step s : Forall chain_ok (visit_step s).
Proof. unfold visit_step. oks; try first [leaves | apply ok_env]. Qed.
Lemma ok_outputs outs jobs : Forall chain_ok (check_workflow_call_outputs outs jobs).
Proof. unfold check_workflow_call_outputs. oks; try leaves. Qed.

Theorem visit_sites_declared w : Forall chain_ok (visit fx w).
Proof.
  unfold visit, visit_workflow_pre, visit_workflow_post, visit_job, visit_job_pre, visit_job_post.
  oks; try first [leaves | apply ok_env | apply ok_container | apply ok_concurrency | apply ok_defaults | apply ok_wcall
             | apply ok_matrix | apply ok_event | apply ok_step | apply ok_outputs ].
Qed.
End Sites.
