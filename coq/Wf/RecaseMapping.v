(* Wf/RecaseMapping.v — property C08 at the YAML layer (L1, parse.go
   parseMapping): in a case-insensitive mapping (jobs, inputs, secrets, outputs,
   `with:`, env, matrix, services, ... : every caller that passes
   caseSensitive = false) changing the letter case of keys changes neither the
   ids under which the entries are stored (what every later lookup uses) nor the
   positions and classes of the diagnostics; only the spelling echoed by the
   duplicate-key message and kept in the entry's name follows the source.

   Uses the model of C13 (Wf/Mapping.v) as it is. *)
From AL Require Import Base.Str Wf.YNode Wf.Mapping.

(* two spellings of one key node: same id after folding, same position, same diagnostics of
   parseString on the key (its shape is untouched: only letters change) *)
Definition key_recase (k k' : ynode) : Prop :=
  lower (key_name k) = lower (key_name k') /\ ypos k = ypos k' /\ parse_string k false = parse_string k' false.

Definition pairs_recase : list (ynode * ynode) -> list (ynode * ynode) -> Prop :=
  Forall2 (fun kv kv' => key_recase (fst kv) (fst kv') /\ snd kv = snd kv').

(* "modulo the echoed spelling": the key name printed by the duplicate-key message, and the
   name kept in the entry, are compared after lower-casing *)
Definition fold_diag (d : diag) : diag :=
  match d with
  | D (DDuplicate n p) q => D (DDuplicate (lower n) p) q
  | _ => d
  end.
Definition fold_kv (e : kv) : kv := KV (kv_id e) (lower (kv_name e)) (kv_pos e) (kv_val e).

Lemma fold_diag_app a b : map fold_diag (a ++ b) = map fold_diag a ++ map fold_diag b.
Proof. apply map_app. Qed.

Theorem pm_loop_recase ps ps' : pairs_recase ps ps' -> forall seen,
  map fold_diag (fst (pm_loop false ps seen)) = map fold_diag (fst (pm_loop false ps' seen)) /\
  map fold_kv (snd (pm_loop false ps seen)) = map fold_kv (snd (pm_loop false ps' seen)) /\
  map kv_id (snd (pm_loop false ps seen)) = map kv_id (snd (pm_loop false ps' seen)).
Proof.
  induction 1 as [|[k v] [k' v'] ps ps' [[Hid [Hpos Hstr]] Hv] _ IH]; intros seen; [auto|].
  cbn [fst snd] in *. subst v'. cbn [pm_loop].
  unfold key_id. rewrite Hid, Hpos, Hstr.
  destruct (assoc_pos (lower (key_name k')) seen) as [p|].
  - destruct (IH seen) as (I1 & I2 & I3).
    destruct (pm_loop false ps seen) as [d m], (pm_loop false ps' seen) as [d' m']. cbn [fst snd] in *.
    split; [|auto]. rewrite !fold_diag_app. cbn [map fold_diag]. now rewrite Hid, I1.
  - destruct (IH ((lower (key_name k'), ypos k') :: seen)) as (I1 & I2 & I3).
    destruct (pm_loop false ps _) as [d m], (pm_loop false ps' _) as [d' m']. cbn [fst snd] in *.
    split; [now rewrite !fold_diag_app, I1|].
    split; cbn [map]; [|now rewrite I3].
    unfold fold_kv at 1 3. cbn [kv_id kv_name kv_pos kv_val]. now rewrite Hid, I2.
Qed.

(* ... and in a case-sensitive mapping the spelling does matter: `Foo:` after `foo:` is a
   duplicate only when the mapping is case-insensitive *)
Lemma key_id_cs k : key_id true k = key_name k.
Proof. reflexivity. Qed.
Lemma key_id_ci k : key_id false k = lower (key_name k).
Proof. reflexivity. Qed.

(* scalar keys whose values differ in letter case only are two spellings of one key *)
Lemma scalar_key_recase tag v v' l c : lower v = lower v' ->
  key_recase (Y KScalar tag v l c []) (Y KScalar tag v' l c []).
Proof.
  intros H. unfold key_recase, key_name, string_value, parse_string, check_string. cbn.
  assert (E : String.eqb v "" = String.eqb v' "").
  { destruct v, v'; cbn in *; try reflexivity; discriminate. }
  rewrite E. destruct (String.eqb v' ""); cbn; auto.
Qed.

(* the hypothesis is satisfiable non-trivially, and the duplicate `FOO:` after `foo:` is reported
   for both spellings *)
Example pm_loop_recase_witness :
  let k s l := Y KScalar "!!str" s l 3%N [] in
  let v := Y KScalar "!!str" "x" 1%N 8%N [] in
  let ps := [(k "foo" 1%N, v); (k "FOO" 2%N, v)] in
  let ps' := [(k "Foo" 1%N, v); (k "fOO" 2%N, v)] in
  pairs_recase ps ps' /\ ps <> ps' /\
  fst (pm_loop false ps []) = [D (DDuplicate "FOO" (1, 3)%N) (2, 3)%N] /\
  fst (pm_loop false ps' []) = [D (DDuplicate "fOO" (1, 3)%N) (2, 3)%N] /\
  fst (pm_loop true ps []) = [].
Proof.
  cbn zeta. split.
  - repeat constructor; try (apply scalar_key_recase; reflexivity).
  - split; [discriminate|]. repeat split; reflexivity.
Qed.
