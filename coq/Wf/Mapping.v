(* Wf/Mapping.v — diagnostics of the syntax check, the scalar helpers of
   parse.go (checkString, parseString, checkSequence, parseBool, ...) and a
   literal model of parseMapping (parse.go:250-299), plus the generic
   "section" combinator: parseMapping + key switch + post-loop checks. *)
From AL Require Import Base.Str Wf.YNode.
From Coq Require Import NArith.

(* ---------------------------------------------------------------- diagnostics *)

(* mandatory keys whose absence is reported after the loop of a section *)
Inductive mkey :=
| MOn | MJobs                      (* parse: at the document node *)
| MRunsOn | MSteps                 (* parseJob: at the job id *)
| MStepExec | MStepUses | MStepRun (* parseStep: at the step node *)
| MInputType | MOutputValue        (* workflow_call: at the input / output name *)
| MGroup | MEnvName                (* concurrency / environment: at the section key *)
| MCredentials                     (* container credentials: at the key "credentials" *)
| MDefaultsRun.                    (* defaults: at the defaults node *)

Inductive dclass :=
| DUnexpected (key : string)               (* unexpectedKey: "unexpected key %q for %q section" / "expected %q key for ..." *)
| DDuplicate (key : string) (prev : pos)   (* "key %q is duplicated in %s. previously defined at %s" *)
| DNotMapping                              (* "%s is %s node but mapping node is expected" *)
| DEmptyMapping                            (* "%s should not be empty. please remove this section if it's unnecessary" *)
| DNotScalar                               (* "expected scalar node for string value but found ..." *)
| DEmptyString                             (* "string should not be empty" *)
| DNotSequence                             (* "%q section must be sequence node but got ..." *)
| DEmptySection                            (* "%q section should not be empty" (checkNotEmpty) *)
| DScheduleItem                            (* "element of "schedule" section must be mapping and must contain one key "cron"" *)
| DMissing (m : mkey)
| DOther (code : N).                       (* remaining messages of parse.go, see [dcode] *)

(* codes of DOther:
   20 expecting a single ${{...}} expression      21 expected bool value but found
   22 expected scalar node for integer value      23 expected scalar node for float value
   24 input type of workflow_dispatch event must  25 invalid value %q for input type of workflow_call
   26 schedule event must be configured with mapping
   27 %q event should not be listed in sequence   28 "on" section value is expected to be mapping or sequence
   29 unexpected %s node on parsing value in matrix row
   30 workflow is empty
   31 this step is for running shell command ... but also contains %q (uses/with after run/shell)
   32 this step is for running action ... but also contains %q (run/shell after uses/with)
   33 "working-directory" is not available with "uses"
   34 expected mapping node for secrets or "inherit" string node
   35 when a reusable workflow is called with "uses", %q is not available
   36 %q is only available for a reusable workflow call with "uses"
   Not modelled (they depend on strconv): invalid integer value, invalid float value,
   value at "max-parallel"/"timeout-minutes" must be greater than zero. *)

Record diag := D { d_class : dclass; d_pos : pos }.

Definition at_node (c : dclass) (n : ynode) : diag := D c (ypos n).

(* ---------------------------------------------------------------- scalar helpers *)

(* checkString(n, allowEmpty): diagnostics and success *)
Definition check_string (n : ynode) (allow_empty : bool) : list diag * bool :=
  if negb (is_scalar n) then ([at_node DNotScalar n], false)
  else if negb allow_empty && String.eqb (yvalue n) "" then ([at_node DEmptyString n], false)
  else ([], true).

(* parseString never returns nil: on failure it returns &String{"", false, posAt(n)} *)
Definition parse_string (n : ynode) (allow_empty : bool) : list diag := fst (check_string n allow_empty).
Definition string_value (n : ynode) (allow_empty : bool) : string :=
  if snd (check_string n allow_empty) then yvalue n else "".

(* checkSequence(sec, n, allowEmpty) *)
Definition check_sequence (n : ynode) (allow_empty : bool) : list diag * bool :=
  if negb (is_seq n) then ([at_node DNotSequence n], false)
  else if allow_empty then ([], true)
  else match ych n with [] => ([at_node DEmptySection n], false) | _ => ([], true) end.

Definition parse_string_sequence (n : ynode) (allow_empty allow_elem_empty : bool) : list diag :=
  let '(d, ok) := check_sequence n allow_empty in
  if ok then flat_map (fun c => parse_string c allow_elem_empty) (ych n) else d.

Definition parse_string_or_seq (n : ynode) (allow_empty allow_elem_empty : bool) : list diag :=
  if is_scalar n then
    if allow_empty && String.eqb (ytag n) "!!null" then [] else parse_string n allow_elem_empty
  else parse_string_sequence n allow_empty allow_elem_empty.

(* ast.go isExprAssigned: TrimSpace(s) has prefix "${{", suffix "}}" and exactly
   one "${{".  White space is modelled for ASCII (strings.TrimSpace also trims
   U+0085, U+00A0 and other Unicode spaces). *)
Definition is_space (c : ascii) : bool :=
  let n := nat_of_ascii c in
  (n =? 32) || ((9 <=? n) && (n <=? 13)).

Fixpoint trim_left (s : string) : string :=
  match s with
  | String c s' => if is_space c then trim_left s' else s
  | EmptyString => EmptyString
  end.

Fixpoint rev_string_acc (s acc : string) : string :=
  match s with
  | EmptyString => acc
  | String c s' => rev_string_acc s' (String c acc)
  end.
Definition rev_string (s : string) := rev_string_acc s "".
Definition trim_space (s : string) : string := rev_string (trim_left (rev_string (trim_left s))).

Fixpoint count_sub_fuel (fuel : nat) (sub s : string) : nat :=
  match fuel with
  | O => 0
  | S f =>
    match s with
    | EmptyString => 0
    | String _ s' =>
        if String.prefix sub s
        then S (count_sub_fuel f sub (String.substring (String.length sub) (String.length s) s))
        else count_sub_fuel f sub s'
    end
  end.
(* strings.Count for a non-empty pattern (non-overlapping occurrences) *)
Definition count_sub (sub s : string) : nat := count_sub_fuel (S (String.length s)) sub s.

Definition has_suffix (suf s : string) : bool := String.prefix (rev_string suf) (rev_string s).

Definition is_expr_assigned (s : string) : bool :=
  let v := trim_space s in
  String.prefix "${{" v && has_suffix "}}" v && (count_sub "${{" v =? 1).

(* parseExpression: diagnostic when the value is not a single ${{ }} *)
Definition parse_expression (n : ynode) : list diag :=
  if is_expr_assigned (yvalue n) then [] else [at_node (DOther 20) n].

(* mayParseExpression(n) != nil *)
Definition may_parse_expression (n : ynode) : bool :=
  String.eqb (ytag n) "!!str" && is_expr_assigned (yvalue n).

Definition tag_in (n : ynode) (tags : list string) : bool := existsb (String.eqb (ytag n)) tags.

Definition parse_bool (n : ynode) : list diag :=
  if negb (is_scalar n) || negb (tag_in n ["!!bool"; "!!str"]) then [at_node (DOther 21) n]
  else if String.eqb (ytag n) "!!str" then parse_expression n else [].

(* parseInt / parseFloat: the numeric conversion (strconv) and the "> 0" checks
   are not modelled *)
Definition parse_int (n : ynode) : list diag :=
  if negb (is_scalar n) || negb (tag_in n ["!!int"; "!!str"]) then [at_node (DOther 22) n]
  else if String.eqb (ytag n) "!!str" then parse_expression n else [].

Definition parse_float (n : ynode) : list diag :=
  if negb (is_scalar n) || negb (tag_in n ["!!float"; "!!int"; "!!str"]) then [at_node (DOther 23) n]
  else if String.eqb (ytag n) "!!str" then parse_expression n else [].

(* ---------------------------------------------------------------- parseMapping *)

(* workflowKeyVal: id (lower-cased when the mapping is case-insensitive), the key
   as *String (value and position) and the value node *)
Record kv := KV { kv_id : string; kv_name : string; kv_pos : pos; kv_val : ynode }.

Fixpoint assoc_pos (id : string) (seen : list (string * pos)) : option pos :=
  match seen with
  | [] => None
  | (k, p) :: r => if String.eqb id k then Some p else assoc_pos id r
  end.

(* the key string as parseString(n.Content[i], false) returns it *)
Definition key_name (k : ynode) : string := string_value k false.
Definition key_id (cs : bool) (k : ynode) : string :=
  if cs then key_name k else lower (key_name k).

(* the loop of parseMapping over the (key, value) pairs; [seen] is the Go map
   [keys] (id -> position of first definition) *)
Fixpoint pm_loop (cs : bool) (ps : list (ynode * ynode)) (seen : list (string * pos))
  : list diag * list kv :=
  match ps with
  | [] => ([], [])
  | (k, v) :: r =>
      let dk := parse_string k false in
      let id := key_id cs k in
      match assoc_pos id seen with
      | Some p =>
          let '(d, m) := pm_loop cs r seen in
          (dk ++ D (DDuplicate (key_name k) p) (ypos k) :: d, m)
      | None =>
          let '(d, m) := pm_loop cs r ((id, ypos k) :: seen) in
          (dk ++ d, KV id (key_name k) (ypos k) v :: m)
      end
  end.

Definition parse_mapping (n : ynode) (allow_empty cs : bool) : list diag * list kv :=
  if negb (is_null n) && negb (is_map n) then ([at_node DNotMapping n], [])
  else if negb allow_empty && is_null n then ([at_node DEmptyMapping n], [])
  else
    let '(d, m) := pm_loop cs (pairs (ych n)) [] in
    (d ++ (if negb allow_empty && (match m with [] => true | _ => false end)
           then [at_node DEmptyMapping n] else []), m).

(* ---------------------------------------------------------------- sections *)

(* One section = parseMapping + a switch over kv.id + checks after the loop.
   The switch is a list of (case label, handler); [sc_default] is the default
   branch when it does something else than unexpectedKey (sections whose key
   set is open: ids, names, webhook events). *)
Section Generic.
Context {St : Type}.

Definition handler := St -> kv -> St * list diag.

Record section := Sec {
  sc_name : string;                      (* section name used in the message; documentation *)
  sc_allow_empty : bool;
  sc_cs : bool;                          (* caseSensitive argument of parseMapping *)
  sc_cases : list (string * handler);
  sc_default : option handler;
}.

Fixpoint find_case (id : string) (cases : list (string * handler)) : option handler :=
  match cases with
  | [] => None
  | (k, h) :: r => if String.eqb id k then Some h else find_case id r
  end.

Definition sec_dispatch (s : section) (st : St) (e : kv) : St * list diag :=
  match find_case (kv_id e) (sc_cases s) with
  | Some h => h st e
  | None =>
      match sc_default s with
      | Some h => h st e
      | None => (st, [D (DUnexpected (kv_name e)) (kv_pos e)])     (* unexpectedKey *)
      end
  end.

Fixpoint sec_fold (s : section) (st : St) (kvs : list kv) : St * list diag :=
  match kvs with
  | [] => (st, [])
  | e :: r =>
      let '(st1, d1) := sec_dispatch s st e in
      let '(st2, d2) := sec_fold s st1 r in
      (st2, d1 ++ d2)
  end.

(* diagnostics of the section: those of parseMapping, then those of the loop,
   then those of the checks after the loop *)
Definition run_section (s : section) (init : St) (post : St -> list diag) (n : ynode) : list diag :=
  let '(d0, kvs) := parse_mapping n (sc_allow_empty s) (sc_cs s) in
  let '(st, d1) := sec_fold s init kvs in
  d0 ++ d1 ++ post st.

Definition sec_keys (s : section) : list string := map fst (sc_cases s).
Definition sec_closed (s : section) : bool := match sc_default s with None => true | Some _ => false end.
End Generic.

Arguments handler : clear implicits.
Arguments section : clear implicits.

(* a handler that does not touch the state *)
Definition pure_h {St} (f : kv -> list diag) : handler St := fun st e => (st, f e).
