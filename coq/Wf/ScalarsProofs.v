(* Wf/ScalarsProofs.v — safety of the scalar / value layer of parse.go:
   no value parser panics on any well-formed node (every kind, every tag, any
   text, any result of strconv.Atoi / strconv.ParseFloat); the pre-fix float
   parser does, exactly on NaN accepted without an error; the fix changes
   nothing else; malformed values always yield a diagnostic; the diagnostics
   are located at the node or at one of its children and their number is
   bounded by the size of the node. *)
From AL Require Import Base.Str Wf.Scalars.
From Coq Require Import ZArith Lia.

(* ---------------------------------------------------------------- basics *)

Definition np {A} (m : res A) : Prop := forall s, m <> Panic s.

Lemma np_is_panic {A} (m : res A) : np m <-> is_panic m = false.
Proof.
  split.
  - intros H. destruct m as [a|s]; [reflexivity|]. exfalso. apply (H s). reflexivity.
  - intros H s E. rewrite E in H. discriminate.
Qed.

Lemma np_ok {A} (a : A) : np (Ok a).
Proof. intros s E. discriminate. Qed.

Lemma np_ret {A} (a : A) : np (ret a).
Proof. apply np_ok. Qed.

Lemma np_emit n c : np (emit n c).
Proof. apply np_ok. Qed.

Lemma np_bind_strong {A B} (m : P A) (f : A -> P B) :
  np m -> (forall a d, m = Ok (a, d) -> np (f a)) -> np (bindP m f).
Proof.
  intros Hm Hf s. unfold bindP. destruct m as [[a d]|s0].
  - specialize (Hf a d eq_refl). destruct (f a) as [[b d2]|s1].
    + discriminate.
    + exfalso. apply (Hf s1). reflexivity.
  - exfalso. apply (Hm s0). reflexivity.
Qed.

Lemma np_bind {A B} (m : P A) (f : A -> P B) :
  np m -> (forall a, np (f a)) -> np (bindP m f).
Proof. intros Hm Hf. apply np_bind_strong; auto. Qed.

Lemma np_mapP {A B} (f : A -> P B) (l : list A) :
  (forall a, In a l -> np (f a)) -> np (mapP f l).
Proof.
  induction l as [|a l IH]; intros H; cbn [mapP].
  - apply np_ret.
  - apply np_bind; [apply H; left; reflexivity|]. intros b.
    apply np_bind; [apply IH; intros; apply H; right; assumption|]. intros bs. apply np_ret.
Qed.

(* ----------------------------------------------------------- nodeKindName *)

Lemma node_kind_name_total k : wf_kind k <-> exists s, node_kind_name k = Ok s.
Proof.
  unfold wf_kind, wf_kindb, node_kind_name. split.
  - intros H.
    destruct (N.eqb k KDocument); [eexists; reflexivity|].
    destruct (N.eqb k KSequence); [eexists; reflexivity|].
    destruct (N.eqb k KMapping); [eexists; reflexivity|].
    destruct (N.eqb k KScalar); [eexists; reflexivity|].
    destruct (N.eqb k KAlias); [eexists; reflexivity|]. discriminate.
  - intros [s H].
    destruct (N.eqb k KDocument); [reflexivity|].
    destruct (N.eqb k KSequence); [reflexivity|].
    destruct (N.eqb k KMapping); [reflexivity|].
    destruct (N.eqb k KScalar); [reflexivity|].
    destruct (N.eqb k KAlias); [reflexivity|]. discriminate.
Qed.

Lemma node_kind_name_np k : wf_kind k -> np (node_kind_name k).
Proof. intros H. apply node_kind_name_total in H. destruct H as [s H]. rewrite H. apply np_ok. Qed.

(* the hypothesis is needed: a kind outside yaml.v3's constants panics *)
Lemma node_kind_name_unknown_panics : exists k s, node_kind_name k = Panic s.
Proof. exists 0%N. eexists. reflexivity. Qed.

Lemma np_lift_kind n : wf_kind (n_kind n) -> np (lift (node_kind_name (n_kind n))).
Proof.
  intros H. apply node_kind_name_total in H. destruct H as [s H]. rewrite H. apply np_ok.
Qed.

Lemma wf_node_kind n : wf_node n -> wf_kind (n_kind n).
Proof. destruct n; cbn. tauto. Qed.

Lemma wf_node_children n : wf_node n -> forall c, In c (n_content n) -> wf_node c.
Proof.
  destruct n as [k t v st l c a f cs]. cbn [wf_node n_content]. intros [_ H].
  induction cs as [|x cs IH]; intros c0 Hin; [destruct Hin|].
  destruct H as [Hx Hcs]. destruct Hin as [->|Hin]; [assumption|]. apply IH; assumption.
Qed.

Lemma wf_nodeb_spec n : wf_nodeb n = true -> wf_node n.
Proof.
  induction n as [k t v st l c a f cs IH] using
    (fix ind (P : snode -> Prop)
         (step : forall k t v st l c a f cs, Forall P cs -> P (SNode k t v st l c a f cs))
         (n : snode) {struct n} : P n :=
       match n with
       | SNode k t v st l c a f cs =>
           step k t v st l c a f cs
             ((fix all (l0 : list snode) : Forall P l0 :=
                 match l0 with
                 | [] => Forall_nil P
                 | x :: l1 => Forall_cons x (ind P step x) (all l1)
                 end) cs)
       end).
  cbn [wf_nodeb wf_node]. intros H. apply andb_prop in H. destruct H as [Hk Hcs].
  split; [exact Hk|].
  induction IH as [|x cs Hx _ IHcs]; [exact I|].
  apply andb_prop in Hcs. destruct Hcs as [H1 H2]. split; [apply Hx; exact H1|apply IHcs; exact H2].
Qed.

(* ------------------------------------------------------- no panic: checks *)

Ltac np_auto :=
  repeat first
    [ apply np_ret | apply np_emit | apply np_ok
    | apply np_lift_kind; assumption
    | apply np_bind; [|intros ?] ].

Lemma check_not_empty_np len n : np (check_not_empty len n).
Proof. unfold check_not_empty. destruct (len =? 0); np_auto. Qed.

Lemma check_sequence_np n ae : wf_kind (n_kind n) -> np (check_sequence n ae).
Proof.
  intros H. unfold check_sequence.
  destruct (negb (N.eqb (n_kind n) KSequence)); [np_auto|].
  destruct ae; [np_auto|apply check_not_empty_np].
Qed.

Lemma check_string_np n ae : wf_kind (n_kind n) -> np (check_string n ae).
Proof.
  intros H. unfold check_string.
  destruct (negb (N.eqb (n_kind n) KScalar)); [np_auto|].
  destruct (negb ae && String.eqb (n_value n) ""); np_auto.
Qed.

Lemma parse_expression_np n : np (parse_expression n).
Proof. unfold parse_expression. destruct (negb (is_expr_assigned (n_value n))); np_auto. Qed.

Lemma may_parse_expression_np n : np (may_parse_expression n).
Proof.
  unfold may_parse_expression.
  destruct (negb (String.eqb (n_tag n) "!!str")); [np_auto|].
  destruct (negb (is_expr_assigned (n_value n))); np_auto.
Qed.

Lemma parse_string_np n ae : wf_kind (n_kind n) -> np (parse_string n ae).
Proof.
  intros H. unfold parse_string. apply np_bind; [apply check_string_np; exact H|].
  intros ok. destruct (negb ok); np_auto.
Qed.

Lemma parse_string_sequence_np n ae aee : wf_node n -> np (parse_string_sequence n ae aee).
Proof.
  intros H. unfold parse_string_sequence.
  apply np_bind; [apply check_sequence_np, wf_node_kind, H|].
  intros ok. destruct (negb ok); [np_auto|].
  apply np_bind; [|intros; apply np_ret].
  apply np_mapP. intros c Hc. apply parse_string_np, wf_node_kind. eapply wf_node_children; eassumption.
Qed.

Lemma parse_string_or_string_sequence_np n ae aee :
  wf_node n -> np (parse_string_or_string_sequence n ae aee).
Proof.
  intros H. unfold parse_string_or_string_sequence.
  destruct (N.eqb (n_kind n) KScalar).
  - destruct (ae && String.eqb (n_tag n) "!!null"); [np_auto|].
    apply np_bind; [apply parse_string_np, wf_node_kind, H|intros; apply np_ret].
  - apply parse_string_sequence_np; exact H.
Qed.

(* -------------------------------------------------- no panic: bool/int/float *)

Lemma parse_bool_np n : wf_kind (n_kind n) -> np (parse_bool n).
Proof.
  intros H. unfold parse_bool.
  destruct (negb (N.eqb (n_kind n) KScalar) || (negb (tag_is n "!!bool") && negb (tag_is n "!!str")));
    [np_auto|].
  destruct (tag_is n "!!str"); [|np_auto].
  apply np_bind; [apply parse_expression_np|intros; apply np_ret].
Qed.

Lemma err_error_np e : is_some e = true -> np (lift (err_error e)).
Proof. destruct e; [intros _; apply np_ok|discriminate]. Qed.

Lemma parse_int_np n : wf_kind (n_kind n) -> np (parse_int n).
Proof.
  intros H. unfold parse_int.
  destruct (negb (N.eqb (n_kind n) KScalar) || (negb (tag_is n "!!int") && negb (tag_is n "!!str")));
    [np_auto|].
  destruct (tag_is n "!!str").
  - apply np_bind; [apply parse_expression_np|]. intros [e|]; apply np_ret.
  - destruct (is_some (ai_err (n_atoi n))) eqn:E; [|np_auto].
    apply np_bind; [apply err_error_np; exact E|]. intros; np_auto.
Qed.

Lemma float_expr_np n : np (float_expr n).
Proof. unfold float_expr. apply np_bind; [apply parse_expression_np|]. intros [e|]; apply np_ret. Qed.

Lemma parse_float_np n : wf_kind (n_kind n) -> np (parse_float n).
Proof.
  intros H. unfold parse_float.
  destruct (float_guard n); [np_auto|].
  destruct (tag_is n "!!str"); [apply float_expr_np|].
  destruct (is_some (pf_err (n_pfloat n))) eqn:E.
  - apply np_bind; [apply err_error_np; exact E|]. intros; np_auto.
  - destruct (is_nan (pf_val (n_pfloat n))); np_auto.
Qed.

Lemma deref_np {A} site (o : option A) : is_some o = true -> np (lift (deref site o)).
Proof. destruct o; [intros _; apply np_ok|discriminate]. Qed.

Lemma parse_max_parallel_np n : wf_kind (n_kind n) -> np (parse_max_parallel n).
Proof.
  intros H. unfold parse_max_parallel. apply np_bind; [apply parse_int_np; exact H|]. intros i.
  apply np_bind.
  - destruct (is_some i) eqn:E; [|apply np_ret].
    apply np_bind; [apply deref_np; exact E|intros; apply np_ret].
  - intros c. apply np_bind; [destruct c; np_auto|intros; apply np_ret].
Qed.

Lemma timeout_after_np n f : np (timeout_after n f).
Proof.
  unfold timeout_after. apply np_bind.
  - destruct (is_some f) eqn:E; [|apply np_ret].
    apply np_bind; [apply deref_np; exact E|intros; apply np_ret].
  - intros c. apply np_bind; [destruct c; np_auto|intros; apply np_ret].
Qed.

Lemma parse_timeout_minutes_np n : wf_kind (n_kind n) -> np (parse_timeout_minutes n).
Proof.
  intros H. unfold parse_timeout_minutes. apply np_bind; [apply parse_float_np; exact H|].
  intros f. apply timeout_after_np.
Qed.

(* the guards [i != nil] / [f != nil] are what makes the field accesses safe:
   without them the nil result of parseInt / parseFloat would be dereferenced *)
Lemma deref_nil_panics {A} site : exists s, @deref A site None = Panic s.
Proof. eexists. reflexivity. Qed.

(* ------------------------------------------------------- the old parseFloat *)

Definition nan_node : snode :=
  SNode KScalar "!!float" "nan" 1 5 22
        {| ai_val := 0; ai_err := Some "strconv.Atoi: parsing ""nan"": invalid syntax" |}
        {| pf_val := FNaN; pf_err := None |} [].

Lemma nan_node_wf : wf_node nan_node.
Proof. cbn. split; [reflexivity|exact I]. Qed.

Lemma parse_float_old_refuted : exists n s, wf_node n /\ parse_float_old n = Panic s.
Proof. exists nan_node. eexists. split; [exact nan_node_wf|]. vm_compute. reflexivity. Qed.

Lemma parse_timeout_minutes_old_refuted :
  exists n s, wf_node n /\ parse_timeout_minutes_old n = Panic s.
Proof. exists nan_node. eexists. split; [exact nan_node_wf|]. vm_compute. reflexivity. Qed.

(* the old code panics exactly when the library accepts the text (no error)
   and delivers NaN, for a scalar tagged !!float or !!int *)
Lemma parse_float_old_panic_iff n :
  wf_kind (n_kind n) ->
  ((exists s, parse_float_old n = Panic s) <->
   (float_guard n = false /\ tag_is n "!!str" = false /\
    pf_err (n_pfloat n) = None /\ pf_val (n_pfloat n) = FNaN)).
Proof.
  intros H. unfold parse_float_old.
  destruct (float_guard n) eqn:G.
  { split; [|intros [X _]; discriminate].
    intros [s E]. exfalso. revert E.
    assert (X : np (_ <- lift (node_kind_name (n_kind n));; emit n C_NOT_FLOAT;;; ret (@None sfloat))) by np_auto.
    apply X. }
  destruct (tag_is n "!!str") eqn:T.
  { split; [|intros [_ [X _]]; discriminate].
    intros [s E]. exfalso. exact (float_expr_np n s E). }
  destruct (pf_err (n_pfloat n)) as [m|] eqn:Eerr; cbn [is_some orb].
  { split; [|intros [_ [_ [X _]]]; discriminate].
    intros [s E]. cbn in E. discriminate. }
  destruct (pf_val (n_pfloat n)) eqn:Ev; cbn [is_nan].
  - split; [intros _; repeat split|]. intros _. eexists. cbn. reflexivity.
  - split; [|intros [_ [_ [_ X]]]; discriminate]. intros [s E]. cbn in E. discriminate.
  - split; [|intros [_ [_ [_ X]]]; discriminate]. intros [s E]. cbn in E. discriminate.
Qed.

(* the fix is conservative: wherever the old code did not panic, the new
   code returns the same value and the same diagnostics *)
Lemma parse_float_fix_conservative n :
  np (parse_float_old n) -> parse_float n = parse_float_old n.
Proof.
  unfold parse_float, parse_float_old. intros H.
  destruct (float_guard n); [reflexivity|].
  destruct (tag_is n "!!str"); [reflexivity|].
  destruct (pf_err (n_pfloat n)) as [m|] eqn:Eerr; cbn [is_some orb]; [reflexivity|].
  destruct (pf_val (n_pfloat n)) eqn:Ev; cbn [is_nan] in *; [|reflexivity|reflexivity].
  exfalso. eapply H. cbn. reflexivity.
Qed.

(* ... and where the old code panicked the new one reports class C_NAN_FLOAT
   at the node and returns nil *)
Lemma parse_float_fix_on_nan n s :
  parse_float_old n = Panic s -> wf_kind (n_kind n) ->
  parse_float n = Ok (None, [{| d_line := n_line n; d_col := n_col n; d_class := C_NAN_FLOAT |}]).
Proof.
  intros E H. pose proof (proj1 (parse_float_old_panic_iff n H) (ex_intro _ s E)) as [G [T [Eerr Ev]]].
  unfold parse_float. rewrite G, T, Eerr, Ev. reflexivity.
Qed.

(* ------------------------------------- malformed values yield a diagnostic *)

Ltac inv_ok H := cbn in H; try discriminate H; try (inversion H; subst; clear H).

Lemma bindP_ok {A B} (m : P A) (f : A -> P B) b d :
  bindP m f = Ok (b, d) -> exists a d1 d2, m = Ok (a, d1) /\ f a = Ok (b, d2) /\ d = d1 ++ d2.
Proof.
  unfold bindP. destruct m as [[a d1]|s]; [|discriminate].
  destruct (f a) as [[b' d2]|s] eqn:E; [|discriminate].
  intros H. injection H as <- <-. exists a, d1, d2. auto.
Qed.

Lemma parse_expression_nil n d : parse_expression n = Ok (None, d) -> d <> [].
Proof.
  unfold parse_expression. destruct (negb (is_expr_assigned (n_value n))); intros H; inv_ok H. discriminate.
Qed.

Lemma kind_emit_ret_diags {A} n c (r : A) (x : A) d :
  (_ <- lift (node_kind_name (n_kind n)) ;; emit n c ;;; ret r) = Ok (x, d) ->
  d = [{| d_line := n_line n; d_col := n_col n; d_class := c |}] /\ x = r.
Proof.
  destruct (node_kind_name (n_kind n)) as [s|s]; cbn; intros H; [|discriminate].
  injection H as <- <-. auto.
Qed.

Lemma parse_bool_nil n d : parse_bool n = Ok (None, d) -> d <> [].
Proof.
  unfold parse_bool.
  destruct (negb (N.eqb (n_kind n) KScalar) || (negb (tag_is n "!!bool") && negb (tag_is n "!!str"))).
  - intros H. apply kind_emit_ret_diags in H. destruct H as [-> _]. discriminate.
  - destruct (tag_is n "!!str"); intros H.
    + apply bindP_ok in H. destruct H as (a & d1 & d2 & _ & H & _). inv_ok H.
    + inv_ok H.
Qed.

Lemma err_emit_ret_diags {A} e n c (r x : A) d :
  (_ <- lift (err_error e) ;; emit n c ;;; ret r) = Ok (x, d) ->
  d = [{| d_line := n_line n; d_col := n_col n; d_class := c |}] /\ x = r.
Proof.
  destruct e as [m|]; cbn; intros H; [|discriminate]. injection H as <- <-. auto.
Qed.

Lemma parse_int_nil n d : parse_int n = Ok (None, d) -> d <> [].
Proof.
  unfold parse_int.
  destruct (negb (N.eqb (n_kind n) KScalar) || (negb (tag_is n "!!int") && negb (tag_is n "!!str"))).
  - intros H. apply kind_emit_ret_diags in H. destruct H as [-> _]. discriminate.
  - destruct (tag_is n "!!str"); intros H.
    + apply bindP_ok in H. destruct H as (a & d1 & d2 & Ha & H & ->).
      destruct a as [e|]; inv_ok H. rewrite app_nil_r. eapply parse_expression_nil; eassumption.
    + destruct (is_some (ai_err (n_atoi n))).
      * apply err_emit_ret_diags in H. destruct H as [-> _]. discriminate.
      * inv_ok H.
Qed.

Lemma float_expr_nil n d : float_expr n = Ok (None, d) -> d <> [].
Proof.
  unfold float_expr. intros H.
  apply bindP_ok in H. destruct H as (a & d1 & d2 & Ha & H & ->).
  destruct a as [e|]; inv_ok H. rewrite app_nil_r. eapply parse_expression_nil; eassumption.
Qed.

Lemma parse_float_nil n d : parse_float n = Ok (None, d) -> d <> [].
Proof.
  unfold parse_float.
  destruct (float_guard n).
  - intros H. apply kind_emit_ret_diags in H. destruct H as [-> _]. discriminate.
  - destruct (tag_is n "!!str"); [apply float_expr_nil|].
    destruct (is_some (pf_err (n_pfloat n))); intros H.
    + apply err_emit_ret_diags in H. destruct H as [-> _]. discriminate.
    + destruct (is_nan (pf_val (n_pfloat n))); inv_ok H. discriminate.
Qed.

Lemma parse_max_parallel_nil n d : parse_max_parallel n = Ok (None, d) -> d <> [].
Proof.
  unfold parse_max_parallel. intros H.
  apply bindP_ok in H. destruct H as (i & d1 & d2 & Hi & H & ->).
  destruct i as [iv|].
  - cbn in H. destruct (negb (is_some (i_expr iv)) && (i_value iv <=? 0)%Z); inv_ok H.
  - apply parse_int_nil in Hi. intros E. apply app_eq_nil in E. tauto.
Qed.

Lemma parse_timeout_minutes_nil n d : parse_timeout_minutes n = Ok (None, d) -> d <> [].
Proof.
  unfold parse_timeout_minutes, timeout_after. intros H.
  apply bindP_ok in H. destruct H as (f & d1 & d2 & Hf & H & ->).
  destruct f as [fv|].
  - cbn in H. destruct (negb (is_some (f_expr fv)) && fle0 (f_value fv)); inv_ok H.
  - apply parse_float_nil in Hf. intros E. apply app_eq_nil in E. tauto.
Qed.

(* parseString never returns nil (parseStringSequence's nil test is dead) *)
Lemma parse_string_never_nil n ae r d : parse_string n ae = Ok (r, d) -> r <> None.
Proof.
  unfold parse_string. intros H.
  apply bindP_ok in H. destruct H as (ok & d1 & d2 & _ & H & _).
  destruct (negb ok); inv_ok H; discriminate.
Qed.

(* --------------------------------------- location and number of diagnostics *)

Definition at_node (n : snode) (d : diag) : Prop := d_line d = n_line n /\ d_col d = n_col n.

Lemma emit_at n c u d : emit n c = Ok (u, d) -> Forall (at_node n) d /\ length d = 1.
Proof. unfold emit. intros H. injection H as <- <-. split; [repeat constructor|reflexivity]. Qed.

(* a one-node parser: at most one diagnostic, located at the node *)
Definition local1 {A} (n : snode) (m : P A) : Prop :=
  forall a d, m = Ok (a, d) -> Forall (at_node n) d /\ length d <= 1.

Lemma local1_ret {A} n (a : A) : local1 n (ret a).
Proof. intros a0 d H. injection H as <- <-. split; [constructor|cbn; lia]. Qed.

Lemma local1_kind_emit {A} n c (r : A) :
  local1 n (_ <- lift (node_kind_name (n_kind n)) ;; emit n c ;;; ret r).
Proof.
  intros a d H. apply kind_emit_ret_diags in H. destruct H as [-> _].
  split; [repeat constructor|cbn; lia].
Qed.

Lemma local1_err_emit {A} e n c (r : A) :
  local1 n (_ <- lift (err_error e) ;; emit n c ;;; ret r).
Proof.
  intros a d H. apply err_emit_ret_diags in H. destruct H as [-> _].
  split; [repeat constructor|cbn; lia].
Qed.

Lemma local1_emit_ret {A} n c (r : A) : local1 n (emit n c ;;; ret r).
Proof. intros a d H. cbn in H. injection H as <- <-. split; [repeat constructor|cbn; lia]. Qed.

Lemma check_string_local n ae : local1 n (check_string n ae).
Proof.
  unfold check_string.
  destruct (negb (N.eqb (n_kind n) KScalar)); [apply local1_kind_emit|].
  destruct (negb ae && String.eqb (n_value n) ""); [apply local1_emit_ret|apply local1_ret].
Qed.

Lemma parse_expression_local n : local1 n (parse_expression n).
Proof.
  unfold parse_expression.
  destruct (negb (is_expr_assigned (n_value n))); [apply local1_emit_ret|apply local1_ret].
Qed.

(* binding a parser that emits nothing after one that is local keeps locality *)
Lemma local1_bind_silent {A B} n (m : P A) (f : A -> P B) :
  local1 n m -> (forall a b d, f a = Ok (b, d) -> d = []) -> local1 n (bindP m f).
Proof.
  intros Hm Hf b d H. apply bindP_ok in H. destruct H as (a & d1 & d2 & Ha & Hb & ->).
  apply Hf in Hb. subst d2. rewrite app_nil_r. eapply Hm; eassumption.
Qed.

Lemma parse_string_local n ae : local1 n (parse_string n ae).
Proof.
  unfold parse_string. apply local1_bind_silent; [apply check_string_local|].
  intros ok b d H. destruct (negb ok); inv_ok H; reflexivity.
Qed.

Lemma parse_bool_local n : local1 n (parse_bool n).
Proof.
  unfold parse_bool.
  destruct (negb (N.eqb (n_kind n) KScalar) || (negb (tag_is n "!!bool") && negb (tag_is n "!!str")));
    [apply local1_kind_emit|].
  destruct (tag_is n "!!str"); [|apply local1_ret].
  apply local1_bind_silent; [apply parse_expression_local|]. intros a b d H. inv_ok H. reflexivity.
Qed.

Lemma parse_int_local n : local1 n (parse_int n).
Proof.
  unfold parse_int.
  destruct (negb (N.eqb (n_kind n) KScalar) || (negb (tag_is n "!!int") && negb (tag_is n "!!str")));
    [apply local1_kind_emit|].
  destruct (tag_is n "!!str").
  - apply local1_bind_silent; [apply parse_expression_local|].
    intros [e|] b d H; inv_ok H; reflexivity.
  - destruct (is_some (ai_err (n_atoi n))); [apply local1_err_emit|apply local1_ret].
Qed.

Lemma parse_float_local n : local1 n (parse_float n).
Proof.
  unfold parse_float.
  destruct (float_guard n); [apply local1_kind_emit|].
  destruct (tag_is n "!!str").
  - unfold float_expr. apply local1_bind_silent; [apply parse_expression_local|].
    intros [e|] b d H; inv_ok H; reflexivity.
  - destruct (is_some (pf_err (n_pfloat n))); [apply local1_err_emit|].
    destruct (is_nan (pf_val (n_pfloat n))); [apply local1_emit_ret|apply local1_ret].
Qed.

(* a non-nil result of parseInt / parseFloat came without a diagnostic, so the
   range check of max-parallel / timeout-minutes adds at most the one *)
Lemma parse_int_some_silent n iv d : parse_int n = Ok (Some iv, d) -> d = [].
Proof.
  unfold parse_int.
  destruct (negb (N.eqb (n_kind n) KScalar) || (negb (tag_is n "!!int") && negb (tag_is n "!!str"))).
  - intros H. apply kind_emit_ret_diags in H. destruct H as [_ H]. discriminate.
  - destruct (tag_is n "!!str"); intros H.
    + apply bindP_ok in H. destruct H as (a & d1 & d2 & Ha & H & ->).
      destruct a as [e|]; inv_ok H. rewrite app_nil_r.
      unfold parse_expression in Ha. destruct (negb (is_expr_assigned (n_value n))); inv_ok Ha. reflexivity.
    + destruct (is_some (ai_err (n_atoi n))).
      * apply err_emit_ret_diags in H. destruct H as [_ H]. discriminate.
      * inv_ok H. reflexivity.
Qed.

Lemma parse_float_some_silent n fv d : parse_float n = Ok (Some fv, d) -> d = [].
Proof.
  unfold parse_float.
  destruct (float_guard n).
  - intros H. apply kind_emit_ret_diags in H. destruct H as [_ H]. discriminate.
  - destruct (tag_is n "!!str"); intros H.
    + unfold float_expr in H. apply bindP_ok in H. destruct H as (a & d1 & d2 & Ha & H & ->).
      destruct a as [e|]; inv_ok H. rewrite app_nil_r.
      unfold parse_expression in Ha. destruct (negb (is_expr_assigned (n_value n))); inv_ok Ha. reflexivity.
    + destruct (is_some (pf_err (n_pfloat n))).
      * apply err_emit_ret_diags in H. destruct H as [_ H]. discriminate.
      * destruct (is_nan (pf_val (n_pfloat n))); inv_ok H. reflexivity.
Qed.

Lemma parse_max_parallel_local n : local1 n (parse_max_parallel n).
Proof.
  unfold parse_max_parallel. intros r d H.
  apply bindP_ok in H. destruct H as (i & d1 & d2 & Hi & H & ->).
  destruct i as [iv|].
  - apply parse_int_some_silent in Hi. subst d1. cbn [app].
    cbn in H. destruct (negb (is_some (i_expr iv)) && (i_value iv <=? 0)%Z); inv_ok H.
    + split; [repeat constructor|cbn; lia].
    + split; [constructor|cbn; lia].
  - cbn in H. inv_ok H. rewrite app_nil_r. eapply parse_int_local; eassumption.
Qed.

Lemma parse_timeout_minutes_local n : local1 n (parse_timeout_minutes n).
Proof.
  unfold parse_timeout_minutes, timeout_after. intros r d H.
  apply bindP_ok in H. destruct H as (f & d1 & d2 & Hf & H & ->).
  destruct f as [fv|].
  - apply parse_float_some_silent in Hf. subst d1. cbn [app].
    cbn in H. destruct (negb (is_some (f_expr fv)) && fle0 (f_value fv)); inv_ok H.
    + split; [repeat constructor|cbn; lia].
    + split; [constructor|cbn; lia].
  - cbn in H. inv_ok H. rewrite app_nil_r. eapply parse_float_local; eassumption.
Qed.

(* sequences: diagnostics sit at the node or at one of its children, and
   there are at most max(1, number of children) of them *)
Definition near_node (n : snode) (d : diag) : Prop :=
  at_node n d \/ exists c, In c (n_content n) /\ at_node c d.

Lemma mapP_parse_string_diags aee cs r d :
  mapP (fun c => parse_string c aee) cs = Ok (r, d) ->
  Forall (fun x => exists c, In c cs /\ at_node c x) d /\ length d <= length cs.
Proof.
  revert r d. induction cs as [|c cs IH]; intros r d H; cbn [mapP] in H.
  - injection H as <- <-. split; [constructor|cbn; lia].
  - apply bindP_ok in H. destruct H as (b & d1 & d2 & Hb & H & ->).
    apply bindP_ok in H. destruct H as (bs & d3 & d4 & Hbs & H & ->).
    injection H as <- <-. rewrite app_nil_r.
    apply parse_string_local in Hb. destruct Hb as [F1 L1].
    apply IH in Hbs. destruct Hbs as [F2 L2]. split.
    + apply Forall_app. split.
      * eapply Forall_impl; [|exact F1]. intros x Hx. exists c. split; [left; reflexivity|exact Hx].
      * eapply Forall_impl; [|exact F2]. intros x [c' [Hin Hx]]. exists c'. split; [right; exact Hin|exact Hx].
    + rewrite app_length. cbn [length]. lia.
Qed.

Lemma check_sequence_local n ae : local1 n (check_sequence n ae).
Proof.
  unfold check_sequence.
  destruct (negb (N.eqb (n_kind n) KSequence)); [apply local1_kind_emit|].
  destruct ae; [apply local1_ret|].
  unfold check_not_empty. destruct (length (n_content n) =? 0); [apply local1_emit_ret|apply local1_ret].
Qed.

Lemma check_sequence_true_silent n ae d : check_sequence n ae = Ok (true, d) -> d = [].
Proof.
  unfold check_sequence.
  destruct (negb (N.eqb (n_kind n) KSequence)).
  - intros H. apply kind_emit_ret_diags in H. destruct H as [_ H]. discriminate.
  - destruct ae; [intros H; inv_ok H; reflexivity|].
    unfold check_not_empty. destruct (length (n_content n) =? 0); intros H; inv_ok H. reflexivity.
Qed.

Lemma parse_string_sequence_diags n ae aee r d :
  parse_string_sequence n ae aee = Ok (r, d) ->
  Forall (near_node n) d /\ length d <= Nat.max 1 (length (n_content n)).
Proof.
  unfold parse_string_sequence. intros H.
  apply bindP_ok in H. destruct H as (ok & d1 & d2 & Hok & H & ->).
  destruct ok; cbn [negb] in H.
  - apply check_sequence_true_silent in Hok. subst d1. cbn [app].
    apply bindP_ok in H. destruct H as (ss & d3 & d4 & Hss & H & ->). injection H as <- <-.
    rewrite app_nil_r. apply mapP_parse_string_diags in Hss. destruct Hss as [F L]. split; [|lia].
    eapply Forall_impl; [|exact F]. intros x Hx. right. exact Hx.
  - injection H as <- <-. rewrite app_nil_r. apply check_sequence_local in Hok. destruct Hok as [F L].
    split; [|lia]. eapply Forall_impl; [|exact F]. intros x Hx. left. exact Hx.
Qed.

Lemma parse_string_or_string_sequence_diags n ae aee r d :
  parse_string_or_string_sequence n ae aee = Ok (r, d) ->
  Forall (near_node n) d /\ length d <= Nat.max 1 (length (n_content n)).
Proof.
  unfold parse_string_or_string_sequence.
  destruct (N.eqb (n_kind n) KScalar); [|apply parse_string_sequence_diags].
  destruct (ae && String.eqb (n_tag n) "!!null").
  - intros H. injection H as <- <-. split; [constructor|cbn; lia].
  - intros H. apply bindP_ok in H. destruct H as (s & d1 & d2 & Hs & H & ->). injection H as <- <-.
    rewrite app_nil_r. apply parse_string_local in Hs. destruct Hs as [F L]. split; [|lia].
    eapply Forall_impl; [|exact F]. intros x Hx. left. exact Hx.
Qed.

(* ------------------------------------------------------- handleYAMLError *)

Lemma yaml_err_diag_np m : np (yaml_err_diag m).
Proof.
  unfold yaml_err_diag, index. destruct (1 <? length (ym_submatch m)) eqn:E; [|apply np_ok].
  apply Nat.ltb_lt in E. destruct (nth_error (ym_submatch m) 1) eqn:N; [apply np_ok|].
  apply nth_error_None in N. lia.
Qed.

(* the guard len(ss) > 1 is what makes ss[1] safe *)
Lemma index_unguarded_panics : exists s, @index string "ss[1]" ["x"] 1 = Panic s.
Proof. eexists. reflexivity. Qed.

Lemma map_res_np {A B} (f : A -> res B) l : (forall a, np (f a)) -> np (map_res f l).
Proof.
  intros H. induction l as [|a l IH]; cbn [map_res]; [apply np_ok|].
  destruct (f a) eqn:E; [|exfalso; eapply H; eassumption].
  destruct (map_res f l) eqn:E2; [apply np_ok|exfalso; eapply IH; reflexivity].
Qed.

Lemma map_res_length {A B} (f : A -> res B) l r : map_res f l = Ok r -> length r = length l.
Proof.
  revert r. induction l as [|a l IH]; intros r H; cbn [map_res] in H.
  - injection H as <-. reflexivity.
  - destruct (f a); [|discriminate]. destruct (map_res f l); [|discriminate].
    injection H as <-. cbn. f_equal. apply IH. reflexivity.
Qed.

Lemma handle_yaml_error_np e : e <> None -> np (handle_yaml_error e).
Proof.
  intros H. destruct e as [[msgs|m]|]; [| |congruence]; cbn [handle_yaml_error].
  - apply map_res_np. apply yaml_err_diag_np.
  - destruct (yaml_err_diag m) eqn:E; [apply np_ok|exfalso; eapply yaml_err_diag_np; eassumption].
Qed.

Lemma handle_yaml_error_nil_panics : exists s, handle_yaml_error None = Panic s.
Proof. eexists. reflexivity. Qed.

(* Parse calls handleYAMLError only under err != nil *)
Lemma parse_entry_np e k : np k -> np (parse_entry e k).
Proof.
  intros H. unfold parse_entry. destruct e as [e|]; cbn [is_some]; [|exact H].
  apply handle_yaml_error_np. discriminate.
Qed.

(* one diagnostic per library message: a YAML syntax error is never dropped *)
Lemma handle_yaml_error_count e ds :
  handle_yaml_error (Some e) = Ok ds ->
  length ds = match e with YTypeError msgs => length msgs | YOther _ => 1 end.
Proof.
  destruct e as [msgs|m]; cbn [handle_yaml_error]; intros H.
  - eapply map_res_length; eassumption.
  - destruct (yaml_err_diag m); [|discriminate]. injection H as <-. reflexivity.
Qed.

(* ------------------------------------------------ isExprAssigned is total
   (a Gallina function; recorded for the inventory of modelled functions) *)
Lemma is_expr_assigned_examples :
  is_expr_assigned "${{ a }}" = true /\ is_expr_assigned "  ${{ a }} " = true /\
  is_expr_assigned "x ${{ a }}" = false /\ is_expr_assigned "${{ a }} ${{ b }}" = false /\
  is_expr_assigned "${{ a" = false /\ is_expr_assigned "" = false.
Proof. vm_compute. repeat split. Qed.

(* hypotheses are satisfiable by a non-trivial value *)
Definition example_seq : snode :=
  SNode KSequence "!!seq" "" 32 3 9 {| ai_val := 0; ai_err := Some "e" |} {| pf_val := FLe0; pf_err := Some "e" |}
    [ SNode KScalar "!!str" "a" 0 3 10 {| ai_val := 0; ai_err := Some "e" |} {| pf_val := FLe0; pf_err := Some "e" |} [];
      SNode KAlias "" "x" 0 3 13 {| ai_val := 0; ai_err := Some "e" |} {| pf_val := FLe0; pf_err := Some "e" |} [];
      nan_node ].

Example example_seq_wf : wf_node example_seq.
Proof. apply wf_nodeb_spec. vm_compute. reflexivity. Qed.

Example example_seq_parse :
  exists r, parse_string_sequence example_seq false false =
            Ok (r, [{| d_line := 3; d_col := 13; d_class := C_NOT_SCALAR |}]).
Proof. eexists. vm_compute. reflexivity. Qed.

(* ------------------------------------------- statements over [wf_node] *)

Lemma scalar_parse_string_no_panic n ae : wf_node n -> np (parse_string n ae).
Proof. intros H. apply parse_string_np, wf_node_kind, H. Qed.
Lemma scalar_check_string_no_panic n ae : wf_node n -> np (check_string n ae).
Proof. intros H. apply check_string_np, wf_node_kind, H. Qed.
Lemma scalar_check_sequence_no_panic n ae : wf_node n -> np (check_sequence n ae).
Proof. intros H. apply check_sequence_np, wf_node_kind, H. Qed.
Lemma scalar_parse_bool_no_panic n : wf_node n -> np (parse_bool n).
Proof. intros H. apply parse_bool_np, wf_node_kind, H. Qed.
Lemma scalar_parse_int_no_panic n : wf_node n -> np (parse_int n).
Proof. intros H. apply parse_int_np, wf_node_kind, H. Qed.
Lemma scalar_parse_float_no_panic n : wf_node n -> np (parse_float n).
Proof. intros H. apply parse_float_np, wf_node_kind, H. Qed.
Lemma scalar_parse_max_parallel_no_panic n : wf_node n -> np (parse_max_parallel n).
Proof. intros H. apply parse_max_parallel_np, wf_node_kind, H. Qed.
Lemma scalar_parse_timeout_minutes_no_panic n : wf_node n -> np (parse_timeout_minutes n).
Proof. intros H. apply parse_timeout_minutes_np, wf_node_kind, H. Qed.

Lemma scalar_nil_result_is_reported n d :
  (parse_bool n = Ok (None, d) -> d <> []) /\
  (parse_int n = Ok (None, d) -> d <> []) /\
  (parse_float n = Ok (None, d) -> d <> []) /\
  (parse_max_parallel n = Ok (None, d) -> d <> []) /\
  (parse_timeout_minutes n = Ok (None, d) -> d <> []).
Proof.
  exact (conj (parse_bool_nil n d) (conj (parse_int_nil n d) (conj (parse_float_nil n d)
        (conj (parse_max_parallel_nil n d) (parse_timeout_minutes_nil n d))))).
Qed.

Lemma scalar_diags_bounded n :
  local1 n (parse_string n true) /\ local1 n (parse_string n false) /\ local1 n (parse_bool n) /\
  local1 n (parse_int n) /\ local1 n (parse_float n) /\
  local1 n (parse_max_parallel n) /\ local1 n (parse_timeout_minutes n).
Proof.
  exact (conj (parse_string_local n true) (conj (parse_string_local n false) (conj (parse_bool_local n)
        (conj (parse_int_local n) (conj (parse_float_local n)
        (conj (parse_max_parallel_local n) (parse_timeout_minutes_local n))))))).
Qed.

(* all value parsers at once *)
Definition all_scalar_parsers_safe (n : snode) : Prop :=
  (forall ae, np (check_string n ae)) /\ (forall ae, np (check_sequence n ae)) /\
  np (parse_expression n) /\ np (may_parse_expression n) /\
  (forall ae, np (parse_string n ae)) /\
  (forall ae aee, np (parse_string_sequence n ae aee)) /\
  (forall ae aee, np (parse_string_or_string_sequence n ae aee)) /\
  np (parse_bool n) /\ np (parse_int n) /\ np (parse_float n) /\
  np (parse_max_parallel n) /\ np (parse_timeout_minutes n).

Lemma scalar_parsers_no_panic n : wf_node n -> all_scalar_parsers_safe n.
Proof.
  intros H. unfold all_scalar_parsers_safe. repeat split; intros.
  - apply scalar_check_string_no_panic; exact H.
  - apply scalar_check_sequence_no_panic; exact H.
  - apply parse_expression_np.
  - apply may_parse_expression_np.
  - apply scalar_parse_string_no_panic; exact H.
  - apply parse_string_sequence_np; exact H.
  - apply parse_string_or_string_sequence_np; exact H.
  - apply scalar_parse_bool_no_panic; exact H.
  - apply scalar_parse_int_no_panic; exact H.
  - apply scalar_parse_float_no_panic; exact H.
  - apply scalar_parse_max_parallel_no_panic; exact H.
  - apply scalar_parse_timeout_minutes_no_panic; exact H.
Qed.

(* with the old float parser the same statement is false *)
Lemma scalar_parsers_no_panic_old_refuted :
  exists n, wf_node n /\ ~ np (parse_timeout_minutes_old n).
Proof.
  exists nan_node. split; [exact nan_node_wf|]. intros H. eapply H. vm_compute. reflexivity.
Qed.
