(* Wf/RoutingTemplate.v — model of checkExprsIn (rule_expression.go): the scan
   of a string for `${{`, and the position arithmetic of the syntax diagnostics.
   The expression lexer + parser + semantic check (checkSemantics) is an
   abstract function [parse] of the text after `${{`; what is assumed about it
   ([parse_local]: an error position lies inside the text it was given, the
   offset after a well-formed placeholder does not exceed the text) is a section
   hypothesis, i.e. the theorems hold for every lexer/parser with that property.

   malformed_placeholder_reported: if the scan reaches a `${{` whose remainder
   is not an expression, a syntax diagnostic is reported on the line of the
   scalar at a column inside the scalar. *)
From AL Require Import Base.Str.
From Coq Require Import NArith Lia.

(* s[n:] *)
Fixpoint sdrop (n : nat) (s : string) : string :=
  match n, s with
  | 0, _ => s
  | S n', String _ s' => sdrop n' s'
  | S _, EmptyString => EmptyString
  end.

Lemma sdrop_length n s : String.length (sdrop n s) = String.length s - n.
Proof. revert s; induction n as [|n IH]; intros [|c s]; cbn; auto. Qed.

Definition nl : ascii := "010"%char.
Fixpoint no_nl (s : string) : bool :=
  match s with
  | EmptyString => true
  | String c r => negb (Ascii.eqb c nl) && no_nl r
  end.

Lemma no_nl_sdrop n s : no_nl s = true -> no_nl (sdrop n s) = true.
Proof.
  revert s; induction n as [|n IH]; intros [|c s]; cbn; auto.
  intros H. apply andb_prop in H. now apply IH.
Qed.

Lemma substring_full_length n m s : m <> 0 -> String.length (substring n m s) = m -> n + m <= String.length s.
Proof.
  revert n m; induction s as [|c s IH]; intros n m Hm; cbn.
  - destruct n, m; cbn; intros; try lia; discriminate.
  - destruct n as [|n].
    + destruct m as [|m]; cbn; [lia|]. intros H. injection H as H.
      destruct m as [|m]; [lia|]. apply (IH 0) in H; [lia|discriminate].
    + intros H. apply IH in H; [lia|exact Hm].
Qed.

Lemma str_index_bound sub s idx : String.length sub <> 0 -> str_index sub s = Some idx -> idx + String.length sub <= String.length s.
Proof.
  unfold str_index. intros Hn H. apply index_correct1 in H.
  apply substring_full_length; [exact Hn | now rewrite H].
Qed.

(* result of checkSemantics on the text after "${{" *)
Inductive presult :=
| PSyntax (line col : N)   (* lexer / parser error at (line, col), 1-based, relative to the text *)
| PStop                    (* semantic errors, or nothing to continue with (ty == nil) *)
| PNext (after : nat).     (* well formed; the lexer consumed [after] bytes including "}}" *)

Section Template.
Variable parse : string -> presult.

(* for { idx := strings.Index(s, "${{") ... }  — one iteration per fuel unit *)
Fixpoint check_exprs_in (fuel : nat) (s : string) (line col0 : N) (offset : nat) : list (N * N) :=
  match fuel with
  | 0 => []
  | S fuel' =>
      match str_index "${{" s with
      | None => []
      | Some idx =>
          let start := idx + 3 in
          let s' := sdrop start s in
          let offset' := offset + start in
          let col := (col0 + N.of_nat offset')%N in
          match parse s' with
          | PSyntax el ec => [((el - 1 + line)%N, (ec - 1 + col)%N)]   (* convertExprLineColToPos *)
          | PStop => []
          | PNext after =>
              if Nat.eqb after 0 then []
              else check_exprs_in fuel' (sdrop after s') line col0 (offset' + after)
          end
      end
  end.

(* checkExprsIn(s, pos, quoted, ...): syntax diagnostics *)
Definition check_template (v : string) (p : N * N) (quoted : bool) : list (N * N) :=
  check_exprs_in (S (String.length v)) v (fst p) (if quoted then snd p + 1 else snd p)%N 0.

(* the scan reaches a placeholder whose text is not an expression *)
Inductive reaches_malformed : string -> Prop :=
| RM_here s idx el ec :
    str_index "${{" s = Some idx -> parse (sdrop (idx + 3) s) = PSyntax el ec -> reaches_malformed s
| RM_later s idx after :
    str_index "${{" s = Some idx -> parse (sdrop (idx + 3) s) = PNext after -> after <> 0 ->
    reaches_malformed (sdrop after (sdrop (idx + 3) s)) -> reaches_malformed s.

Hypothesis parse_local : forall s, no_nl s = true ->
  match parse s with
  | PSyntax el ec => el = 1%N /\ (1 <= ec <= N.of_nat (String.length s) + 1)%N
  | PNext after => after <= String.length s
  | PStop => True
  end.

Lemma check_exprs_in_reports fuel s line col0 offset :
  no_nl s = true -> reaches_malformed s -> String.length s < fuel ->
  exists d, In d (check_exprs_in fuel s line col0 offset)
            /\ fst d = line
            /\ (col0 + N.of_nat offset + 3 <= snd d <= col0 + N.of_nat offset + N.of_nat (String.length s))%N.
Proof.
  intros Hnl Hr. revert fuel offset. induction Hr as [s idx el ec Hi Hp | s idx after Hi Hp Ha Hr IH]; intros fuel offset Hf.
  - destruct fuel as [|fuel]; [lia|]. cbn [check_exprs_in]. rewrite Hi. cbn zeta. rewrite Hp.
    pose proof (str_index_bound "${{" _ _ ltac:(discriminate) Hi) as Hb. cbn [String.length] in Hb.
    pose proof (parse_local (sdrop (idx + 3) s) (no_nl_sdrop _ _ Hnl)) as Hl. rewrite Hp in Hl.
    rewrite sdrop_length in Hl. destruct Hl as [-> Hec].
    eexists. split; [left; reflexivity|]. cbn [fst snd]. split; lia.
  - destruct fuel as [|fuel]; [lia|]. cbn [check_exprs_in]. rewrite Hi. cbn zeta. rewrite Hp.
    destruct (Nat.eqb_spec after 0) as [|_]; [contradiction|].
    pose proof (str_index_bound "${{" _ _ ltac:(discriminate) Hi) as Hb. cbn [String.length] in Hb.
    pose proof (parse_local (sdrop (idx + 3) s) (no_nl_sdrop _ _ Hnl)) as Hl. rewrite Hp in Hl.
    rewrite sdrop_length in Hl.
    assert (Hnl' : no_nl (sdrop after (sdrop (idx + 3) s)) = true) by now apply no_nl_sdrop, no_nl_sdrop.
    destruct (IH Hnl' fuel (offset + (idx + 3) + after)) as [d [Hd [Hline Hcol]]].
    { rewrite !sdrop_length. lia. }
    exists d. split; [exact Hd|]. split; [exact Hline|]. rewrite !sdrop_length in Hcol. lia.
Qed.

(* one-line scalar [v] at (line, col): a syntax diagnostic on that line, at a
   column between the first character after the first "${{" and one past the
   last character of the text (for a quoted scalar: its closing quote) *)
Theorem malformed_placeholder_reported v line col quoted :
  no_nl v = true -> reaches_malformed v ->
  exists d, In d (check_template v (line, col) quoted)
            /\ fst d = line
            /\ let col0 := (if quoted then col + 1 else col)%N in
               (col0 + 3 <= snd d <= col0 + N.of_nat (String.length v))%N.
Proof.
  intros Hnl Hr. unfold check_template. cbn [fst snd].
  destruct (check_exprs_in_reports (S (String.length v)) v line (if quoted then (col + 1)%N else col) 0 Hnl Hr) as [d [Hd [Hl Hc]]]; [lia|].
  exists d. split; [exact Hd|]. split; [exact Hl|]. cbn zeta. lia.
Qed.

(* exact position when the first placeholder is the malformed one *)
Theorem first_malformed_position v line col quoted idx el ec :
  str_index "${{" v = Some idx -> parse (sdrop (idx + 3) v) = PSyntax el ec ->
  check_template v (line, col) quoted
  = [((el - 1 + line)%N, (ec - 1 + ((if quoted then col + 1 else col) + N.of_nat (0 + (idx + 3))))%N)].
Proof. intros Hi Hp. unfold check_template. cbn [check_exprs_in fst snd]. rewrite Hi. cbn zeta. now rewrite Hp. Qed.

(* no "${{": nothing is parsed, nothing reported *)
Theorem no_placeholder_silent v p quoted : str_index "${{" v = None -> check_template v p quoted = [].
Proof. intros H. unfold check_template. cbn [check_exprs_in]. now rewrite H. Qed.

End Template.

(* the hypotheses are satisfiable: a parser that rejects everything at column 1 *)
Example parse_local_satisfiable :
  let parse := fun _ : string => PSyntax 1 1 in
  (forall s, no_nl s = true ->
     match parse s with
     | PSyntax el ec => el = 1%N /\ (1 <= ec <= N.of_nat (String.length s) + 1)%N
     | PNext after => after <= String.length s
     | PStop => True
     end)
  /\ reaches_malformed parse "a ${{ 1 + }} b" /\ no_nl "a ${{ 1 + }} b" = true
  /\ check_template parse "a ${{ 1 + }} b" (7%N, 5%N) true = [(7%N, 11%N)].
Proof.
  cbn zeta. split; [intros; lia|]. split; [|split; reflexivity].
  eapply RM_here with (idx := 2); reflexivity.
Qed.
