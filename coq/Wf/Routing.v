(* Wf/Routing.v — model of the traversal of RuleExpression (rule_expression.go):
   which AST field is handed to which checker at which call site, with which
   workflow key.  One Gallina function per Go function; every call
   `rule.check*(...)` of the Go function appears as [at_ (func, callee, arg) ...]
   in the same order, so that a [call] records the whole chain of call sites
   from the Visit* callback down to checkExprsIn.

   Also here: [ast_scalars] (every source scalar the AST holds at a *value*
   position — mapping value or sequence element), the exempt list of property
   C03, the parser invariants the traversal relies on ([wfb]), the hand lists
   that the translator output must equal ([model_sites], [model_fields]) and the
   observable compared with the implementation ([predict]).

   The model is of the REPAIRED code (fix: volumes stored in Container.Volumes;
   fix: include element expression; fix: workflow_call `required` is passed to
   checkBool).  The two repairs inside rule_expression.go can be switched off
   with [fixes] to state what the old code did ([*_old_refuted]). *)
From AL Require Import Base.Str Wf.WfAst.
From Coq Require Import NArith.

(* ------------------------------------------------------------------ *)
(* all value scalars of the AST                                        *)

Definition filter_scalars (f : evfilter) := of_strs "WebhookEventFilter.Values" (fl_values f).

Definition event_scalars (e : event) : list scalar :=
  match e with
  | EWebhook e =>
      of_ostr "WebhookEvent.Hook" (we_hook e) ++ of_strs "WebhookEvent.Types" (we_types e)
      ++ of_opt filter_scalars (we_branches e) ++ of_opt filter_scalars (we_branches_ignore e)
      ++ of_opt filter_scalars (we_tags e) ++ of_opt filter_scalars (we_tags_ignore e)
      ++ of_opt filter_scalars (we_paths e) ++ of_opt filter_scalars (we_paths_ignore e)
      ++ of_strs "WebhookEvent.Workflows" (we_workflows e)
  | ESchedule cron => of_strs "ScheduledEvent.Cron" cron
  | EDispatch inputs =>
      of_map (fun i => of_ostr "DispatchInput.Description" (di_description i)
                       ++ of_bool "DispatchInput.Required" (di_required i)
                       ++ of_ostr "DispatchInput.Default" (di_default i)
                       ++ of_strs "DispatchInput.Options" (di_options i)) inputs
  | ERepoDispatch types => of_strs "RepositoryDispatchEvent.Types" types
  | ECall e =>
      flat_map (fun i => of_ostr "WorkflowCallEventInput.Description" (ci_description i)
                         ++ of_ostr "WorkflowCallEventInput.Default" (ci_default i)
                         ++ of_bool "WorkflowCallEventInput.Required" (ci_required i)) (ce_inputs e)
      ++ of_opt (of_map (fun s => of_ostr "WorkflowCallEventSecret.Description" (cs_description s)
                                  ++ of_bool "WorkflowCallEventSecret.Required" (cs_required s))) (ce_secrets e)
      ++ of_map (fun o => of_ostr "WorkflowCallEventOutput.Description" (co_description o)
                          ++ of_ostr "WorkflowCallEventOutput.Value" (co_value o)) (ce_outputs e)
  end.

Definition permissions_scalars (p : permissions) : list scalar :=
  of_ostr "Permissions.All" (pm_all p)
  ++ of_map (fun s => of_ostr "PermissionScope.Value" (ps_value s)) (pm_scopes p).

Definition env_scalars (e : env) : list scalar :=
  of_opt (of_map (fun v => of_ostr "EnvVar.Value" (ev_value v))) (en_vars e)
  ++ of_ostr "Env.Expression" (en_expr e).

Definition defaults_scalars (d : defaults) : list scalar :=
  of_opt (fun r => of_ostr "DefaultsRun.Shell" (dr_shell r)
                   ++ of_ostr "DefaultsRun.WorkingDirectory" (dr_workdir r)) (df_run d).

Definition concurrency_scalars (c : concurrency) : list scalar :=
  of_ostr "Concurrency.Group" (cc_group c) ++ of_bool "Concurrency.CancelInProgress" (cc_cancel c).

Definition combinations_scalars (cs : matrix_combinations) : list scalar :=
  of_ostr "MatrixCombinations.Expression" (mcs_expr cs)
  ++ flat_map (fun c => of_ostr "MatrixCombination.Expression" (mc_expr c)
                        ++ of_map (fun a => of_raw "MatrixAssign.Value" (ma_value a)) (mc_assigns c))
              (mcs_combinations cs).

Definition matrix_scalars (m : matrix) : list scalar :=
  of_ostr "Matrix.Expression" (mx_expr m)
  ++ of_map (fun r => flat_map (of_raw "MatrixRow.Values") (mr_values r)
                      ++ of_ostr "MatrixRow.Expression" (mr_expr r)) (mx_rows m)
  ++ of_opt combinations_scalars (mx_include m)
  ++ of_opt combinations_scalars (mx_exclude m).

Definition strategy_scalars (s : strategy) : list scalar :=
  of_opt matrix_scalars (st_matrix s)
  ++ of_bool "Strategy.FailFast" (st_fail_fast s)
  ++ of_int "Strategy.MaxParallel" (st_max_parallel s).

Definition exec_scalars (e : exec) : list scalar :=
  match e with
  | ExecRun run shell wd =>
      of_ostr "ExecRun.Run" run ++ of_ostr "ExecRun.Shell" shell ++ of_ostr "ExecRun.WorkingDirectory" wd
  | ExecAction uses inputs entry args =>
      of_ostr "ExecAction.Uses" uses ++ of_map (fun i => of_ostr "Input.Value" (in_value i)) inputs
      ++ of_ostr "ExecAction.Entrypoint" entry ++ of_ostr "ExecAction.Args" args
  end.

Definition step_scalars (s : step) : list scalar :=
  of_ostr "Step.ID" (sp_id s) ++ of_ostr "Step.If" (sp_if s) ++ of_ostr "Step.Name" (sp_name s)
  ++ of_opt exec_scalars (sp_exec s) ++ of_opt env_scalars (sp_env s)
  ++ of_bool "Step.ContinueOnError" (sp_continue_on_error s)
  ++ of_float "Step.TimeoutMinutes" (sp_timeout s).

Definition container_scalars (c : container) : list scalar :=
  of_ostr "Container.Image" (ct_image c)
  ++ of_opt (fun k => of_ostr "Credentials.Username" (cr_username k)
                      ++ of_ostr "Credentials.Password" (cr_password k)) (ct_credentials c)
  ++ of_opt env_scalars (ct_env c)
  ++ of_strs "Container.Ports" (ct_ports c) ++ of_strs "Container.Volumes" (ct_volumes c)
  ++ of_ostr "Container.Options" (ct_options c).

Definition services_scalars (s : services) : list scalar :=
  of_ostr "Services.Expression" (ss_expr s)
  ++ of_map (fun v => of_opt container_scalars (sv_container v)) (ss_value s).

Definition runner_scalars (r : runner) : list scalar :=
  of_strs "Runner.Labels" (rn_labels r) ++ of_ostr "Runner.LabelsExpr" (rn_labels_expr r)
  ++ of_ostr "Runner.Group" (rn_group r).

Definition environment_scalars (e : environment) : list scalar :=
  of_ostr "Environment.Name" (ev_ename e) ++ of_ostr "Environment.URL" (ev_url e).

Definition call_scalars (c : workflow_call) : list scalar :=
  of_ostr "WorkflowCall.Uses" (wc_uses c)
  ++ of_map (fun i => of_ostr "WorkflowCallInput.Value" (wi_value i)) (wc_inputs c)
  ++ of_map (fun i => of_ostr "WorkflowCallSecret.Value" (ws_value i)) (wc_secrets c).

Definition job_scalars (j : job) : list scalar :=
  of_ostr "Job.Name" (jb_name j) ++ of_strs "Job.Needs" (jb_needs j)
  ++ of_opt runner_scalars (jb_runs_on j) ++ of_opt permissions_scalars (jb_permissions j)
  ++ of_opt environment_scalars (jb_environment j) ++ of_opt concurrency_scalars (jb_concurrency j)
  ++ of_map (fun o => of_ostr "Output.Value" (ou_value o)) (jb_outputs j)
  ++ of_opt env_scalars (jb_env j) ++ of_opt defaults_scalars (jb_defaults j)
  ++ of_ostr "Job.If" (jb_if j) ++ flat_map step_scalars (jb_steps j)
  ++ of_float "Job.TimeoutMinutes" (jb_timeout j) ++ of_opt strategy_scalars (jb_strategy j)
  ++ of_bool "Job.ContinueOnError" (jb_continue_on_error j)
  ++ of_opt container_scalars (jb_container j) ++ of_opt services_scalars (jb_services j)
  ++ of_opt call_scalars (jb_call j).

Definition ast_scalars (w : workflow) : list scalar :=
  of_ostr "Workflow.Name" (wf_name w) ++ of_ostr "Workflow.RunName" (wf_run_name w)
  ++ flat_map event_scalars (wf_on w) ++ of_opt permissions_scalars (wf_permissions w)
  ++ of_opt env_scalars (wf_env w) ++ of_opt defaults_scalars (wf_defaults w)
  ++ of_opt concurrency_scalars (wf_concurrency w)
  ++ of_map job_scalars (wf_jobs w).

(* Property C03: not evaluated as expression templates — event names and
   `permissions` values.  (Input `type` and `secrets: inherit` are exempt too,
   but the parser does not keep their text: no AST field holds them.) *)
Definition exempt_fields : list string :=
  ["WebhookEvent.Hook"; "Permissions.All"; "PermissionScope.Value"].
Definition exemptb (s : scalar) : bool := existsb (String.eqb (sc_field s)) exempt_fields.
Definition exempt (s : scalar) : Prop := exemptb s = true.

(* ------------------------------------------------------------------ *)
(* the traversal                                                       *)

Inductive checker :=
| CkString      (* checkString:       template, types of the embedded values checked *)
| CkScript      (* checkScriptString: template + untrusted-input check *)
| CkOneExpr     (* checkOneExpression (also behind checkBool) *)
| CkObjectExpr | CkArrayExpr | CkNumberExpr   (* ... + type of the one expression *)
| CkIfWhole     (* checkIfCondition without placeholder: the whole text is parsed *)
| CkRawString.  (* checkRawYAMLString: template inside a matrix value *)

Definition site_id := (string * string * string)%type.   (* function, callee, first argument *)

Record call := Call {
  c_chain : list site_id;    (* call sites from the Visit* callback inwards *)
  c_checker : checker;
  c_key : string;            (* workflow key passed to checkExprsIn / the semantic check *)
  c_scalar : scalar }.

Definition at_ (s : site_id) (cs : list call) : list call :=
  map (fun c => Call (s :: c_chain c) (c_checker c) (c_key c) (c_scalar c)) cs.

Definition routed_scalars (cs : list call) : list scalar := map c_scalar cs.

Record fixes := Fixes { fx_required : bool; fx_include_elem : bool }.
Definition fixed := Fixes true true.
Definition unfixed := Fixes false false.

Section Visit.
Variable fx : fixes.

(* the text reaches checkExprsIn (or the parser) *)
Definition leaf (ck : checker) (key : string) (sc : scalar) : list call := [Call [] ck key sc].

(* func (rule *RuleExpression) checkString(str *String, workflowKey string) *)
Definition check_string (key f : string) (o : option str) : list call :=
  match o with
  | None => []
  | Some s => at_ ("checkString", "checkExprsIn", "str.Value") (leaf CkString key (f, s))
  end.

Definition check_script_string (key f : string) (o : option str) : list call :=
  match o with
  | None => []
  | Some s => at_ ("checkScriptString", "checkExprsIn", "str.Value") (leaf CkScript key (f, s))
  end.

Definition check_strings (key f : string) (l : list str) : list call :=
  flat_map (fun s => at_ ("checkStrings", "checkString", "s") (check_string key f (Some s))) l.

Definition check_one_expression_as (ck : checker) (key f : string) (o : option str) : list call :=
  match o with
  | None => []
  | Some s => at_ ("checkOneExpression", "checkExprsIn", "s.Value") (leaf ck key (f, s))
  end.
Definition check_one_expression := check_one_expression_as CkOneExpr.
Definition check_object_expression (key f : string) (o : option str) :=
  at_ ("checkObjectExpression", "checkOneExpression", "s") (check_one_expression_as CkObjectExpr key f o).
Definition check_array_expression (key f : string) (o : option str) :=
  at_ ("checkArrayExpression", "checkOneExpression", "s") (check_one_expression_as CkArrayExpr key f o).
Definition check_number_expression (key f : string) (o : option str) :=
  at_ ("checkNumberExpression", "checkOneExpression", "s") (check_one_expression_as CkNumberExpr key f o).

(* if b == nil || b.Expression == nil { return } *)
Definition check_bool (key f : string) (o : option boolv) : list call :=
  match o with
  | None => []
  | Some b => match b_expr b with
              | None => []
              | Some e => at_ ("checkBool", "checkOneExpression", "b.Expression") (check_one_expression key f (Some e))
              end
  end.
Definition check_int (key f : string) (o : option intv) : list call :=
  match o with
  | None => []
  | Some i => at_ ("checkInt", "checkNumberExpression", "i.Expression") (check_number_expression key f (i_expr i))
  end.
Definition check_float (key f : string) (o : option floatv) : list call :=
  match o with
  | None => []
  | Some x => at_ ("checkFloat", "checkNumberExpression", "f.Expression") (check_number_expression key f (f_expr x))
  end.

(* checkIfCondition: with a placeholder the text goes through checkString,
   without one the whole text (+ "}}") is given to the lexer and parser *)
Definition check_if_condition (key f : string) (o : option str) : list call :=
  match o with
  | None => []
  | Some s => if contains_expr (sval s)
              then at_ ("checkIfCondition", "checkString", "str") (check_string key f (Some s))
              else leaf CkIfWhole key (f, s)
  end.

Definition check_env (key : string) (o : option env) : list call :=
  match o with
  | None => []
  | Some e =>
      match en_vars e with
      | Some vars =>
          flat_map (fun kv => at_ ("checkEnv", "checkString", "e.Name") (check_string key "EnvVar.Name" (ev_name (snd kv)))
                              ++ at_ ("checkEnv", "checkString", "e.Value") (check_string key "EnvVar.Value" (ev_value (snd kv)))) vars
      | None => at_ ("checkEnv", "checkObjectExpression", "env.Expression") (check_object_expression key "Env.Expression" (en_expr e))
      end
  end.

Definition check_container (key prefix : string) (o : option container) : list call :=
  match o with
  | None => []
  | Some c =>
      let child := if String.eqb prefix "" then key else (key ++ "." ++ prefix)%string in
      at_ ("checkContainer", "checkString", "c.Image") (check_string key "Container.Image" (ct_image c))
      ++ match ct_credentials c with
         | None => []
         | Some k =>
             at_ ("checkContainer", "checkString", "c.Credentials.Username") (check_string (child ++ ".credentials") "Credentials.Username" (cr_username k))
             ++ at_ ("checkContainer", "checkString", "c.Credentials.Password") (check_string (child ++ ".credentials") "Credentials.Password" (cr_password k))
         end
      ++ at_ ("checkContainer", "checkEnv", "c.Env") (check_env (child ++ ".env.<env_id>") (ct_env c))
      ++ at_ ("checkContainer", "checkStrings", "c.Ports") (check_strings key "Container.Ports" (ct_ports c))
      ++ at_ ("checkContainer", "checkStrings", "c.Volumes") (check_strings key "Container.Volumes" (ct_volumes c))
      ++ at_ ("checkContainer", "checkString", "c.Options") (check_string key "Container.Options" (ct_options c))
  end.

Definition check_concurrency (key : string) (o : option concurrency) : list call :=
  match o with
  | None => []
  | Some c => at_ ("checkConcurrency", "checkString", "c.Group") (check_string key "Concurrency.Group" (cc_group c))
              ++ at_ ("checkConcurrency", "checkBool", "c.CancelInProgress") (check_bool key "Concurrency.CancelInProgress" (cc_cancel c))
  end.

(* if d == nil || d.Run == nil { return } *)
Definition check_defaults (key : string) (o : option defaults) : list call :=
  match o with
  | None => []
  | Some d => match df_run d with
              | None => []
              | Some r => at_ ("checkDefaults", "checkString", "d.Run.Shell") (check_string key "DefaultsRun.Shell" (dr_shell r))
                          ++ at_ ("checkDefaults", "checkString", "d.Run.WorkingDirectory") (check_string key "DefaultsRun.WorkingDirectory" (dr_workdir r))
              end
  end.

(* if c == nil || c.Uses == nil { return } *)
Definition check_workflow_call (o : option workflow_call) : list call :=
  match o with
  | None => []
  | Some c =>
      match wc_uses c with
      | None => []
      | Some u =>
          at_ ("checkWorkflowCall", "checkString", "c.Uses") (check_string "" "WorkflowCall.Uses" (Some u))
          ++ flat_map (fun kv => at_ ("checkWorkflowCall", "checkString", "i.Value")
                                     (check_string "jobs.<job_id>.with.<with_id>" "WorkflowCallInput.Value" (wi_value (snd kv)))) (wc_inputs c)
          ++ flat_map (fun kv => at_ ("checkWorkflowCall", "checkString", "s.Value")
                                     (check_string "jobs.<job_id>.secrets.<secrets_id>" "WorkflowCallSecret.Value" (ws_value (snd kv)))) (wc_secrets c)
      end
  end.

Definition check_webhook_event_filter (o : option evfilter) : list call :=
  match o with
  | None => []
  | Some f => at_ ("checkWebhookEventFilter", "checkStrings", "f.Values") (check_strings "" "WebhookEventFilter.Values" (fl_values f))
  end.

(* checkRawYAMLValue / checkRawYAMLString *)
Definition strategy_key := "jobs.<job_id>.strategy".
Fixpoint check_raw_yaml_value (f : string) (v : raw) : list call :=
  match v with
  | RawStr s p =>
      at_ ("checkRawYAMLValue", "checkRawYAMLString", "v")
          (at_ ("checkRawYAMLString", "checkExprsIn", "y.Value") (leaf CkRawString strategy_key (f, Str s false p)))
  | RawArr es _ =>
      (* Elems[0], then range Elems[1:] *)
      match es with
      | [] => []
      | e0 :: rest =>
          at_ ("checkRawYAMLValue", "checkRawYAMLValue", "v.Elems[0]") (check_raw_yaml_value f e0)
          ++ flat_map (fun e => at_ ("checkRawYAMLValue", "checkRawYAMLValue", "v") (check_raw_yaml_value f e)) rest
      end
  | RawObj ps _ =>
      flat_map (fun kv => at_ ("checkRawYAMLValue", "checkRawYAMLValue", "p") (check_raw_yaml_value f (snd kv))) ps
  end.

Definition check_matrix_row (r : matrix_row) : list call :=
  match mr_expr r with
  | Some e => at_ ("checkMatrixRow", "checkArrayExpression", "r.Expression") (check_array_expression strategy_key "MatrixRow.Expression" (Some e))
  | None => flat_map (fun v => at_ ("checkMatrixRow", "checkRawYAMLValue", "v") (check_raw_yaml_value "MatrixRow.Values" v)) (mr_values r)
  end.

Definition check_matrix_expression (o : option str) : list call :=
  at_ ("checkMatrixExpression", "checkObjectExpression", "expr") (check_object_expression strategy_key "Matrix.Expression" o).

Definition check_matrix (m : matrix) : list call :=
  match mx_expr m with
  | Some e => at_ ("checkMatrix", "checkMatrixExpression", "m.Expression") (check_matrix_expression (Some e))
  | None =>
      (match mx_exclude m with
       | None => []
       | Some ex =>
           match mcs_expr ex with
           | Some e => at_ ("checkMatrix", "checkArrayExpression", "m.Exclude.Expression")
                           (check_array_expression strategy_key "MatrixCombinations.Expression" (Some e))
           | None =>
               flat_map (fun c =>
                 match mc_expr c with
                 | Some e => at_ ("checkMatrix", "checkObjectExpression", "combi.Expression")
                                 (check_object_expression strategy_key "MatrixCombination.Expression" (Some e))
                 | None => flat_map (fun ka => at_ ("checkMatrix", "checkRawYAMLValue", "a.Value")
                                                   (check_raw_yaml_value "MatrixAssign.Value" (ma_value (snd ka)))) (mc_assigns c)
                 end) (mcs_combinations ex)
           end
       end)
      ++ flat_map (fun kr => at_ ("checkMatrix", "checkMatrixRow", "r") (check_matrix_row (snd kr))) (mx_rows m)
      ++ (match mx_include m with
          | None => []
          | Some inc =>
              match mcs_expr inc with
              | Some e => at_ ("checkMatrix", "checkOneExpression", "m.Include.Expression")
                              (check_one_expression strategy_key "MatrixCombinations.Expression" (Some e))
              | None =>
                  flat_map (fun c =>
                    match mc_expr c with
                    | Some e =>
                        if fx_include_elem fx
                        then at_ ("checkMatrix", "checkOneExpression", "combi.Expression")
                                 (check_one_expression strategy_key "MatrixCombination.Expression" (Some e))
                        else (* old code: rule.checkOneExpression(m.Include.Expression, ...), nil in this branch *)
                             at_ ("checkMatrix", "checkOneExpression", "m.Include.Expression")
                                 (check_one_expression strategy_key "MatrixCombinations.Expression" (mcs_expr inc))
                    | None => flat_map (fun ka => at_ ("checkMatrix", "checkRawYAMLValue", "assign.Value")
                                                      (check_raw_yaml_value "MatrixAssign.Value" (ma_value (snd ka)))) (mc_assigns c)
                    end) (mcs_combinations inc)
              end
          end)
  end.

Definition visit_event (e : event) : list call :=
  let f := "VisitWorkflowPre" in
  match e with
  | EWebhook e =>
      at_ (f, "checkStrings", "e.Types") (check_strings "" "WebhookEvent.Types" (we_types e))
      ++ at_ (f, "checkWebhookEventFilter", "e.Branches") (check_webhook_event_filter (we_branches e))
      ++ at_ (f, "checkWebhookEventFilter", "e.BranchesIgnore") (check_webhook_event_filter (we_branches_ignore e))
      ++ at_ (f, "checkWebhookEventFilter", "e.Tags") (check_webhook_event_filter (we_tags e))
      ++ at_ (f, "checkWebhookEventFilter", "e.TagsIgnore") (check_webhook_event_filter (we_tags_ignore e))
      ++ at_ (f, "checkWebhookEventFilter", "e.Paths") (check_webhook_event_filter (we_paths e))
      ++ at_ (f, "checkWebhookEventFilter", "e.PathsIgnore") (check_webhook_event_filter (we_paths_ignore e))
      ++ at_ (f, "checkStrings", "e.Workflows") (check_strings "" "WebhookEvent.Workflows" (we_workflows e))
  | ESchedule cron => at_ (f, "checkStrings", "e.Cron") (check_strings "" "ScheduledEvent.Cron" cron)
  | EDispatch inputs =>
      flat_map (fun kv => let i := snd kv in
        at_ (f, "checkString", "i.Description") (check_string "" "DispatchInput.Description" (di_description i))
        ++ at_ (f, "checkString", "i.Default") (check_string "" "DispatchInput.Default" (di_default i))
        ++ at_ (f, "checkBool", "i.Required") (check_bool "" "DispatchInput.Required" (di_required i))
        ++ at_ (f, "checkStrings", "i.Options") (check_strings "" "DispatchInput.Options" (di_options i))) inputs
  | ERepoDispatch types => at_ (f, "checkStrings", "e.Types") (check_strings "" "RepositoryDispatchEvent.Types" types)
  | ECall e =>
      flat_map (fun i =>
        at_ (f, "checkString", "i.Description") (check_string "" "WorkflowCallEventInput.Description" (ci_description i))
        ++ (if fx_required fx
            then at_ (f, "checkBool", "i.Required") (check_bool "" "WorkflowCallEventInput.Required" (ci_required i))
            else [])
        ++ at_ (f, "checkString", "i.Default")
               (check_string "on.workflow_call.inputs.<inputs_id>.default" "WorkflowCallEventInput.Default" (ci_default i)))
        (ce_inputs e)
      ++ (match ce_secrets e with
          | None => []
          | Some secrets =>
              flat_map (fun kv => let s := snd kv in
                at_ (f, "checkString", "s.Description") (check_string "" "WorkflowCallEventSecret.Description" (cs_description s))
                ++ (if fx_required fx
                    then at_ (f, "checkBool", "s.Required") (check_bool "" "WorkflowCallEventSecret.Required" (cs_required s))
                    else [])) secrets
          end)
      ++ flat_map (fun kv => at_ (f, "checkString", "o.Description")
                                 (check_string "" "WorkflowCallEventOutput.Description" (co_description (snd kv)))) (ce_outputs e)
  end.

Definition visit_workflow_pre (w : workflow) : list call :=
  let f := "VisitWorkflowPre" in
  at_ (f, "checkString", "n.Name") (check_string "" "Workflow.Name" (wf_name w))
  ++ flat_map visit_event (wf_on w)
  ++ at_ (f, "checkString", "n.RunName") (check_string "run-name" "Workflow.RunName" (wf_run_name w))
  ++ at_ (f, "checkEnv", "n.Env") (check_env "env" (wf_env w))
  ++ at_ (f, "checkDefaults", "n.Defaults") (check_defaults "" (wf_defaults w))
  ++ at_ (f, "checkConcurrency", "n.Concurrency") (check_concurrency "concurrency" (wf_concurrency w)).

(* Workflow.FindWorkflowCallEvent: the first workflow_call event *)
Fixpoint find_call_event (evs : list event) : option call_event :=
  match evs with
  | [] => None
  | ECall e :: _ => Some e
  | _ :: r => find_call_event r
  end.

(* if len(outputs) == 0 || len(jobs) == 0 { return } *)
Definition check_workflow_call_outputs (outputs : list (string * call_output)) (jobs : list (string * job)) : list call :=
  match outputs, jobs with
  | [], _ => []
  | _, [] => []
  | _, _ => flat_map (fun kv => at_ ("checkWorkflowCallOutputs", "checkString", "o.Value")
                                    (check_string "on.workflow_call.outputs.<output_id>.value" "WorkflowCallEventOutput.Value" (co_value (snd kv)))) outputs
  end.

Definition visit_workflow_post (w : workflow) : list call :=
  match find_call_event (wf_on w) with
  | None => []
  | Some e => at_ ("VisitWorkflowPost", "checkWorkflowCallOutputs", "e.Outputs") (check_workflow_call_outputs (ce_outputs e) (wf_jobs w))
  end.

Definition visit_job_pre (j : job) : list call :=
  let f := "VisitJobPre" in
  (match jb_strategy j with
   | Some s => match st_matrix s with
               | Some m => at_ (f, "checkMatrix", "n.Strategy.Matrix") (check_matrix m)
               | None => []
               end
   | None => []
   end)
  ++ at_ (f, "checkString", "n.Name") (check_string "jobs.<job_id>.name" "Job.Name" (jb_name j))
  ++ at_ (f, "checkStrings", "n.Needs") (check_strings "" "Job.Needs" (jb_needs j))
  ++ (match jb_runs_on j with
      | None => []
      | Some r =>
          (match rn_labels_expr r with
           | Some e => at_ (f, "checkOneExpression", "n.RunsOn.LabelsExpr")
                           (check_one_expression "jobs.<job_id>.runs-on" "Runner.LabelsExpr" (Some e))
           | None => flat_map (fun l => at_ (f, "checkString", "l") (check_string "jobs.<job_id>.runs-on" "Runner.Labels" (Some l))) (rn_labels r)
           end)
          ++ at_ (f, "checkString", "n.RunsOn.Group") (check_string "jobs.<job_id>.runs-on" "Runner.Group" (rn_group r))
      end)
  ++ at_ (f, "checkConcurrency", "n.Concurrency") (check_concurrency "jobs.<job_id>.concurrency" (jb_concurrency j))
  ++ at_ (f, "checkEnv", "n.Env") (check_env "jobs.<job_id>.env" (jb_env j))
  ++ at_ (f, "checkDefaults", "n.Defaults") (check_defaults "jobs.<job_id>.defaults.run" (jb_defaults j))
  ++ at_ (f, "checkIfCondition", "n.If") (check_if_condition "jobs.<job_id>.if" "Job.If" (jb_if j))
  ++ (match jb_strategy j with
      | None => []
      | Some s => at_ (f, "checkBool", "n.Strategy.FailFast") (check_bool strategy_key "Strategy.FailFast" (st_fail_fast s))
                  ++ at_ (f, "checkInt", "n.Strategy.MaxParallel") (check_int strategy_key "Strategy.MaxParallel" (st_max_parallel s))
      end)
  ++ at_ (f, "checkBool", "n.ContinueOnError") (check_bool "jobs.<job_id>.continue-on-error" "Job.ContinueOnError" (jb_continue_on_error j))
  ++ at_ (f, "checkFloat", "n.TimeoutMinutes") (check_float "jobs.<job_id>.timeout-minutes" "Job.TimeoutMinutes" (jb_timeout j))
  ++ at_ (f, "checkContainer", "n.Container") (check_container "jobs.<job_id>.container" "" (jb_container j))
  ++ (match jb_services j with
      | None => []
      | Some s => at_ (f, "checkObjectExpression", "n.Services.Expression")
                      (check_object_expression "jobs.<job_id>.services" "Services.Expression" (ss_expr s))
                  ++ flat_map (fun kv => at_ (f, "checkContainer", "s.Container")
                                             (check_container "jobs.<job_id>.services" "<service_id>" (sv_container (snd kv)))) (ss_value s)
      end)
  ++ at_ (f, "checkWorkflowCall", "n.WorkflowCall") (check_workflow_call (jb_call j)).

Definition visit_job_post (j : job) : list call :=
  let f := "VisitJobPost" in
  (match jb_environment j with
   | None => []
   | Some e => at_ (f, "checkString", "n.Environment.Name") (check_string "jobs.<job_id>.environment" "Environment.Name" (ev_ename e))
               ++ at_ (f, "checkString", "n.Environment.URL") (check_string "jobs.<job_id>.environment.url" "Environment.URL" (ev_url e))
   end)
  ++ flat_map (fun kv => at_ (f, "checkString", "output.Value")
                             (check_string "jobs.<job_id>.outputs.<output_id>" "Output.Value" (ou_value (snd kv)))) (jb_outputs j).

(* strings.HasPrefix(e.Uses.Value, "actions/github-script@") && n == "script" *)
Definition is_github_script (uses : option str) (name : string) : bool :=
  match uses with
  | Some u => String.prefix "actions/github-script@" (sval u) && String.eqb name "script"
  | None => false
  end.

Definition visit_step (s : step) : list call :=
  let f := "VisitStep" in
  at_ (f, "checkString", "n.Name") (check_string "jobs.<job_id>.steps.name" "Step.Name" (sp_name s))
  ++ at_ (f, "checkIfCondition", "n.If") (check_if_condition "jobs.<job_id>.steps.if" "Step.If" (sp_if s))
  ++ (match sp_exec s with
      | Some (ExecRun run shell wd) =>
          at_ (f, "checkScriptString", "e.Run") (check_script_string "jobs.<job_id>.steps.run" "ExecRun.Run" run)
          ++ at_ (f, "checkString", "e.Shell") (check_string "" "ExecRun.Shell" shell)
          ++ at_ (f, "checkString", "e.WorkingDirectory") (check_string "jobs.<job_id>.steps.working-directory" "ExecRun.WorkingDirectory" wd)
      | Some (ExecAction uses inputs entry args) =>
          at_ (f, "checkString", "e.Uses") (check_string "" "ExecAction.Uses" uses)
          ++ flat_map (fun kv =>
               if is_github_script uses (fst kv)
               then at_ (f, "checkScriptString", "i.Value") (check_script_string "jobs.<job_id>.steps.with" "Input.Value" (in_value (snd kv)))
               else at_ (f, "checkString", "i.Value") (check_string "jobs.<job_id>.steps.with" "Input.Value" (in_value (snd kv)))) inputs
          ++ at_ (f, "checkString", "e.Entrypoint") (check_string "jobs.<job_id>.steps.with" "ExecAction.Entrypoint" entry)
          ++ at_ (f, "checkString", "e.Args") (check_string "jobs.<job_id>.steps.with" "ExecAction.Args" args)
      | None => []
      end)
  ++ at_ (f, "checkEnv", "n.Env") (check_env "jobs.<job_id>.steps.env" (sp_env s))
  ++ at_ (f, "checkBool", "n.ContinueOnError") (check_bool "jobs.<job_id>.steps.continue-on-error" "Step.ContinueOnError" (sp_continue_on_error s))
  ++ at_ (f, "checkFloat", "n.TimeoutMinutes") (check_float "jobs.<job_id>.steps.timeout-minutes" "Step.TimeoutMinutes" (sp_timeout s))
  ++ (* if n.ID != nil { if n.ID.ContainsExpression() { rule.checkString(n.ID, "") ... } } *)
     (match sp_id s with
      | Some i => if contains_expr (sval i) then at_ (f, "checkString", "n.ID") (check_string "" "Step.ID" (Some i)) else []
      | None => []
      end).

(* pass.go: visitJob = VisitJobPre, every step, VisitJobPost *)
Definition visit_job (j : job) : list call :=
  visit_job_pre j ++ flat_map visit_step (jb_steps j) ++ visit_job_post j.

(* pass.go: Visit = VisitWorkflowPre, every job, VisitWorkflowPost *)
Definition visit (w : workflow) : list call :=
  visit_workflow_pre w ++ flat_map (fun kj => visit_job (snd kj)) (wf_jobs w) ++ visit_workflow_post w.

End Visit.

(* ------------------------------------------------------------------ *)
(* parser invariants the traversal relies on (parse.go); asserted by the
   harness on every AST it dumps (a violated invariant shows as a
   correspondence mismatch, see [predict]) *)

Definition is_none {A} (o : option A) : bool := match o with None => true | Some _ => false end.
Definition is_nil {A} (l : list A) : bool := match l with [] => true | _ => false end.
Definition opt_all {A} (p : A -> bool) (o : option A) : bool := match o with None => true | Some a => p a end.

(* parseEnv: a scalar gives Env{Expression}, a mapping gives Env{Vars} *)
Definition ok_env (e : env) : bool := is_none (en_vars e) || is_none (en_expr e).
(* parseRunsOn: LabelsExpr is set instead of Labels *)
Definition ok_runner (r : runner) : bool := is_none (rn_labels_expr r) || is_nil (rn_labels r).
(* parseMatrix: a scalar row value gives MatrixRow{Expression} only *)
Definition ok_row (r : matrix_row) : bool := is_none (mr_expr r) || is_nil (mr_values r).
(* parseMatrixCombinations *)
Definition ok_combination (c : matrix_combination) : bool := is_none (mc_expr c) || is_nil (mc_assigns c).
Definition ok_combinations (cs : matrix_combinations) : bool :=
  (is_none (mcs_expr cs) || is_nil (mcs_combinations cs)) && forallb ok_combination (mcs_combinations cs).
(* parseMatrix: a scalar gives Matrix{Expression} only *)
Definition ok_matrix (m : matrix) : bool :=
  (is_none (mx_expr m) || (is_nil (mx_rows m) && is_none (mx_include m) && is_none (mx_exclude m)))
  && forallb (fun kr => ok_row (snd kr)) (mx_rows m)
  && opt_all ok_combinations (mx_include m) && opt_all ok_combinations (mx_exclude m).
Definition ok_container (c : container) : bool := opt_all ok_env (ct_env c).
Definition ok_step (s : step) : bool := opt_all ok_env (sp_env s).
(* parseJob: ret.WorkflowCall = call only when call.Uses != nil *)
Definition ok_wcall (c : workflow_call) : bool := negb (is_none (wc_uses c)).
Definition ok_job (j : job) : bool :=
  opt_all ok_runner (jb_runs_on j) && opt_all ok_env (jb_env j) && forallb ok_step (jb_steps j)
  && opt_all (fun s => opt_all ok_matrix (st_matrix s)) (jb_strategy j)
  && opt_all ok_container (jb_container j)
  && opt_all (fun s => forallb (fun kv => opt_all ok_container (sv_container (snd kv))) (ss_value s)) (jb_services j)
  && opt_all ok_wcall (jb_call j).
(* parseEvents: keys of `on:` are unique, so at most one workflow_call event has
   outputs (the sequence form `on: [workflow_call, ...]` gives events without outputs) *)
Fixpoint ok_events (seen_call : bool) (evs : list event) : bool :=
  match evs with
  | [] => true
  | ECall e :: r => (negb seen_call || is_nil (ce_outputs e)) && ok_events true r
  | _ :: r => ok_events seen_call r
  end.
Definition has_call_outputs (evs : list event) : bool :=
  existsb (fun e => match e with ECall c => negb (is_nil (ce_outputs c)) | _ => false end) evs.
(* parse: "jobs" section must not be empty (reported otherwise) *)
Definition wfb (w : workflow) : bool :=
  opt_all ok_env (wf_env w) && forallb (fun kj => ok_job (snd kj)) (wf_jobs w)
  && ok_events false (wf_on w)
  && (negb (has_call_outputs (wf_on w)) || negb (is_nil (wf_jobs w))).

(* ------------------------------------------------------------------ *)
(* observable compared with the implementation                          *)

(* the malformed placeholder shapes the harness injects *)
Definition malformed_shapes : list string := ["${{ 1 + }}"; "${{ a b }}"; "${{ 'x }}"].
Definition is_shape (s : string) : bool := existsb (String.eqb s) malformed_shapes.

Definition pos_eqb (p q : pos) : bool := N.eqb (fst p) (fst q) && N.eqb (snd p) (snd q).
Fixpoint dedup (l : list pos) : list pos :=
  match l with
  | [] => []
  | p :: r => if existsb (pos_eqb p) r then dedup r else p :: dedup r
  end.

(* positions of the scalars at which the rule reports an expression syntax
   error, given that exactly the injected shapes are malformed; [0;0] flags an
   AST that violates the assumed parser invariants *)
Definition predict (w : workflow) : list (list N) :=
  (if wfb w then [] else [[0%N; 0%N]])
  ++ map (fun p => [fst p; snd p])
         (dedup (map (fun c => spos (sc_str (c_scalar c)))
                     (filter (fun c => is_shape (sval (sc_str (c_scalar c)))) (visit fixed w)))).

(* positions handed to a checker / exempt, for the unmutated every-key ASTs *)
Definition routed_positions (w : workflow) : list pos := map (fun c => spos (sc_str (c_scalar c))) (visit fixed w).
