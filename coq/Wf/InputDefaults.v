(* Wf/InputDefaults.v — references to `inputs` from the `default:` of a
   workflow_call input (RuleExpression.VisitWorkflowPre).

   The rule walks the inputs in the order they are declared; the `inputs` object
   it checks a default against holds the inputs declared BEFORE the one whose
   default is checked ("Check default value before setting type to `ity` because
   referring myself should cause an error").  [visit] is that loop.  The property
   (C05) says: inputs sees exactly the declared names - [visit_repaired]. *)
From Coq Require Import List String Bool Arith Lia NArith.
From AL Require Import Base.Corr.
Import ListNotations.
Open Scope string_scope.

Definition mem (r : string) (env : list string) : bool := existsb (String.eqb r) env.

(* one declared input: its (lower-cased) id and the names its default refers to *)
Definition decl := (string * list string)%type.

Fixpoint visit (env : list string) (inputs : list decl) : list (list bool) :=
  match inputs with
  | [] => []
  | (id, refs) :: rest =>
      map (fun r => negb (mem r env)) refs      (* default checked first ...      *)
      :: visit (env ++ [id]) rest               (* ... then the input registered *)
  end.

Definition names (inputs : list decl) : list string := map fst inputs.

Definition visit_repaired (inputs : list decl) : list (list bool) :=
  map (fun d => map (fun r => negb (mem r (names inputs))) (snd d)) inputs.

(* what the code does: a reference is reported iff no input declared strictly
   earlier has that name *)
Lemma visit_char : forall inputs env,
  visit env inputs =
  map (fun i => map (fun r => negb (mem r (env ++ firstn i (names inputs)))) (snd (nth i inputs ("", []))))
      (seq 0 (List.length inputs)).
Proof.
  induction inputs as [|[id refs] rest IH]; intros env; cbn [visit List.length seq map]; [reflexivity|].
  f_equal.
  - cbn [nth snd firstn]. now rewrite app_nil_r.
  - rewrite IH, <- seq_shift, map_map. apply map_ext. intros i. cbn [nth names map firstn fst].
    now rewrite <- app_assoc.
Qed.

Theorem visit_reports_iff_not_declared_earlier inputs i r :
  i < List.length inputs -> In r (snd (nth i inputs ("", []))) ->
  exists row, nth_error (visit [] inputs) i = Some row /\
    forall j, nth_error (snd (nth i inputs ("", []))) j = Some r ->
      nth_error row j = Some (negb (mem r (firstn i (names inputs)))).
Proof.
  intros Hi _. rewrite visit_char. cbn [app].
  exists (map (fun r => negb (mem r (firstn i (names inputs)))) (snd (nth i inputs ("", [])))). split.
  - rewrite nth_error_map, nth_error_nth' with (d := 0) by (rewrite seq_length; exact Hi).
    now rewrite seq_nth by exact Hi.
  - intros j Hj. now rewrite nth_error_map, Hj.
Qed.

(* no false negative: a name that is not declared at all is reported by the code *)
Lemma mem_firstn_false r i l : mem r l = false -> mem r (firstn i l) = false.
Proof.
  unfold mem. revert i. induction l as [|x l IH]; intros [|i] H; cbn in *; try reflexivity.
  apply orb_false_iff in H. destruct H as [H1 H2]. now rewrite H1, IH.
Qed.

Theorem visit_undeclared_reported inputs :
  Forall2 (fun row d => forall j r, nth_error (snd d) j = Some r -> mem r (names inputs) = false ->
                                     nth_error row j = Some true)
          (visit [] inputs) inputs.
Proof.
  rewrite visit_char. cbn [app].
  assert (forall k, k <= List.length inputs ->
    Forall2 (fun row d => forall j r, nth_error (snd d) j = Some r -> mem r (names inputs) = false -> nth_error row j = Some true)
      (map (fun i => map (fun r => negb (mem r (firstn i (names inputs)))) (snd (nth i inputs ("", []))))
           (seq (List.length inputs - k) k))
      (skipn (List.length inputs - k) inputs)) as H.
  { induction k as [|k IH]; intros Hk.
    - rewrite Nat.sub_0_r, skipn_all. constructor.
    - assert (List.length inputs - S k < List.length inputs) as Hlt by lia.
      remember (List.length inputs - S k) as s eqn:Es.
      assert (List.length inputs - k = S s) as E2 by lia.
      cbn [seq map].
      assert (skipn s inputs = nth s inputs ("", []) :: skipn (S s) inputs) as Sk.
      { clear - Hlt. revert s Hlt. induction inputs as [|d l IH]; intros s H; cbn in H; [lia|].
        destruct s as [|s]; [reflexivity|]. cbn [skipn nth]. apply IH. lia. }
      rewrite Sk. constructor.
      + intros j r Hj Hr. rewrite nth_error_map, Hj. cbn. now rewrite mem_firstn_false.
      + rewrite <- E2. apply IH. lia. }
  specialize (H (List.length inputs) (le_n _)). now rewrite Nat.sub_diag in H.
Qed.

(* the repaired loop is the property: reported iff not declared *)
Theorem visit_repaired_spec inputs :
  Forall2 (fun row d => forall j r, nth_error (snd d) j = Some r ->
                                     nth_error row j = Some (negb (mem r (names inputs))))
          (visit_repaired inputs) inputs.
Proof.
  unfold visit_repaired. generalize (names inputs) as ns. intros ns.
  induction inputs as [|d rest IH]; cbn; constructor; [|exact IH].
  intros j r Hj. now rewrite nth_error_map, Hj.
Qed.

(* the code as it is: a DECLARED input is reported when the default that names
   it stands at that input or before it *)
Theorem visit_declared_reported_refuted :
  exists inputs i j r, mem r (names inputs) = true /\
    nth_error (snd (nth i inputs ("", []))) j = Some r /\
    exists row, nth_error (visit [] inputs) i = Some row /\ nth_error row j = Some true.
Proof.
  exists [("first", ["second"]); ("second", [])], 0, 0, "second".
  repeat split. exists [true]. split; reflexivity.
Qed.

(* when every default refers backwards (or to nothing that is declared) the loop of the code and
   the repaired loop report the same: the finding is confined to forward and self references *)
Definition backward_only (inputs : list decl) : Prop :=
  forall i r, i < List.length inputs -> In r (snd (nth i inputs ("", []))) ->
    mem r (names inputs) = true -> mem r (firstn i (names inputs)) = true.

Lemma nth_map_any {A B} (g : A -> B) l i d d' : i < List.length l -> nth i (map g l) d = g (nth i l d').
Proof.
  revert i; induction l as [|x l IH]; intros [|i] H; cbn in *; try lia; [reflexivity|]. apply IH. lia.
Qed.

Theorem visit_agrees_when_backward inputs : backward_only inputs -> visit [] inputs = visit_repaired inputs.
Proof.
  intros B. rewrite visit_char. cbn [app]. unfold visit_repaired.
  apply nth_ext with (d := []) (d' := []).
  - now rewrite !map_length, seq_length.
  - intros i Hi. rewrite map_length, seq_length in Hi.
    rewrite (nth_map_any _ (seq 0 (List.length inputs)) i [] 0) by (rewrite seq_length; exact Hi).
    rewrite seq_nth by exact Hi. cbn [Nat.add].
    rewrite (nth_map_any _ inputs i [] ("", [])) by exact Hi.
    apply map_ext_in. intros r Hr.
    destruct (mem r (names inputs)) eqn:M.
    + now rewrite (B i r Hi Hr M).
    + now rewrite (mem_firstn_false r i _ M).
Qed.

(* --- correspondence ------------------------------------------------------ *)
Definition run_defaults (inputs : list decl) : list tuple :=
  map (fun row => map (fun b : bool => if b then 1%N else 0%N) row) (visit [] inputs).
