(* Wf/Scalars.v — partiality-explicit model of the scalar / value layer of
   /repo/parse.go (C01).

   Modelled, branch by branch, as the code is NOW (after the fix for the NaN
   defect; the pre-fix float parser is kept as [parse_float_old]):

     nodeKindName  posAt  isNull  newString  isExprAssigned (ast.go)
     parser.error/errorf           -> [emit]
     checkNotEmpty checkSequence checkString missingExpression
     parseExpression mayParseExpression parseString
     parseStringSequence parseStringOrStringSequence
     parseBool parseInt parseFloat parseMaxParallel parseTimeoutMinutes
     handleYAMLError

   Conventions.
   * Partial Go operations return [Panic site] in the [res] type; nothing is
     totalised with a default: the [default: panic(...)] of nodeKindName,
     [err.Error()] on a nil error, a field access through a nil pointer
     ([i.Expression], [f.Value]) and the index expression [ss[1]].
   * The parser's state [p.errors] is a writer: every function returns the
     diagnostics it appended, in order ([P A = res (A * list diag)]).
   * Library calls are oracle inputs carried by the node, so the theorems hold
     for ANY behaviour of the library: [n_atoi] is what strconv.Atoi(n.Value)
     returned (value AND error, independently), [n_pfloat] is what
     strconv.ParseFloat(n.Value, 64) returned (class of the float AND error).
   * The input is a minimal YAML node (kind, tag, value, style, line, column,
     children) of its own, [snode]; the kind is the raw yaml.Kind number, so
     a kind outside yaml.v3's five constants is expressible (and makes
     nodeKindName panic).  This is NOT Wf/YNode.v (owned by C13).
   * Message texts are abstracted to a class number ([C_…]); the section
     name arguments ([sec], [expecting]) only flow into messages and are
     dropped. *)
From AL Require Import Base.Str.
From Coq Require Import ZArith.

(* ------------------------------------------------------------------ res *)

Inductive res (A : Type) : Type :=
| Ok (a : A)
| Panic (site : string).
Arguments Ok {A} a.
Arguments Panic {A} site.

Definition is_panic {A} (r : res A) : bool :=
  match r with Panic _ => true | Ok _ => false end.

(* ---------------------------------------------------------------- nodes *)

(* class of a float64 as far as parse.go looks at it: math.IsNaN(f), f <= 0.0 *)
Inductive fcls := FNaN | FLe0 | FGt0.

(* (i, err) := strconv.Atoi(s): both components, no relation assumed *)
Record atoi_res := { ai_val : Z; ai_err : option string }.
(* (f, err) := strconv.ParseFloat(s, 64) *)
Record pfloat_res := { pf_val : fcls; pf_err : option string }.

Inductive snode : Type :=
| SNode (kind : N) (tag value : string) (style line col : N)
        (atoi : atoi_res) (pfloat : pfloat_res) (content : list snode).

Definition n_kind n := match n with SNode k _ _ _ _ _ _ _ _ => k end.
Definition n_tag n := match n with SNode _ t _ _ _ _ _ _ _ => t end.
Definition n_value n := match n with SNode _ _ v _ _ _ _ _ _ => v end.
Definition n_style n := match n with SNode _ _ _ s _ _ _ _ _ => s end.
Definition n_line n := match n with SNode _ _ _ _ l _ _ _ _ => l end.
Definition n_col n := match n with SNode _ _ _ _ _ c _ _ _ => c end.
Definition n_atoi n := match n with SNode _ _ _ _ _ _ a _ _ => a end.
Definition n_pfloat n := match n with SNode _ _ _ _ _ _ _ f _ => f end.
Definition n_content n := match n with SNode _ _ _ _ _ _ _ _ c => c end.

(* yaml.v3: type Kind uint32; DocumentNode = 1 << iota; SequenceNode;
   MappingNode; ScalarNode; AliasNode *)
Definition KDocument : N := 1.
Definition KSequence : N := 2.
Definition KMapping : N := 4.
Definition KScalar : N := 8.
Definition KAlias : N := 16.

(* yaml.v3: TaggedStyle = 1 << iota; DoubleQuotedStyle; SingleQuotedStyle; ... *)
Definition DoubleQuotedStyle : N := 2.
Definition SingleQuotedStyle : N := 4.

(* what yaml.v3 hands over (hypothesis wf_ynode of DESIGN.md section 4,
   asserted by the harness on every tree it dumps): every node of the tree
   has one of the five kinds *)
Definition wf_kindb (k : N) : bool :=
  N.eqb k KDocument || N.eqb k KSequence || N.eqb k KMapping || N.eqb k KScalar || N.eqb k KAlias.
Definition wf_kind (k : N) : Prop := wf_kindb k = true.

Fixpoint wf_node (n : snode) : Prop :=
  match n with
  | SNode k _ _ _ _ _ _ _ cs =>
      wf_kind k /\
      (fix all (l : list snode) : Prop :=
         match l with [] => True | c :: l' => wf_node c /\ all l' end) cs
  end.

Fixpoint wf_nodeb (n : snode) : bool :=
  match n with
  | SNode k _ _ _ _ _ _ _ cs =>
      wf_kindb k &&
      (fix all (l : list snode) : bool :=
         match l with [] => true | c :: l' => wf_nodeb c && all l' end) cs
  end.

(* ---------------------------------------------------------- diagnostics *)

Record diag := { d_line : N; d_col : N; d_class : N }.

(* classes = the format strings of parse.go's value layer *)
Definition C_NOT_SEQUENCE : N := 1.   (* "%q section must be sequence node but got %s node with %q tag" *)
Definition C_EMPTY_SECTION : N := 2.  (* "%q section should not be empty" *)
Definition C_NOT_SCALAR : N := 3.     (* "expected scalar node for string value but found %s node with %q tag" *)
Definition C_EMPTY_STRING : N := 4.   (* "string should not be empty" *)
Definition C_NO_EXPRESSION : N := 5.  (* "expecting a single ${{...}} expression or %s, but found plain text node" *)
Definition C_NOT_BOOL : N := 6.       (* "expected bool value but found %s node with %q tag" *)
Definition C_NOT_INT : N := 7.        (* "expected scalar node for integer value but found %s node with %q tag" *)
Definition C_BAD_INT : N := 8.        (* "invalid integer value: %q: %s" *)
Definition C_NOT_FLOAT : N := 9.      (* "expected scalar node for float value but found %s node with %q tag" *)
Definition C_BAD_FLOAT : N := 10.     (* "invalid float value: %q: %s" *)
Definition C_NAN_FLOAT : N := 11.     (* "invalid float value: %q: not a number" *)
Definition C_MAX_PARALLEL : N := 12.  (* "value at \"max-parallel\" must be greater than zero: %v" *)
Definition C_TIMEOUT : N := 13.       (* "value at \"timeout-minutes\" must be greater than zero: %v" *)
Definition C_YAML : N := 14.          (* "could not parse as YAML: %s" *)

(* ---------------------------------------------------------------- monad *)

Definition P (A : Type) : Type := res (A * list diag).

Definition ret {A} (a : A) : P A := Ok (a, []).
Definition bindP {A B} (m : P A) (f : A -> P B) : P B :=
  match m with
  | Panic s => Panic s
  | Ok (a, d1) =>
      match f a with
      | Panic s => Panic s
      | Ok (b, d2) => Ok (b, d1 ++ d2)
      end
  end.
(* a pure partial operation evaluated inside the parser *)
Definition lift {A} (r : res A) : P A :=
  match r with Ok a => Ok (a, []) | Panic s => Panic s end.

Notation "x <- m ;; k" := (bindP m (fun x => k)) (at level 61, m at next level, right associativity).
Notation "m ;;; k" := (bindP m (fun _ => k)) (at level 61, right associativity).

(* p.error(n, m) / p.errorf(n, fmt, args...): the arguments were evaluated
   by the caller; appends one diagnostic at the node's position *)
Definition emit (n : snode) (cls : N) : P unit :=
  Ok (tt, [{| d_line := n_line n; d_col := n_col n; d_class := cls |}]).

Fixpoint mapP {A B} (f : A -> P B) (l : list A) : P (list B) :=
  match l with
  | [] => ret []
  | a :: l' => b <- f a ;; bs <- mapP f l' ;; ret (b :: bs)
  end.

(* --------------------------------------------------- partial primitives *)

(* func nodeKindName(k yaml.Kind) string { switch k { ...; default: panic(...) } } *)
Definition node_kind_name (k : N) : res string :=
  if N.eqb k KDocument then Ok "document"
  else if N.eqb k KSequence then Ok "sequence"
  else if N.eqb k KMapping then Ok "mapping"
  else if N.eqb k KScalar then Ok "scalar"
  else if N.eqb k KAlias then Ok "alias"
  else Panic "parse.go nodeKindName: unreachable: unknown YAML kind".

(* err.Error() where err may be the nil interface *)
Definition err_error (e : option string) : res string :=
  match e with
  | Some m => Ok m
  | None => Panic "nil pointer dereference: err.Error() with err == nil"
  end.

(* x.f through a pointer that may be nil *)
Definition deref {A} (site : string) (p : option A) : res A :=
  match p with
  | Some a => Ok a
  | None => Panic ("nil pointer dereference: " ++ site)
  end.

(* ss[i] *)
Definition index {A} (site : string) (l : list A) (i : nat) : res A :=
  match nth_error l i with
  | Some a => Ok a
  | None => Panic ("index out of range: " ++ site)
  end.

Definition is_some {A} (o : option A) : bool := match o with Some _ => true | None => false end.

(* ------------------------------------------------------- total helpers *)

Definition pos := (N * N)%type.
Definition pos_at (n : snode) : pos := (n_line n, n_col n).

(* func isNull(n) bool { return n.Kind == yaml.ScalarNode && n.Tag == "!!null" } *)
Definition is_null (n : snode) : bool := N.eqb (n_kind n) KScalar && String.eqb (n_tag n) "!!null".

Record sstring := { s_value : string; s_quoted : bool; s_pos : pos }.

(* quoted := n.Style&(yaml.DoubleQuotedStyle|yaml.SingleQuotedStyle) != 0 *)
Definition new_string (n : snode) : sstring :=
  {| s_value := n_value n;
     s_quoted := negb (N.eqb (N.land (n_style n) (N.lor DoubleQuotedStyle SingleQuotedStyle)) 0);
     s_pos := pos_at n |}.

(* strings.TrimSpace restricted to ASCII white space (\t \n \v \f \r space);
   non-ASCII white space (U+0085, U+00A0, ...) is outside the model and the
   correspondence generator does not use it *)
Definition is_space (c : ascii) : bool :=
  let n := nat_of_ascii c in ((9 <=? n) && (n <=? 13)) || (n =? 32).

Fixpoint trim_left (s : string) : string :=
  match s with
  | String c s' => if is_space c then trim_left s' else s
  | EmptyString => EmptyString
  end.

(* drops trailing white space: keep a character iff it is not white space or
   something that is kept follows *)
Fixpoint trim_right (s : string) : string :=
  match s with
  | EmptyString => EmptyString
  | String c s' =>
      match trim_right s' with
      | EmptyString => if is_space c then EmptyString else String c EmptyString
      | r => String c r
      end
  end.

Definition trim_space (s : string) : string := trim_right (trim_left s).

Fixpoint has_suffix (suf s : string) : bool :=
  if String.eqb suf s then true
  else match s with
       | EmptyString => false
       | String _ s' => has_suffix suf s'
       end.

(* strings.Count(s, "${{") — occurrences cannot overlap *)
Fixpoint count_open (s : string) : nat :=
  match s with
  | EmptyString => 0
  | String _ s' => (if String.prefix "${{" s then 1 else 0) + count_open s'
  end.

(* ast.go: isExprAssigned *)
Definition is_expr_assigned (s : string) : bool :=
  let v := trim_space s in
  String.prefix "${{" v && has_suffix "}}" v && (count_open v =? 1).

(* --------------------------------------------------------------- checks *)

(* func (p *parser) checkNotEmpty(sec string, len int, n *yaml.Node) bool *)
Definition check_not_empty (len : nat) (n : snode) : P bool :=
  if len =? 0 then emit n C_EMPTY_SECTION ;;; ret false else ret true.

(* func (p *parser) checkSequence(sec string, n *yaml.Node, allowEmpty bool) bool *)
Definition check_sequence (n : snode) (allow_empty : bool) : P bool :=
  if negb (N.eqb (n_kind n) KSequence) then
    _ <- lift (node_kind_name (n_kind n)) ;;
    emit n C_NOT_SEQUENCE ;;; ret false
  else if allow_empty then ret true
  else check_not_empty (length (n_content n)) n.

(* func (p *parser) checkString(n *yaml.Node, allowEmpty bool) bool *)
Definition check_string (n : snode) (allow_empty : bool) : P bool :=
  if negb (N.eqb (n_kind n) KScalar) then
    _ <- lift (node_kind_name (n_kind n)) ;;
    emit n C_NOT_SCALAR ;;; ret false
  else if negb allow_empty && String.eqb (n_value n) "" then
    emit n C_EMPTY_STRING ;;; ret false
  else ret true.

(* missingExpression + parseExpression: nil (None) when no expression *)
Definition parse_expression (n : snode) : P (option sstring) :=
  if negb (is_expr_assigned (n_value n)) then
    emit n C_NO_EXPRESSION ;;; ret None
  else ret (Some (new_string n)).

Definition may_parse_expression (n : snode) : P (option sstring) :=
  if negb (String.eqb (n_tag n) "!!str") then ret None
  else if negb (is_expr_assigned (n_value n)) then ret None
  else ret (Some (new_string n)).

(* func (p *parser) parseString(n, allowEmpty) *String — the result is a
   pointer; the model keeps that ([option]) because parseStringSequence tests
   it against nil *)
Definition parse_string (n : snode) (allow_empty : bool) : P (option sstring) :=
  ok <- check_string n allow_empty ;;
  if negb ok then ret (Some {| s_value := ""; s_quoted := false; s_pos := pos_at n |})
  else ret (Some (new_string n)).

Fixpoint somes {A} (l : list (option A)) : list A :=
  match l with
  | [] => []
  | Some a :: l' => a :: somes l'
  | None :: l' => somes l'
  end.

(* func (p *parser) parseStringSequence(sec, n, allowEmpty, allowElemEmpty) []*String
   — nil slice and empty slice are not distinguished by any caller of the
   value layer; both are [] here *)
Definition parse_string_sequence (n : snode) (allow_empty allow_elem_empty : bool) : P (list sstring) :=
  ok <- check_sequence n allow_empty ;;
  if negb ok then ret []
  else ss <- mapP (fun c => parse_string c allow_elem_empty) (n_content n) ;; ret (somes ss).

(* func (p *parser) parseStringOrStringSequence(sec, n, allowEmpty, allowElemEmpty) []*String *)
Definition parse_string_or_string_sequence (n : snode) (allow_empty allow_elem_empty : bool) : P (list sstring) :=
  if N.eqb (n_kind n) KScalar then
    if allow_empty && String.eqb (n_tag n) "!!null" then ret []
    else s <- parse_string n allow_elem_empty ;; ret (somes [s])
  else parse_string_sequence n allow_empty allow_elem_empty.

(* ------------------------------------------------------- bool/int/float *)

Record sbool := { b_value : bool; b_expr : option sstring; b_pos : pos }.
Record sint := { i_value : Z; i_expr : option sstring; i_pos : pos }.
Record sfloat := { f_value : fcls; f_expr : option sstring; f_pos : pos }.

Definition tag_is (n : snode) (t : string) : bool := String.eqb (n_tag n) t.

(* func (p *parser) parseBool(n *yaml.Node) *Bool *)
Definition parse_bool (n : snode) : P (option sbool) :=
  if negb (N.eqb (n_kind n) KScalar) || (negb (tag_is n "!!bool") && negb (tag_is n "!!str")) then
    _ <- lift (node_kind_name (n_kind n)) ;;
    emit n C_NOT_BOOL ;;; ret None
  else if tag_is n "!!str" then
    e <- parse_expression n ;;
    ret (Some {| b_value := false; b_expr := e; b_pos := pos_at n |})
  else ret (Some {| b_value := String.eqb (n_value n) "true"; b_expr := None; b_pos := pos_at n |}).

(* func (p *parser) parseInt(n *yaml.Node) *Int *)
Definition parse_int (n : snode) : P (option sint) :=
  if negb (N.eqb (n_kind n) KScalar) || (negb (tag_is n "!!int") && negb (tag_is n "!!str")) then
    _ <- lift (node_kind_name (n_kind n)) ;;
    emit n C_NOT_INT ;;; ret None
  else if tag_is n "!!str" then
    e <- parse_expression n ;;
    match e with
    | None => ret None
    | Some _ => ret (Some {| i_value := 0; i_expr := e; i_pos := pos_at n |})
    end
  else
    let i := ai_val (n_atoi n) in
    let err := ai_err (n_atoi n) in
    if is_some err then
      _ <- lift (err_error err) ;;
      emit n C_BAD_INT ;;; ret None
    else ret (Some {| i_value := i; i_expr := None; i_pos := pos_at n |}).

Definition is_nan (f : fcls) : bool := match f with FNaN => true | _ => false end.
(* f <= 0.0 : false for NaN *)
Definition fle0 (f : fcls) : bool := match f with FLe0 => true | _ => false end.

Definition float_guard (n : snode) : bool :=
  negb (N.eqb (n_kind n) KScalar) ||
  (negb (tag_is n "!!float") && negb (tag_is n "!!int") && negb (tag_is n "!!str")).

Definition float_expr (n : snode) : P (option sfloat) :=
  e <- parse_expression n ;;
  match e with
  | None => ret None
  | Some _ => ret (Some {| f_value := FLe0 (* 0.0 *); f_expr := e; f_pos := pos_at n |})
  end.

(* func (p *parser) parseFloat(n *yaml.Node) *Float — after the fix:
     f, err := strconv.ParseFloat(n.Value, 64)
     if err != nil { p.errorf(..., err.Error()); return nil }
     if math.IsNaN(f) { p.errorf(... "not a number"); return nil } *)
Definition parse_float (n : snode) : P (option sfloat) :=
  if float_guard n then
    _ <- lift (node_kind_name (n_kind n)) ;;
    emit n C_NOT_FLOAT ;;; ret None
  else if tag_is n "!!str" then float_expr n
  else
    let f := pf_val (n_pfloat n) in
    let err := pf_err (n_pfloat n) in
    if is_some err then
      _ <- lift (err_error err) ;;
      emit n C_BAD_FLOAT ;;; ret None
    else if is_nan f then
      emit n C_NAN_FLOAT ;;; ret None
    else ret (Some {| f_value := f; f_expr := None; f_pos := pos_at n |}).

(* the code before the fix (defect #1 of DESIGN.md Appendix A):
     if err != nil || math.IsNaN(f) { p.errorf(..., err.Error()); return nil } *)
Definition parse_float_old (n : snode) : P (option sfloat) :=
  if float_guard n then
    _ <- lift (node_kind_name (n_kind n)) ;;
    emit n C_NOT_FLOAT ;;; ret None
  else if tag_is n "!!str" then float_expr n
  else
    let f := pf_val (n_pfloat n) in
    let err := pf_err (n_pfloat n) in
    if is_some err || is_nan f then
      _ <- lift (err_error err) ;;
      emit n C_BAD_FLOAT ;;; ret None
    else ret (Some {| f_value := f; f_expr := None; f_pos := pos_at n |}).

(* func (p *parser) parseMaxParallel(n *yaml.Node) *Int {
     i := p.parseInt(n)
     if i != nil && i.Expression == nil && i.Value <= 0 { p.errorf(...) }
     return i } *)
Definition parse_max_parallel (n : snode) : P (option sint) :=
  i <- parse_int n ;;
  c <- (if is_some i then
          iv <- lift (deref "i.Expression" i) ;;
          ret (negb (is_some (i_expr iv)) && (i_value iv <=? 0)%Z)
        else ret false) ;;
  (if (c : bool) then emit n C_MAX_PARALLEL else ret tt) ;;;
  ret i.

(* func (p *parser) parseTimeoutMinutes(n *yaml.Node) *Float *)
Definition timeout_after (n : snode) (f : option sfloat) : P (option sfloat) :=
  c <- (if is_some f then
          fv <- lift (deref "f.Expression" f) ;;
          ret (negb (is_some (f_expr fv)) && fle0 (f_value fv))
        else ret false) ;;
  (if (c : bool) then emit n C_TIMEOUT else ret tt) ;;;
  ret f.

Definition parse_timeout_minutes (n : snode) : P (option sfloat) :=
  f <- parse_float n ;; timeout_after n f.

Definition parse_timeout_minutes_old (n : snode) : P (option sfloat) :=
  f <- parse_float_old n ;; timeout_after n f.

(* ------------------------------------------------------ handleYAMLError *)

(* one message of the YAML library together with the library results the
   code computes from it: ss := re.FindStringSubmatch(msg) and, when it is
   used, strconv.Atoi(ss[1]) *)
Record ymsg := { ym_submatch : list string; ym_atoi : atoi_res }.

(* the dynamic type of the error: *yaml.TypeError (a list of messages) or
   anything else (err.Error() is the message) *)
Inductive yaml_err :=
| YTypeError (msgs : list ymsg)
| YOther (msg : ymsg).

(* yamlErr := func(msg string) *Error {
     l := 0
     if ss := re.FindStringSubmatch(msg); len(ss) > 1 { l, _ = strconv.Atoi(ss[1]) }
     return &Error{msg, "", l, 0, "syntax-check"} } *)
Definition yaml_err_diag (m : ymsg) : res diag :=
  if 1 <? length (ym_submatch m) then
    match index "ss[1]" (ym_submatch m) 1 with
    | Panic s => Panic s
    | Ok _ => Ok {| d_line := Z.to_N (ai_val (ym_atoi m)); d_col := 0; d_class := C_YAML |}
    end
  else Ok {| d_line := 0; d_col := 0; d_class := C_YAML |}.

Fixpoint map_res {A B} (f : A -> res B) (l : list A) : res (list B) :=
  match l with
  | [] => Ok []
  | a :: l' =>
      match f a with
      | Panic s => Panic s
      | Ok b => match map_res f l' with Panic s => Panic s | Ok bs => Ok (b :: bs) end
      end
  end.

(* func handleYAMLError(err error) []*Error — [None] is the nil interface:
   the comma-ok type assertion fails and err.Error() dereferences nil *)
Definition handle_yaml_error (err : option yaml_err) : res (list diag) :=
  match err with
  | Some (YTypeError msgs) => map_res yaml_err_diag msgs
  | Some (YOther m) =>
      match yaml_err_diag m with Panic s => Panic s | Ok d => Ok [d] end
  | None => Panic "nil pointer dereference: err.Error() with err == nil"
  end.

(* Parse: if err := yaml.Unmarshal(b, &n); err != nil { return nil, handleYAMLError(err) }
   — the error branch of Parse, with the continuation for the other branch *)
Definition parse_entry (unmarshal_err : option yaml_err) (k : res (list diag)) : res (list diag) :=
  if is_some unmarshal_err then handle_yaml_error unmarshal_err else k.
