(* Wf/SpecAvailability.v — GitHub's "Context availability" table, the ground truth of C12.
   Transcribed ONCE (harness/cmd/c12 -transcribe) from the 34 rows of the documentation page of
   which the repository carries a verbatim copy (scripts/generate-availability/testdata/ok.md,
   lines 93-128, kept as harness/cmd/c12/spec_table.md) and committed; it is NOT regenerated from
   the repository and shares nothing with availability.go.  Rows, names and their order are as
   the documentation writes them (`None` = no special function); [table] is the canonical form
   (rows sorted by key, names lower-cased and sorted) in which tables are compared as finite maps.
   Every run checks that this file still is the transcription of spec_table.md. *)
From AL Require Import Wf.AvailCanon.

Definition rows : list (string * (list string * list string)) := [
  ("run-name", (["github"; "inputs"; "vars"], []));
  ("concurrency", (["github"; "inputs"; "vars"], []));
  ("env", (["github"; "secrets"; "inputs"; "vars"], []));
  ("jobs.<job_id>.concurrency", (["github"; "needs"; "strategy"; "matrix"; "inputs"; "vars"], []));
  ("jobs.<job_id>.container", (["github"; "needs"; "strategy"; "matrix"; "vars"; "inputs"], []));
  ("jobs.<job_id>.container.credentials", (["github"; "needs"; "strategy"; "matrix"; "env"; "vars"; "secrets"; "inputs"], []));
  ("jobs.<job_id>.container.env.<env_id>", (["github"; "needs"; "strategy"; "matrix"; "job"; "runner"; "env"; "vars"; "secrets"; "inputs"], []));
  ("jobs.<job_id>.container.image", (["github"; "needs"; "strategy"; "matrix"; "vars"; "inputs"], []));
  ("jobs.<job_id>.continue-on-error", (["github"; "needs"; "strategy"; "vars"; "matrix"; "inputs"], []));
  ("jobs.<job_id>.defaults.run", (["github"; "needs"; "strategy"; "matrix"; "env"; "vars"; "inputs"], []));
  ("jobs.<job_id>.env", (["github"; "needs"; "strategy"; "matrix"; "vars"; "secrets"; "inputs"], []));
  ("jobs.<job_id>.environment", (["github"; "needs"; "strategy"; "matrix"; "vars"; "inputs"], []));
  ("jobs.<job_id>.environment.url", (["github"; "needs"; "strategy"; "matrix"; "job"; "runner"; "env"; "vars"; "steps"; "inputs"], []));
  ("jobs.<job_id>.if", (["github"; "needs"; "vars"; "inputs"], ["always"; "cancelled"; "success"; "failure"]));
  ("jobs.<job_id>.name", (["github"; "needs"; "strategy"; "matrix"; "vars"; "inputs"], []));
  ("jobs.<job_id>.outputs.<output_id>", (["github"; "needs"; "strategy"; "matrix"; "job"; "runner"; "env"; "vars"; "secrets"; "steps"; "inputs"], []));
  ("jobs.<job_id>.runs-on", (["github"; "needs"; "strategy"; "matrix"; "vars"; "inputs"], []));
  ("jobs.<job_id>.secrets.<secrets_id>", (["github"; "needs"; "strategy"; "matrix"; "secrets"; "inputs"; "vars"], []));
  ("jobs.<job_id>.services", (["github"; "needs"; "strategy"; "matrix"; "vars"; "inputs"], []));
  ("jobs.<job_id>.services.<service_id>.credentials", (["github"; "needs"; "strategy"; "matrix"; "env"; "vars"; "secrets"; "inputs"], []));
  ("jobs.<job_id>.services.<service_id>.env.<env_id>", (["github"; "needs"; "strategy"; "matrix"; "job"; "runner"; "env"; "vars"; "secrets"; "inputs"], []));
  ("jobs.<job_id>.steps.continue-on-error", (["github"; "needs"; "strategy"; "matrix"; "job"; "runner"; "env"; "vars"; "secrets"; "steps"; "inputs"], ["hashFiles"]));
  ("jobs.<job_id>.steps.env", (["github"; "needs"; "strategy"; "matrix"; "job"; "runner"; "env"; "vars"; "secrets"; "steps"; "inputs"], ["hashFiles"]));
  ("jobs.<job_id>.steps.if", (["github"; "needs"; "strategy"; "matrix"; "job"; "runner"; "env"; "vars"; "steps"; "inputs"], ["always"; "cancelled"; "success"; "failure"; "hashFiles"]));
  ("jobs.<job_id>.steps.name", (["github"; "needs"; "strategy"; "matrix"; "job"; "runner"; "env"; "vars"; "secrets"; "steps"; "inputs"], ["hashFiles"]));
  ("jobs.<job_id>.steps.run", (["github"; "needs"; "strategy"; "matrix"; "job"; "runner"; "env"; "vars"; "secrets"; "steps"; "inputs"], ["hashFiles"]));
  ("jobs.<job_id>.steps.timeout-minutes", (["github"; "needs"; "strategy"; "matrix"; "job"; "runner"; "env"; "vars"; "secrets"; "steps"; "inputs"], ["hashFiles"]));
  ("jobs.<job_id>.steps.with", (["github"; "needs"; "strategy"; "matrix"; "job"; "runner"; "env"; "vars"; "secrets"; "steps"; "inputs"], ["hashFiles"]));
  ("jobs.<job_id>.steps.working-directory", (["github"; "needs"; "strategy"; "matrix"; "job"; "runner"; "env"; "vars"; "secrets"; "steps"; "inputs"], ["hashFiles"]));
  ("jobs.<job_id>.strategy", (["github"; "needs"; "vars"; "inputs"], []));
  ("jobs.<job_id>.timeout-minutes", (["github"; "needs"; "strategy"; "matrix"; "vars"; "inputs"], []));
  ("jobs.<job_id>.with.<with_id>", (["github"; "needs"; "strategy"; "matrix"; "inputs"; "vars"], []));
  ("on.workflow_call.inputs.<inputs_id>.default", (["github"; "inputs"; "vars"], []));
  ("on.workflow_call.outputs.<output_id>.value", (["github"; "jobs"; "vars"; "inputs"], []))
].

Definition table := canon rows.
