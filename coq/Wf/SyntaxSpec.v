(* Wf/SyntaxSpec.v — the key sets fixed by the workflow syntax, written once from
   GitHub's "Workflow syntax for GitHub Actions" and "Events that trigger
   workflows" references (and DESIGN.md Appendix C for the case-sensitivity /
   empty-allowed columns).  This file does not mention the model; the theorem
   [section_tables_spec] (Wf/ParseProofs.v) compares the model's tables with it.

   Each entry: parser function, ordinal of the key switch inside the function,
   documented keys, whether the key set is closed (any other key is an error),
   whether an empty/null mapping is allowed, whether keys are compared
   case-sensitively. *)
From AL Require Import Base.Str.

Record doc_section := DS {
  ds_fn : string; ds_keys : list string; ds_closed : bool;
  ds_allow_empty : bool; ds_cs : bool }.

Definition documented_sections : list doc_section :=
  [ (* on.workflow_dispatch *)
    DS "parseWorkflowDispatchEvent" ["inputs"] true true true;
    (* on.workflow_dispatch.inputs.<input_id> *)
    DS "parseWorkflowDispatchEvent" ["description"; "required"; "default"; "type"; "options"] true true true;
    (* on.repository_dispatch *)
    DS "parseRepositoryDispatchEvent" ["types"] true true true;
    (* on.<event_name>: activity types and filters (workflows: for workflow_run) *)
    DS "parseWebhookEvent" ["types"; "branches"; "branches-ignore"; "tags"; "tags-ignore";
                             "paths"; "paths-ignore"; "workflows"] true true true;
    (* on.workflow_call *)
    DS "parseWorkflowCallEvent" ["inputs"; "secrets"; "outputs"] true true true;
    (* on.workflow_call.inputs.<input_id> *)
    DS "parseWorkflowCallEvent" ["description"; "required"; "default"; "type"] true true true;
    (* on.workflow_call.secrets.<secret_id> *)
    DS "parseWorkflowCallEvent" ["description"; "required"] true true true;
    (* on.workflow_call.outputs.<output_id> *)
    DS "parseWorkflowCallEvent" ["description"; "value"] true true true;
    (* on (mapping form): the four events configured by a mapping of their own;
       any other key is the name of a webhook event *)
    DS "parseEvents" ["schedule"; "workflow_dispatch"; "repository_dispatch"; "workflow_call"] false false true;
    (* defaults *)
    DS "parseDefaults" ["run"] true false true;
    (* defaults.run *)
    DS "parseDefaults" ["shell"; "working-directory"] true false true;
    (* concurrency *)
    DS "parseConcurrency" ["group"; "cancel-in-progress"] true false true;
    (* jobs.<job_id>.environment *)
    DS "parseEnvironment" ["name"; "url"] true false true;
    (* jobs.<job_id>.strategy.matrix: include, exclude, any other key is a row *)
    DS "parseMatrix" ["include"; "exclude"] false false false;
    (* jobs.<job_id>.strategy *)
    DS "parseStrategy" ["matrix"; "fail-fast"; "max-parallel"] true false true;
    (* jobs.<job_id>.container, jobs.<job_id>.services.<service_id> *)
    DS "parseContainer" ["image"; "credentials"; "env"; "ports"; "volumes"; "options"] true false true;
    (* ....credentials *)
    DS "parseContainer" ["username"; "password"] true false true;
    (* jobs.<job_id>.steps[*] *)
    DS "parseStep" ["id"; "if"; "name"; "uses"; "run"; "working-directory"; "shell"; "with"; "env";
                     "continue-on-error"; "timeout-minutes"] true false true;
    (* jobs.<job_id>.steps[*].with: args and entrypoint are predefined, any other key is an input *)
    DS "parseStep" ["args"; "entrypoint"] false false false;
    (* jobs.<job_id>.runs-on (mapping form) *)
    DS "parseRunsOn" ["group"; "labels"] true false true;
    (* jobs.<job_id> *)
    DS "parseJob" ["name"; "permissions"; "needs"; "if"; "runs-on"; "environment"; "concurrency";
                    "outputs"; "env"; "defaults"; "steps"; "timeout-minutes"; "strategy";
                    "continue-on-error"; "container"; "services"; "uses"; "with"; "secrets"] true false true;
    (* top level *)
    DS "parse" ["name"; "run-name"; "on"; "permissions"; "env"; "defaults"; "concurrency"; "jobs"] true false true ].

(* mandatory keys named by the property, per parser function *)
Definition documented_mandatory : list (string * list string) :=
  [ ("parse", ["on"; "jobs"]);
    ("parseJob", ["runs-on"; "steps"]);                 (* unless the job has "uses" *)
    ("parseStep", ["run"; "uses"]);                     (* one of them *)
    ("parseWorkflowCallEvent", ["type"; "value"]);      (* input type, output value *)
    ("parseConcurrency", ["group"]);
    ("parseEnvironment", ["name"]);
    ("parseContainer", ["username"; "password"]) ].
