(* Wf/ParseProofs.v — proofs about parseMapping and the section combinator:
   unknown / duplicate / missing keys are reported, siblings are unaffected, and
   the ties of the section tables to Wf/SyntaxSpec.v and Gen/GenParseKeys.v. *)
From AL Require Import Base.Str Wf.YNode Wf.Mapping Wf.Sections Wf.SyntaxSpec Gen.GenParseKeys.
From Coq Require Import NArith Lia.

(* ---------------------------------------------------------------- small facts *)

Lemma is_map_not_null n : is_map n = true -> is_null n = false.
Proof.
  unfold is_map, is_null, is_scalar. destruct (ykindof n); cbn; intro H; try discriminate; reflexivity.
Qed.

Lemma assoc_pos_cons_other id id' p seen :
  id <> id' -> assoc_pos id ((id', p) :: seen) = assoc_pos id seen.
Proof. intro H. cbn. destruct (String.eqb id id') eqn:E; [apply String.eqb_eq in E; contradiction|reflexivity]. Qed.

Lemma assoc_pos_cons_same id p seen : assoc_pos id ((id, p) :: seen) = Some p.
Proof. cbn. now rewrite string_eqb_refl. Qed.

Lemma assoc_pos_cons_some id x seen : assoc_pos id seen <> None -> assoc_pos id (x :: seen) <> None.
Proof. destruct x as [id' p]. cbn. destruct (String.eqb id id'); [discriminate|auto]. Qed.

Lemma pm_loop_cons cs k v r seen :
  pm_loop cs ((k, v) :: r) seen =
  match assoc_pos (key_id cs k) seen with
  | Some p => let '(d, m) := pm_loop cs r seen in
              (parse_string k false ++ D (DDuplicate (key_name k) p) (ypos k) :: d, m)
  | None => let '(d, m) := pm_loop cs r ((key_id cs k, ypos k) :: seen) in
            (parse_string k false ++ d, KV (key_id cs k) (key_name k) (ypos k) v :: m)
  end.
Proof. reflexivity. Qed.

(* ---------------------------------------------------------------- parseMapping: kept entries *)

(* every returned entry comes from a pair of the mapping *)
Lemma pm_loop_from_pair cs ps : forall seen e,
  In e (snd (pm_loop cs ps seen)) ->
  exists k v, In (k, v) ps /\ e = KV (key_id cs k) (key_name k) (ypos k) v.
Proof.
  induction ps as [|[k v] r IH]; intros seen e H; [destruct H|].
  rewrite pm_loop_cons in H.
  destruct (assoc_pos (key_id cs k) seen).
  - destruct (pm_loop cs r seen) as [d m] eqn:E. cbn in H.
    destruct (IH seen e) as (k' & v' & Hin & He); [now rewrite E|].
    exists k', v'. split; [now right|assumption].
  - destruct (pm_loop cs r ((key_id cs k, ypos k) :: seen)) as [d m] eqn:E. cbn in H.
    destruct H as [H|H].
    + exists k, v. split; [now left|now symmetry].
    + destruct (IH ((key_id cs k, ypos k) :: seen) e) as (k' & v' & Hin & He); [now rewrite E|].
      exists k', v'. split; [now right|assumption].
Qed.

(* the first occurrence of an id is kept *)
Lemma pm_loop_first cs ps : forall seen i k v,
  nth_error ps i = Some (k, v) ->
  assoc_pos (key_id cs k) seen = None ->
  (forall j k' v', j < i -> nth_error ps j = Some (k', v') -> key_id cs k' <> key_id cs k) ->
  In (KV (key_id cs k) (key_name k) (ypos k) v) (snd (pm_loop cs ps seen)).
Proof.
  induction ps as [|[k0 v0] r IH]; intros seen i k v Hn Hs Hf; [destruct i; discriminate|].
  rewrite pm_loop_cons. destruct i as [|i].
  - cbn in Hn. inversion Hn; subst. rewrite Hs.
    destruct (pm_loop cs r _) as [d m]. cbn. now left.
  - cbn in Hn.
    assert (Hne : key_id cs k0 <> key_id cs k) by (apply (Hf 0 k0 v0); [lia|reflexivity]).
    assert (Hf' : forall j k' v', j < i -> nth_error r j = Some (k', v') -> key_id cs k' <> key_id cs k).
    { intros j k' v' Hj Hnj. apply (Hf (S j) k' v'); [lia|exact Hnj]. }
    destruct (assoc_pos (key_id cs k0) seen).
    + specialize (IH seen i k v Hn Hs Hf'). destruct (pm_loop cs r seen) as [d m]. exact IH.
    + assert (Hs' : assoc_pos (key_id cs k) ((key_id cs k0, ypos k0) :: seen) = None).
      { rewrite assoc_pos_cons_other; [exact Hs|congruence]. }
      specialize (IH _ i k v Hn Hs' Hf'). destruct (pm_loop cs r _) as [d m]. cbn. now right.
Qed.

(* a repetition is reported at the repetition *)
Lemma pm_loop_dup cs ps : forall seen i k v,
  nth_error ps i = Some (k, v) ->
  (assoc_pos (key_id cs k) seen <> None \/
   exists j k' v', j < i /\ nth_error ps j = Some (k', v') /\ key_id cs k' = key_id cs k) ->
  exists p, In (D (DDuplicate (key_name k) p) (ypos k)) (fst (pm_loop cs ps seen)).
Proof.
  induction ps as [|[k0 v0] r IH]; intros seen i k v Hn Hd; [destruct i; discriminate|].
  rewrite pm_loop_cons. destruct i as [|i].
  - cbn in Hn. inversion Hn; subst.
    destruct Hd as [Hd|(j & _ & _ & Hj & _)]; [|lia].
    destruct (assoc_pos (key_id cs k) seen) as [p|]; [|contradiction].
    destruct (pm_loop cs r seen) as [d m]. exists p. cbn. apply in_or_app. right. now left.
  - cbn in Hn.
    destruct (assoc_pos (key_id cs k0) seen) as [p0|] eqn:E0.
    + assert (Hd' : assoc_pos (key_id cs k) seen <> None \/
                    exists j k' v', j < i /\ nth_error r j = Some (k', v') /\ key_id cs k' = key_id cs k).
      { destruct Hd as [Hd|(j & k' & v' & Hj & Hnj & He)]; [now left|].
        destruct j as [|j].
        - cbn in Hnj. inversion Hnj; subst. left. rewrite <- He, E0. discriminate.
        - right. exists j, k', v'. repeat split; [lia|exact Hnj|exact He]. }
      destruct (IH seen i k v Hn Hd') as [p Hp]. destruct (pm_loop cs r seen) as [d m].
      exists p. cbn in *. apply in_or_app. right. right. exact Hp.
    + assert (Hd' : assoc_pos (key_id cs k) ((key_id cs k0, ypos k0) :: seen) <> None \/
                    exists j k' v', j < i /\ nth_error r j = Some (k', v') /\ key_id cs k' = key_id cs k).
      { destruct Hd as [Hd|(j & k' & v' & Hj & Hnj & He)].
        - left. now apply assoc_pos_cons_some.
        - destruct j as [|j].
          + cbn in Hnj. inversion Hnj; subst. left. rewrite He, assoc_pos_cons_same. discriminate.
          + right. exists j, k', v'. repeat split; [lia|exact Hnj|exact He]. }
      destruct (IH _ i k v Hn Hd') as [p Hp]. destruct (pm_loop cs r _) as [d m].
      exists p. cbn in *. apply in_or_app. now right.
Qed.

(* the result does not depend on entries of [seen] for ids that do not occur *)
Lemma pm_loop_seen_irrelevant cs ps : forall seen seen',
  (forall k v, In (k, v) ps -> assoc_pos (key_id cs k) seen = assoc_pos (key_id cs k) seen') ->
  pm_loop cs ps seen = pm_loop cs ps seen'.
Proof.
  induction ps as [|[k v] r IH]; intros seen seen' H; [reflexivity|].
  rewrite !pm_loop_cons. rewrite <- (H k v) by now left.
  destruct (assoc_pos (key_id cs k) seen).
  - rewrite (IH seen seen'); [reflexivity|]. intros k' v' Hin. apply (H k' v'). now right.
  - rewrite (IH ((key_id cs k, ypos k) :: seen) ((key_id cs k, ypos k) :: seen')); [reflexivity|].
    intros k' v' Hin. cbn. destruct (String.eqb (key_id cs k') (key_id cs k)); [reflexivity|].
    apply (H k' v'). now right.
Qed.

Lemma pm_loop_nonempty cs k v r : snd (pm_loop cs ((k, v) :: r) []) <> [].
Proof.
  rewrite pm_loop_cons. cbn [assoc_pos]. destruct (pm_loop cs r _) as [d m]. cbn. discriminate.
Qed.

(* ---------------------------------------------------------------- insertion of a pair *)

(* a key written as a non-empty scalar: parseString reports nothing about it *)
Definition clean_key (k : ynode) : Prop := parse_string k false = [].

(* inserting a pair whose id does not occur in the mapping: the diagnostics of
   parseMapping are unchanged and the new entry appears among the kept ones *)
Lemma pm_loop_insert_fresh cs k v : clean_key k -> forall ps i seen,
  (forall k' v', In (k', v') ps -> key_id cs k' <> key_id cs k) ->
  assoc_pos (key_id cs k) seen = None ->
  exists m1 m2,
    snd (pm_loop cs ps seen) = m1 ++ m2 /\
    pm_loop cs (insert_at i (k, v) ps) seen =
      (fst (pm_loop cs ps seen), m1 ++ KV (key_id cs k) (key_name k) (ypos k) v :: m2).
Proof.
  intros Hc. induction ps as [|[k0 v0] r IH]; intros i seen Hfresh Hs.
  - exists [], []. split; [reflexivity|].
    assert (insert_at i (k, v) [] = [(k, v)]) as -> by (destruct i; reflexivity).
    rewrite pm_loop_cons, Hs. cbn. rewrite Hc. reflexivity.
  - destruct i as [|i].
    + exists [], (snd (pm_loop cs ((k0, v0) :: r) seen)). split; [reflexivity|].
      cbn [insert_at]. rewrite (pm_loop_cons cs k v), Hs.
      rewrite (pm_loop_seen_irrelevant cs ((k0, v0) :: r) ((key_id cs k, ypos k) :: seen) seen).
      * destruct (pm_loop cs ((k0, v0) :: r) seen) as [d m]. cbn. now rewrite Hc.
      * intros k' v' Hin. apply assoc_pos_cons_other. now apply (Hfresh k' v').
    + cbn [insert_at]. rewrite !pm_loop_cons.
      assert (Hf' : forall k' v', In (k', v') r -> key_id cs k' <> key_id cs k)
        by (intros k' v' Hin; apply (Hfresh k' v'); now right).
      destruct (assoc_pos (key_id cs k0) seen) as [p0|].
      * destruct (IH i seen Hf' Hs) as (m1 & m2 & E1 & E2). rewrite E2.
        destruct (pm_loop cs r seen) as [d m]. cbn in *. exists m1, m2. now subst.
      * assert (Hs' : assoc_pos (key_id cs k) ((key_id cs k0, ypos k0) :: seen) = None).
        { rewrite assoc_pos_cons_other; [exact Hs|]. intro E. apply (Hfresh k0 v0); [now left|now symmetry]. }
        destruct (IH i _ Hf' Hs') as (m1 & m2 & E1 & E2). rewrite E2.
        destruct (pm_loop cs r _) as [d m]. cbn in *.
        exists (KV (key_id cs k0) (key_name k0) (ypos k0) v0 :: m1), m2. now subst.
Qed.

(* inserting a repetition after an occurrence of the same id: the kept entries
   are unchanged, one Duplicate diagnostic is added, the others stay in order *)
Lemma pm_loop_insert_dup cs k v : clean_key k -> forall ps i seen,
  (assoc_pos (key_id cs k) seen <> None \/
   exists j k' v', j < i /\ nth_error ps j = Some (k', v') /\ key_id cs k' = key_id cs k) ->
  exists d1 d2 p,
    fst (pm_loop cs ps seen) = d1 ++ d2 /\
    pm_loop cs (insert_at i (k, v) ps) seen =
      (d1 ++ D (DDuplicate (key_name k) p) (ypos k) :: d2, snd (pm_loop cs ps seen)).
Proof.
  intros Hc. induction ps as [|[k0 v0] r IH]; intros i seen Hd.
  - assert (insert_at i (k, v) [] = [(k, v)]) as -> by (destruct i; reflexivity).
    destruct Hd as [Hd|(j & k' & v' & _ & Hn & _)]; [|destruct j; discriminate].
    rewrite pm_loop_cons. destruct (assoc_pos (key_id cs k) seen) as [p|]; [|contradiction].
    exists [], [], p. cbn. rewrite Hc. split; reflexivity.
  - destruct i as [|i].
    + destruct Hd as [Hd|(j & _ & _ & Hj & _)]; [|lia].
      cbn [insert_at]. rewrite (pm_loop_cons cs k v).
      destruct (assoc_pos (key_id cs k) seen) as [p|]; [|contradiction].
      destruct (pm_loop cs ((k0, v0) :: r) seen) as [d m]. exists [], d, p. cbn. rewrite Hc. split; reflexivity.
    + cbn [insert_at]. rewrite !pm_loop_cons.
      destruct (assoc_pos (key_id cs k0) seen) as [p0|] eqn:E0.
      * assert (Hd' : assoc_pos (key_id cs k) seen <> None \/
                      exists j k' v', j < i /\ nth_error r j = Some (k', v') /\ key_id cs k' = key_id cs k).
        { destruct Hd as [Hd|(j & k' & v' & Hj & Hnj & He)]; [now left|].
          destruct j as [|j].
          - cbn in Hnj. inversion Hnj; subst. left. rewrite <- He, E0. discriminate.
          - right. exists j, k', v'. repeat split; [lia|exact Hnj|exact He]. }
        destruct (IH i seen Hd') as (d1 & d2 & p & E1 & E2). rewrite E2.
        destruct (pm_loop cs r seen) as [d m]. cbn in *. subst d.
        exists (parse_string k0 false ++ D (DDuplicate (key_name k0) p0) (ypos k0) :: d1), d2, p.
        split; [now rewrite <- app_assoc|now rewrite <- app_assoc].
      * assert (Hd' : assoc_pos (key_id cs k) ((key_id cs k0, ypos k0) :: seen) <> None \/
                      exists j k' v', j < i /\ nth_error r j = Some (k', v') /\ key_id cs k' = key_id cs k).
        { destruct Hd as [Hd|(j & k' & v' & Hj & Hnj & He)].
          - left. now apply assoc_pos_cons_some.
          - destruct j as [|j].
            + cbn in Hnj. inversion Hnj; subst. left. rewrite He, assoc_pos_cons_same. discriminate.
            + right. exists j, k', v'. repeat split; [lia|exact Hnj|exact He]. }
        destruct (IH i _ Hd') as (d1 & d2 & p & E1 & E2). rewrite E2.
        destruct (pm_loop cs r _) as [d m]. cbn in *. subst d.
        exists (parse_string k0 false ++ d1), d2, p.
        split; [now rewrite <- app_assoc|now rewrite <- app_assoc].
Qed.

(* ---------------------------------------------------------------- sections *)

Section SecLemmas.
Context {St : Type}.
Variable s : section St.

Lemma find_case_none id cases :
  @find_case St id cases = None <-> ~ In id (map fst cases).
Proof.
  induction cases as [|[k h] r IH]; cbn; [tauto|].
  destruct (String.eqb id k) eqn:E.
  - apply String.eqb_eq in E. subst. split; [discriminate|]. intro H. exfalso. apply H. now left.
  - apply String.eqb_neq in E. rewrite IH. split; intro H; [intros [H1|H1]; [congruence|tauto]|tauto].
Qed.

Lemma find_case_in id cases h : @find_case St id cases = Some h -> In (id, h) cases.
Proof.
  induction cases as [|[k h'] r IH]; cbn; [discriminate|].
  destruct (String.eqb id k) eqn:E.
  - apply String.eqb_eq in E. subst. intro H. inversion H. now left.
  - intro H. right. now apply IH.
Qed.

Lemma sec_fold_app a : forall b st,
  sec_fold s st (a ++ b) =
  let '(st1, d1) := sec_fold s st a in
  let '(st2, d2) := sec_fold s st1 b in (st2, d1 ++ d2).
Proof.
  induction a as [|e a IH]; intros b st; cbn.
  - destruct (sec_fold s st b). reflexivity.
  - destruct (sec_dispatch s st e) as [st1 d1]. rewrite IH.
    destruct (sec_fold s st1 a) as [st2 d2]. destruct (sec_fold s st2 b) as [st3 d3].
    now rewrite app_assoc.
Qed.

Definition unknown_entry (e : kv) : Prop :=
  ~ In (kv_id e) (sec_keys s) /\ sec_closed s = true.

Lemma sec_dispatch_unknown st e : unknown_entry e ->
  sec_dispatch s st e = (st, [D (DUnexpected (kv_name e)) (kv_pos e)]).
Proof.
  intros [Hk Hc]. unfold sec_dispatch. apply find_case_none in Hk. unfold sec_keys in *. rewrite Hk.
  unfold sec_closed in Hc. destruct (sc_default s); [discriminate|reflexivity].
Qed.

Lemma sec_fold_unexpected kvs : forall st e, In e kvs -> unknown_entry e ->
  In (D (DUnexpected (kv_name e)) (kv_pos e)) (snd (sec_fold s st kvs)).
Proof.
  induction kvs as [|e0 r IH]; intros st e Hin Hu; [destruct Hin|]. cbn.
  destruct Hin as [->|Hin].
  - rewrite sec_dispatch_unknown by assumption. destruct (sec_fold s st r). cbn. now left.
  - destruct (sec_dispatch s st e0) as [st1 d1]. specialize (IH st1 e Hin Hu).
    destruct (sec_fold s st1 r). cbn in *. apply in_or_app. now right.
Qed.

(* a property of the state that only the handlers of the keys in K can break
   survives a loop over entries whose ids are outside K *)
Lemma sec_fold_preserve (P : St -> Prop) (K : list string) :
  (forall id h, In (id, h) (sc_cases s) -> ~ In id K -> forall st e, P st -> P (fst (h st e))) ->
  (forall h, sc_default s = Some h -> forall st e, P st -> P (fst (h st e))) ->
  forall kvs st, (forall e, In e kvs -> ~ In (kv_id e) K) -> P st -> P (fst (sec_fold s st kvs)).
Proof.
  intros Hc Hd. induction kvs as [|e r IH]; intros st Hk HP; [exact HP|]. cbn.
  assert (HP1 : P (fst (sec_dispatch s st e))).
  { unfold sec_dispatch. destruct (find_case (kv_id e) (sc_cases s)) as [h|] eqn:E.
    - apply find_case_in in E. apply (Hc _ _ E); [apply Hk; now left|exact HP].
    - destruct (sc_default s) as [h|] eqn:E2; [now apply Hd|exact HP]. }
  destruct (sec_dispatch s st e) as [st1 d1]. cbn in HP1.
  specialize (IH st1 (fun e' H' => Hk e' (or_intror H')) HP1).
  destruct (sec_fold s st1 r). exact IH.
Qed.

Variable init : St.
Variable post : St -> list diag.

Lemma run_section_map n : is_map n = true ->
  run_section s init post n =
  (let '(d, m) := pm_loop (sc_cs s) (pairs (ych n)) [] in
   let '(st, d1) := sec_fold s init m in
   (d ++ (if negb (sc_allow_empty s) && (match m with [] => true | _ => false end)
          then [at_node DEmptyMapping n] else [])) ++ d1 ++ post st).
Proof.
  intro Hm. unfold run_section, parse_mapping. rewrite (is_map_not_null n Hm), Hm. cbn.
  rewrite andb_false_r. destruct (pm_loop _ _ _) as [d m]. reflexivity.
Qed.

(* --- unknown key --- *)
Theorem unknown_key_reported_gen n i k v :
  sec_closed s = true ->
  is_map n = true ->
  nth_error (pairs (ych n)) i = Some (k, v) ->
  ~ In (key_id (sc_cs s) k) (sec_keys s) ->
  (forall j k' v', j < i -> nth_error (pairs (ych n)) j = Some (k', v') ->
                   key_id (sc_cs s) k' <> key_id (sc_cs s) k) ->
  In (D (DUnexpected (key_name k)) (ypos k)) (run_section s init post n).
Proof.
  intros Hc Hm Hn Hk Hf. rewrite run_section_map by assumption.
  pose proof (pm_loop_first (sc_cs s) (pairs (ych n)) [] i k v Hn eq_refl Hf) as Hin.
  destruct (pm_loop _ _ _) as [d m]. cbn in Hin.
  pose proof (sec_fold_unexpected m init _ Hin (conj Hk Hc)) as HU.
  destruct (sec_fold s init m) as [st d1]. cbn in HU.
  apply in_or_app. right. apply in_or_app. now left.
Qed.

(* --- duplicate key --- *)
Theorem dup_key_reported_gen n i j k v k' v' :
  is_map n = true ->
  nth_error (pairs (ych n)) j = Some (k', v') ->
  nth_error (pairs (ych n)) i = Some (k, v) ->
  j < i ->
  key_id (sc_cs s) k' = key_id (sc_cs s) k ->
  exists p, In (D (DDuplicate (key_name k) p) (ypos k)) (run_section s init post n).
Proof.
  intros Hm Hj Hi Hlt He. rewrite run_section_map by assumption.
  destruct (pm_loop_dup (sc_cs s) (pairs (ych n)) [] i k v Hi) as [p Hp].
  { right. exists j, k', v'. auto. }
  exists p. destruct (pm_loop _ _ _) as [d m]. cbn in Hp. destruct (sec_fold s init m) as [st d1].
  apply in_or_app. left. apply in_or_app. now left.
Qed.

(* --- siblings unaffected --- *)
Definition insert_pair (n : ynode) (i : nat) (k v : ynode) : ynode :=
  with_pairs n (insert_at i (k, v) (pairs (ych n))).

Lemma insert_pair_pairs n i k v : pairs (ych (insert_pair n i k v)) = insert_at i (k, v) (pairs (ych n)).
Proof. destruct n. cbn. apply pairs_unpairs. Qed.
Lemma insert_pair_is_map n i k v : is_map (insert_pair n i k v) = is_map n.
Proof. destruct n. reflexivity. Qed.
Lemma insert_pair_pos n i k v : ypos (insert_pair n i k v) = ypos n.
Proof. destruct n. reflexivity. Qed.

(* a foreign key (outside the key set, id not used in the mapping) inserted at
   any index adds exactly one Unexpected diagnostic at that key; every other
   diagnostic of the section stays, in the same order *)
Theorem foreign_insert_siblings_gen n i k v :
  sec_closed s = true ->
  is_map n = true ->
  pairs (ych n) <> [] ->
  clean_key k ->
  ~ In (key_id (sc_cs s) k) (sec_keys s) ->
  (forall k' v', In (k', v') (pairs (ych n)) -> key_id (sc_cs s) k' <> key_id (sc_cs s) k) ->
  exists l1 l2,
    run_section s init post n = l1 ++ l2 /\
    run_section s init post (insert_pair n i k v) = l1 ++ D (DUnexpected (key_name k)) (ypos k) :: l2.
Proof.
  intros Hc Hm Hne Hclean Hk Hfresh.
  rewrite !run_section_map by (now rewrite ?insert_pair_is_map).
  rewrite insert_pair_pairs. unfold at_node. rewrite insert_pair_pos.
  destruct (pm_loop_insert_fresh (sc_cs s) k v Hclean (pairs (ych n)) i [] Hfresh eq_refl)
    as (m1 & m2 & E1 & E2).
  rewrite E2.
  assert (Hm0 : snd (pm_loop (sc_cs s) (pairs (ych n)) []) <> []).
  { destruct (pairs (ych n)) as [|[k0 v0] r]; [contradiction|apply pm_loop_nonempty]. }
  destruct (pm_loop (sc_cs s) (pairs (ych n)) []) as [d m]. cbn in E1, Hm0 |- *. subst m.
  set (e := KV (key_id (sc_cs s) k) (key_name k) (ypos k) v).
  assert (Hu : unknown_entry e) by (split; assumption).
  rewrite (sec_fold_app m1 m2), (sec_fold_app m1 (e :: m2)).
  destruct (sec_fold s init m1) as [st1 d1]. cbn [sec_fold].
  rewrite (sec_dispatch_unknown st1 e Hu).
  destruct (sec_fold s st1 m2) as [st2 d2].
  assert (Hb : (match m1 ++ m2 with [] => true | _ => false end) = false)
    by (destruct (m1 ++ m2); [contradiction|reflexivity]).
  assert (Hb' : (match m1 ++ e :: m2 with [] => true | _ => false end) = false)
    by (destruct m1; reflexivity).
  rewrite Hb, Hb', !andb_false_r, !app_nil_r.
  exists (d ++ d1), (d2 ++ post st2). cbn. split.
  - now rewrite <- !app_assoc.
  - rewrite <- !app_assoc. cbn. reflexivity.
Qed.

(* a repetition of a key inserted after an occurrence adds exactly one
   Duplicate diagnostic at the repetition; everything else is unchanged *)
Theorem dup_insert_siblings_gen n i k v :
  is_map n = true ->
  clean_key k ->
  (exists j k' v', j < i /\ nth_error (pairs (ych n)) j = Some (k', v') /\
                   key_id (sc_cs s) k' = key_id (sc_cs s) k) ->
  exists l1 l2 p,
    run_section s init post n = l1 ++ l2 /\
    run_section s init post (insert_pair n i k v) = l1 ++ D (DDuplicate (key_name k) p) (ypos k) :: l2.
Proof.
  intros Hm Hclean Hd.
  rewrite !run_section_map by (now rewrite ?insert_pair_is_map).
  rewrite insert_pair_pairs. unfold at_node. rewrite insert_pair_pos.
  destruct (pm_loop_insert_dup (sc_cs s) k v Hclean (pairs (ych n)) i [] (or_intror Hd))
    as (d1 & d2 & p & E1 & E2).
  rewrite E2. destruct (pm_loop (sc_cs s) (pairs (ych n)) []) as [d m]. cbn in E1 |- *. subst d.
  destruct (sec_fold s init m) as [st dl].
  exists d1, (d2 ++ (if negb (sc_allow_empty s) && (match m with [] => true | _ => false end)
                     then [D DEmptyMapping (ypos n)] else []) ++ dl ++ post st), p.
  split; rewrite <- !app_assoc; reflexivity.
Qed.

(* --- missing key: the state after the loop when no entry has an id in K --- *)
Lemma run_section_absent (P : St -> Prop) (K : list string) n :
  (forall id h, In (id, h) (sc_cases s) -> ~ In id K -> forall st e, P st -> P (fst (h st e))) ->
  (forall h, sc_default s = Some h -> forall st e, P st -> P (fst (h st e))) ->
  P init ->
  (forall k v, In (k, v) (pairs (ych n)) -> ~ In (key_id (sc_cs s) k) K) ->
  exists st d, P st /\ run_section s init post n = d ++ post st.
Proof.
  intros Hc Hd HP Hk. unfold run_section.
  destruct (parse_mapping n (sc_allow_empty s) (sc_cs s)) as [d0 kvs] eqn:E.
  assert (Hkvs : forall e, In e kvs -> ~ In (kv_id e) K).
  { intros e He. unfold parse_mapping in E.
    destruct (negb (is_null n) && negb (is_map n)); [inversion E; subst; destruct He|].
    destruct (negb (sc_allow_empty s) && is_null n); [inversion E; subst; destruct He|].
    destruct (pm_loop (sc_cs s) (pairs (ych n)) []) as [d m] eqn:E2. inversion E; subst.
    destruct (pm_loop_from_pair (sc_cs s) (pairs (ych n)) [] e) as (k & v & Hin & ->); [now rewrite E2|].
    cbn. now apply (Hk k v). }
  pose proof (sec_fold_preserve P K Hc Hd kvs init Hkvs HP) as HP'.
  destruct (sec_fold s init kvs) as [st d1]. exists st, (d0 ++ d1). split; [exact HP'|now rewrite app_assoc].
Qed.
End SecLemmas.

(* ---------------------------------------------------------------- schedule items *)

Lemma find_cron_none m : (forall e, In e m -> kv_id e <> "cron") -> find_cron m = None.
Proof.
  induction m as [|e r IH]; intro H; [reflexivity|]. cbn. rewrite IH by (intros; apply H; now right).
  unfold streq. destruct (String.eqb (kv_id e) "cron") eqn:E; [|reflexivity].
  apply String.eqb_eq in E. exfalso. apply (H e); [now left|exact E].
Qed.

(* a schedule item with two different keys, or whose only key is not cron, is
   reported at the item *)
Theorem schedule_item_unknown_reported c i k v :
  is_map c = true ->
  nth_error (pairs (ych c)) i = Some (k, v) ->
  key_id true k <> "cron" ->
  (forall j k' v', j < i -> nth_error (pairs (ych c)) j = Some (k', v') -> key_id true k' <> key_id true k) ->
  In (at_node DScheduleItem c) (parse_schedule_item c).
Proof.
  intros Hm Hn Hk Hf. unfold parse_schedule_item, parse_mapping. cbn [schedule_item_flags fst snd].
  rewrite (is_map_not_null c Hm), Hm. cbn [negb andb].
  pose proof (pm_loop_first true (pairs (ych c)) [] i k v Hn eq_refl Hf) as Hin.
  destruct (pm_loop true (pairs (ych c)) []) as [d m]. cbn in Hin.
  apply in_or_app. right. apply in_or_app. left.
  (* m contains an entry whose id is not cron: either length <> 1 or cron is not found *)
  destruct m as [|e [|e2 r]]; [destruct Hin| |].
  - destruct Hin as [He|[]]. subst e. cbn. unfold streq.
    destruct (String.eqb (key_id true k) "cron") eqn:E; [apply String.eqb_eq in E; contradiction|].
    unfold key_id in E. rewrite E. cbn. now left.
  - cbn [length Nat.eqb negb orb]. now left.
Qed.

(* the defect repaired by repo_patches/parse/01-fix-schedule-cron-sibling.patch:
   before it, a foreign key next to cron suppressed the diagnostics of the cron value *)
Definition sched_witness_cron := yscalar "!!str" "cron" (1, 3)%N.
Definition sched_witness_val := yscalar "!!str" "" (1, 9)%N.
Definition sched_witness_item := Y KMap "!!map" "" 1 3 [sched_witness_cron; sched_witness_val].
Definition sched_witness_foreign := yscalar "!!str" "zz" (2, 3)%N.

Lemma schedule_item_old_suppresses :
  In (at_node DEmptyString sched_witness_val) (parse_schedule_item_old sched_witness_item) /\
  ~ In (at_node DEmptyString sched_witness_val)
       (parse_schedule_item_old (insert_pair sched_witness_item 1 sched_witness_foreign sched_witness_val)).
Proof.
  split; vm_compute; [now left|].
  intros [H|[]]. discriminate.
Qed.

Lemma schedule_item_fixed_keeps :
  In (at_node DEmptyString sched_witness_val)
     (parse_schedule_item (insert_pair sched_witness_item 1 sched_witness_foreign sched_witness_val)).
Proof. vm_compute. right. now left. Qed.

(* ---------------------------------------------------------------- missing mandatory keys *)

Ltac cases_in H :=
  cbn in H;
  repeat (destruct H as [H|H]; [inversion H; subst; clear H|]); try contradiction.

Ltac absent_tac :=
  let id := fresh "id" in let h := fresh "h" in let Hin := fresh "Hin" in let HK := fresh "HK" in
  intros id h Hin HK; cases_in Hin;
  try (exfalso; apply HK; cbn; tauto);
  intros [] ? ?; cbn in *; intuition congruence.

Definition no_key (cs : bool) (n : ynode) (K : list string) : Prop :=
  forall k v, In (k, v) (pairs (ych n)) -> ~ In (key_id cs k) K.

Theorem missing_on_reported doc root rest :
  ych doc = root :: rest -> no_key true root ["on"] ->
  In (at_node (DMissing MOn) (fix_doc_pos doc)) (parse_workflow doc).
Proof.
  intros Hch Hk. unfold parse_workflow.
  assert (ych (fix_doc_pos doc) = ych doc) as -> by (destruct doc; reflexivity). rewrite Hch.
  destruct (run_section_absent sec_workflow (true, true) (workflow_post (fix_doc_pos doc))
              (fun st => fst st = true) ["on"] root) as (st & d & HP & ->); try assumption.
  - intros id h Hin HK. cases_in Hin; try (exfalso; apply HK; cbn; tauto); intros [a b] e HP; cbn in *; assumption.
  - intros h Hh. discriminate.
  - reflexivity.
  - apply in_or_app. right. unfold workflow_post. rewrite HP. cbn. now left.
Qed.

Theorem missing_jobs_reported doc root rest :
  ych doc = root :: rest -> no_key true root ["jobs"] ->
  In (at_node (DMissing MJobs) (fix_doc_pos doc)) (parse_workflow doc).
Proof.
  intros Hch Hk. unfold parse_workflow.
  assert (ych (fix_doc_pos doc) = ych doc) as -> by (destruct doc; reflexivity). rewrite Hch.
  destruct (run_section_absent sec_workflow (true, true) (workflow_post (fix_doc_pos doc))
              (fun st => snd st = true) ["jobs"] root) as (st & d & HP & ->); try assumption.
  - intros id h Hin HK. cases_in Hin; try (exfalso; apply HK; cbn; tauto); intros [a b] e HP; cbn in *; assumption.
  - intros h Hh. discriminate.
  - reflexivity.
  - apply in_or_app. right. unfold workflow_post. rewrite HP. apply in_or_app. right. now left.
Qed.

Ltac job_cases :=
  let id := fresh "id" in let h := fresh "h" in let Hin := fresh "Hin" in let HK := fresh "HK" in
  intros id h Hin HK; cases_in Hin; try (exfalso; apply HK; cbn; tauto);
  intros [a b c d0 e0] e HP; cbn in *;
  try (destruct (parse_steps (kv_val e)); cbn); tauto.

(* a job without uses and without runs-on / steps *)
Theorem missing_runs_on_reported id :
  no_key true (kv_val id) ["runs-on"; "uses"] ->
  In (D (DMissing MRunsOn) (kv_pos id)) (parse_job id).
Proof.
  intro Hk. unfold parse_job.
  destruct (run_section_absent sec_job (JobSt true true true None None) (job_post (kv_pos id))
              (fun st => js_runs_on_nil st = true /\ js_uses_nil st = true) ["runs-on"; "uses"] (kv_val id))
    as (st & d & [HP1 HP2] & ->); try assumption.
  - job_cases.
  - intros h Hh. discriminate.
  - split; reflexivity.
  - apply in_or_app. right. unfold job_post. rewrite HP1, HP2. cbn.
    apply in_or_app. right. now left.
Qed.

Theorem missing_steps_reported id :
  no_key true (kv_val id) ["steps"; "uses"] ->
  In (D (DMissing MSteps) (kv_pos id)) (parse_job id).
Proof.
  intro Hk. unfold parse_job.
  destruct (run_section_absent sec_job (JobSt true true true None None) (job_post (kv_pos id))
              (fun st => js_steps_nil st = true /\ js_uses_nil st = true) ["steps"; "uses"] (kv_val id))
    as (st & d & [HP1 HP2] & ->); try assumption.
  - job_cases.
  - intros h Hh. discriminate.
  - split; reflexivity.
  - apply in_or_app. right. unfold job_post. rewrite HP1, HP2. cbn. now left.
Qed.

(* a step without run and without uses gets one of the three "required" diagnostics *)
Theorem missing_step_exec_reported n :
  no_key true n ["run"; "uses"] ->
  exists m, In m [MStepExec; MStepUses; MStepRun] /\ In (at_node (DMissing m) n) (parse_step n).
Proof.
  intro Hk. unfold parse_step.
  destruct (run_section_absent sec_step (StepSt ExNone true true None) (step_post n)
              (fun st => ss_uses_nil st = true /\ ss_run_nil st = true) ["run"; "uses"] n)
    as (st & d & [HP1 HP2] & ->); try assumption.
  - intros id h Hin HK. cases_in Hin; try (exfalso; apply HK; cbn; tauto);
      intros [a b c d0] e HP; cbn in *;
      unfold h_step_action, h_step_run; cbn; destruct a; cbn; tauto.
  - intros h Hh. discriminate.
  - split; reflexivity.
  - unfold step_post. rewrite HP1, HP2. destruct (ss_exec st).
    + exists MStepExec. split; [cbn; tauto|]. apply in_or_app. right. now left.
    + exists MStepUses. split; [cbn; tauto|]. apply in_or_app. right. cbn. now left.
    + exists MStepRun. split; [cbn; tauto|]. apply in_or_app. right. now left.
Qed.

(* a step with none of uses / with / run / shell: "step must run script ..." *)
Theorem missing_step_any_reported n :
  no_key true n ["uses"; "with"; "run"; "shell"] ->
  In (at_node (DMissing MStepExec) n) (parse_step n).
Proof.
  intro Hk. unfold parse_step.
  destruct (run_section_absent sec_step (StepSt ExNone true true None) (step_post n)
              (fun st => ss_exec st = ExNone) ["uses"; "with"; "run"; "shell"] n)
    as (st & d & HP & ->); try assumption.
  - intros id h Hin HK. cases_in Hin; try (exfalso; apply HK; cbn; tauto);
      intros [a b c d0] e HP; cbn in *; assumption.
  - intros h Hh. discriminate.
  - reflexivity.
  - unfold step_post. rewrite HP. apply in_or_app. right. now left.
Qed.

Theorem missing_input_type_reported name :
  no_key true (kv_val name) ["type"] ->
  In (D (DMissing MInputType) (kv_pos name)) (parse_call_input name).
Proof.
  intro Hk. unfold parse_call_input.
  destruct (run_section_absent sec_call_input false
              (fun saw : bool => if saw then [] else [D (DMissing MInputType) (kv_pos name)])
              (fun st => st = false) ["type"] (kv_val name)) as (st & d & HP & ->); try assumption.
  - intros id h Hin HK. cases_in Hin; try (exfalso; apply HK; cbn; tauto); intros st e HP; cbn; assumption.
  - intros h Hh. discriminate.
  - reflexivity.
  - subst st. apply in_or_app. right. now left.
Qed.

Theorem missing_output_value_reported name :
  no_key true (kv_val name) ["value"] ->
  In (D (DMissing MOutputValue) (kv_pos name)) (parse_call_output name).
Proof.
  intro Hk. unfold parse_call_output.
  destruct (run_section_absent sec_call_output true
              (fun value_nil : bool => if value_nil then [D (DMissing MOutputValue) (kv_pos name)] else [])
              (fun st => st = true) ["value"] (kv_val name)) as (st & d & HP & ->); try assumption.
  - intros id h Hin HK. cases_in Hin; try (exfalso; apply HK; cbn; tauto); intros st e HP; cbn; assumption.
  - intros h Hh. discriminate.
  - reflexivity.
  - subst st. apply in_or_app. right. now left.
Qed.

Theorem missing_group_reported p n :
  is_scalar n = false -> no_key true n ["group"] ->
  In (D (DMissing MGroup) p) (parse_concurrency p n).
Proof.
  intros Hs Hk. unfold parse_concurrency. rewrite Hs.
  destruct (run_section_absent sec_concurrency false
              (fun found : bool => if found then [] else [D (DMissing MGroup) p])
              (fun st => st = false) ["group"] n) as (st & d & HP & ->); try assumption.
  - intros id h Hin HK. cases_in Hin; try (exfalso; apply HK; cbn; tauto); intros st e HP; cbn; assumption.
  - intros h Hh. discriminate.
  - reflexivity.
  - subst st. apply in_or_app. right. now left.
Qed.

Theorem missing_env_name_reported p n :
  is_scalar n = false -> no_key true n ["name"] ->
  In (D (DMissing MEnvName) p) (parse_environment p n).
Proof.
  intros Hs Hk. unfold parse_environment. rewrite Hs.
  destruct (run_section_absent sec_environment false
              (fun found : bool => if found then [] else [D (DMissing MEnvName) p])
              (fun st => st = false) ["name"] n) as (st & d & HP & ->); try assumption.
  - intros id h Hin HK. cases_in Hin; try (exfalso; apply HK; cbn; tauto); intros st e HP; cbn; assumption.
  - intros h Hh. discriminate.
  - reflexivity.
  - subst st. apply in_or_app. right. now left.
Qed.

(* credentials: username or password absent *)
Theorem missing_credentials_reported key :
  (no_key true (kv_val key) ["username"] \/ no_key true (kv_val key) ["password"]) ->
  In (D (DMissing MCredentials) (kv_pos key)) (parse_credentials key).
Proof.
  intros [Hk|Hk]; unfold parse_credentials.
  - destruct (run_section_absent sec_credentials (true, true)
                (fun st => if fst st || snd st then [D (DMissing MCredentials) (kv_pos key)] else [])
                (fun st => fst st = true) ["username"] (kv_val key)) as (st & d & HP & ->); try assumption.
    + intros id h Hin HK. cases_in Hin; try (exfalso; apply HK; cbn; tauto); intros st e HP; cbn; assumption.
    + intros h Hh. discriminate.
    + reflexivity.
    + apply in_or_app. right. rewrite HP. now left.
  - destruct (run_section_absent sec_credentials (true, true)
                (fun st => if fst st || snd st then [D (DMissing MCredentials) (kv_pos key)] else [])
                (fun st => snd st = true) ["password"] (kv_val key)) as (st & d & HP & ->); try assumption.
    + intros id h Hin HK. cases_in Hin; try (exfalso; apply HK; cbn; tauto); intros st e HP; cbn; assumption.
    + intros h Hh. discriminate.
    + reflexivity.
    + apply in_or_app. right. rewrite HP, orb_true_r. now left.
Qed.

Theorem missing_defaults_run_reported n :
  no_key true n ["run"] ->
  In (at_node (DMissing MDefaultsRun) n) (parse_defaults n).
Proof.
  intro Hk. unfold parse_defaults.
  destruct (run_section_absent sec_defaults true
              (fun run_nil : bool => if run_nil then [at_node (DMissing MDefaultsRun) n] else [])
              (fun st => st = true) ["run"] n) as (st & d & HP & ->); try assumption.
  - intros id h Hin HK. cases_in Hin; try (exfalso; apply HK; cbn; tauto).
  - intros h Hh. discriminate.
  - reflexivity.
  - subst st. apply in_or_app. right. now left.
Qed.

(* ---------------------------------------------------------------- ties of the tables *)

Definition subset_str (a b : list string) : bool := forallb (fun x => str_in x b) a.
Definition same_keys (a b : list string) : bool := subset_str a b && subset_str b a.

Fixpoint forallb2 {A B} (f : A -> B -> bool) (a : list A) (b : list B) : bool :=
  match a, b with
  | [], [] => true
  | x :: a', y :: b' => f x y && forallb2 f a' b'
  | _, _ => false
  end.

Definition obool_is (o : option bool) (b : bool) : bool :=
  match o with Some x => Bool.eqb x b | None => false end.

(* model table vs documented key sets *)
Definition doc_match (d : doc_section) (m : sec_info) : bool :=
  String.eqb (ds_fn d) (si_fn m) && same_keys (ds_keys d) (si_keys m) &&
  Bool.eqb (ds_closed d) (si_closed m) && Bool.eqb (ds_allow_empty d) (si_allow_empty m) &&
  Bool.eqb (ds_cs d) (si_cs m).

Theorem section_tables_spec_thm : forallb2 doc_match documented_sections model_sites = true.
Proof. vm_compute. reflexivity. Qed.

(* model table vs the key switches extracted from parse.go on this run *)
Definition gen_match (g : gen_site) (m : sec_info) : bool :=
  String.eqb (gs_fn g) (si_fn m) && same_keys (gs_labels g) (si_keys m) &&
  Bool.eqb (gs_unexpected g) (si_closed m) &&
  obool_is (gs_allow_empty g) (si_allow_empty m) && obool_is (gs_case_sensitive g) (si_cs m).

Theorem parse_keys_match_model_thm : forallb2 gen_match gen_sites model_sites = true.
Proof. vm_compute. reflexivity. Qed.

(* every parseMapping / parseSectionMapping call: literal allowEmpty, caseSensitive *)
Definition gen_mapping_match (g : string * string * string * option bool * option bool)
                             (m : string * bool * bool) : bool :=
  let '(fn, _, _, ae, cs) := g in
  let '(fn', ae', cs') := m in
  String.eqb fn fn' && obool_is ae ae' && obool_is cs cs'.

Definition gen_mappings_calls :=
  filter (fun g => let '(fn, _, _, _, _) := g in negb (String.eqb fn "parseSectionMapping")) gen_mappings.

Theorem parse_mapping_flags_match_model_thm :
  forallb2 gen_mapping_match gen_mappings_calls model_mappings = true.
Proof. vm_compute. reflexivity. Qed.

(* the key list printed by unexpectedKey equals the accepted keys, except for the
   inputs of workflow_dispatch (message only: "type" and "options" are accepted
   but not listed) *)
Definition expected_list_ok (g : gen_site) : bool :=
  negb (gs_unexpected g) || same_keys (gs_expected g) (gs_labels g).

Theorem unexpected_lists_thm :
  map gs_sec (filter (fun g => negb (expected_list_ok g)) gen_sites) = ["inputs"].
Proof. vm_compute. reflexivity. Qed.

(* ---------------------------------------------------------------- satisfiability examples *)

Definition ex_key (s : string) (l : N) := yscalar "!!str" s (l, 1%N).
Definition ex_val (l : N) := yscalar "!!str" "v" (l, 9%N).
Definition ex_map := Y KMap "!!map" "" 1 1 [ex_key "group" 1; ex_val 1; ex_key "zz" 2; ex_val 2; ex_key "group" 3; ex_val 3].

Example ex_unknown :
  In (D (DUnexpected "zz") (2, 1)%N) (run_section sec_concurrency false (fun _ => []) ex_map).
Proof. vm_compute. tauto. Qed.

Example ex_dup :
  In (D (DDuplicate "group" (1, 1)%N) (3, 1)%N) (run_section sec_concurrency false (fun _ => []) ex_map).
Proof. vm_compute. tauto. Qed.

Example ex_hyps_unknown :
  sec_closed sec_concurrency = true /\ is_map ex_map = true /\
  nth_error (pairs (ych ex_map)) 1 = Some (ex_key "zz" 2, ex_val 2) /\
  ~ In (key_id (sc_cs sec_concurrency) (ex_key "zz" 2)) (sec_keys sec_concurrency).
Proof. repeat split. vm_compute. intuition discriminate. Qed.

Example ex_no_key : no_key true ex_map ["name"].
Proof.
  intros k v H. vm_compute in H.
  destruct H as [H|[H|[H|[]]]]; inversion H; subst; vm_compute; intros [E|[]]; discriminate.
Qed.
