(* Wf/Calls.v — model of the checks of a call against the callee's declared
   interface (property C14):

     parse.go              parseMapping (case-insensitive keys, first occurrence wins),
                           `with:` of a step (keys "entrypoint"/"args" are diverted),
                           `with:`/`secrets:` of a workflow call, parseWorkflowCallEvent
     action_metadata.go    ActionMetadataInputs/Outputs.UnmarshalYAML
     reusable_workflow.go  ReusableWorkflowMetadata{Inputs,Secrets,Outputs}.UnmarshalYAML,
                           LocalReusableWorkflowCache.WriteWorkflowCallEvent
     rule_action.go        VisitStep / checkRepoAction / checkLocalAction / checkAction
     rule_workflow_call.go checkWorkflowCallUsesLocal
     rule_expression.go    getActionOutputsType, typeOfActionOutputs,
                           getWorkflowCallOutputsType, checkWorkflowCall (typed inputs)
     expr_sema.go          checkObjectDeref on the outputs object
     expr_type.go          Assignable restricted to the scalar types

   Go maps are association lists (Base/AList); every loop over a map is a loop over
   the list in the given order (the order of same-position diagnostics is C02's
   subject; observables are compared as sets).  All diagnostics are projected to
   (class, name). *)
From AL Require Import Base.AList.

(* ------------------------------------------------------------------ strings *)

Definition calls_is_space (c : ascii) : bool :=
  let n := nat_of_ascii c in ((9 <=? n) && (n <=? 13)) || (n =? 32).

Fixpoint calls_drop_space (s : string) : string :=
  match s with
  | EmptyString => EmptyString
  | String c s' => if calls_is_space c then calls_drop_space s' else s
  end.

Definition calls_srev (s : string) : string :=
  string_of_list_ascii (rev (list_ascii_of_string s)).

(* strings.TrimSpace, ASCII white space only (non-ASCII white space is outside the model) *)
Definition calls_trim (s : string) : string :=
  calls_srev (calls_drop_space (calls_srev (calls_drop_space s))).

Definition calls_has_suffix (suf s : string) : bool :=
  String.prefix (calls_srev suf) (calls_srev s).

(* strings.Count for a pattern that cannot overlap itself *)
Fixpoint calls_count (sub s : string) : nat :=
  match s with
  | EmptyString => 0
  | String _ s' => (if String.prefix sub s then 1 else 0) + calls_count sub s'
  end.

(* ast.go isExprAssigned *)
Definition calls_expr_assigned (s : string) : bool :=
  let v := calls_trim s in
  String.prefix "${{" v && calls_has_suffix "}}" v && (calls_count "${{" v =? 1).

Definition str_mem (x : string) (l : list string) : bool := existsb (String.eqb x) l.

(* ------------------------------------------------------------------ diagnostics *)

Inductive dclass :=
  UnknownInput | MissingInput | UnknownSecret | MissingSecret | UndefinedOutput | TypeMismatch.

Definition diag := (dclass * string)%type.

(* ------------------------------------------------------------------ parse.go *)

(* parseMapping with caseSensitive = false: id = lower(key); a key whose id was
   already seen is reported as duplicate and dropped. *)
Fixpoint parse_mapping_from {V} (seen : list string) (kvs : list (string * V))
  : list (string * (string * V)) :=
  match kvs with
  | [] => []
  | (k, v) :: r =>
      let id := lower k in
      if str_mem id seen then parse_mapping_from seen r
      else (id, (k, v)) :: parse_mapping_from (id :: seen) r
  end.
Definition parse_mapping {V} (kvs : list (string * V)) := parse_mapping_from [] kvs.

(* ExecAction: Inputs (id -> name), and whether Entrypoint / Args were given.
   parseStep: `with:` entries with id "entrypoint" / "args" do not go to Inputs. *)
Record exec_action := {
  ea_inputs : list (string * string);
  ea_entrypoint : bool;
  ea_args : bool }.

Definition parse_with (names : list string) : exec_action :=
  let m := parse_mapping (map (fun n => (n, tt)) names) in
  {| ea_inputs := map (fun e => (fst e, fst (snd e)))
                      (filter (fun e => negb (String.eqb (fst e) "entrypoint") && negb (String.eqb (fst e) "args")) m);
     ea_entrypoint := str_mem "entrypoint" (map fst m);
     ea_args := str_mem "args" (map fst m) |}.

(* ------------------------------------------------------------------ types *)

(* declared type of a reusable-workflow input *)
Inductive dty := DAny | DBool | DNumber | DString.
(* type of a value: the five scalar types + any; COther = object / array types *)
Inductive cty := CAny | CNull | CBool | CNumber | CString | COther.

(* expr_type.go: BoolType / NumberType / StringType / AnyType .Assignable *)
Definition calls_assignable (d : dty) (v : cty) : bool :=
  match d with
  | DAny => true
  | DBool => true
  | DNumber => match v with CNumber | CAny => true | _ => false end
  | DString => match v with CString | CNumber | CAny => true | _ => false end
  end.

(* a value given at `with:` of a workflow call: raw text, the types of its
   ${{ }} placeholders as the expression checker computed them (oracle input,
   C06's subject), and whether strconv.ParseFloat accepts the trimmed text
   (oracle input) *)
Record cvalue := { cv_text : string; cv_exprs : list cty; cv_isfloat : bool }.

(* rule_expression.go checkWorkflowCall: the type of the value *)
Definition value_type (v : cvalue) : cty :=
  match cv_exprs v with
  | [] =>
      let t := calls_trim (cv_text v) in
      if String.eqb t "null" then CNull
      else if String.eqb t "true" || String.eqb t "false" then CBool
      else if cv_isfloat v then CNumber else CString
  | [t] => if calls_expr_assigned (cv_text v) then t else CString
  | _ => CString
  end.

(* ------------------------------------------------------------------ interfaces *)

Record ainput := { ai_name : string; ai_required : bool }.
Record ameta := {
  am_inputs : list (string * ainput);
  am_outputs : list (string * string);     (* id -> name *)
  am_skip_inputs : bool;
  am_skip_outputs : bool }.

Record winput := { wi_name : string; wi_required : bool; wi_type : dty }.
Record wsecret := { ws_name : string; ws_required : bool }.
Record wmeta := {
  wm_inputs : list (string * winput);
  wm_secrets : list (string * wsecret);
  wm_outputs : list (string * string) }.

(* ------------------------------------------------------------------ derivations *)

(* `default:` of an input as written: absent, null (`default:`, `~`, `null`), or a value *)
Inductive ydefault := DfAbsent | DfNull | DfValue (s : string).
Definition no_default (d : ydefault) : bool :=
  match d with DfValue _ => false | _ => true end.
Definition req_true (r : option bool) : bool := match r with Some true => true | _ => false end.

(* body of an input in action.yml *)
Record adecl := { ad_required : option bool; ad_default : ydefault }.

(* ActionMetadataInputs.UnmarshalYAML: Default *string is nil for an absent and for a
   null default; a duplicated id is an error (the metadata is unusable). *)
Fixpoint derive_action_inputs_from (acc : list (string * ainput)) (ds : list (string * adecl))
  : option (list (string * ainput)) :=
  match ds with
  | [] => Some acc
  | (k, d) :: r =>
      let id := lower k in
      match lookup id acc with
      | Some _ => None
      | None => derive_action_inputs_from
                  (acc ++ [(id, {| ai_name := k; ai_required := req_true (ad_required d) && no_default (ad_default d) |})]) r
      end
  end.
Definition derive_action_inputs := derive_action_inputs_from [].

(* ActionMetadataOutputs.UnmarshalYAML *)
Fixpoint derive_action_outputs_from (acc : list (string * string)) (ks : list string)
  : option (list (string * string)) :=
  match ks with
  | [] => Some acc
  | k :: r =>
      let id := lower k in
      match lookup id acc with
      | Some _ => None
      | None => derive_action_outputs_from (acc ++ [(id, k)]) r
      end
  end.
Definition derive_action_outputs := derive_action_outputs_from [].

(* body of an input of on.workflow_call.inputs *)
Record wdecl := { wd_required : option bool; wd_default : ydefault; wd_type : option string }.

Definition type_of_name (t : option string) : dty :=
  match t with
  | Some s => if String.eqb s "boolean" then DBool
              else if String.eqb s "number" then DNumber
              else if String.eqb s "string" then DString else DAny
  | None => DAny
  end.

(* (1) from the callee's file: ReusableWorkflowMetadataInput(s).UnmarshalYAML;
   md[strings.ToLower(k)] = &m  (a later entry with the same id overwrites) *)
Definition derive_winput_file (k : string) (d : wdecl) : winput :=
  {| wi_name := k;
     wi_required := req_true (wd_required d) && no_default (wd_default d);
     wi_type := type_of_name (wd_type d) |}.
Definition derive_wf_inputs_file (ds : list (string * wdecl)) : list (string * winput) :=
  fold_left (fun acc kd => upsert (lower (fst kd)) (derive_winput_file (fst kd) (snd kd)) acc) ds [].

(* (2) from the AST: parse.go parseWorkflowCallEvent then WriteWorkflowCallEvent *)
Inductive ast_ty := TyNone | TyBoolean | TyNumber | TyString.
Record ast_input := {
  ast_id : string; ast_name : string;
  ast_required : option bool;       (* *Bool: nil when the key is absent *)
  ast_default : option string;      (* *String *)
  ast_type : ast_ty }.

Definition ast_type_of_name (t : option string) : ast_ty :=
  match t with
  | Some s => if String.eqb s "boolean" then TyBoolean
              else if String.eqb s "number" then TyNumber
              else if String.eqb s "string" then TyString else TyNone
  | None => TyNone
  end.

(* `null_is_default` = false is the code as it is now (a null default is no default);
   true is the code before the fix d3094f8 *)
Definition ast_default_of (null_is_default : bool) (d : ydefault) : option string :=
  match d with
  | DfAbsent => None
  | DfNull => if null_is_default then Some "" else None
  | DfValue s => Some s
  end.

Definition parse_wc_inputs_gen (nid : bool) (ds : list (string * wdecl)) : list ast_input :=
  map (fun e => let '(id, (k, d)) := e in
         {| ast_id := id; ast_name := k; ast_required := wd_required d;
            ast_default := ast_default_of nid (wd_default d);
            ast_type := ast_type_of_name (wd_type d) |})
      (parse_mapping ds).
Definition parse_wc_inputs := parse_wc_inputs_gen false.
Definition parse_wc_inputs_old := parse_wc_inputs_gen true.

Definition derive_winput_ast (i : ast_input) : winput :=
  {| wi_name := ast_name i;
     wi_required := req_true (ast_required i) && match ast_default i with None => true | Some _ => false end;
     wi_type := match ast_type i with TyBoolean => DBool | TyNumber => DNumber | TyString => DString | TyNone => DAny end |}.
Definition derive_wf_inputs_ast (is_ : list ast_input) : list (string * winput) :=
  fold_left (fun acc i => upsert (ast_id i) (derive_winput_ast i) acc) is_ [].

(* secrets: `required` only.  File: ReusableWorkflowMetadataSecrets.UnmarshalYAML;
   AST: parseWorkflowCallEvent + WriteWorkflowCallEvent *)
Definition derive_wf_secrets_file (ds : list (string * option bool)) : list (string * wsecret) :=
  fold_left (fun acc kd => upsert (lower (fst kd)) {| ws_name := fst kd; ws_required := req_true (snd kd) |} acc) ds [].
Definition derive_wf_secrets_ast (ds : list (string * option bool)) : list (string * wsecret) :=
  fold_left (fun acc e => upsert (fst e) {| ws_name := fst (snd e); ws_required := req_true (snd (snd e)) |} acc)
            (parse_mapping ds) [].

(* outputs: names only *)
Definition derive_wf_outputs_file (ks : list string) : list (string * string) :=
  fold_left (fun acc k => upsert (lower k) k acc) ks [].
Definition derive_wf_outputs_ast (ks : list string) : list (string * string) :=
  fold_left (fun acc e => upsert (fst e) (fst (snd e)) acc) (parse_mapping (map (fun k => (k, tt)) ks)) [].

(* ------------------------------------------------------------------ rule_action.go *)

(* does the call supply the input [id]?  `with.args` / `with.entrypoint` are kept
   outside Inputs by the parser; since the fix they count as supplying an input
   of that name. *)
Definition supplied (e : exec_action) (id : string) : bool :=
  match lookup id (ea_inputs e) with
  | Some _ => true
  | None => (String.eqb id "args" && ea_args e) || (String.eqb id "entrypoint" && ea_entrypoint e)
  end.
(* before the fix: exec.Inputs only *)
Definition supplied_old (e : exec_action) (id : string) : bool :=
  match lookup id (ea_inputs e) with Some _ => true | None => false end.

Definition check_action_gen (sup : exec_action -> string -> bool) (m : ameta) (e : exec_action) : list diag :=
  flat_map (fun kv => match lookup (fst kv) (am_inputs m) with
                      | None => [(UnknownInput, snd kv)]
                      | Some _ => []
                      end) (ea_inputs e)
  ++
  flat_map (fun kv => if ai_required (snd kv) && negb (sup e (fst kv))
                      then [(MissingInput, ai_name (snd kv))] else []) (am_inputs m).
Definition check_action := check_action_gen supplied.
Definition check_action_old := check_action_gen supplied_old.

(* VisitStep + checkLocalAction / checkRepoAction.  [table] = PopularActions,
   [outdated] = OutdatedPopularActionSpecs, [local] = what FindMetadata returns for
   a "./" spec (None: no metadata file; unparsable metadata is outside the model). *)
Definition check_step_inputs (table : list (string * ameta)) (outdated : list string)
           (uses : string) (local : option ameta) (e : exec_action) : list diag :=
  if contains_expr uses then []
  else if String.prefix "./" uses then
    match local with Some m => check_action m e | None => [] end
  else if String.prefix "docker://" uses then []
  else match lookup uses table with
       | None => []                         (* outdated (reported as such) or unknown action *)
       | Some m => if am_skip_inputs m then [] else check_action m e
       end.

(* ------------------------------------------------------------------ outputs typing *)

(* the three object types used for `outputs`:
   OMap    = NewMapObjectType(StringType{})   any property, string
   OLoose  = NewEmptyObjectType()             any property, any
   OStrict = NewStrictObjectType(props)       exactly these properties *)
Inductive otype := OMap | OLoose | OStrict (props : list string).

(* typeOfActionOutputs *)
Definition type_of_action_outputs (m : ameta) : otype :=
  if am_skip_outputs m then OLoose else OStrict (map (fun kv => lower (fst kv)) (am_outputs m)).

(* getActionOutputsType; [uses] = None for a `run:` step *)
Definition action_outputs_type (table : list (string * ameta)) (uses : option string) (local : option ameta) : otype :=
  match uses with
  | None => OMap
  | Some u =>
      if String.prefix "./" u then
        match local with Some m => type_of_action_outputs m | None => OMap end
      else if String.prefix "actions/github-script@" u then OLoose
      else match lookup u table with
           | Some m => type_of_action_outputs m
           | None => OMap
           end
  end.

(* getWorkflowCallOutputsType *)
Definition workflow_outputs_type (m : option wmeta) : otype :=
  match m with
  | None => OMap
  | Some m => OStrict (map fst (wm_outputs m))
  end.

(* expr_parser.go lower-cases the property of `.name`; expr_sema.go checkObjectDeref
   reports it iff the object is strict and has no such property. *)
Definition deref_reported (t : otype) (prop : string) : bool :=
  match t with
  | OStrict ps => negb (str_mem (lower prop) ps)
  | _ => false
  end.
Definition check_output_refs (t : otype) (refs : list string) : list diag :=
  flat_map (fun r => if deref_reported t r then [(UndefinedOutput, lower r)] else []) refs.

(* ------------------------------------------------------------------ rule_workflow_call.go *)

Record wcall := {
  wc_inputs : list (string * (string * cvalue));   (* id -> (name, value) *)
  wc_secrets : list (string * string);             (* id -> name *)
  wc_inherit : bool }.

(* parseJob: `with:` and `secrets:` (absent, the scalar `inherit`, or a mapping) *)
Inductive ysecrets := SecAbsent | SecInherit | SecMap (names : list string).
Definition parse_wcall (with_ : list (string * cvalue)) (secrets : ysecrets) : wcall :=
  {| wc_inputs := parse_mapping with_;
     wc_secrets := match secrets with
                   | SecMap ss => map (fun e => (fst e, fst (snd e))) (parse_mapping (map (fun n => (n, tt)) ss))
                   | _ => []
                   end;
     wc_inherit := match secrets with SecInherit => true | _ => false end |}.

(* checkWorkflowCallUsesLocal, after FindMetadata returned [m] *)
Definition check_workflow_call (m : wmeta) (c : wcall) : list diag :=
  flat_map (fun kv => if wi_required (snd kv) && negb (str_mem (fst kv) (map fst (wc_inputs c)))
                      then [(MissingInput, wi_name (snd kv))] else []) (wm_inputs m)
  ++
  flat_map (fun kv => match lookup (fst kv) (wm_inputs m) with
                      | None => [(UnknownInput, fst (snd kv))]
                      | Some _ => []
                      end) (wc_inputs c)
  ++
  (if wc_inherit c then [] else
     flat_map (fun kv => if ws_required (snd kv) && negb (str_mem (fst kv) (map fst (wc_secrets c)))
                         then [(MissingSecret, ws_name (snd kv))] else []) (wm_secrets m)
     ++
     flat_map (fun kv => match lookup (fst kv) (wm_secrets m) with
                         | None => [(UnknownSecret, snd kv)]
                         | Some _ => []
                         end) (wc_secrets c)).

(* rule_expression.go checkWorkflowCall: typed inputs *)
Definition check_workflow_call_types (m : option wmeta) (c : wcall) : list diag :=
  match m with
  | None => []
  | Some m =>
      flat_map (fun kv =>
        match lookup (fst kv) (wm_inputs m) with
        | None => []
        | Some mi =>
            match wi_type mi with
            | DAny => []
            | t => if calls_assignable t (value_type (snd (snd kv))) then []
                   else [(TypeMismatch, wi_name mi)]
            end
        end) (wc_inputs c)
  end.

(* VisitJobPre: the callee is looked up only for the local format "./path" without a ref *)
Definition is_local_call_format (u : string) : bool :=
  String.prefix "./" u &&
  (let r := substring 2 (String.length u - 2) u in
   match str_index "@" r with
   | Some (S _) => false
   | _ => negb (String.eqb r "")
   end).

(* ------------------------------------------------------------------ FindMetadata *)

(* LocalActionsCache.FindMetadata for a well-formed action.yml: the interface of a
   local action from its declaration (None: a duplicated id makes the metadata unusable) *)
Definition local_meta (ins : list (string * adecl)) (outs : list string) : option ameta :=
  match derive_action_inputs ins, derive_action_outputs outs with
  | Some i, Some o => Some {| am_inputs := i; am_outputs := o; am_skip_inputs := false; am_skip_outputs := false |}
  | _, _ => None
  end.

(* LocalReusableWorkflowCache: the interface of a reusable workflow from its
   declaration; [ast] = true when the entry was written by WriteWorkflowCallEvent
   (the callee is part of the same run), false when FindMetadata decoded the file *)
Definition wf_meta (ast : bool) (ins : list (string * wdecl)) (secs : list (string * option bool)) (outs : list string) : wmeta :=
  if ast then
    {| wm_inputs := derive_wf_inputs_ast (parse_wc_inputs ins);
       wm_secrets := derive_wf_secrets_ast secs;
       wm_outputs := derive_wf_outputs_ast outs |}
  else
    {| wm_inputs := derive_wf_inputs_file ins;
       wm_secrets := derive_wf_secrets_file secs;
       wm_outputs := derive_wf_outputs_file outs |}.

