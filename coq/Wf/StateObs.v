(* Wf/StateObs.v — observables for the correspondence check of C09.
   Strings are compared through a 32-bit polynomial hash that the Go harness
   computes in the same way (so that a case costs a few numerals). *)
From AL Require Import Base.Str Base.AList Base.Corr Wf.StateExpr.
From Coq Require Import NArith.

Fixpoint hash_go (s : string) (h : N) : N :=
  match s with
  | EmptyString => h
  | String c s' => hash_go s' (N.modulo (h * 31 + N_of_ascii c) 4294967296)
  end.
Definition hash_str (s : string) : N := hash_go s 7.

Fixpoint dump_ty (t : ty) : string :=
  match t with
  | TAny => "any" | TNull => "null" | TNum => "number" | TBool => "bool" | TStr => "string"
  | TArr e d => "[" ++ dump_ty e ++ "]" ++ (if d then "*" else "")
  | TObj ps m =>
      "{" ++ (fix go (l : list (string * ty)) : string :=
                match l with
                | [] => ""
                | (k, v) :: r => k ++ ":" ++ dump_ty v ++ ";" ++ go r
                end) ps ++ "}" ++
      match m with Some mt => "=>" ++ dump_ty mt | None => "" end
  end%string.

Fixpoint dump_env (env : tenv) : string :=
  match env with
  | [] => ""
  | (k, v) :: r => k ++ "=" ++ dump_ty v ++ "|" ++ dump_env r
  end%string.

(* K2: a sequence of expressions checked one after the other on the same
   (shared) type objects; per expression: result type and error classes;
   finally the environment *)
Definition run_expr_seq (inplace : bool) (c : tenv * list sexpr) : list tuple :=
  let '(env, es) := c in
  let '(rs, env') := check_seq inplace env es in
  map (fun r : val * list N => 1%N :: hash_str (dump_ty (val_ty env' (fst r))) :: snd r) rs
  ++ [[2%N; hash_str (dump_env env')]].

Definition run_expr (c : tenv * list sexpr) : list tuple := run_expr_seq false c.
