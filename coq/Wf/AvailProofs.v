(* Wf/AvailProofs.v — proofs for C12 (see Props/C12.v for the statements). *)
From AL Require Import Wf.Avail Wf.SpecAvailability.
From AL Require Import Gen.GenAvailability Gen.GenRouteSites.
From Coq Require Import Permutation.

(* ------------------------------------------------------------ the checker *)
Section CheckerProofs.
Variable vars funcs specials ctxs sps : list string.
Variable sigok : tpos -> bool.

Notation chk := (chk vars funcs specials ctxs sps sigok).
Notation visit := (visit vars funcs specials ctxs sps sigok).
Notation check := (check vars funcs specials ctxs sps sigok).
Notation check_var := (check_var vars ctxs).
Notation check_call := (check_call funcs specials sps sigok).
Notation check_special := (check_special specials sps).

(* the narrowing modes of checkWithNarrowing never skip or repeat a node *)
Lemma chk_eq_visit : forall e m, chk m e = visit e.
Proof.
  induction e as [p n|p|p b|p z|p r|p s|r n IH|r IH|o i IHo IHi|p x IH|op l r IHl IHr|op l r IHl IHr|p c args IH]
    using expr_ind'; intros m; cbn [Avail.chk Avail.visit]; try reflexivity.
  - apply IH.
  - apply IH.
  - now rewrite IHi, IHo.
  - destruct m as [t|]; apply IH.
  - now rewrite IHl, IHr.
  - destruct op; destruct m as [[|]|]; now rewrite IHl, IHr.
  - f_equal. induction IH as [|a args Ha _ IHargs]; cbn; [reflexivity|]. now rewrite Ha, IHargs.
Qed.

Lemma check_eq_visit e : check e = visit e.
Proof. apply chk_eq_visit. Qed.

(* --- variables *)
Lemma check_var_cases p n :
  (In (lower n) vars /\ In (lower n) ctxs /\ check_var p n = []) \/
  (In (lower n) vars /\ ~ In (lower n) ctxs /\ check_var p n = [mk_diag p DCtx n]) \/
  (~ In (lower n) vars /\ check_var p n = [mk_diag p DUndefVar n]).
Proof.
  unfold Avail.check_var. rewrite lower_idem.
  destruct (mem (lower n) vars) eqn:Ev.
  - apply mem_In in Ev. destruct (mem (lower n) ctxs) eqn:Ec.
    + apply mem_In in Ec. left. auto.
    + apply mem_false_In in Ec. right. left. auto.
  - apply mem_false_In in Ev. right. right. auto.
Qed.

Lemma check_call_in p c ads d :
  In d (check_call p c ads) ->
  (In (lower c) funcs /\ In d ads) \/
  (In (lower c) funcs /\ sigok p = true /\ In d (check_special p c)) \/
  (~ In (lower c) funcs /\ d = mk_diag p DUndefFn c).
Proof.
  unfold Avail.check_call. destruct (mem (lower c) funcs) eqn:Ef.
  - apply mem_In in Ef. intros H. apply in_app_or in H. destruct H as [H|H]; [left; auto|].
    destruct (sigok p); [right; left; auto|destruct H].
  - apply mem_false_In in Ef. intros [H|[]]. right. right. auto.
Qed.

Lemma check_special_in p c d :
  In d (check_special p c) -> d = mk_diag p DFn c /\ In (lower c) specials /\ ~ In (lower c) sps.
Proof.
  unfold Avail.check_special. destruct (mem (lower c) specials) eqn:Es; [|intros []].
  destruct (mem (lower c) sps) eqn:Ea; [intros []|]. intros [H|[]].
  apply mem_In in Es. apply mem_false_In in Ea. auto.
Qed.

(* soundness: a variable-class diagnostic names an occurrence with that verdict *)
Lemma visit_var_sound : forall e p k n,
  In (mk_diag p k n) (visit e) -> k = DCtx \/ k = DUndefVar ->
  In (p, n) (variables e) /\
  (k = DCtx -> In (lower n) vars /\ ~ In (lower n) ctxs) /\
  (k = DUndefVar -> ~ In (lower n) vars).
Proof.
  induction e as [q m|q|q b|q z|q r|q s|r m IH|r IH|o i IHo IHi|q x IH|op l r IHl IHr|op l r IHl IHr|q c args IH]
    using expr_ind'; intros p k n Hin Hk; cbn [Avail.visit variables] in *; try (now destruct Hin); eauto.
  - destruct (check_var_cases q m) as [[_ [_ E]]|[[Hv [Hc E]]|[Hv E]]]; rewrite E in Hin; [destruct Hin| |].
    + destruct Hin as [Hd|[]]. inversion Hd; subst. split; [now left|]. split; [auto|discriminate].
    + destruct Hin as [Hd|[]]. inversion Hd; subst. split; [now left|]. split; [discriminate|auto].
  - apply in_app_or in Hin. destruct Hin as [H|H]; [destruct (IHi _ _ _ H Hk) as [A B]|destruct (IHo _ _ _ H Hk) as [A B]];
      (split; [apply in_or_app; auto|exact B]).
  - apply in_app_or in Hin. destruct Hin as [H|H]; [destruct (IHl _ _ _ H Hk) as [A B]|destruct (IHr _ _ _ H Hk) as [A B]];
      (split; [apply in_or_app; auto|exact B]).
  - apply in_app_or in Hin. destruct Hin as [H|H]; [destruct (IHl _ _ _ H Hk) as [A B]|destruct (IHr _ _ _ H Hk) as [A B]];
      (split; [apply in_or_app; auto|exact B]).
  - apply check_call_in in Hin. destruct Hin as [[_ H]|[[_ [_ H]]|[_ H]]].
    + apply in_flat_map in H. destruct H as [a [Ha Hd]].
      rewrite Forall_forall in IH. destruct (IH a Ha _ _ _ Hd Hk) as [A B].
      split; [apply in_flat_map; eauto|exact B].
    + apply check_special_in in H. destruct H as [H _]. inversion H; subst. destruct Hk; discriminate.
    + inversion H; subst. destruct Hk; discriminate.
Qed.

(* completeness: every occurrence that is reached gets its verdict *)
Lemma visit_var_complete : forall e, calls_known funcs e -> forall p n,
  In (p, n) (variables e) -> forall d, In d (check_var p n) -> In d (visit e).
Proof.
  induction e as [q m|q|q b|q z|q r|q s|r m IH|r IH|o i IHo IHi|q x IH|op l r IHl IHr|op l r IHl IHr|q c args IH]
    using expr_ind'; intros Hk p n Hin d Hd; cbn [Avail.visit variables calls] in *; try (now destruct Hin).
  - destruct Hin as [E|[]]. inversion E; subst. exact Hd.
  - eapply IH; eauto.
  - eapply IH; eauto.
  - apply in_or_app. apply in_app_or in Hin. destruct Hin as [H|H].
    + left. eapply IHi; eauto. intros a b Hab. apply (Hk a b). cbn. apply in_or_app. auto.
    + right. eapply IHo; eauto. intros a b Hab. apply (Hk a b). cbn. apply in_or_app. auto.
  - eapply IH; eauto.
  - apply in_or_app. apply in_app_or in Hin. destruct Hin as [H|H].
    + left. eapply IHl; eauto. intros a b Hab. apply (Hk a b). cbn. apply in_or_app. auto.
    + right. eapply IHr; eauto. intros a b Hab. apply (Hk a b). cbn. apply in_or_app. auto.
  - apply in_or_app. apply in_app_or in Hin. destruct Hin as [H|H].
    + left. eapply IHl; eauto. intros a b Hab. apply (Hk a b). cbn. apply in_or_app. auto.
    + right. eapply IHr; eauto. intros a b Hab. apply (Hk a b). cbn. apply in_or_app. auto.
  - unfold Avail.check_call.
    assert (Hf : In (lower c) funcs) by (apply (Hk q c); cbn; now left).
    apply mem_In in Hf. rewrite Hf. apply in_or_app. left.
    apply in_flat_map in Hin. destruct Hin as [a [Ha Hv]]. apply in_flat_map. exists a. split; [assumption|].
    rewrite Forall_forall in IH. eapply IH; eauto.
    intros a' b' Hab. apply (Hk a' b'). cbn. right. apply in_flat_map. eauto.
Qed.

Theorem avail_verdict : forall e, calls_known funcs e -> forall p n,
  In (p, n) (variables e) -> In (lower n) vars ->
  (In (mk_diag p DCtx n) (check e) <-> ~ In (lower n) ctxs).
Proof.
  intros e Hk p n Hin Hv. rewrite check_eq_visit. split.
  - intros H. apply visit_var_sound in H; [|now left]. destruct H as [_ [H _]]. now apply H.
  - intros Hc. eapply visit_var_complete; eauto.
    destruct (check_var_cases p n) as [[_ [A _]]|[[_ [_ E]]|[A _]]]; try contradiction. rewrite E. now left.
Qed.

Theorem undefined_verdict : forall e, calls_known funcs e -> forall p n,
  In (p, n) (variables e) ->
  (In (mk_diag p DUndefVar n) (check e) <-> ~ In (lower n) vars).
Proof.
  intros e Hk p n Hin. rewrite check_eq_visit. split.
  - intros H. apply visit_var_sound in H; [|now right]. destruct H as [_ [_ H]]. now apply H.
  - intros Hv. eapply visit_var_complete; eauto.
    destruct (check_var_cases p n) as [[A _]|[[A _]|[_ E]]]; try contradiction. rewrite E. now left.
Qed.

(* "reported" in the sense of Appendix B: as not allowed, or as undefined *)
Definition var_reported (ds : list diag) (p : tpos) (n : string) : Prop :=
  In (mk_diag p DCtx n) ds \/ In (mk_diag p DUndefVar n) ds.

Theorem reported_verdict : forall e, calls_known funcs e -> forall p n,
  In (p, n) (variables e) ->
  (var_reported (check e) p n <-> ~ (In (lower n) vars /\ In (lower n) ctxs)).
Proof.
  intros e Hk p n Hin. unfold var_reported. split.
  - intros [H|H] [Hv Hc].
    + rewrite check_eq_visit in H. apply visit_var_sound in H; [|now left]. destruct H as [_ [H _]]. destruct (H eq_refl). contradiction.
    + apply (undefined_verdict e Hk p n Hin) in H. contradiction.
  - intros Hn. destruct (check_var_cases p n) as [[A [B _]]|[[A [B _]]|[A _]]].
    + exfalso. auto.
    + left. now apply avail_verdict.
    + right. now apply undefined_verdict.
Qed.

(* a variable-class diagnostic is always about an occurrence in the expression *)
Theorem var_diag_is_occurrence : forall e p k n,
  In (mk_diag p k n) (check e) -> k = DCtx \/ k = DUndefVar -> In (p, n) (variables e).
Proof. intros e p k n H Hk. rewrite check_eq_visit in H. now apply visit_var_sound in H. Qed.

(* --- special functions *)
Lemma visit_fn_sound : forall e p c,
  In (mk_diag p DFn c) (visit e) ->
  In (p, c) (calls e) /\ In (lower c) specials /\ ~ In (lower c) sps /\ sigok p = true.
Proof.
  induction e as [q m|q|q b|q z|q r|q s|r m IH|r IH|o i IHo IHi|q x IH|op l r IHl IHr|op l r IHl IHr|q c' args IH]
    using expr_ind'; intros p c Hin; cbn [Avail.visit calls] in *; try (now destruct Hin); eauto.
  - destruct (check_var_cases q m) as [[_ [_ E]]|[[_ [_ E]]|[_ E]]]; rewrite E in Hin; [destruct Hin| |];
      destruct Hin as [Hd|[]]; inversion Hd.
  - apply in_app_or in Hin. destruct Hin as [H|H]; [destruct (IHi _ _ H) as [A B]|destruct (IHo _ _ H) as [A B]];
      (split; [apply in_or_app; auto|exact B]).
  - apply in_app_or in Hin. destruct Hin as [H|H]; [destruct (IHl _ _ H) as [A B]|destruct (IHr _ _ H) as [A B]];
      (split; [apply in_or_app; auto|exact B]).
  - apply in_app_or in Hin. destruct Hin as [H|H]; [destruct (IHl _ _ H) as [A B]|destruct (IHr _ _ H) as [A B]];
      (split; [apply in_or_app; auto|exact B]).
  - apply check_call_in in Hin. destruct Hin as [[_ H]|[[_ [Hs H]]|[_ H]]].
    + apply in_flat_map in H. destruct H as [a [Ha Hd]].
      rewrite Forall_forall in IH. destruct (IH a Ha _ _ Hd) as [A B].
      split; [right; apply in_flat_map; eauto|exact B].
    + apply check_special_in in H. destruct H as [H [A B]]. inversion H; subst. split; [now left|auto].
    + inversion H.
Qed.

Lemma visit_fn_complete : forall e, calls_known funcs e -> forall p c,
  In (p, c) (calls e) -> sigok p = true -> forall d, In d (check_special p c) -> In d (visit e).
Proof.
  induction e as [q m|q|q b|q z|q r|q s|r m IH|r IH|o i IHo IHi|q x IH|op l r IHl IHr|op l r IHl IHr|q c' args IH]
    using expr_ind'; intros Hk p c Hin Hs d Hd; cbn [Avail.visit calls] in *; try (now destruct Hin).
  - eapply IH; eauto.
  - eapply IH; eauto.
  - apply in_or_app. apply in_app_or in Hin. destruct Hin as [H|H].
    + left. eapply IHi; eauto. intros a b Hab. apply (Hk a b). cbn. apply in_or_app. auto.
    + right. eapply IHo; eauto. intros a b Hab. apply (Hk a b). cbn. apply in_or_app. auto.
  - eapply IH; eauto.
  - apply in_or_app. apply in_app_or in Hin. destruct Hin as [H|H].
    + left. eapply IHl; eauto. intros a b Hab. apply (Hk a b). cbn. apply in_or_app. auto.
    + right. eapply IHr; eauto. intros a b Hab. apply (Hk a b). cbn. apply in_or_app. auto.
  - apply in_or_app. apply in_app_or in Hin. destruct Hin as [H|H].
    + left. eapply IHl; eauto. intros a b Hab. apply (Hk a b). cbn. apply in_or_app. auto.
    + right. eapply IHr; eauto. intros a b Hab. apply (Hk a b). cbn. apply in_or_app. auto.
  - unfold Avail.check_call.
    assert (Hf : In (lower c') funcs) by (apply (Hk q c'); cbn; now left).
    apply mem_In in Hf. rewrite Hf. apply in_or_app.
    destruct Hin as [E|Hin].
    + inversion E; subst. right. rewrite Hs. exact Hd.
    + left. apply in_flat_map in Hin. destruct Hin as [a [Ha Hv]]. apply in_flat_map. exists a. split; [assumption|].
      rewrite Forall_forall in IH. eapply IH; eauto.
      intros a' b' Hab. apply (Hk a' b'). cbn. right. apply in_flat_map. eauto.
Qed.

Theorem special_verdict : forall e, calls_known funcs e -> forall p c,
  In (p, c) (calls e) -> In (lower c) specials -> sigok p = true ->
  (In (mk_diag p DFn c) (check e) <-> ~ In (lower c) sps).
Proof.
  intros e Hk p c Hin Hsp Hs. rewrite check_eq_visit. split.
  - intros H. apply visit_fn_sound in H. tauto.
  - intros Hn. eapply visit_fn_complete; eauto.
    unfold Avail.check_special. apply mem_In in Hsp. rewrite Hsp.
    apply mem_false_In in Hn. rewrite Hn. now left.
Qed.

(* a function that is not special is never reported as not allowed, wherever it is called *)
Theorem non_special_never : forall e p c,
  ~ In (lower c) specials -> ~ In (mk_diag p DFn c) (check e).
Proof. intros e p c Hn H. rewrite check_eq_visit in H. apply visit_fn_sound in H. tauto. Qed.

Theorem fn_diag_is_call : forall e p c,
  In (mk_diag p DFn c) (check e) ->
  In (p, c) (calls e) /\ In (lower c) specials /\ ~ In (lower c) sps /\ sigok p = true.
Proof. intros e p c H. rewrite check_eq_visit in H. now apply visit_fn_sound. Qed.

(* --- letter case *)
Lemma check_var_recase p n : map verdict (check_var p (lower n)) = map verdict (check_var p n).
Proof.
  unfold Avail.check_var. rewrite !lower_idem.
  destruct (mem (lower n) vars); [destruct (mem (lower n) ctxs)|]; reflexivity.
Qed.

Lemma check_call_recase p c a b :
  map verdict a = map verdict b ->
  map verdict (check_call p (lower c) a) = map verdict (check_call p c b).
Proof.
  intros H. unfold Avail.check_call, Avail.check_special. rewrite !lower_idem.
  destruct (mem (lower c) funcs); [|reflexivity].
  rewrite !map_app, H. f_equal.
  destruct (sigok p); [|reflexivity].
  destruct (mem (lower c) specials); [|reflexivity].
  destruct (mem (lower c) sps); reflexivity.
Qed.

Lemma visit_fold_case : forall e, map verdict (visit (fold_case e)) = map verdict (visit e).
Proof.
  induction e as [p n|p|p b|p z|p r|p s|r n IH|r IH|o i IHo IHi|p x IH|op l r IHl IHr|op l r IHl IHr|p c args IH]
    using expr_ind'; cbn [Avail.visit fold_case]; try reflexivity; try assumption.
  - apply check_var_recase.
  - now rewrite !map_app, IHi, IHo.
  - now rewrite !map_app, IHl, IHr.
  - now rewrite !map_app, IHl, IHr.
  - apply check_call_recase.
    induction IH as [|a args Ha _ IHargs]; cbn; [reflexivity|]. now rewrite !map_app, Ha, IHargs.
Qed.

(* the verdicts (position, class) do not depend on the letter case of any name *)
Theorem avail_recase : forall e e', fold_case e = fold_case e' ->
  map verdict (check e) = map verdict (check e').
Proof.
  intros e e' H. rewrite !check_eq_visit, <- (visit_fold_case e), <- (visit_fold_case e'), H. reflexivity.
Qed.

(* documented gap: an unknown function is reported and hides its arguments *)
Lemma unknown_fn_stops p c args :
  ~ In (lower c) funcs -> check (ECall p c args) = [mk_diag p DUndefFn c].
Proof.
  intros H. rewrite check_eq_visit. cbn [Avail.visit]. unfold Avail.check_call.
  apply mem_false_In in H. now rewrite H.
Qed.
End CheckerProofs.

(* the hypotheses are satisfiable by non-trivial values *)
Example avail_verdict_example :
  let e := ECall (tp 1 1 2) "format" [EStr (tp 8 1 9) "{0}"; EDeref (EVar (tp 15 1 16) "SECRETS") "x"] in
  calls_known ["format"] e /\ In (tp 15 1 16, "SECRETS") (variables e) /\ In (lower "SECRETS") ["github"; "secrets"] /\
  check ["github"; "secrets"] ["format"] ["always"] ["github"] [] (fun _ => true) e = [mk_diag (tp 15 1 16) DCtx "SECRETS"].
Proof.
  cbn -[In]. repeat split; try (cbn; tauto).
  intros p c H. cbn in H. destruct H as [H|[]]. inversion H. cbn. tauto.
Qed.

Example special_verdict_example :
  let e := ELog LAnd (ECall (tp 1 1 2) "Always" []) (ENot (tp 13 1 14) (ECall (tp 14 1 15) "hashFiles" [EStr (tp 24 1 25) "a"])) in
  check [] ["always"; "hashfiles"] ["always"; "hashfiles"] [] ["hashfiles"] (fun _ => true) e = [mk_diag (tp 1 1 2) DFn "Always"].
Proof. reflexivity. Qed.

(* ------------------------------------------------------------ the tables *)

(* T: the table the code returns (regenerated on every run) is GitHub's table *)
Theorem gen_avail_eq_spec : GenAvailability.table = SpecAvailability.table.
Proof. vm_compute. reflexivity. Qed.

(* a key that is not in the table, and the empty key, allow nothing *)
Theorem gen_unknown_none : GenAvailability.unknown = ([], []) /\ GenAvailability.empty_key = ([], []).
Proof. split; vm_compute; reflexivity. Qed.

Lemma lookup_unlisted t k : ~ In k (map fst t) -> lookup t k = ([], []).
Proof.
  intros H. unfold lookup. destruct (find _ t) eqn:E; [|reflexivity].
  apply find_some in E. destruct E as [E1 E2]. apply String.eqb_eq in E2. subst k.
  exfalso. apply H. now apply in_map.
Qed.

(* the special functions: exactly the names of the third column, each with exactly its keys *)
Fixpoint dedup_sorted (l : list string) : list string :=
  match l with
  | x :: ((y :: _) as l') => if String.eqb x y then dedup_sorted l' else x :: dedup_sorted l'
  | _ => l
  end.

Definition spec_special_rows (t : list row) : list (string * list string) :=
  map (fun f => (f, map fst (filter (fun r => mem f (snd (snd r))) t)))
      (dedup_sorted (sort_s (flat_map (fun r => snd (snd r)) t))).

Theorem gen_special_eq_spec : GenAvailability.special_rows = spec_special_rows SpecAvailability.table.
Proof. vm_compute. reflexivity. Qed.

(* every context of the table is a variable the checker defines somewhere
   (the global ones, and `jobs` while workflow_call outputs are checked) *)
Theorem gen_contexts_defined :
  forallb (fun r => forallb (fun c => mem c ("jobs" :: GenAvailability.global_vars)) (fst (snd r))) SpecAvailability.table = true.
Proof. vm_compute. reflexivity. Qed.

(* and every special function is a function the checker knows *)
Theorem gen_specials_are_functions :
  forallb (fun f => mem f GenAvailability.func_names) special_names = true.
Proof. vm_compute. reflexivity. Qed.

(* ------------------------------------------------------------ the routing *)

(* T: the call sites of rule_expression.go (extracted on every run) are the modelled ones *)
Lemma insert_site_perm x l : Permutation (x :: l) (insert_site x l).
Proof.
  induction l as [|y l IH]; cbn; [apply Permutation_refl|].
  destruct (String.leb _ _); [apply Permutation_refl|].
  eapply perm_trans; [apply perm_swap|]. now apply perm_skip.
Qed.

Lemma sort_sites_perm l : Permutation l (sort_sites l).
Proof.
  induction l as [|x l IH]; cbn; [apply perm_nil|].
  eapply perm_trans; [apply perm_skip, IH|apply insert_site_perm].
Qed.

Lemma sorted_eq_same_sites a b : sort_sites a = sort_sites b -> forall s, In s a <-> In s b.
Proof.
  intros E s. split; intros H.
  - eapply Permutation_in; [apply Permutation_sym, sort_sites_perm|]. rewrite <- E.
    eapply Permutation_in; [apply sort_sites_perm|exact H].
  - eapply Permutation_in; [apply Permutation_sym, sort_sites_perm|]. rewrite E.
    eapply Permutation_in; [apply sort_sites_perm|exact H].
Qed.

Lemma route_sites_sorted_match : exists req_in req_sec inc_elem,
  sort_sites GenRouteSites.sites = sort_sites (model_sites req_in req_sec inc_elem).
Proof.
  first
    [ exists false, false, false; vm_compute; reflexivity
    | exists true, true, true; vm_compute; reflexivity
    | exists true, true, false; vm_compute; reflexivity
    | exists false, false, true; vm_compute; reflexivity
    | exists true, false, false; vm_compute; reflexivity
    | exists true, false, true; vm_compute; reflexivity
    | exists false, true, false; vm_compute; reflexivity
    | exists false, true, true; vm_compute; reflexivity ].
Qed.

(* the extracted call sites are exactly the modelled ones (in one of the
   anticipated repair states of the three C03-defect sites) *)
Theorem route_sites_match_model : exists req_in req_sec inc_elem,
  forall s, In s GenRouteSites.sites <-> In s (model_sites req_in req_sec inc_elem).
Proof.
  destruct route_sites_sorted_match as [a [b [c E]]]. exists a, b, c. now apply sorted_eq_same_sites.
Qed.

Theorem route_key_stmts_match_model : GenRouteSites.key_stmts = model_key_stmts.
Proof. vm_compute. reflexivity. Qed.

Lemma routing_all_ok : forallb (site_ok GenAvailability.table) (leaves GenRouteSites.sites) = true.
Proof. vm_compute. reflexivity. Qed.

Theorem routing_key_spec : forall ol, In ol (leaves GenRouteSites.sites) ->
  exists l path, ol = Some l /\ canon_of l = Some path /\
    eff_avail GenAvailability.table (l_key l) = spec_avail GenAvailability.table path.
Proof.
  intros ol Hin. pose proof routing_all_ok as H. rewrite forallb_forall in H. specialize (H ol Hin).
  unfold site_ok in H. destruct ol as [l|]; [|discriminate].
  destruct (canon_of l) as [path|] eqn:Ec; [|discriminate].
  exists l, path. repeat split; try assumption. now apply avail_eqb_eq.
Qed.

(* the enumeration is not vacuous: that many resolved paths from a literal key to the checker *)
Example routing_nontrivial : length (leaves GenRouteSites.sites) = length gen_leaves /\ 80 <= length gen_leaves.
Proof. split; [now rewrite gen_leaves_eq|apply Nat.leb_le; vm_compute; reflexivity]. Qed.

(* ------------------------------------------------------------ composition *)

Theorem avail_main : forall ol, In ol (leaves GenRouteSites.sites) ->
  exists l path, ol = Some l /\ canon_of l = Some path /\
  forall root_fn e, calls_known GenAvailability.func_names e ->
    (forall p n, In (p, n) (variables e) -> In (lower n) (vars_at root_fn) ->
       (In (mk_diag p DCtx n) (check_at GenAvailability.table (l_key l) root_fn e) <->
        ~ In (lower n) (fst (spec_avail SpecAvailability.table path)))) /\
    (forall p c, In (p, c) (calls e) -> In (lower c) special_names ->
       (In (mk_diag p DFn c) (check_at GenAvailability.table (l_key l) root_fn e) <->
        ~ In (lower c) (snd (spec_avail SpecAvailability.table path)))).
Proof.
  intros ol Hin. destruct (routing_key_spec ol Hin) as [l [path [E [Ec Ea]]]].
  exists l, path. split; [exact E|]. split; [exact Ec|].
  intros root_fn e Hk. unfold check_at. rewrite Ea, gen_avail_eq_spec. split.
  - intros p n Hv Hd. now apply avail_verdict.
  - intros p c Hc Hs. now apply special_verdict.
Qed.
