(* Wf/RoutingProofs.v — every scalar the AST holds at a value position is
   handed to an expression checker by the traversal of RuleExpression, or is
   exempt (property C03).  Component lemmas: Wf/RoutingCovers.v. *)
From AL Require Import Base.Str Wf.WfAst Wf.Routing Wf.RoutingCovers.
From Coq Require Import NArith.

Section Fixed.
Notation fx := fixed (only parsing).

(* events: everything except the outputs' values is handed over in VisitWorkflowPre;
   the values of the outputs of the workflow_call event in VisitWorkflowPost *)
Definition output_values (c : call_event) : list scalar :=
  of_map (fun o => of_ostr "WorkflowCallEventOutput.Value" (co_value o)) (ce_outputs c).

Lemma event_covers e B :
  (forall c, e = ECall c -> covers (output_values c) B) ->
  covers (event_scalars e) (routed_scalars (visit_event fx e) ++ B).
Proof.
  intros HB. destruct e as [we | cron | inputs | types | c]; unfold event_scalars, visit_event.
  - destruct we as [hook types br bri tg tgi pa pai wfs];
      cbn [we_hook we_types we_branches we_branches_ignore we_tags we_tags_ignore we_paths we_paths_ignore we_workflows].
    autorewrite with routed. split_covers; try by_refl.
    apply covers_exempt. intros s Hs. destruct hook; cbn in Hs; [|contradiction]. destruct Hs as [<-|[]]. reflexivity.
  - autorewrite with routed. by_refl.
  - apply covers_r_l. unfold of_map. rewrite routed_flat_map. apply covers_flat_map. intros [k i] _. cbn [snd].
    autorewrite with routed. split_covers; by_refl.
  - autorewrite with routed. by_refl.
  - cbn [fx fixed fx_required]. rewrite !routed_app, !routed_flat_map. split_covers.
    + apply covers_r_l, covers_r_l. apply covers_flat_map. intros i _. autorewrite with routed. split_covers; by_refl.
    + apply covers_r_l, covers_r_r, covers_r_l. destruct (ce_secrets c) as [secs|]; cbn [of_opt]; [|apply covers_nil].
      unfold of_map. rewrite routed_flat_map. apply covers_flat_map. intros [k s] _. cbn [snd].
      autorewrite with routed. split_covers; by_refl.
    + unfold of_map.
      assert (Hsplit : forall (l : list (string * call_output)) B1,
                 covers (of_map (fun o => of_ostr "WorkflowCallEventOutput.Value" (co_value o)) l) B ->
                 covers (flat_map (fun kv => of_ostr "WorkflowCallEventOutput.Description" (co_description (snd kv))
                                             ++ of_ostr "WorkflowCallEventOutput.Value" (co_value (snd kv))) l)
                        ((B1 ++ flat_map (fun x => routed_scalars
                                 (at_ ("VisitWorkflowPre", "checkString", "o.Description")
                                      (check_string "" "WorkflowCallEventOutput.Description" (co_description (snd x))))) l) ++ B)).
      { intros l B1 Hl s Hin Hp. apply in_flat_map in Hin. destruct Hin as [kv [Hkv Hin]].
        apply in_app_or in Hin. destruct Hin as [Hin|Hin].
        - left. apply in_or_app. left. apply in_or_app. right. apply in_flat_map. exists kv. split; [exact Hkv|].
          now autorewrite with routed.
        - destruct (Hl s) as [H1|H1]; [unfold of_map; apply in_flat_map; eauto | exact Hp | left; apply in_or_app; now right | now right]. }
      rewrite app_assoc. apply Hsplit. apply (HB c eq_refl).
Qed.

Lemma ok_events_seen evs c : ok_events true evs = true -> In (ECall c) evs -> ce_outputs c = [].
Proof.
  induction evs as [|e r IH]; cbn; [intros _ []|]; intros Hok [Heq|Hin].
  - subst e. apply andb_prop in Hok. destruct Hok as [H _]. destruct (ce_outputs c); [reflexivity|discriminate].
  - destruct e; try (now apply IH). apply andb_prop in Hok. destruct Hok as [_ H]. now apply IH.
Qed.

Lemma ok_events_first evs c :
  ok_events false evs = true -> In (ECall c) evs -> find_call_event evs = Some c \/ ce_outputs c = [].
Proof.
  induction evs as [|e r IH]; cbn; [intros _ []|]; intros Hok [Heq|Hin].
  - subst e. now left.
  - destruct e; try (now apply IH). right. eapply ok_events_seen; eauto.
Qed.

Lemma post_covers w c :
  wfb w = true -> In (ECall c) (wf_on w) -> covers (output_values c) (routed_scalars (visit_workflow_post w)).
Proof.
  unfold wfb. intros Hok Hin. apply andb_prop in Hok. destruct Hok as [Hok Hjobs]. apply andb_prop in Hok. destruct Hok as [_ Hev].
  unfold output_values. destruct (ce_outputs c) as [|o outs] eqn:Houts; [apply covers_nil|].
  destruct (ok_events_first _ _ Hev Hin) as [Hf|Hf]; [|congruence].
  unfold visit_workflow_post. rewrite Hf, routed_at. unfold check_workflow_call_outputs. rewrite Houts.
  assert (Hhas : has_call_outputs (wf_on w) = true).
  { unfold has_call_outputs. apply existsb_exists. exists (ECall c). split; [exact Hin|]. now rewrite Houts. }
  rewrite Hhas in Hjobs. cbn in Hjobs. destruct (wf_jobs w) as [|j js]; [discriminate|].
  unfold of_map. rewrite routed_flat_map. apply covers_flat_map. intros kv _. autorewrite with routed. apply covers_refl.
Qed.

(* THE routing theorem: every scalar at a value position of the AST is handed
   to an expression checker, or is exempt (a step id: when it contains a placeholder) *)
Theorem routed_complete_fixed w :
  wfb w = true -> covers (ast_scalars w) (routed_scalars (visit fx w)).
Proof.
  intros Hok. pose proof Hok as Hok'. unfold wfb in Hok'.
  apply andb_prop in Hok'. destruct Hok' as [Hok' _]. apply andb_prop in Hok'. destruct Hok' as [Hok' _].
  apply andb_prop in Hok'. destruct Hok' as [Henv Hjobs].
  unfold ast_scalars, visit, visit_workflow_pre. rewrite !routed_app, !routed_at, !routed_flat_map.
  rewrite ?routed_check_string, ?routed_check_defaults, ?routed_check_concurrency.
  split_covers; try by_refl.
  - (* events *)
    intros s Hin Hp. apply in_flat_map in Hin. destruct Hin as [e [He Hin]].
    destruct (event_covers e (routed_scalars (visit_workflow_post w))) with (s := s) as [H|H]; try assumption.
    + intros c ->. now apply post_covers.
    + left. apply in_app_or in H. rewrite !in_app_iff. destruct H as [H|H].
      * left. right. left. apply in_flat_map. eauto.
      * right. right. exact H.
    + now right.
  - destruct (wf_permissions w) as [p|]; cbn [of_opt]; [|apply covers_nil]. apply covers_exempt, permissions_exempt.
  - covers_search ltac:(apply oenv_covers, Henv).
  - covers_search ltac:(unfold of_map; apply covers_flat_map; intros kj Hkj; apply job_covers; exact (forallb_In _ _ _ Hjobs Hkj)).
Qed.
End Fixed.

Theorem routed_complete w s :
  wfb w = true -> In s (ast_scalars w) ->
  (sc_field s = "Step.ID" -> contains_expr (sval (sc_str s)) = true) ->
  In s (routed_scalars (visit fixed w)) \/ exempt s.
Proof. intros Hok Hin Hp. exact (routed_complete_fixed w Hok s Hin Hp). Qed.
