(* Wf/RoutingTies.v — the hand lists of the routing model and their ties to the
   translator output (coq/Gen/GenRouteChecks.v, regenerated from /repo on every
   run).  A call `rule.check*(...)` that is deleted, added or given another
   argument in rule_expression.go, a field added to / removed from a struct of
   ast.go, or a change of parse.go that makes the every-key workflows lose a
   field, changes Gen and breaks one of the theorems below at compile time. *)
From AL Require Import Base.Str Wf.WfAst Wf.Routing Wf.RoutingCovers Wf.RoutingProofs Gen.GenRouteChecks.
From Coq Require Import NArith.

(* every call rule.check*(...) of rule_expression.go as the model assumes it:
   (function, callee, field the first argument is read from, arguments) *)
Definition model_sites : list (string * string * string * list string) := [
  ("VisitWorkflowPre", "checkString", "Workflow.Name", ["n.Name"; """"""]);
  ("VisitWorkflowPre", "checkStrings", "WebhookEvent.Types", ["e.Types"; """"""]);
  ("VisitWorkflowPre", "checkWebhookEventFilter", "WebhookEvent.Branches", ["e.Branches"]);
  ("VisitWorkflowPre", "checkWebhookEventFilter", "WebhookEvent.BranchesIgnore", ["e.BranchesIgnore"]);
  ("VisitWorkflowPre", "checkWebhookEventFilter", "WebhookEvent.Tags", ["e.Tags"]);
  ("VisitWorkflowPre", "checkWebhookEventFilter", "WebhookEvent.TagsIgnore", ["e.TagsIgnore"]);
  ("VisitWorkflowPre", "checkWebhookEventFilter", "WebhookEvent.Paths", ["e.Paths"]);
  ("VisitWorkflowPre", "checkWebhookEventFilter", "WebhookEvent.PathsIgnore", ["e.PathsIgnore"]);
  ("VisitWorkflowPre", "checkStrings", "WebhookEvent.Workflows", ["e.Workflows"; """"""]);
  ("VisitWorkflowPre", "checkStrings", "ScheduledEvent.Cron", ["e.Cron"; """"""]);
  ("VisitWorkflowPre", "checkString", "DispatchInput.Description", ["i.Description"; """"""]);
  ("VisitWorkflowPre", "checkString", "DispatchInput.Default", ["i.Default"; """"""]);
  ("VisitWorkflowPre", "checkBool", "DispatchInput.Required", ["i.Required"; """"""]);
  ("VisitWorkflowPre", "checkStrings", "DispatchInput.Options", ["i.Options"; """"""]);
  ("VisitWorkflowPre", "checkStrings", "RepositoryDispatchEvent.Types", ["e.Types"; """"""]);
  ("VisitWorkflowPre", "checkString", "WorkflowCallEventInput.Description", ["i.Description"; """"""]);
  ("VisitWorkflowPre", "checkBool", "WorkflowCallEventInput.Required", ["i.Required"; """"""]);
  ("VisitWorkflowPre", "checkString", "WorkflowCallEventInput.Default", ["i.Default"; """on.workflow_call.inputs.<inputs_id>.default"""]);
  ("VisitWorkflowPre", "checkString", "WorkflowCallEventSecret.Description", ["s.Description"; """"""]);
  ("VisitWorkflowPre", "checkBool", "WorkflowCallEventSecret.Required", ["s.Required"; """"""]);
  ("VisitWorkflowPre", "checkString", "WorkflowCallEventOutput.Description", ["o.Description"; """"""]);
  ("VisitWorkflowPre", "checkString", "Workflow.RunName", ["n.RunName"; """run-name"""]);
  ("VisitWorkflowPre", "checkEnv", "Workflow.Env", ["n.Env"; """env"""]);
  ("VisitWorkflowPre", "checkDefaults", "Workflow.Defaults", ["n.Defaults"; """"""]);
  ("VisitWorkflowPre", "checkConcurrency", "Workflow.Concurrency", ["n.Concurrency"; """concurrency"""]);
  ("VisitWorkflowPost", "checkWorkflowCallOutputs", "WorkflowCallEvent.Outputs", ["e.Outputs"; "n.Jobs"]);
  ("VisitJobPre", "checkMatrix", "Strategy.Matrix", ["n.Strategy.Matrix"]);
  ("VisitJobPre", "checkString", "Job.Name", ["n.Name"; """jobs.<job_id>.name"""]);
  ("VisitJobPre", "checkStrings", "Job.Needs", ["n.Needs"; """"""]);
  ("VisitJobPre", "checkOneExpression", "Runner.LabelsExpr", ["n.RunsOn.LabelsExpr"; """runner label at \""runs-on\"" section"""; """jobs.<job_id>.runs-on"""]);
  ("VisitJobPre", "checkString", "Runner.Labels[]", ["l"; """jobs.<job_id>.runs-on"""]);
  ("VisitJobPre", "checkString", "Runner.Group", ["n.RunsOn.Group"; """jobs.<job_id>.runs-on"""]);
  ("VisitJobPre", "checkConcurrency", "Job.Concurrency", ["n.Concurrency"; """jobs.<job_id>.concurrency"""]);
  ("VisitJobPre", "checkEnv", "Job.Env", ["n.Env"; """jobs.<job_id>.env"""]);
  ("VisitJobPre", "checkDefaults", "Job.Defaults", ["n.Defaults"; """jobs.<job_id>.defaults.run"""]);
  ("VisitJobPre", "checkIfCondition", "Job.If", ["n.If"; """jobs.<job_id>.if"""]);
  ("VisitJobPre", "checkBool", "Strategy.FailFast", ["n.Strategy.FailFast"; """jobs.<job_id>.strategy"""]);
  ("VisitJobPre", "checkInt", "Strategy.MaxParallel", ["n.Strategy.MaxParallel"; """jobs.<job_id>.strategy"""]);
  ("VisitJobPre", "checkBool", "Job.ContinueOnError", ["n.ContinueOnError"; """jobs.<job_id>.continue-on-error"""]);
  ("VisitJobPre", "checkFloat", "Job.TimeoutMinutes", ["n.TimeoutMinutes"; """jobs.<job_id>.timeout-minutes"""]);
  ("VisitJobPre", "checkContainer", "Job.Container", ["n.Container"; """jobs.<job_id>.container"""; """"""]);
  ("VisitJobPre", "checkObjectExpression", "Services.Expression", ["n.Services.Expression"; """services"""; """jobs.<job_id>.services"""]);
  ("VisitJobPre", "checkContainer", "Service.Container", ["s.Container"; """jobs.<job_id>.services"""; """<service_id>"""]);
  ("VisitJobPre", "checkWorkflowCall", "Job.WorkflowCall", ["n.WorkflowCall"]);
  ("VisitJobPost", "checkString", "Environment.Name", ["n.Environment.Name"; """jobs.<job_id>.environment"""]);
  ("VisitJobPost", "checkString", "Environment.URL", ["n.Environment.URL"; """jobs.<job_id>.environment.url"""]);
  ("VisitJobPost", "checkString", "Output.Value", ["output.Value"; """jobs.<job_id>.outputs.<output_id>"""]);
  ("VisitStep", "checkString", "Step.Name", ["n.Name"; """jobs.<job_id>.steps.name"""]);
  ("VisitStep", "checkIfCondition", "Step.If", ["n.If"; """jobs.<job_id>.steps.if"""]);
  ("VisitStep", "checkScriptString", "ExecRun.Run", ["e.Run"; """jobs.<job_id>.steps.run"""]);
  ("VisitStep", "checkString", "ExecRun.Shell", ["e.Shell"; """"""]);
  ("VisitStep", "checkString", "ExecRun.WorkingDirectory", ["e.WorkingDirectory"; """jobs.<job_id>.steps.working-directory"""]);
  ("VisitStep", "checkString", "ExecAction.Uses", ["e.Uses"; """"""]);
  ("VisitStep", "checkScriptString", "Input.Value", ["i.Value"; """jobs.<job_id>.steps.with"""]);
  ("VisitStep", "checkString", "Input.Value", ["i.Value"; """jobs.<job_id>.steps.with"""]);
  ("VisitStep", "checkString", "ExecAction.Entrypoint", ["e.Entrypoint"; """jobs.<job_id>.steps.with"""]);
  ("VisitStep", "checkString", "ExecAction.Args", ["e.Args"; """jobs.<job_id>.steps.with"""]);
  ("VisitStep", "checkEnv", "Step.Env", ["n.Env"; """jobs.<job_id>.steps.env"""]);
  ("VisitStep", "checkBool", "Step.ContinueOnError", ["n.ContinueOnError"; """jobs.<job_id>.steps.continue-on-error"""]);
  ("VisitStep", "checkFloat", "Step.TimeoutMinutes", ["n.TimeoutMinutes"; """jobs.<job_id>.steps.timeout-minutes"""]);
  ("VisitStep", "checkString", "Step.ID", ["n.ID"; """"""]);
  ("checkOneExpression", "checkExprsIn", "String.Value", ["s.Value"; "s.Pos"; "s.Quoted"; "false"; "workflowKey"]);
  ("checkObjectExpression", "checkOneExpression", "var:*String", ["s"; "what"; "workflowKey"]);
  ("checkObjectExpression", "checkObjectTy", "var:ExprType", ["ty"; "s.Pos"; "what"]);
  ("checkArrayExpression", "checkOneExpression", "var:*String", ["s"; "what"; "workflowKey"]);
  ("checkArrayExpression", "checkArrayTy", "var:ExprType", ["ty"; "s.Pos"; "what"]);
  ("checkNumberExpression", "checkOneExpression", "var:*String", ["s"; "what"; "workflowKey"]);
  ("checkNumberExpression", "checkNumberTy", "var:ExprType", ["ty"; "s.Pos"; "what"]);
  ("checkEnv", "checkString", "EnvVar.Name", ["e.Name"; "workflowKey"]);
  ("checkEnv", "checkString", "EnvVar.Value", ["e.Value"; "workflowKey"]);
  ("checkEnv", "checkObjectExpression", "Env.Expression", ["env.Expression"; """env"""; "workflowKey"]);
  ("checkContainer", "checkString", "Container.Image", ["c.Image"; "workflowKey"]);
  ("checkContainer", "checkString", "Credentials.Username", ["c.Credentials.Username"; "k"]);
  ("checkContainer", "checkString", "Credentials.Password", ["c.Credentials.Password"; "k"]);
  ("checkContainer", "checkEnv", "Container.Env", ["c.Env"; "childWorkflowKey + "".env.<env_id>"""]);
  ("checkContainer", "checkStrings", "Container.Ports", ["c.Ports"; "workflowKey"]);
  ("checkContainer", "checkStrings", "Container.Volumes", ["c.Volumes"; "workflowKey"]);
  ("checkContainer", "checkString", "Container.Options", ["c.Options"; "workflowKey"]);
  ("checkConcurrency", "checkString", "Concurrency.Group", ["c.Group"; "workflowKey"]);
  ("checkConcurrency", "checkBool", "Concurrency.CancelInProgress", ["c.CancelInProgress"; "workflowKey"]);
  ("checkDefaults", "checkString", "DefaultsRun.Shell", ["d.Run.Shell"; "workflowKey"]);
  ("checkDefaults", "checkString", "DefaultsRun.WorkingDirectory", ["d.Run.WorkingDirectory"; "workflowKey"]);
  ("checkWorkflowCall", "checkString", "WorkflowCall.Uses", ["c.Uses"; """"""]);
  ("checkWorkflowCall", "checkString", "WorkflowCallInput.Value", ["i.Value"; """jobs.<job_id>.with.<with_id>"""]);
  ("checkWorkflowCall", "checkString", "WorkflowCallSecret.Value", ["s.Value"; """jobs.<job_id>.secrets.<secrets_id>"""]);
  ("checkWebhookEventFilter", "checkStrings", "WebhookEventFilter.Values", ["f.Values"; """"""]);
  ("checkStrings", "checkString", "range ss", ["s"; "workflowKey"]);
  ("checkIfCondition", "checkString", "var:*String", ["str"; "workflowKey"]);
  ("checkIfCondition", "checkSemanticsOfExprNode", "var:ExprNode", ["expr"; "line"; "col"; "false"; "workflowKey"]);
  ("checkString", "checkExprsIn", "String.Value", ["str.Value"; "str.Pos"; "str.Quoted"; "false"; "workflowKey"]);
  ("checkString", "checkTemplateEvaluatedType", "var:[]typedExpr", ["ts"]);
  ("checkScriptString", "checkExprsIn", "String.Value", ["str.Value"; "str.Pos"; "str.Quoted"; "true"; "workflowKey"]);
  ("checkScriptString", "checkTemplateEvaluatedType", "var:[]typedExpr", ["ts"]);
  ("checkBool", "checkOneExpression", "Bool.Expression", ["b.Expression"; """bool value"""; "workflowKey"]);
  ("checkInt", "checkNumberExpression", "Int.Expression", ["i.Expression"; """integer value"""; "workflowKey"]);
  ("checkFloat", "checkNumberExpression", "Float.Expression", ["f.Expression"; """float number value"""; "workflowKey"]);
  ("checkExprsIn", "checkSemantics", "var:string", ["s"; "line"; "col"; "checkUntrusted"; "workflowKey"]);
  ("checkSemantics", "checkSemanticsOfExprNode", "var:ExprNode", ["expr"; "line"; "col"; "checkUntrusted"; "workflowKey"]);
  ("checkMatrixExpression", "checkObjectExpression", "var:*String", ["expr"; """matrix"""; """jobs.<job_id>.strategy"""]);
  ("checkMatrix", "checkMatrixExpression", "Matrix.Expression", ["m.Expression"]);
  ("checkMatrix", "checkArrayExpression", "MatrixCombinations.Expression", ["m.Exclude.Expression"; """exclude"""; """jobs.<job_id>.strategy"""]);
  ("checkMatrix", "checkObjectTy", "ArrayType.Elem", ["ty.Elem"; "m.Exclude.Expression.Pos"; """exclude"""]);
  ("checkMatrix", "checkObjectExpression", "MatrixCombination.Expression", ["combi.Expression"; """exclude"""; """jobs.<job_id>.strategy"""]);
  ("checkMatrix", "checkRawYAMLValue", "MatrixAssign.Value", ["a.Value"]);
  ("checkMatrix", "checkMatrixRow", "Matrix.Rows[]", ["r"]);
  ("checkMatrix", "checkOneExpression", "MatrixCombinations.Expression", ["m.Include.Expression"; """include"""; """jobs.<job_id>.strategy"""]);
  ("checkMatrix", "checkOneExpression", "MatrixCombination.Expression", ["combi.Expression"; """matrix combination at element of include section"""; """jobs.<job_id>.strategy"""]);
  ("checkMatrix", "checkRawYAMLValue", "MatrixAssign.Value", ["assign.Value"]);
  ("checkMatrixRow", "checkArrayExpression", "MatrixRow.Expression", ["r.Expression"; """matrix row"""; """jobs.<job_id>.strategy"""]);
  ("checkMatrixRow", "checkRawYAMLValue", "MatrixRow.Values[]", ["v"]);
  ("checkWorkflowCallOutputs", "checkString", "WorkflowCallEventOutput.Value", ["o.Value"; """on.workflow_call.outputs.<output_id>.value"""]);
  ("checkRawYAMLValue", "checkRawYAMLValue", "RawYAMLObject.Props[]", ["p"]);
  ("checkRawYAMLValue", "checkRawYAMLValue", "RawYAMLArray.Elems[i]", ["v.Elems[0]"]);
  ("checkRawYAMLValue", "checkRawYAMLValue", "RawYAMLArray.Elems[i:][]", ["v"]);
  ("checkRawYAMLValue", "checkRawYAMLString", "var:*RawYAMLString", ["v"]);
  ("checkRawYAMLString", "checkExprsIn", "RawYAMLString.Value", ["y.Value"; "y.Pos()"; "false"; "false"; """jobs.<job_id>.strategy"""])
].

(* role of every struct field of ast.go in the model *)
Inductive fclass :=
| FValue    (* holds a scalar at a value position: in [ast_scalars], must be routed *)
| FExempt   (* value scalar that property C03 exempts (event name, permissions value) *)
| FKey      (* holds a mapping KEY of the source (not a value position) *)
| FText     (* the text carrier inside String / Bool / Int / Float / RawYAMLString *)
| FNode     (* edge to other AST nodes, followed by [ast_scalars] and [visit] *)
| FNone.    (* position, parsed literal, enum or flag: holds no source text *)

Definition model_fields : list (string * string * string * fclass) := [
  ("Pos", "Line", "int", FNone);
  ("Pos", "Col", "int", FNone);
  ("String", "Value", "string", FText);
  ("String", "Quoted", "bool", FNone);
  ("String", "Pos", "*Pos", FNone);
  ("Bool", "Value", "bool", FNone);
  ("Bool", "Expression", "*String", FText);
  ("Bool", "Pos", "*Pos", FNone);
  ("Int", "Value", "int", FNone);
  ("Int", "Expression", "*String", FText);
  ("Int", "Pos", "*Pos", FNone);
  ("Float", "Value", "float64", FNone);
  ("Float", "Expression", "*String", FText);
  ("Float", "Pos", "*Pos", FNone);
  ("WebhookEventFilter", "Name", "*String", FKey);
  ("WebhookEventFilter", "Values", "[]*String", FValue);
  ("WebhookEvent", "Hook", "*String", FExempt);
  ("WebhookEvent", "Types", "[]*String", FValue);
  ("WebhookEvent", "Branches", "*WebhookEventFilter", FNode);
  ("WebhookEvent", "BranchesIgnore", "*WebhookEventFilter", FNode);
  ("WebhookEvent", "Tags", "*WebhookEventFilter", FNode);
  ("WebhookEvent", "TagsIgnore", "*WebhookEventFilter", FNode);
  ("WebhookEvent", "Paths", "*WebhookEventFilter", FNode);
  ("WebhookEvent", "PathsIgnore", "*WebhookEventFilter", FNode);
  ("WebhookEvent", "Workflows", "[]*String", FValue);
  ("WebhookEvent", "Pos", "*Pos", FNone);
  ("ScheduledEvent", "Cron", "[]*String", FValue);
  ("ScheduledEvent", "Pos", "*Pos", FNone);
  ("DispatchInput", "Name", "*String", FKey);
  ("DispatchInput", "Description", "*String", FValue);
  ("DispatchInput", "Required", "*Bool", FValue);
  ("DispatchInput", "Default", "*String", FValue);
  ("DispatchInput", "Type", "WorkflowDispatchEventInputType", FNone);
  ("DispatchInput", "Options", "[]*String", FValue);
  ("WorkflowDispatchEvent", "Inputs", "map[string]*DispatchInput", FNode);
  ("WorkflowDispatchEvent", "Pos", "*Pos", FNone);
  ("RepositoryDispatchEvent", "Types", "[]*String", FValue);
  ("RepositoryDispatchEvent", "Pos", "*Pos", FNone);
  ("WorkflowCallEventInput", "Name", "*String", FKey);
  ("WorkflowCallEventInput", "Description", "*String", FValue);
  ("WorkflowCallEventInput", "Default", "*String", FValue);
  ("WorkflowCallEventInput", "Required", "*Bool", FValue);
  ("WorkflowCallEventInput", "Type", "WorkflowCallEventInputType", FNone);
  ("WorkflowCallEventInput", "ID", "string", FNone);
  ("WorkflowCallEventSecret", "Name", "*String", FKey);
  ("WorkflowCallEventSecret", "Description", "*String", FValue);
  ("WorkflowCallEventSecret", "Required", "*Bool", FValue);
  ("WorkflowCallEventOutput", "Name", "*String", FKey);
  ("WorkflowCallEventOutput", "Description", "*String", FValue);
  ("WorkflowCallEventOutput", "Value", "*String", FValue);
  ("WorkflowCallEvent", "Inputs", "[]*WorkflowCallEventInput", FNode);
  ("WorkflowCallEvent", "Secrets", "map[string]*WorkflowCallEventSecret", FNode);
  ("WorkflowCallEvent", "Outputs", "map[string]*WorkflowCallEventOutput", FNode);
  ("WorkflowCallEvent", "Pos", "*Pos", FNone);
  ("PermissionScope", "Name", "*String", FKey);
  ("PermissionScope", "Value", "*String", FExempt);
  ("Permissions", "All", "*String", FExempt);
  ("Permissions", "Scopes", "map[string]*PermissionScope", FNode);
  ("Permissions", "Pos", "*Pos", FNone);
  ("DefaultsRun", "Shell", "*String", FValue);
  ("DefaultsRun", "WorkingDirectory", "*String", FValue);
  ("DefaultsRun", "Pos", "*Pos", FNone);
  ("Defaults", "Run", "*DefaultsRun", FNode);
  ("Defaults", "Pos", "*Pos", FNone);
  ("Concurrency", "Group", "*String", FValue);
  ("Concurrency", "CancelInProgress", "*Bool", FValue);
  ("Concurrency", "Pos", "*Pos", FNone);
  ("Environment", "Name", "*String", FValue);
  ("Environment", "URL", "*String", FValue);
  ("Environment", "Pos", "*Pos", FNone);
  ("ExecRun", "Run", "*String", FValue);
  ("ExecRun", "Shell", "*String", FValue);
  ("ExecRun", "WorkingDirectory", "*String", FValue);
  ("ExecRun", "RunPos", "*Pos", FNone);
  ("Input", "Name", "*String", FKey);
  ("Input", "Value", "*String", FValue);
  ("ExecAction", "Uses", "*String", FValue);
  ("ExecAction", "Inputs", "map[string]*Input", FNode);
  ("ExecAction", "Entrypoint", "*String", FValue);
  ("ExecAction", "Args", "*String", FValue);
  ("RawYAMLObject", "Props", "map[string]RawYAMLValue", FNode);
  ("RawYAMLObject", "pos", "*Pos", FNone);
  ("RawYAMLArray", "Elems", "[]RawYAMLValue", FNode);
  ("RawYAMLArray", "pos", "*Pos", FNone);
  ("RawYAMLString", "Value", "string", FText);
  ("RawYAMLString", "pos", "*Pos", FNone);
  ("MatrixRow", "Name", "*String", FKey);
  ("MatrixRow", "Values", "[]RawYAMLValue", FValue);
  ("MatrixRow", "Expression", "*String", FValue);
  ("MatrixAssign", "Key", "*String", FKey);
  ("MatrixAssign", "Value", "RawYAMLValue", FValue);
  ("MatrixCombination", "Assigns", "map[string]*MatrixAssign", FNode);
  ("MatrixCombination", "Expression", "*String", FValue);
  ("MatrixCombinations", "Combinations", "[]*MatrixCombination", FNode);
  ("MatrixCombinations", "Expression", "*String", FValue);
  ("Matrix", "Rows", "map[string]*MatrixRow", FNode);
  ("Matrix", "Include", "*MatrixCombinations", FNode);
  ("Matrix", "Exclude", "*MatrixCombinations", FNode);
  ("Matrix", "Expression", "*String", FValue);
  ("Matrix", "Pos", "*Pos", FNone);
  ("Strategy", "Matrix", "*Matrix", FNode);
  ("Strategy", "FailFast", "*Bool", FValue);
  ("Strategy", "MaxParallel", "*Int", FValue);
  ("Strategy", "Pos", "*Pos", FNone);
  ("EnvVar", "Name", "*String", FKey);
  ("EnvVar", "Value", "*String", FValue);
  ("Env", "Vars", "map[string]*EnvVar", FNode);
  ("Env", "Expression", "*String", FValue);
  ("Step", "ID", "*String", FValue);
  ("Step", "If", "*String", FValue);
  ("Step", "Name", "*String", FValue);
  ("Step", "Exec", "Exec", FNode);
  ("Step", "Env", "*Env", FNode);
  ("Step", "ContinueOnError", "*Bool", FValue);
  ("Step", "TimeoutMinutes", "*Float", FValue);
  ("Step", "Pos", "*Pos", FNone);
  ("Credentials", "Username", "*String", FValue);
  ("Credentials", "Password", "*String", FValue);
  ("Credentials", "Pos", "*Pos", FNone);
  ("Container", "Image", "*String", FValue);
  ("Container", "Credentials", "*Credentials", FNode);
  ("Container", "Env", "*Env", FNode);
  ("Container", "Ports", "[]*String", FValue);
  ("Container", "Volumes", "[]*String", FValue);
  ("Container", "Options", "*String", FValue);
  ("Container", "Pos", "*Pos", FNone);
  ("Service", "Name", "*String", FKey);
  ("Service", "Container", "*Container", FNode);
  ("Services", "Value", "map[string]*Service", FNode);
  ("Services", "Expression", "*String", FValue);
  ("Services", "Pos", "*Pos", FNone);
  ("Output", "Name", "*String", FKey);
  ("Output", "Value", "*String", FValue);
  ("Runner", "Labels", "[]*String", FValue);
  ("Runner", "LabelsExpr", "*String", FValue);
  ("Runner", "Group", "*String", FValue);
  ("WorkflowCallInput", "Name", "*String", FKey);
  ("WorkflowCallInput", "Value", "*String", FValue);
  ("WorkflowCallSecret", "Name", "*String", FKey);
  ("WorkflowCallSecret", "Value", "*String", FValue);
  ("WorkflowCall", "Uses", "*String", FValue);
  ("WorkflowCall", "Inputs", "map[string]*WorkflowCallInput", FNode);
  ("WorkflowCall", "Secrets", "map[string]*WorkflowCallSecret", FNode);
  ("WorkflowCall", "InheritSecrets", "bool", FNone);
  ("Job", "ID", "*String", FKey);
  ("Job", "Name", "*String", FValue);
  ("Job", "Needs", "[]*String", FValue);
  ("Job", "RunsOn", "*Runner", FNode);
  ("Job", "Permissions", "*Permissions", FNode);
  ("Job", "Environment", "*Environment", FNode);
  ("Job", "Concurrency", "*Concurrency", FNode);
  ("Job", "Outputs", "map[string]*Output", FNode);
  ("Job", "Env", "*Env", FNode);
  ("Job", "Defaults", "*Defaults", FNode);
  ("Job", "If", "*String", FValue);
  ("Job", "Steps", "[]*Step", FNode);
  ("Job", "TimeoutMinutes", "*Float", FValue);
  ("Job", "Strategy", "*Strategy", FNode);
  ("Job", "ContinueOnError", "*Bool", FValue);
  ("Job", "Container", "*Container", FNode);
  ("Job", "Services", "*Services", FNode);
  ("Job", "WorkflowCall", "*WorkflowCall", FNode);
  ("Job", "Pos", "*Pos", FNone);
  ("Workflow", "Name", "*String", FValue);
  ("Workflow", "RunName", "*String", FValue);
  ("Workflow", "On", "[]Event", FNode);
  ("Workflow", "Permissions", "*Permissions", FNode);
  ("Workflow", "Env", "*Env", FNode);
  ("Workflow", "Defaults", "*Defaults", FNode);
  ("Workflow", "Concurrency", "*Concurrency", FNode);
  ("Workflow", "Jobs", "map[string]*Job", FNode)
].

Definition field_tag (x : string * string * string * fclass) : string :=
  let '(s, f, _, _) := x in (s ++ "." ++ f)%string.
Definition fclass_eqb (a b : fclass) : bool :=
  match a, b with
  | FValue, FValue | FExempt, FExempt | FKey, FKey | FText, FText | FNode, FNode | FNone, FNone => true
  | _, _ => false
  end.
Definition tags_of (c : fclass) : list string :=
  map field_tag (filter (fun x => fclass_eqb (snd x) c) model_fields).
Definition value_tags : list string := tags_of FValue ++ tags_of FExempt.

Definition mem (x : string) (l : list string) : bool := existsb (String.eqb x) l.

(* --- translator ties ------------------------------------------------ *)

Lemma route_sites_match_model : GenRouteChecks.sites = model_sites.
Proof. reflexivity. Qed.

Lemma fields_match_model :
  GenRouteChecks.ast_fields = map (fun x => let '(s, f, t, _) := x in (s, f, t)) model_fields.
Proof. reflexivity. Qed.

Lemma exempt_fields_classified :
  forallb (fun t => mem t (tags_of FExempt)) exempt_fields && forallb (fun t => mem t exempt_fields) (tags_of FExempt) = true.
Proof. reflexivity. Qed.

(* --- every scalar of [ast_scalars] comes from a field classified FValue / FExempt --- *)

Definition tag_ok (s : scalar) : Prop := mem (sc_field s) value_tags = true.

Lemma tag_ostr f o : mem f value_tags = true -> Forall tag_ok (of_ostr f o).
Proof. intros H. destruct o; cbn; [constructor; [exact H|constructor] | constructor]. Qed.
Lemma tag_strs f l : mem f value_tags = true -> Forall tag_ok (of_strs f l).
Proof. intros H. unfold of_strs. induction l; cbn; constructor; [exact H | assumption]. Qed.
Lemma tag_bool f o : mem f value_tags = true -> Forall tag_ok (of_bool f o).
Proof. intros H. destruct o as [b|]; cbn; [now apply tag_ostr | constructor]. Qed.
Lemma tag_int f o : mem f value_tags = true -> Forall tag_ok (of_int f o).
Proof. intros H. destruct o as [b|]; cbn; [now apply tag_ostr | constructor]. Qed.
Lemma tag_float f o : mem f value_tags = true -> Forall tag_ok (of_float f o).
Proof. intros H. destruct o as [b|]; cbn; [now apply tag_ostr | constructor]. Qed.
Lemma tag_raw f v : mem f value_tags = true -> Forall tag_ok (of_raw f v).
Proof. intros H. now apply tag_strs. Qed.
Lemma tag_flat_map {A} (g : A -> list scalar) l : (forall x, Forall tag_ok (g x)) -> Forall tag_ok (flat_map g l).
Proof. intros H. induction l; cbn; [constructor | apply Forall_app; split; [apply H | assumption]]. Qed.
Lemma tag_map {A} (g : A -> list scalar) (m : list (string * A)) : (forall x, Forall tag_ok (g x)) -> Forall tag_ok (of_map g m).
Proof. intros H. unfold of_map. apply tag_flat_map. intros; apply H. Qed.
Lemma tag_opt {A} (g : A -> list scalar) o : (forall x, Forall tag_ok (g x)) -> Forall tag_ok (of_opt g o).
Proof. intros H. destruct o; cbn; [apply H | constructor]. Qed.

Ltac tags :=
  repeat first
    [ apply Forall_nil
    | apply Forall_app; split
    | apply tag_ostr; reflexivity | apply tag_strs; reflexivity | apply tag_bool; reflexivity
    | apply tag_int; reflexivity | apply tag_float; reflexivity | apply tag_raw; reflexivity
    | apply tag_flat_map; intros | apply tag_map; intros | apply tag_opt; intros ].

Lemma ast_scalars_tags w : Forall tag_ok (ast_scalars w).
Proof.
  assert (Henv : forall e, Forall tag_ok (env_scalars e)) by (intros; unfold env_scalars; tags).
  assert (Hperm : forall p, Forall tag_ok (permissions_scalars p)) by (intros; unfold permissions_scalars; tags).
  assert (Hconc : forall c, Forall tag_ok (concurrency_scalars c)) by (intros; unfold concurrency_scalars; tags).
  assert (Hdef : forall d, Forall tag_ok (defaults_scalars d)) by (intros; unfold defaults_scalars; tags).
  assert (Hcont : forall c, Forall tag_ok (container_scalars c)) by (intros; unfold container_scalars; tags; apply Henv).
  assert (Hcomb : forall c, Forall tag_ok (combinations_scalars c)) by (intros; unfold combinations_scalars; tags).
  assert (Hexec : forall e, Forall tag_ok (exec_scalars e)) by (intros [? ? ?|? ? ? ?]; unfold exec_scalars; tags).
  assert (Hstep : forall s, Forall tag_ok (step_scalars s)) by (intros; unfold step_scalars; tags; first [apply Henv | apply Hexec]).
  assert (Hrun : forall r, Forall tag_ok (runner_scalars r)) by (intros; unfold runner_scalars; tags).
  assert (Henvr : forall e, Forall tag_ok (environment_scalars e)) by (intros; unfold environment_scalars; tags).
  assert (Hmat : forall m, Forall tag_ok (matrix_scalars m)) by (intros; unfold matrix_scalars; tags; apply Hcomb).
  assert (Hstrat : forall s, Forall tag_ok (strategy_scalars s)) by (intros; unfold strategy_scalars; tags; apply Hmat).
  assert (Hsvc : forall s, Forall tag_ok (services_scalars s)) by (intros; unfold services_scalars; tags; apply Hcont).
  assert (Hcall : forall c, Forall tag_ok (call_scalars c)) by (intros; unfold call_scalars; tags).
  assert (Hjob : forall j, Forall tag_ok (job_scalars j)).
  { intros; unfold job_scalars; tags; first [apply Henv | apply Hexec | apply Hperm | apply Hconc | apply Hdef | apply Hstep
      | apply Hcont | apply Hrun | apply Henvr | apply Hstrat | apply Hsvc | apply Hcall]. }
  unfold ast_scalars; tags;
    try first [apply Henv | apply Hexec | apply Hperm | apply Hconc | apply Hdef | apply Hstep | apply Hcont
              | apply Hrun | apply Henvr | apply Hstrat | apply Hsvc | apply Hcall | apply Hjob | apply Hcomb | apply Hmat].
  destruct x; unfold event_scalars; tags; unfold filter_scalars; tags.
Qed.

(* --- the parsed every-key workflows (coq/Gen: produced by the CURRENT parser) --- *)

Definition everykey_scalars : list scalar := flat_map ast_scalars everykey.
Definition everykey_calls : list call := flat_map (visit fixed) everykey.

(* they satisfy the assumed parser invariants *)
Lemma everykey_wf : forallb wfb everykey = true.
Proof. vm_compute. reflexivity. Qed.

(* every field that can hold a value scalar does hold one in them: the parser
   stores each key of the syntax in the field named after it (a `volumes:`
   stored into Container.Ports empties Container.Volumes and breaks this) *)
Lemma everykey_fields_populated :
  forallb (fun t => existsb (fun s => String.eqb (sc_field s) t) everykey_scalars) value_tags = true.
Proof. vm_compute. reflexivity. Qed.

(* positions are pairwise different: no scalar is stored twice / into two fields *)
Fixpoint nodup_pos (l : list pos) : bool :=
  match l with [] => true | p :: r => negb (existsb (pos_eqb p) r) && nodup_pos r end.
Lemma everykey_positions_distinct :
  forallb (fun w => nodup_pos (map (fun s => spos (sc_str s)) (ast_scalars w))) everykey = true.
Proof. vm_compute. reflexivity. Qed.

(* sites of rule_expression.go that do not take an AST value (type checks of an
   already computed type, the semantic check below checkExprsIn) *)
Definition site_id_eqb (a b : site_id) : bool :=
  let '(a1, a2, a3) := a in let '(b1, b2, b3) := b in String.eqb a1 b1 && String.eqb a2 b2 && String.eqb a3 b3.
Definition site_of (x : string * string * string * list string) : site_id :=
  let '(f, c, _, args) := x in (f, c, hd "" args).
Definition internal_sites : list site_id := [
  ("checkObjectExpression", "checkObjectTy", "ty"); ("checkArrayExpression", "checkArrayTy", "ty");
  ("checkNumberExpression", "checkNumberTy", "ty"); ("checkIfCondition", "checkSemanticsOfExprNode", "expr");
  ("checkString", "checkTemplateEvaluatedType", "ts"); ("checkScriptString", "checkTemplateEvaluatedType", "ts");
  ("checkExprsIn", "checkSemantics", "s"); ("checkSemantics", "checkSemanticsOfExprNode", "expr");
  ("checkMatrix", "checkObjectTy", "ty.Elem") ].
(* fires only on a step id that contains a placeholder, which no clean workflow
   has (rule "id" rejects it); exercised by the mutated ASTs of the correspondence *)
Definition sites_not_in_clean : list site_id := [ ("VisitStep", "checkString", "n.ID") ].
Definition ast_sites : list site_id :=
  filter (fun s => negb (existsb (site_id_eqb s) (internal_sites ++ sites_not_in_clean))) (map site_of model_sites).
Definition fired_sites (cs : list call) : list site_id := flat_map c_chain cs.

(* every call site of the model that reads the AST is exercised by them ... *)
Lemma everykey_sites_fired :
  forallb (fun s => existsb (site_id_eqb s) (fired_sites everykey_calls)) ast_sites = true.
Proof. vm_compute. reflexivity. Qed.
(* ... and the traversal model uses declared call sites only *)
Lemma everykey_sites_declared :
  forallb (fun s => existsb (site_id_eqb s) (map site_of model_sites)) (fired_sites everykey_calls) = true.
Proof. vm_compute. reflexivity. Qed.

(* the routing theorem instantiated: every value scalar of the every-key ASTs
   is handed to a checker or exempt (checked by computation, independently of
   the proof of [routed_complete_fixed]) *)
Definition scalar_eqb (a b : scalar) : bool :=
  String.eqb (fst a) (fst b) && String.eqb (sval (snd a)) (sval (snd b)) && pos_eqb (spos (snd a)) (spos (snd b)).
Lemma everykey_all_routed :
  forallb (fun s => exemptb s || negb (contains_expr (sval (sc_str s)))
                    || existsb (scalar_eqb s) (routed_scalars everykey_calls)) everykey_scalars = true.
Proof. vm_compute. reflexivity. Qed.
(* even those without a placeholder, except step ids *)
Lemma everykey_all_handed_over :
  forallb (fun s => exemptb s || String.eqb (sc_field s) "Step.ID"
                    || existsb (scalar_eqb s) (routed_scalars everykey_calls)) everykey_scalars = true.
Proof. vm_compute. reflexivity. Qed.

(* --- what the code did before the repairs ---------------------------- *)

(* an expression given as an element of `include:` and `required:` of a
   workflow_call input / secret were never handed to a checker *)
Definition old_witness : workflow :=
  Workflow None None
    [ECall (CallEvent [CallInput None None None (Some (BoolV (Some (Str "${{ 1 + }}" false (5, 19)%N)) (5, 19)%N)) "x"]
                      (Some [("s", CallSecret None None (Some (BoolV (Some (Str "${{ 1 + }}" false (8, 19)%N)) (8, 19)%N)))]) [])]
    None None None None
    [("j", Job None None [] None None None None [] None None None [] None
             (Some (Strategy (Some (Matrix [] (Some (MatrixCombinations [MatrixCombination [] (Some (Str "${{ 1 + }}" false (14, 13)%N))] None)) None None)) None None))
             None None None None)].

Lemma routed_complete_old_refuted :
  wfb old_witness = true /\
  exists s, In s (ast_scalars old_witness) /\ contains_expr (sval (sc_str s)) = true
            /\ ~ In s (routed_scalars (visit unfixed old_witness)) /\ ~ exempt s.
Proof.
  split; [reflexivity|].
  exists ("MatrixCombination.Expression", Str "${{ 1 + }}" false (14, 13)%N).
  split; [vm_compute; tauto|]. split; [reflexivity|]. split; [|discriminate].
  vm_compute. intuition discriminate.
Qed.

Lemma required_old_refuted :
  exists s, In s (ast_scalars old_witness) /\ sc_field s = "WorkflowCallEventInput.Required"
            /\ ~ In s (routed_scalars (visit (Fixes false true) old_witness)) /\ ~ exempt s.
Proof.
  exists ("WorkflowCallEventInput.Required", Str "${{ 1 + }}" false (5, 19)%N).
  split; [vm_compute; tauto|]. split; [reflexivity|]. split; [|discriminate].
  vm_compute. intuition discriminate.
Qed.

(* the repaired traversal covers the same witness *)
Lemma old_witness_now_covered :
  forallb (fun s => existsb (scalar_eqb s) (routed_scalars (visit fixed old_witness))) (ast_scalars old_witness) = true.
Proof. vm_compute. reflexivity. Qed.
