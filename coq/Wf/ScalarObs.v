(* Wf/ScalarObs.v — observables for the correspondence check of C01: the
   value parser in charge of a position is run on the node that the real
   parser found there; the observable is the list of diagnostics
   (line, column, class), or [[999]] for a panic. *)
From AL Require Import Base.Str Base.Corr Wf.Scalars Wf.ScalarExit.
From Coq Require Import ZArith.

Inductive which :=
| WString (allow_empty : bool)
| WBool
| WMaxParallel
| WTimeout
| WStrSeq (allow_empty allow_elem_empty : bool)
| WStrOrSeq (allow_empty allow_elem_empty : bool)
| WTimeoutOld.

Definition obs_of {A} (m : P A) : list tuple :=
  match m with
  | Panic _ => [[999%N]]
  | Ok (_, ds) => map (fun d => [d_line d; d_col d; d_class d]) ds
  end.

Definition run_scalar (c : which * snode) : list tuple :=
  let (w, n) := c in
  match w with
  | WString ae => obs_of (parse_string n ae)
  | WBool => obs_of (parse_bool n)
  | WMaxParallel => obs_of (parse_max_parallel n)
  | WTimeout => obs_of (parse_timeout_minutes n)
  | WStrSeq ae aee => obs_of (parse_string_sequence n ae aee)
  | WStrOrSeq ae aee => obs_of (parse_string_or_string_sequence n ae aee)
  | WTimeoutOld => obs_of (parse_timeout_minutes_old n)
  end.

(* shorthand used by the dumped cases *)
(* the integer as sign and magnitude: the case files do not import ZArith *)
Definition AI (neg : bool) (v : N) (e : bool) : atoi_res :=
  {| ai_val := if neg then Z.opp (Z.of_N v) else Z.of_N v; ai_err := if e then Some "err" else None |}.
Definition PF (c : fcls) (e : bool) : pfloat_res := {| pf_val := c; pf_err := if e then Some "err" else None |}.

(* handleYAMLError: (line, 0, class) per message *)
Definition run_yaml_err (e : yaml_err) : list tuple :=
  match handle_yaml_error (Some e) with
  | Panic _ => [[999%N]]
  | Ok ds => map (fun d => [d_line d; d_col d; d_class d]) ds
  end.

(* Command.Main *)
Definition run_exit (c : flag_outcome * bool * bool * nat) : list tuple :=
  match c with (fl, v, f, n) => [[exit_status fl v f n]] end.
