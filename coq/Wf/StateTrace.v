(* Wf/StateTrace.v — K1 of C09: the transition-system model of the stateful
   rules (RulesState.r_all) instantiated for evaluation, and the dump of its
   state after every visitor event in the format of the harness probe
   (/repo verif_export_state.go + harness/cmd/c09/state.go).  The stateless
   checks are instantiated to "no diagnostics"; the matrix type of a job is an
   opaque number (hash of the type a fresh rule computes for it). *)
From AL Require Import Base.Str Base.AList Base.Corr Wf.RulesState Wf.StateObs.
From Coq Require Import NArith.

Definition kstep := stepT unit.
Definition kjob := jobT unit unit N.
Definition kwf := wfT unit unit unit N.
Definition kexst := exst unit unit unit N N unit unit unit unit unit unit.

Definition krule : rule unit unit unit N unit :=
  r_all (fun _ _ => []) (fun _ _ => []) (fun _ _ => []) (fun _ _ => []) (fun _ => [])
        (fun _ => []) (fun _ => []) (fun _ _ => []) (fun _ => []) (fun _ => [])
        (fun _ => []) (fun _ _ => []) (fun _ => [])
        (MT := N) (OT := unit) (CT := unit) (IT := unit) (ST := unit) (DT := unit) (JT := unit)
        (fun _ => tt) (fun _ => tt) (fun _ => tt) (fun _ => tt) (fun _ => tt) (fun _ => tt)
        (fun _ => []) (fun _ _ => [])
        (fun _ _ m => (m, []))
        (fun (e : kexst) _ => ([], x_matrix e))
        (fun (e : kexst) _ => ([], x_matrix e))
        (fun (e : kexst) _ => ([], x_matrix e)).

Fixpoint insert_s (x : string) (l : list string) : list string :=
  match l with
  | [] => [x]
  | y :: t => if String.leb x y then x :: l else y :: insert_s x t
  end.
Definition sort_s (l : list string) : list string := fold_right insert_s [] l.

Fixpoint join_s (sep : string) (l : list string) : string :=
  match l with
  | [] => ""
  | [x] => x
  | x :: t => x ++ sep ++ join_s sep t
  end%string.

Definition b2n (b : bool) : N := if b then 1%N else 0%N.
Definition isSome {A} (o : option A) : bool := match o with Some _ => true | None => false end.

Definition dump_needs (nt : needsT unit) : string :=
  String.concat "" (map (fun k => (k ++ ":" ++ match lookup k nt with
                                        | Some (NOutputs names) => join_s "," (sort_s names)
                                        | Some (NCall _) => "*"
                                        | None => "" end ++ ";")%string)
                        (sort_s (keys nt))).

Definition dump_nodes (m : jnst unit unit N) : string :=
  String.concat "" (map (fun k => (k ++ ":" ++ match lookup k m with
                                        | Some (ns, _) => join_s "," ns
                                        | None => "" end ++ ";")%string)
                        (sort_s (keys m))).

Definition plat_code (p : platform) : N := match p with PAny => 0 | PMacLinux => 1 | PWindows => 2 end%N.
Definition py_code (k : pykind) : N := match k with PyUnspec => 0 | PyPython => 1 | PyNot => 2 end%N.

Definition dump_state (code : N) (x : option kstep) (s : st krule) : tuple :=
  let '(pl, (rl, (jn, (idm, (ex, (sc, py)))))) := s in
  [ code;
    match x_matrix ex with None => 0 | Some h => 1 + h end;
    match x_steps ex with
    | None => 0
    | Some (ps, loose) => 1 + hash_str (join_s "," (sort_s (keys ps)) ++ (if loose then "!" else ""))
    end;
    match x_needs ex with None => 0 | Some nt => 1 + hash_str (dump_needs nt) end;
    b2n (isSome (x_secrets ex)) + 2 * b2n (isSome (x_inputs ex)) + 4 * b2n (isSome (x_dispatch ex))
      + 8 * b2n (isSome (x_jobs ex)) + 16 * b2n (isSome (x_workflow ex));
    plat_code pl;
    hash_str (sc_wf sc ++ "|" ++ sc_job sc ++ "|" ++ sc_runner sc);
    3 * py_code (py_wf py) + py_code (py_job py);
    match idm with None => 0 | Some m => 1 + hash_str (join_s "," (sort_s (keys m))) end;
    b2n (isSome rl);
    hash_str (dump_nodes jn);
    match x with
    | Some x => if andb (s_is_run x) (s_has_script x)
                then 1 + hash_str (get_shell_name sc x ++ (if is_python py x then "|py" else "|-"))
                else 0
    | None => 0
    end ]%N%string.

Definition ev_code (e : event unit unit unit N) : N * option kstep :=
  match e with
  | WfPre _ => (1, None) | JobPre _ => (2, None) | StepE x => (3, Some x)
  | JobPost _ => (4, None) | WfPost _ => (5, None)
  end%N.

Fixpoint trace (s : st krule) (es : list (event unit unit unit N)) : list tuple :=
  match es with
  | [] => []
  | e :: t => let s1 := fst (step krule s e) in
              dump_state (fst (ev_code e)) (snd (ev_code e)) s1 :: trace s1 t
  end.

Definition run_trace (w : kwf) : list tuple := trace (init krule) (visit w).
