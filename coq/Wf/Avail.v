(* Wf/Avail.v — model for C12.

   Part A: the availability part of ExprSemanticsChecker (expr_sema.go):
     checkVariable / checkAvailableContext, checkFuncCall / checkBuiltinFuncCall /
     checkSpecialFunctionAvailability, and the traversal [check] with
     checkLogicalOp / checkWithNarrowing, over the shared AST (Expr/Ast.v).
     Everything else the checker does (types) is abstracted: whether some
     overload of a called function accepts the arguments is the oracle [sigok].
   Part B: the routing of workflow keys through rule_expression.go: an
     interpreter for the extracted call sites (Gen/GenRouteSites.v) that follows
     a key from the site with the literal down to WorkflowKeyAvailability, the
     hand-written copy of the site list, and the canonical path of every site
     (DESIGN.md Appendix D).
   Part C: the executable entry point used by the correspondence check. *)
From AL Require Export Expr.Ast Wf.AvailCanon Wf.AvailSite.
From AL Require Import Gen.GenAvailability Gen.GenRouteSites.

(* ------------------------------------------------------------------ Part A *)

Inductive dkind := DCtx | DFn | DUndefVar | DUndefFn.

Definition dkind_eqb (a b : dkind) : bool :=
  match a, b with
  | DCtx, DCtx | DFn, DFn | DUndefVar, DUndefVar | DUndefFn, DUndefFn => true
  | _, _ => false
  end.

(* a diagnostic: token position, class, the name it quotes *)
Record diag := mk_diag { d_pos : tpos; d_kind : dkind; d_name : string }.

Definition tp (o l c : N) : tpos := Build_tpos o l c.

Section Checker.
(* the state of one ExprSemanticsChecker *)
Variable vars : list string.      (* keys of sema.vars (lower case) *)
Variable funcs : list string.     (* keys of sema.funcs = BuiltinFuncSignatures (lower case) *)
Variable specials : list string.  (* keys of SpecialFunctionNames *)
Variable ctxs : list string.      (* sema.availableContexts *)
Variable sps : list string.       (* sema.availableSpecialFuncs *)
Variable sigok : tpos -> bool.    (* does an overload accept the call whose token is here? *)

(* expr_parser.go:117 folds the variable name; checkVariable looks the folded
   name up in sema.vars ("undefined variable" otherwise) and then
   checkAvailableContext compares strings.ToLower(n.Name) with every element
   of availableContexts. *)
Definition check_var (p : tpos) (n : string) : list diag :=
  let name := lower n in
  if mem name vars then
    if mem (lower name) ctxs then [] else [mk_diag p DCtx n]
  else [mk_diag p DUndefVar n].

(* checkSpecialFunctionAvailability *)
Definition check_special (p : tpos) (callee : string) : list diag :=
  let f := lower callee in
  if mem f specials then
    if mem f sps then [] else [mk_diag p DFn callee]
  else [].

(* checkFuncCall: an unknown function is reported and its arguments are NOT
   visited; otherwise the arguments are checked first, and only when an
   overload accepts them checkBuiltinFuncCall runs the availability check. *)
Definition check_call (p : tpos) (callee : string) (argdiags : list diag) : list diag :=
  if mem (lower callee) funcs then
    argdiags ++ (if sigok p then check_special p callee else [])
  else [mk_diag p DUndefFn callee].

(* check / checkLogicalOp / checkWithNarrowing.  [m] = None: plain check;
   Some t: checkWithNarrowing with isTruthy = t. *)
Fixpoint chk (m : option bool) (e : expr) : list diag :=
  match e with
  | EVar p n => check_var p n
  | ENull _ | EBool _ _ | EInt _ _ | EFloat _ _ | EStr _ _ => []
  | EDeref r _ => chk None r
  | EArrDeref r => chk None r
  | EIndex o i => chk None i ++ chk None o          (* the index is visited first *)
  | ENot _ x =>
      match m with
      | Some t => chk (Some (negb t)) x              (* checkWithNarrowing on the operand *)
      | None => chk None x
      end
  | ECmp _ l r => chk None l ++ chk None r
  | ELog LAnd l r =>
      match m with
      | Some true => chk None l ++ chk None r        (* narrowed: both sides checked plainly *)
      | _ => chk (Some false) l ++ chk None r        (* checkLogicalOp *)
      end
  | ELog LOr l r =>
      match m with
      | Some false => chk None l ++ chk None r
      | _ => chk (Some true) l ++ chk None r
      end
  | ECall p c args =>
      check_call p c ((fix go (l : list expr) : list diag :=
                         match l with
                         | [] => []
                         | a :: l' => chk None a ++ go l'
                         end) args)
  end.

Definition check (e : expr) : list diag := chk None e.

(* the same traversal without the narrowing modes (shown equal in AvailProofs) *)
Fixpoint visit (e : expr) : list diag :=
  match e with
  | EVar p n => check_var p n
  | ENull _ | EBool _ _ | EInt _ _ | EFloat _ _ | EStr _ _ => []
  | EDeref r _ | EArrDeref r | ENot _ r => visit r
  | EIndex o i => visit i ++ visit o
  | ECmp _ l r | ELog _ l r => visit l ++ visit r
  | ECall p c args => check_call p c (flat_map visit args)
  end.
End Checker.

(* occurrences *)
Fixpoint variables (e : expr) : list (tpos * string) :=
  match e with
  | EVar p n => [(p, n)]
  | ENull _ | EBool _ _ | EInt _ _ | EFloat _ _ | EStr _ _ => []
  | EDeref r _ | EArrDeref r | ENot _ r => variables r
  | EIndex o i => variables i ++ variables o
  | ECmp _ l r | ELog _ l r => variables l ++ variables r
  | ECall _ _ args => flat_map variables args
  end.

Fixpoint calls (e : expr) : list (tpos * string) :=
  match e with
  | EVar _ _ | ENull _ | EBool _ _ | EInt _ _ | EFloat _ _ | EStr _ _ => []
  | EDeref r _ | EArrDeref r | ENot _ r => calls r
  | EIndex o i => calls i ++ calls o
  | ECmp _ l r | ELog _ l r => calls l ++ calls r
  | ECall p c args => (p, c) :: flat_map calls args
  end.

(* every called function exists (otherwise checkFuncCall stops at the call) *)
Definition calls_known (funcs : list string) (e : expr) : Prop :=
  forall p c, In (p, c) (calls e) -> In (lower c) funcs.

(* the same expression in another letter case: names of variables, properties
   and functions folded *)
Fixpoint fold_case (e : expr) : expr :=
  match e with
  | EVar p n => EVar p (lower n)
  | ENull _ | EBool _ _ | EInt _ _ | EFloat _ _ | EStr _ _ => e
  | EDeref r n => EDeref (fold_case r) (lower n)
  | EArrDeref r => EArrDeref (fold_case r)
  | EIndex o i => EIndex (fold_case o) (fold_case i)
  | ENot p x => ENot p (fold_case x)
  | ECmp op l r => ECmp op (fold_case l) (fold_case r)
  | ELog op l r => ELog op (fold_case l) (fold_case r)
  | ECall p c args => ECall p (lower c) (map fold_case args)
  end.

(* a verdict = a diagnostic without the spelling of the name *)
Definition verdict (d : diag) : tpos * dkind := (d_pos d, d_kind d).

(* ------------------------------------------------------------------ Part B *)

(* checkSemanticsOfExprNode: `if workflowKey != "" { ctx, sp := WorkflowKeyAvailability(workflowKey);
   c.SetContextAvailability(ctx); c.SetSpecialFunctionAvailability(sp) }` — with the
   empty key the checker keeps its zero values (nil, nil): nothing is available. *)
Definition eff_avail (t : list row) (key : string) : avail :=
  if String.eqb key "" then ([], []) else lookup t key.

(* checkContainer(c, workflowKey, childWorkflowKeyPrefix):
     childWorkflowKey := workflowKey
     if childWorkflowKeyPrefix != "" { childWorkflowKey += "." + childWorkflowKeyPrefix }
     k := childWorkflowKey + ".credentials"
     ... rule.checkEnv(c.Env, childWorkflowKey+".env.<env_id>") *)
Definition child_key (wk : string) (extra : list string) : option string :=
  match extra with
  | [p] => Some (if String.eqb p "" then wk else (wk ++ "." ++ p)%string)
  | _ => None
  end.

Definition eval_ke (fn src wk : string) (extra : list string) : option string :=
  if String.eqb fn "checkContainer" then
    match child_key wk extra with
    | None => None
    | Some ck =>
        if String.eqb src "k" then Some (ck ++ ".credentials")%string
        else if String.eqb src "childWorkflowKey + "".env.<env_id>""" then Some (ck ++ ".env.<env_id>")%string
        else None
    end
  else None.

(* the statements eval_ke / eff_avail are a reading of; compared with the
   extracted ones so that a change of them is noticed *)
Definition model_key_stmts : list (string * string) := [
  ("checkOneExpression", "ts, ok := rule.checkExprsIn(s.Value, s.Pos, s.Quoted, false, workflowKey)");
  ("checkObjectExpression", "ty := rule.checkOneExpression(s, what, workflowKey)");
  ("checkArrayExpression", "ty := rule.checkOneExpression(s, what, workflowKey)");
  ("checkNumberExpression", "ty := rule.checkOneExpression(s, what, workflowKey)");
  ("checkContainer", "childWorkflowKey := workflowKey");
  ("checkContainer", "if childWorkflowKeyPrefix != """"");
  ("checkContainer", "childWorkflowKey += ""."" + childWorkflowKeyPrefix");
  ("checkContainer", "k := childWorkflowKey + "".credentials""");
  ("checkIfCondition", "ts := rule.checkString(str, workflowKey)");
  ("checkIfCondition", "ty, ok := rule.checkSemanticsOfExprNode(expr, line, col, false, workflowKey)");
  ("checkString", "ts, ok := rule.checkExprsIn(str.Value, str.Pos, str.Quoted, false, workflowKey)");
  ("checkScriptString", "ts, ok := rule.checkExprsIn(str.Value, str.Pos, str.Quoted, true, workflowKey)");
  ("checkBool", "ty := rule.checkOneExpression(b.Expression, ""bool value"", workflowKey)");
  ("checkExprsIn", "ty, offsetAfter, ok := rule.checkSemantics(s, line, col, checkUntrusted, workflowKey)");
  ("checkSemanticsOfExprNode", "if workflowKey != """"");
  ("checkSemanticsOfExprNode", "ctx, sp := WorkflowKeyAvailability(workflowKey)");
  ("checkSemanticsOfExprNode", "c.SetContextAvailability(ctx)");
  ("checkSemanticsOfExprNode", "c.SetSpecialFunctionAvailability(sp)");
  ("checkSemantics", "t, ok := rule.checkSemanticsOfExprNode(expr, line, col, checkUntrusted, workflowKey)")
].

Definition eval_key (fn : string) (k : kx) (wk : string) (extra : list string) : option string :=
  match k with
  | KL s => Some s
  | KP => Some wk
  | KE src => eval_ke fn src wk extra
  | KN => None
  end.

(* a resolved path from a site with a literal key down to WorkflowKeyAvailability *)
Record leaf := mk_leaf { l_chain : list site; l_key : string }.

(* [expand] follows the key: we are about to enter [callee] with workflowKey =
   [key] (and the literal extra arguments [extra]); every keyed call inside
   [callee] is followed.  None = the key could not be followed (unknown
   expression, recursion deeper than the fuel). *)
Fixpoint expand (fuel : nat) (all : list site) (chain : list site) (key : string)
         (extra : list string) (callee : string) : list (option leaf) :=
  if String.eqb callee "WorkflowKeyAvailability" then [Some (mk_leaf chain key)]
  else
    match fuel with
    | O => [None]
    | S f =>
        flat_map (fun s =>
          if String.eqb (s_fn s) callee then
            match s_key s with
            | KN => []
            | k => match eval_key callee k key extra with
                   | Some k' => expand f all (chain ++ [s]) k' (s_extra s) (s_callee s)
                   | None => [None]
                   end
            end
          else []) all
    end.

Definition leaves (all : list site) : list (option leaf) :=
  flat_map (fun s =>
    match s_key s with
    | KL k => expand 12 all [s] k (s_extra s) (s_callee s)
    | _ => []
    end) all.

(* the hand-written copy of the call sites, as read in rule_expression.go.
   Three call sites are expected to change when the C03 defects of DESIGN.md
   Appendix A are repaired in the repository; [model_sites] covers both states
   of each, so that neither the pinned nor the repaired tree needs an edit here:
     #4  on.workflow_call.inputs.<id>.required / secrets.<id>.required are not
         handed to the expression checker on the pinned tree; the repair adds
           rule.checkBool(i.Required, "")   (second occurrence of i.Required in VisitWorkflowPre)
           rule.checkBool(s.Required, "")
     #2  the include element `- ${{ }}` is checked through m.Include.Expression
         (nil) on the pinned tree; the repair passes combi.Expression (second
         occurrence of combi.Expression in checkMatrix).
   If a repair is written differently (other variable names, another helper),
   edit [variable_sites] below and, for a new site with a literal key, add its
   canonical path to [root_paths]. *)
Definition base_sites : list site := [
  mk_site "VisitWorkflowPre" "checkString" "n.Name" 0 (KL "") [];
  mk_site "VisitWorkflowPre" "checkStrings" "e.Types" 0 (KL "") [];
  mk_site "VisitWorkflowPre" "checkWebhookEventFilter" "e.Branches" 0 KN [];
  mk_site "VisitWorkflowPre" "checkWebhookEventFilter" "e.BranchesIgnore" 0 KN [];
  mk_site "VisitWorkflowPre" "checkWebhookEventFilter" "e.Tags" 0 KN [];
  mk_site "VisitWorkflowPre" "checkWebhookEventFilter" "e.TagsIgnore" 0 KN [];
  mk_site "VisitWorkflowPre" "checkWebhookEventFilter" "e.Paths" 0 KN [];
  mk_site "VisitWorkflowPre" "checkWebhookEventFilter" "e.PathsIgnore" 0 KN [];
  mk_site "VisitWorkflowPre" "checkStrings" "e.Workflows" 0 (KL "") [];
  mk_site "VisitWorkflowPre" "checkStrings" "e.Cron" 0 (KL "") [];
  mk_site "VisitWorkflowPre" "checkString" "i.Description" 0 (KL "") [];
  mk_site "VisitWorkflowPre" "checkString" "i.Default" 0 (KL "") [];
  mk_site "VisitWorkflowPre" "checkBool" "i.Required" 0 (KL "") [];
  mk_site "VisitWorkflowPre" "checkStrings" "i.Options" 0 (KL "") [];
  mk_site "VisitWorkflowPre" "checkStrings" "e.Types" 1 (KL "") [];
  mk_site "VisitWorkflowPre" "checkString" "i.Description" 1 (KL "") [];
  mk_site "VisitWorkflowPre" "checkString" "i.Default" 1 (KL "on.workflow_call.inputs.<inputs_id>.default") [];
  mk_site "VisitWorkflowPre" "checkString" "s.Description" 0 (KL "") [];
  mk_site "VisitWorkflowPre" "checkString" "o.Description" 0 (KL "") [];
  mk_site "VisitWorkflowPre" "checkString" "n.RunName" 0 (KL "run-name") [];
  mk_site "VisitWorkflowPre" "checkEnv" "n.Env" 0 (KL "env") [];
  mk_site "VisitWorkflowPre" "checkDefaults" "n.Defaults" 0 (KL "") [];
  mk_site "VisitWorkflowPre" "checkConcurrency" "n.Concurrency" 0 (KL "concurrency") [];
  mk_site "VisitWorkflowPost" "checkWorkflowCallOutputs" "e.Outputs" 0 KN [];
  mk_site "VisitJobPre" "checkMatrix" "n.Strategy.Matrix" 0 KN [];
  mk_site "VisitJobPre" "checkString" "n.Name" 0 (KL "jobs.<job_id>.name") [];
  mk_site "VisitJobPre" "checkStrings" "n.Needs" 0 (KL "") [];
  mk_site "VisitJobPre" "checkOneExpression" "n.RunsOn.LabelsExpr" 0 (KL "jobs.<job_id>.runs-on") [];
  mk_site "VisitJobPre" "checkString" "l" 0 (KL "jobs.<job_id>.runs-on") [];
  mk_site "VisitJobPre" "checkString" "n.RunsOn.Group" 0 (KL "jobs.<job_id>.runs-on") [];
  mk_site "VisitJobPre" "checkConcurrency" "n.Concurrency" 0 (KL "jobs.<job_id>.concurrency") [];
  mk_site "VisitJobPre" "checkEnv" "n.Env" 0 (KL "jobs.<job_id>.env") [];
  mk_site "VisitJobPre" "checkDefaults" "n.Defaults" 0 (KL "jobs.<job_id>.defaults.run") [];
  mk_site "VisitJobPre" "checkIfCondition" "n.If" 0 (KL "jobs.<job_id>.if") [];
  mk_site "VisitJobPre" "checkBool" "n.Strategy.FailFast" 0 (KL "jobs.<job_id>.strategy") [];
  mk_site "VisitJobPre" "checkInt" "n.Strategy.MaxParallel" 0 (KL "jobs.<job_id>.strategy") [];
  mk_site "VisitJobPre" "checkBool" "n.ContinueOnError" 0 (KL "jobs.<job_id>.continue-on-error") [];
  mk_site "VisitJobPre" "checkFloat" "n.TimeoutMinutes" 0 (KL "jobs.<job_id>.timeout-minutes") [];
  mk_site "VisitJobPre" "checkContainer" "n.Container" 0 (KL "jobs.<job_id>.container") [""];
  mk_site "VisitJobPre" "checkObjectExpression" "n.Services.Expression" 0 (KL "jobs.<job_id>.services") [];
  mk_site "VisitJobPre" "checkContainer" "s.Container" 0 (KL "jobs.<job_id>.services") ["<service_id>"];
  mk_site "VisitJobPre" "checkWorkflowCall" "n.WorkflowCall" 0 KN [];
  mk_site "VisitJobPost" "checkString" "n.Environment.Name" 0 (KL "jobs.<job_id>.environment") [];
  mk_site "VisitJobPost" "checkString" "n.Environment.URL" 0 (KL "jobs.<job_id>.environment.url") [];
  mk_site "VisitJobPost" "checkString" "output.Value" 0 (KL "jobs.<job_id>.outputs.<output_id>") [];
  mk_site "VisitStep" "checkString" "n.Name" 0 (KL "jobs.<job_id>.steps.name") [];
  mk_site "VisitStep" "checkIfCondition" "n.If" 0 (KL "jobs.<job_id>.steps.if") [];
  mk_site "VisitStep" "checkScriptString" "e.Run" 0 (KL "jobs.<job_id>.steps.run") [];
  mk_site "VisitStep" "checkString" "e.Shell" 0 (KL "") [];
  mk_site "VisitStep" "checkString" "e.WorkingDirectory" 0 (KL "jobs.<job_id>.steps.working-directory") [];
  mk_site "VisitStep" "checkString" "e.Uses" 0 (KL "") [];
  mk_site "VisitStep" "checkScriptString" "i.Value" 0 (KL "jobs.<job_id>.steps.with") [];
  mk_site "VisitStep" "checkString" "i.Value" 1 (KL "jobs.<job_id>.steps.with") [];
  mk_site "VisitStep" "checkString" "e.Entrypoint" 0 (KL "jobs.<job_id>.steps.with") [];
  mk_site "VisitStep" "checkString" "e.Args" 0 (KL "jobs.<job_id>.steps.with") [];
  mk_site "VisitStep" "checkEnv" "n.Env" 0 (KL "jobs.<job_id>.steps.env") [];
  mk_site "VisitStep" "checkBool" "n.ContinueOnError" 0 (KL "jobs.<job_id>.steps.continue-on-error") [];
  mk_site "VisitStep" "checkFloat" "n.TimeoutMinutes" 0 (KL "jobs.<job_id>.steps.timeout-minutes") [];
  mk_site "VisitStep" "checkString" "n.ID" 0 (KL "") [];
  mk_site "checkOneExpression" "checkExprsIn" "s.Value" 0 KP [];
  mk_site "checkObjectExpression" "checkOneExpression" "s" 0 KP [];
  mk_site "checkArrayExpression" "checkOneExpression" "s" 0 KP [];
  mk_site "checkNumberExpression" "checkOneExpression" "s" 0 KP [];
  mk_site "checkEnv" "checkString" "e.Name" 0 KP [];
  mk_site "checkEnv" "checkString" "e.Value" 0 KP [];
  mk_site "checkEnv" "checkObjectExpression" "env.Expression" 0 KP [];
  mk_site "checkContainer" "checkString" "c.Image" 0 KP [];
  mk_site "checkContainer" "checkString" "c.Credentials.Username" 0 (KE "k") [];
  mk_site "checkContainer" "checkString" "c.Credentials.Password" 0 (KE "k") [];
  mk_site "checkContainer" "checkEnv" "c.Env" 0 (KE "childWorkflowKey + "".env.<env_id>""") [];
  mk_site "checkContainer" "checkStrings" "c.Ports" 0 KP [];
  mk_site "checkContainer" "checkStrings" "c.Volumes" 0 KP [];
  mk_site "checkContainer" "checkString" "c.Options" 0 KP [];
  mk_site "checkConcurrency" "checkString" "c.Group" 0 KP [];
  mk_site "checkConcurrency" "checkBool" "c.CancelInProgress" 0 KP [];
  mk_site "checkDefaults" "checkString" "d.Run.Shell" 0 KP [];
  mk_site "checkDefaults" "checkString" "d.Run.WorkingDirectory" 0 KP [];
  mk_site "checkWorkflowCall" "checkString" "c.Uses" 0 (KL "") [];
  mk_site "checkWorkflowCall" "checkString" "i.Value" 0 (KL "jobs.<job_id>.with.<with_id>") [];
  mk_site "checkWorkflowCall" "checkString" "s.Value" 0 (KL "jobs.<job_id>.secrets.<secrets_id>") [];
  mk_site "checkWebhookEventFilter" "checkStrings" "f.Values" 0 (KL "") [];
  mk_site "checkStrings" "checkString" "s" 0 KP [];
  mk_site "checkIfCondition" "checkString" "str" 0 KP [];
  mk_site "checkIfCondition" "checkSemanticsOfExprNode" "expr" 0 KP [];
  mk_site "checkString" "checkExprsIn" "str.Value" 0 KP [];
  mk_site "checkScriptString" "checkExprsIn" "str.Value" 0 KP [];
  mk_site "checkBool" "checkOneExpression" "b.Expression" 0 KP [];
  mk_site "checkInt" "checkNumberExpression" "i.Expression" 0 KP [];
  mk_site "checkFloat" "checkNumberExpression" "f.Expression" 0 KP [];
  mk_site "checkExprsIn" "checkSemantics" "s" 0 KP [];
  mk_site "checkSemanticsOfExprNode" "WorkflowKeyAvailability" "workflowKey" 0 KP [];
  mk_site "checkSemantics" "checkSemanticsOfExprNode" "expr" 0 KP [];
  mk_site "checkMatrixExpression" "checkObjectExpression" "expr" 0 (KL "jobs.<job_id>.strategy") [];
  mk_site "checkMatrix" "checkMatrixExpression" "m.Expression" 0 KN [];
  mk_site "checkMatrix" "checkArrayExpression" "m.Exclude.Expression" 0 (KL "jobs.<job_id>.strategy") [];
  mk_site "checkMatrix" "checkObjectExpression" "combi.Expression" 0 (KL "jobs.<job_id>.strategy") [];
  mk_site "checkMatrix" "checkRawYAMLValue" "a.Value" 0 KN [];
  mk_site "checkMatrix" "checkMatrixRow" "r" 0 KN [];
  mk_site "checkMatrix" "checkOneExpression" "m.Include.Expression" 0 (KL "jobs.<job_id>.strategy") [];
  mk_site "checkMatrix" "checkRawYAMLValue" "assign.Value" 0 KN [];
  mk_site "checkMatrixRow" "checkArrayExpression" "r.Expression" 0 (KL "jobs.<job_id>.strategy") [];
  mk_site "checkMatrixRow" "checkRawYAMLValue" "v" 0 KN [];
  mk_site "checkWorkflowCallOutputs" "checkString" "o.Value" 0 (KL "on.workflow_call.outputs.<output_id>.value") [];
  mk_site "checkRawYAMLValue" "checkRawYAMLValue" "p" 0 KN [];
  mk_site "checkRawYAMLValue" "checkRawYAMLValue" "v.Elems[0]" 0 KN [];
  mk_site "checkRawYAMLValue" "checkRawYAMLValue" "v" 0 KN [];
  mk_site "checkRawYAMLValue" "checkRawYAMLString" "v" 1 KN [];
  mk_site "checkRawYAMLString" "checkExprsIn" "y.Value" 0 (KL "jobs.<job_id>.strategy") []
].

Definition variable_sites (req_in req_sec inc_elem : bool) : list site :=
  (if req_in then [mk_site "VisitWorkflowPre" "checkBool" "i.Required" 1 (KL "") []] else [])
  ++ (if req_sec then [mk_site "VisitWorkflowPre" "checkBool" "s.Required" 0 (KL "") []] else [])
  ++ [mk_site "checkMatrix" "checkOneExpression"
              (if inc_elem then "combi.Expression" else "m.Include.Expression") 1
              (KL "jobs.<job_id>.strategy") []].

Definition model_sites (req_in req_sec inc_elem : bool) : list site :=
  base_sites ++ variable_sites req_in req_sec inc_elem.

(* the site lists are compared up to the order of the statements *)
Definition site_sort_key (s : site) : string :=
  (s_fn s ++ "/" ++ s_arg s ++ "/" ++ String (ascii_of_nat (48 + s_occ s)) "" ++ "/" ++ s_callee s)%string.

Fixpoint insert_site (x : site) (l : list site) : list site :=
  match l with
  | [] => [x]
  | y :: l' => if String.leb (site_sort_key x) (site_sort_key y) then x :: l else y :: insert_site x l'
  end.
Definition sort_sites (l : list site) : list site := fold_right insert_site [] l.

(* canonical paths (DESIGN.md Appendix D), in the vocabulary of GitHub's table:
   the site with the literal key gives the base path ... *)
Definition root_paths : list ((string * string * nat) * string) := [
  (("VisitWorkflowPre", "n.Name", 0), "name");
  (("VisitWorkflowPre", "e.Types", 0), "on.<event>.types");
  (("VisitWorkflowPre", "e.Workflows", 0), "on.workflow_run.workflows");
  (("VisitWorkflowPre", "e.Cron", 0), "on.schedule.cron");
  (("VisitWorkflowPre", "i.Description", 0), "on.workflow_dispatch.inputs.<input_id>.description");
  (("VisitWorkflowPre", "i.Default", 0), "on.workflow_dispatch.inputs.<input_id>.default");
  (("VisitWorkflowPre", "i.Required", 0), "on.workflow_dispatch.inputs.<input_id>.required");
  (("VisitWorkflowPre", "i.Options", 0), "on.workflow_dispatch.inputs.<input_id>.options");
  (("VisitWorkflowPre", "e.Types", 1), "on.repository_dispatch.types");
  (("VisitWorkflowPre", "i.Description", 1), "on.workflow_call.inputs.<inputs_id>.description");
  (("VisitWorkflowPre", "i.Default", 1), "on.workflow_call.inputs.<inputs_id>.default");
  (("VisitWorkflowPre", "s.Description", 0), "on.workflow_call.secrets.<secret_id>.description");
  (("VisitWorkflowPre", "o.Description", 0), "on.workflow_call.outputs.<output_id>.description");
  (("VisitWorkflowPre", "n.RunName", 0), "run-name");
  (("VisitWorkflowPre", "n.Env", 0), "env");
  (("VisitWorkflowPre", "n.Defaults", 0), "defaults");
  (("VisitWorkflowPre", "n.Concurrency", 0), "concurrency");
  (("VisitJobPre", "n.Name", 0), "jobs.<job_id>.name");
  (("VisitJobPre", "n.Needs", 0), "jobs.<job_id>.needs");
  (("VisitJobPre", "n.RunsOn.LabelsExpr", 0), "jobs.<job_id>.runs-on");
  (("VisitJobPre", "l", 0), "jobs.<job_id>.runs-on.labels");
  (("VisitJobPre", "n.RunsOn.Group", 0), "jobs.<job_id>.runs-on.group");
  (("VisitJobPre", "n.Concurrency", 0), "jobs.<job_id>.concurrency");
  (("VisitJobPre", "n.Env", 0), "jobs.<job_id>.env");
  (("VisitJobPre", "n.Defaults", 0), "jobs.<job_id>.defaults");
  (("VisitJobPre", "n.If", 0), "jobs.<job_id>.if");
  (("VisitJobPre", "n.Strategy.FailFast", 0), "jobs.<job_id>.strategy.fail-fast");
  (("VisitJobPre", "n.Strategy.MaxParallel", 0), "jobs.<job_id>.strategy.max-parallel");
  (("VisitJobPre", "n.ContinueOnError", 0), "jobs.<job_id>.continue-on-error");
  (("VisitJobPre", "n.TimeoutMinutes", 0), "jobs.<job_id>.timeout-minutes");
  (("VisitJobPre", "n.Container", 0), "jobs.<job_id>.container");
  (("VisitJobPre", "n.Services.Expression", 0), "jobs.<job_id>.services");
  (("VisitJobPre", "s.Container", 0), "jobs.<job_id>.services.<service_id>");
  (("VisitJobPost", "n.Environment.Name", 0), "jobs.<job_id>.environment.name");
  (("VisitJobPost", "n.Environment.URL", 0), "jobs.<job_id>.environment.url");
  (("VisitJobPost", "output.Value", 0), "jobs.<job_id>.outputs.<output_id>");
  (("VisitStep", "n.Name", 0), "jobs.<job_id>.steps.name");
  (("VisitStep", "n.If", 0), "jobs.<job_id>.steps.if");
  (("VisitStep", "e.Run", 0), "jobs.<job_id>.steps.run");
  (("VisitStep", "e.Shell", 0), "jobs.<job_id>.steps.shell");
  (("VisitStep", "e.WorkingDirectory", 0), "jobs.<job_id>.steps.working-directory");
  (("VisitStep", "e.Uses", 0), "jobs.<job_id>.steps.uses");
  (("VisitStep", "i.Value", 0), "jobs.<job_id>.steps.with.<with_id>");
  (("VisitStep", "i.Value", 1), "jobs.<job_id>.steps.with.<with_id>");
  (("VisitStep", "e.Entrypoint", 0), "jobs.<job_id>.steps.with.entrypoint");
  (("VisitStep", "e.Args", 0), "jobs.<job_id>.steps.with.args");
  (("VisitStep", "n.Env", 0), "jobs.<job_id>.steps.env");
  (("VisitStep", "n.ContinueOnError", 0), "jobs.<job_id>.steps.continue-on-error");
  (("VisitStep", "n.TimeoutMinutes", 0), "jobs.<job_id>.steps.timeout-minutes");
  (("VisitStep", "n.ID", 0), "jobs.<job_id>.steps.id");
  (("checkWorkflowCall", "c.Uses", 0), "jobs.<job_id>.uses");
  (("checkWorkflowCall", "i.Value", 0), "jobs.<job_id>.with.<with_id>");
  (("checkWorkflowCall", "s.Value", 0), "jobs.<job_id>.secrets.<secrets_id>");
  (("checkWebhookEventFilter", "f.Values", 0), "on.<event>.<filter>");
  (("checkMatrixExpression", "expr", 0), "jobs.<job_id>.strategy.matrix");
  (("checkMatrix", "m.Exclude.Expression", 0), "jobs.<job_id>.strategy.matrix.exclude");
  (("checkMatrix", "combi.Expression", 0), "jobs.<job_id>.strategy.matrix.exclude");
  (("checkMatrix", "m.Include.Expression", 0), "jobs.<job_id>.strategy.matrix.include");
  (("checkMatrix", "m.Include.Expression", 1), "jobs.<job_id>.strategy.matrix.include");
  (("checkMatrix", "combi.Expression", 1), "jobs.<job_id>.strategy.matrix.include");
  (("VisitWorkflowPre", "i.Required", 1), "on.workflow_call.inputs.<inputs_id>.required");
  (("VisitWorkflowPre", "s.Required", 0), "on.workflow_call.secrets.<secret_id>.required");
  (("checkMatrixRow", "r.Expression", 0), "jobs.<job_id>.strategy.matrix.<row>");
  (("checkWorkflowCallOutputs", "o.Value", 0), "on.workflow_call.outputs.<output_id>.value");
  (("checkRawYAMLString", "y.Value", 0), "jobs.<job_id>.strategy.matrix.<row>")
].

(* ... the structured helpers below it append a suffix ... *)
Definition sub_suffix : list ((string * string) * string) := [
  (("checkEnv", "e.Name"), ".<env_id>");
  (("checkEnv", "e.Value"), ".<env_id>");
  (("checkEnv", "env.Expression"), ".<env_id>");      (* Appendix B: an env given as one expression has the path of its entries *)
  (("checkContainer", "c.Image"), ".image");
  (("checkContainer", "c.Credentials.Username"), ".credentials.username");
  (("checkContainer", "c.Credentials.Password"), ".credentials.password");
  (("checkContainer", "c.Env"), ".env");
  (("checkContainer", "c.Ports"), ".ports");
  (("checkContainer", "c.Volumes"), ".volumes");
  (("checkContainer", "c.Options"), ".options");
  (("checkConcurrency", "c.Group"), ".group");
  (("checkConcurrency", "c.CancelInProgress"), ".cancel-in-progress");
  (("checkDefaults", "d.Run.Shell"), ".run.shell");
  (("checkDefaults", "d.Run.WorkingDirectory"), ".run.working-directory")
].

(* ... and the functions that only hand one string on to the expression checker add nothing *)
Definition pipeline_fns : list string := [
  "checkString"; "checkStrings"; "checkScriptString"; "checkBool"; "checkInt"; "checkFloat";
  "checkOneExpression"; "checkObjectExpression"; "checkArrayExpression"; "checkNumberExpression";
  "checkIfCondition"; "checkExprsIn"; "checkSemantics"; "checkSemanticsOfExprNode"
].

Definition root_eqb (a b : string * string * nat) : bool :=
  match a, b with (f, x, n), (g, y, m) => String.eqb f g && String.eqb x y && Nat.eqb n m end.

Definition root_of (s : site) : string * string * nat := (s_fn s, s_arg s, s_occ s).

Definition find_root (r : string * string * nat) : option string :=
  option_map snd (find (fun e => root_eqb (fst e) r) root_paths).

Definition find_sub (fn arg : string) : option string :=
  option_map snd (find (fun e => String.eqb (fst (fst e)) fn && String.eqb (snd (fst e)) arg) sub_suffix).

Fixpoint suffixes (rest : list site) : option string :=
  match rest with
  | [] => Some ""
  | s :: rest' =>
      match (if mem (s_fn s) pipeline_fns then Some "" else find_sub (s_fn s) (s_arg s)), suffixes rest' with
      | Some a, Some b => Some (a ++ b)%string
      | _, _ => None
      end
  end.

Definition canon_of (l : leaf) : option string :=
  match l_chain l with
  | [] => None
  | r :: rest =>
      match find_root (root_of r), suffixes rest with
      | Some base, Some suf => Some (base ++ suf)%string
      | _, _ => None
      end
  end.

(* the key a site passes lists what the documentation demands at its canonical path *)
Definition site_ok (t : list row) (ol : option leaf) : bool :=
  match ol with
  | None => false
  | Some l =>
      match canon_of l with
      | None => false
      | Some p => avail_eqb (eff_avail t (l_key l)) (spec_avail t p)
      end
  end.

(* ------------------------------------------------------------------ Part C *)

(* rule.jobsTy is set (UpdateJobs) only by checkWorkflowCallOutputs, just
   before the output values are checked; everywhere else `jobs` is no variable *)
Definition vars_at (root_fn : string) : list string :=
  if String.eqb root_fn "checkWorkflowCallOutputs" then "jobs" :: global_vars else global_vars.

Definition special_names : list string := map fst special_rows.

(* args of the chain below the root, without the pipeline functions *)
Definition subs_of (l : leaf) : list string :=
  match l_chain l with
  | [] => []
  | _ :: rest => map s_arg (filter (fun s => negb (mem (s_fn s) pipeline_fns)) rest)
  end.

(* (root site, sub-arguments, key) of every resolved leaf *)
Definition index_of (lvs : list (option leaf)) : list ((string * string * nat) * list string * string) :=
  flat_map (fun ol =>
    match ol with
    | Some l => match l_chain l with
                | r :: _ => [(root_of r, subs_of l, l_key l)]
                | [] => []
                end
    | None => []
    end) lvs.

Definition keys_at (idx : list ((string * string * nat) * list string * string))
           (fn arg : string) (occ : nat) (subs : list string) : list string :=
  flat_map (fun e =>
    match e with
    | (r, sb, k) => if root_eqb r (fn, arg, occ) then (if strs_eqb sb subs then [k] else []) else []
    end) idx.

(* normal forms, computed once when this file is compiled (it is recompiled
   whenever a Gen file changes) *)
Definition gen_leaves : list (option leaf) := Eval vm_compute in leaves GenRouteSites.sites.
Definition gen_index := Eval vm_compute in index_of gen_leaves.
Definition gen_table : list row := Eval vm_compute in GenAvailability.table.

Lemma gen_leaves_eq : gen_leaves = leaves GenRouteSites.sites.
Proof. vm_compute. reflexivity. Qed.
Lemma gen_index_eq : gen_index = index_of (leaves GenRouteSites.sites).
Proof. vm_compute. reflexivity. Qed.
Lemma gen_table_eq : gen_table = GenAvailability.table.
Proof. vm_compute. reflexivity. Qed.

Definition kind_code (k : dkind) : N :=
  match k with DCtx => 1 | DFn => 2 | DUndefVar => 3 | DUndefFn => 4 end%N.

(* what the model predicts for expression e at the position routed through the
   given site: (class, column of the token) of every availability diagnostic *)
Definition check_at (t : list row) (key root_fn : string) (e : expr) : list diag :=
  let a := eff_avail t key in
  check (vars_at root_fn) func_names special_names (fst a) (snd a) (fun _ => true) e.

Definition case_input := (string * string * nat * list string * expr)%type.

Definition run_case (c : case_input) : list (list N) :=
  match c with
  | (fn, arg, occ, subs, e) =>
      match keys_at gen_index fn arg occ subs with
      | [] => [[999%N]]                                   (* the model knows no such site *)
      | k :: ks =>
          if forallb (String.eqb k) ks then
            map (fun d => [kind_code (d_kind d); t_col (d_pos d)]) (check_at gen_table k fn e)
          else [[998%N]]                                  (* the paths to the checker disagree on the key *)
      end
  end.
