(* Wf/RuleFields.v — what a rule can carry from one job or step into the next is the fields of
   its struct.  The fields of every Rule* type are listed from the source on every run
   (Gen/GenRuleFields.v, harness/cmd/c09/fields.go); here each is shown to be a known one:

     Embedded      the embedded RuleBase
     Construction  set when the rule is created (or by SetConfig before the visit starts) and only
                   read afterwards: name, description, debug writer, configuration, the shared
                   caches (C10), the external command
     Diagnostics   RuleBase.errs, the diagnostics collected so far (only appended to)
     Lock          a mutex
     PerWorkflow   set in VisitWorkflowPre, before any job is visited; read-only afterwards
     ModelState    state that changes while jobs and steps are visited: a component of the
                   transition system Wf/RulesState.v, observed after every visitor callback by the
                   probe of ./check C09 (correspondence K1) — the per-job reset theorems of
                   Props/C09.v speak about exactly these

   A new field (new state a rule could leak between jobs) makes [rule_fields_known_b] fail. *)
From AL Require Import Base.Str Gen.GenRuleFields.

Inductive field_class := Embedded | Construction | Diagnostics | Lock | PerWorkflow | ModelState.

Definition allowed : list (string * string * field_class) := [
  ("RuleAction", "<embedded>", Embedded);
  ("RuleAction", "cache", Construction);
  ("RuleBase", "config", Construction);
  ("RuleBase", "dbg", Construction);
  ("RuleBase", "desc", Construction);
  ("RuleBase", "errs", Diagnostics);
  ("RuleBase", "name", Construction);
  ("RuleCredentials", "<embedded>", Embedded);
  ("RuleDeprecatedCommands", "<embedded>", Embedded);
  ("RuleEnvVar", "<embedded>", Embedded);
  ("RuleEvents", "<embedded>", Embedded);
  ("RuleExpression", "<embedded>", Embedded);
  ("RuleExpression", "dispatchInputsTy", ModelState);
  ("RuleExpression", "inputsTy", ModelState);
  ("RuleExpression", "jobsTy", ModelState);
  ("RuleExpression", "localActions", Construction);
  ("RuleExpression", "localWorkflows", Construction);
  ("RuleExpression", "matrixTy", ModelState);
  ("RuleExpression", "needsTy", ModelState);
  ("RuleExpression", "secretsTy", ModelState);
  ("RuleExpression", "stepsTy", ModelState);
  ("RuleExpression", "workflow", ModelState);
  ("RuleGlob", "<embedded>", Embedded);
  ("RuleID", "<embedded>", Embedded);
  ("RuleID", "seen", ModelState);
  ("RuleIfCond", "<embedded>", Embedded);
  ("RuleJobNeeds", "<embedded>", Embedded);
  ("RuleJobNeeds", "nodes", ModelState);
  ("RuleMatrix", "<embedded>", Embedded);
  ("RulePermissions", "<embedded>", Embedded);
  ("RulePyflakes", "<embedded>", Embedded);
  ("RulePyflakes", "cmd", Construction);
  ("RulePyflakes", "jobShellIsPython", ModelState);
  ("RulePyflakes", "mu", Lock);
  ("RulePyflakes", "workflowShellIsPython", ModelState);
  ("RuleRunnerLabel", "<embedded>", Embedded);
  ("RuleRunnerLabel", "compats", ModelState);
  ("RuleShellName", "<embedded>", Embedded);
  ("RuleShellName", "platform", ModelState);
  ("RuleShellcheck", "<embedded>", Embedded);
  ("RuleShellcheck", "cmd", Construction);
  ("RuleShellcheck", "jobShell", ModelState);
  ("RuleShellcheck", "mu", Lock);
  ("RuleShellcheck", "runnerShell", ModelState);
  ("RuleShellcheck", "workflowShell", ModelState);
  ("RuleWorkflowCall", "<embedded>", Embedded);
  ("RuleWorkflowCall", "cache", Construction);
  ("RuleWorkflowCall", "workflowCallEventPos", PerWorkflow);
  ("RuleWorkflowCall", "workflowPath", Construction)
].

Definition field_eqb (a : string * string * string) (b : string * string * field_class) : bool :=
  let '(t, f, _) := a in let '(t', f', _) := b in String.eqb t t' && String.eqb f f'.

Definition known (x : string * string * string) : bool := existsb (field_eqb x) allowed.

Lemma rule_fields_known_b : forallb known rule_fields = true.
Proof. vm_compute. reflexivity. Qed.

Theorem rule_fields_known x : In x rule_fields -> exists c, In (fst (fst x), snd (fst x), c) allowed.
Proof.
  intros H. pose proof rule_fields_known_b as A. rewrite forallb_forall in A.
  specialize (A x H). unfold known in A. rewrite existsb_exists in A.
  destruct A as [[[t' f'] c] [Hin He]]. destruct x as [[t f] ty]. cbn in He.
  rewrite Bool.andb_true_iff, !String.eqb_eq in He. destruct He as [-> ->]. now exists c.
Qed.

(* the fields that are state of the transition system *)
Definition model_state_fields : list (string * string) :=
  map (fun x => (fst (fst x), snd (fst x))) (filter (fun x => match snd x with ModelState => true | _ => false end) allowed).

Example model_state_fields_are : model_state_fields =
  [("RuleExpression", "dispatchInputsTy"); ("RuleExpression", "inputsTy"); ("RuleExpression", "jobsTy");
   ("RuleExpression", "matrixTy"); ("RuleExpression", "needsTy"); ("RuleExpression", "secretsTy");
   ("RuleExpression", "stepsTy"); ("RuleExpression", "workflow"); ("RuleID", "seen"); ("RuleJobNeeds", "nodes");
   ("RulePyflakes", "jobShellIsPython"); ("RulePyflakes", "workflowShellIsPython"); ("RuleRunnerLabel", "compats");
   ("RuleShellName", "platform"); ("RuleShellcheck", "jobShell"); ("RuleShellcheck", "runnerShell");
   ("RuleShellcheck", "workflowShell")].
Proof. reflexivity. Qed.
