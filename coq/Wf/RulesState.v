(* Wf/RulesState.v — the stateful rule visitors as transition systems
   (pass.go Visitor; rule_expression.go, rule_shell_name.go,
   rule_shellcheck.go, rule_pyflakes.go, rule_id.go, rule_runner_label.go,
   rule_job_needs.go).

   Every rule is  step : st -> event -> st * list diag  over the visitor
   events.  What is modelled literally: the mutable fields of each rule and
   which event reads, writes and resets them.  What is abstract: the checking
   functions themselves (Section variables), so every theorem holds for any
   behaviour of the stateless parts.  The AST is projected to the fields the
   state-relevant code reads; everything else of a node is the opaque
   payload [*_rest] that only the abstract functions see. *)
From AL Require Import Base.Str Base.AList.
Set Implicit Arguments.

Section Rules.

Variables HX JX SX MX : Type.     (* opaque rest of workflow header / job / step; the Matrix node *)
Variable diag : Type.

Record stepT := mkStep {
  s_id : option string;           (* Step.ID.Value as written *)
  s_is_run : bool;                (* Exec is *ExecRun *)
  s_has_script : bool;            (* ExecRun.Run != nil *)
  s_shell : option string;        (* ExecRun.Shell *)
  s_rest : SX }.

Record jobT := mkJob {
  j_id : string;                          (* Job.ID.Value as written *)
  j_needs : list string;                  (* Job.Needs values as written *)
  j_runs_on : option (list string);       (* RunsOn: None = nil; Some labels (empty for the ${{ }} form) *)
  j_def_run : option (option string);     (* Defaults.Run present; its Shell *)
  j_matrix : option MX;                   (* Strategy.Matrix *)
  j_outputs : list string;                (* keys of Job.Outputs *)
  j_is_call : bool;                       (* WorkflowCall != nil *)
  j_steps : list stepT;
  j_rest : JX }.

Record wfT := mkWf {
  w_def_run : option (option string);     (* Workflow.Defaults.Run present; its Shell *)
  w_call : bool;                          (* on: workflow_call present *)
  w_call_secrets : bool;                  (*   its Secrets != nil *)
  w_call_outputs : bool;                  (*   len(Outputs) > 0 *)
  w_dispatch : bool;                      (* on: workflow_dispatch present *)
  w_hdr : HX;
  w_jobs : list jobT }.                   (* in source order = visiting order (pass.go) *)

Definition with_jobs (w : wfT) (js : list jobT) : wfT :=
  mkWf (w_def_run w) (w_call w) (w_call_secrets w) (w_call_outputs w) (w_dispatch w) (w_hdr w) js.
Definition job_hdr (j : jobT) : jobT :=
  mkJob (j_id j) (j_needs j) (j_runs_on j) (j_def_run j) (j_matrix j) (j_outputs j) (j_is_call j) [] (j_rest j).

Definition jkey (j : jobT) : string := lower (j_id j).   (* key of Workflow.Jobs *)

Fixpoint find_job (k : string) (js : list jobT) : option jobT :=
  match js with
  | [] => None
  | j :: t => if String.eqb k (jkey j) then Some j else find_job k t
  end.

(* ------------------------------------------------------------ the visitor *)
Inductive event :=
| WfPre (w : wfT) | JobPre (j : jobT) | StepE (s : stepT) | JobPost (j : jobT) | WfPost (w : wfT).

Definition job_events (j : jobT) : list event :=
  JobPre j :: map StepE (j_steps j) ++ [JobPost j].
Definition visit (w : wfT) : list event :=
  WfPre w :: flat_map job_events (w_jobs w) ++ [WfPost w].

Record rule := mkRule { st : Type; init : st; step : st -> event -> st * list diag }.

(* run returns the diagnostics per event, so that they can be attributed *)
Fixpoint run (r : rule) (s : st r) (es : list event) : st r * list (list diag) :=
  match es with
  | [] => (s, [])
  | e :: t => let '(s1, d) := step r s e in
              let '(s2, ds) := run r s1 t in (s2, d :: ds)
  end.

(* all passes receive every event, in the order of the pass list *)
Definition rprod (r1 r2 : rule) : rule :=
  @mkRule (st r1 * st r2)%type (init r1, init r2)
    (fun s e => let '(a, d1) := step r1 (fst s) e in
                let '(b, d2) := step r2 (snd s) e in ((a, b), d1 ++ d2)).

(* per-job results of a whole visit *)
Fixpoint blocks (r : rule) (s : st r) (js : list jobT) : list (jobT * list (list diag)) :=
  match js with
  | [] => []
  | j :: t => let '(s1, d) := run r s (job_events j) in (j, d) :: blocks r s1 t
  end.
Definition after_wfpre (r : rule) (w : wfT) : st r := fst (step r (init r) (WfPre w)).
Definition lint_jobs (r : rule) (w : wfT) : list (jobT * list (list diag)) :=
  blocks r (after_wfpre r w) (w_jobs w).

(* ======================================================= RuleShellName *)
Inductive platform := PAny | PMacLinux | PWindows.

Definition platform_eqb (a b : platform) : bool :=
  match a, b with PAny, PAny | PMacLinux, PMacLinux | PWindows, PWindows => true | _, _ => false end.

Definition label_kind (l : string) : platform :=
  let l := lower l in
  if orb (prefix "windows-" l) (String.eqb l "windows") then PWindows
  else if orb (orb (prefix "macos-" l) (prefix "ubuntu-" l)) (orb (String.eqb l "macos") (String.eqb l "linux"))
       then PMacLinux else PAny.

(* getPlatformFromRunner: the loop with its early return on a conflict *)
Fixpoint platform_loop (ret : platform) (ls : list string) : platform :=
  match ls with
  | [] => ret
  | l :: t =>
      match label_kind l with
      | PAny => platform_loop ret t
      | k => if andb (negb (platform_eqb ret PAny)) (negb (platform_eqb ret k)) then PAny
             else platform_loop k t
      end
  end.
Definition platform_of (ls : list string) : platform := platform_loop PAny ls.

Variable sn_wf : platform -> wfT -> list diag.      (* checkShellName(workflow defaults.run.shell) *)
Variable sn_job : platform -> jobT -> list diag.    (* checkShellName(job defaults.run.shell) *)
Variable sn_step : platform -> stepT -> list diag.  (* checkShellName(run.Shell) *)

Definition shellname_step (s : platform) (e : event) : platform * list diag :=
  match e with
  | WfPre w => (s, match w_def_run w with Some _ => sn_wf s w | None => [] end)
  | JobPre j =>
      match j_runs_on j with
      | None => (s, [])                                     (* early return: platform untouched *)
      | Some ls => let p := platform_of ls in
                   (p, match j_def_run j with Some _ => sn_job p j | None => [] end)
      end
  | StepE x => (s, if s_is_run x then sn_step s x else [])
  | JobPost _ => (PAny, [])
  | WfPost _ => (s, [])
  end.
Definition r_shellname : rule := @mkRule platform PAny shellname_step.

(* ======================================================= RuleShellcheck *)
Record scst := mkSc { sc_wf : string; sc_job : string; sc_runner : string }.

Definition is_windows_label (l : string) : bool :=
  let l := lower l in orb (String.eqb l "windows") (prefix "windows-" l).

Definition nonempty (s : string) : bool := negb (String.eqb s "").

Definition get_shell_name (s : scst) (x : stepT) : string :=
  match s_shell x with
  | Some v => v
  | None => if nonempty (sc_job s) then sc_job s
            else if nonempty (sc_wf s) then sc_wf s
            else if nonempty (sc_runner s) then sc_runner s
            else "bash"
  end.

Variable sc_run : string -> stepT -> list diag.     (* runShellcheck(script, shell name, pos) *)

Definition shellcheck_step (s : scst) (e : event) : scst * list diag :=
  match e with
  | WfPre w => (match w_def_run w with
                | Some (Some sh) => mkSc sh (sc_job s) (sc_runner s)
                | _ => s end, [])
  | JobPre j =>
      let js := match j_def_run j with Some (Some sh) => sh | _ => sc_job s end in
      let rs := match j_runs_on j with
                | Some ls => if existsb is_windows_label ls then "pwsh" else sc_runner s
                | None => sc_runner s end in
      (mkSc (sc_wf s) js rs, [])
  | StepE x => (s, if andb (s_is_run x) (s_has_script x) then sc_run (get_shell_name s x) x else [])
  | JobPost _ => (mkSc (sc_wf s) "" "", [])
  | WfPost _ => (mkSc "" (sc_job s) (sc_runner s), [])
  end.
Definition r_shellcheck : rule := @mkRule scst (mkSc "" "" "") shellcheck_step.

(* ======================================================= RulePyflakes *)
Inductive pykind := PyUnspec | PyPython | PyNot.
Record pyst := mkPy { py_wf : pykind; py_job : pykind }.

Definition py_kind_of (sh : option string) : pykind :=
  match sh with
  | None => PyUnspec
  | Some v => if orb (String.eqb v "python") (prefix "python " v) then PyPython else PyNot
  end.

Definition is_python (s : pyst) (x : stepT) : bool :=
  match py_kind_of (s_shell x) with
  | PyPython => true
  | PyNot => false
  | PyUnspec =>
      match py_job s with
      | PyPython => true
      | PyNot => false
      | PyUnspec => match py_wf s with PyPython => true | _ => false end
      end
  end.

Variable py_run : stepT -> list diag.               (* runPyflakes(script, pos) *)

Definition pyflakes_step (s : pyst) (e : event) : pyst * list diag :=
  match e with
  | WfPre w => (match w_def_run w with Some sh => mkPy (py_kind_of sh) (py_job s) | None => s end, [])
  | JobPre j => (match j_def_run j with Some sh => mkPy (py_wf s) (py_kind_of sh) | None => s end, [])
  | StepE x => (s, if andb (andb (s_is_run x) (s_has_script x)) (is_python s x) then py_run x else [])
  | JobPost _ => (mkPy (py_wf s) PyUnspec, [])
  | WfPost _ => (mkPy PyUnspec (py_job s), [])
  end.
Definition r_pyflakes : rule := @mkRule pyst (mkPy PyUnspec PyUnspec) pyflakes_step.

(* ======================================================= RuleID *)
(* seen: nil or a map from lower-cased id to the step that defined it (its Pos) *)
Definition idst := option (list (string * stepT)).

Variable id_job : jobT -> list diag.                (* validateConvention of the job id and its needs *)
Variable id_conv : stepT -> list diag.              (* validateConvention of the step id *)
Variable id_dup : stepT -> stepT -> list diag.      (* "step ID %q duplicates. previously defined at %s" *)

Definition id_step (s : idst) (e : event) : idst * list diag :=
  match e with
  | JobPre j => (Some [], id_job j)
  | JobPost _ => (None, [])
  | StepE x =>
      match s_id x with
      | None => (s, [])
      | Some i =>
          let seen := match s with Some m => m | None => [] end in   (* reading a nil map is fine in Go *)
          match lookup (lower i) seen with
          | Some prev => (s, id_conv x ++ id_dup x prev)
          | None =>
              (* writing into a nil map would panic in Go; unreachable: the
                 visitor sends JobPre before every step (visit_steps_in_job) *)
              (match s with Some m => Some (upsert (lower i) x m) | None => None end, id_conv x)
          end
      end
  | _ => (s, [])
  end.
Definition r_id : rule := @mkRule idst None id_step.

(* ======================================================= RuleRunnerLabel *)
(* compats: nil, or a map that lives only inside VisitJobPre; its content is
   irrelevant outside, so the model keeps "nil or not" *)
Definition rlst := option unit.

Variable rl_one : jobT -> list diag.                (* checkLabel: exactly one label *)
Variable rl_many : jobT -> list diag.               (* checkLabelAndConflict over a fresh compats map *)

Definition runnerlabel_step (s : rlst) (e : event) : rlst * list diag :=
  match e with
  | JobPre j =>
      match j_runs_on j with
      | None => (s, [])
      | Some [_] => (s, rl_one j)
      | Some _ => (None, rl_many j)                  (* compats = {}; ...; compats = nil *)
      end
  | _ => (s, [])
  end.
Definition r_runnerlabel : rule := @mkRule rlst None runnerlabel_step.

(* ======================================================= RuleJobNeeds *)
(* nodes: per-workflow map id -> (needs, defining job); filled by VisitJobPre,
   consumed by VisitWorkflowPost *)
Definition jnst := list (string * (list string * jobT)).

Fixpoint dedup_needs (acc : list string) (ns : list string) : list string :=
  match ns with
  | [] => acc
  | n :: t => let i := lower n in
              if existsb (String.eqb i) acc then dedup_needs acc t
              else if String.eqb i "" then dedup_needs acc t
              else dedup_needs (acc ++ [i]) t
  end.

Variable jn_needs_dups : jobT -> list diag.          (* "job ID %q duplicates in needs section" — a function of the job *)
Variable jn_dup_job : jobT -> jobT -> list diag.     (* "job ID %q duplicates. previously defined at" *)
Variable jn_post : jnst -> list diag.                (* resolution + cycle detection (property C18) *)

Definition jobneeds_step (s : jnst) (e : event) : jnst * list diag :=
  match e with
  | JobPre j =>
      let id := jkey j in
      if String.eqb id "" then (s, jn_needs_dups j) else
      (upsert id (dedup_needs [] (j_needs j), j) s,
       jn_needs_dups j ++ match lookup id s with Some prev => jn_dup_job j (snd prev) | None => [] end)
  | WfPost _ => (s, jn_post s)
  | _ => (s, [])
  end.
Definition r_jobneeds : rule := @mkRule jnst [] jobneeds_step.

(* ======================================================= RuleExpression *)
Variables MT OT CT IT ST DT JT : Type.  (* types of: matrix, step outputs, called-workflow outputs,
                                           inputs, secrets, dispatch inputs, jobs context *)

(* steps context: props (id -> outputs type) and the Loose flag *)
Definition stepsT : Type := list (string * OT) * bool.
(* needs context: needed id -> declared output names, or outputs of the called workflow *)
Inductive nout := NOutputs (names : list string) | NCall (c : CT).
Definition needsT : Type := list (string * nout).

Record exst := mkEx {
  x_matrix : option MT; x_steps : option stepsT; x_needs : option needsT;
  x_secrets : option ST; x_inputs : option IT; x_dispatch : option DT; x_jobs : option JT;
  x_workflow : option wfT }.

Definition ex_init : exst := mkEx None None None None None None None None.

Definition set_matrix (s : exst) (m : option MT) : exst :=
  mkEx m (x_steps s) (x_needs s) (x_secrets s) (x_inputs s) (x_dispatch s) (x_jobs s) (x_workflow s).
Definition set_steps (s : exst) (v : option stepsT) : exst :=
  mkEx (x_matrix s) v (x_needs s) (x_secrets s) (x_inputs s) (x_dispatch s) (x_jobs s) (x_workflow s).
Definition set_needs (s : exst) (v : option needsT) : exst :=
  mkEx (x_matrix s) (x_steps s) v (x_secrets s) (x_inputs s) (x_dispatch s) (x_jobs s) (x_workflow s).

(* what checkSemanticsOfExprNode reads: the seven type fields, not rule.workflow *)
Definition env_of (s : exst) : exst :=
  mkEx (x_matrix s) (x_steps s) (x_needs s) (x_secrets s) (x_inputs s) (x_dispatch s) (x_jobs s) None.

Variable ex_call_out : jobT -> CT.                   (* getWorkflowCallOutputsType (reads the reusable-workflow cache) *)
Variable ex_step_out : stepT -> OT.                  (* getActionOutputsType (reads the action cache / popular actions) *)
Variable hdr_inputs : wfT -> IT.
Variable hdr_secrets : wfT -> ST.
Variable hdr_dispatch : wfT -> DT.
Variable hdr_jobs : wfT -> JT.
Variable ex_wfpre : wfT -> list diag.                (* all checks of VisitWorkflowPre *)
Variable ex_wfpost : exst -> wfT -> list diag.       (* checkWorkflowCallOutputs *)
(* the checks of a callback: they read the rule's fields and — because types are
   shared pointers — may hand back a modified matrix type (threaded) *)
Variable ex_matrix : exst -> jobT -> MX -> MT * list diag.        (* checkMatrix *)
Variable ex_jobpre : exst -> jobT -> list diag * option MT.       (* the rest of VisitJobPre *)
Variable ex_step : exst -> stepT -> list diag * option MT.        (* the checks of VisitStep *)
Variable ex_jobpost : exst -> jobT -> list diag * option MT.      (* environment / outputs *)

(* calcNeedsType / populateDependantNeedsTypes *)
Fixpoint calc_needs (jobs : list jobT) (root : jobT) (out : needsT) (ns : list string) : needsT :=
  match ns with
  | [] => out
  | n :: t =>
      let i := lower n in
      if String.eqb i (j_id root) then calc_needs jobs root out t           (* compared with the raw id, as the code does *)
      else match lookup i out with
           | Some _ => calc_needs jobs root out t                           (* already added *)
           | None =>
               match find_job i jobs with
               | None => calc_needs jobs root out t
               | Some j' =>
                   calc_needs jobs root
                     (out ++ [(i, if j_is_call j' then NCall (ex_call_out j') else NOutputs (j_outputs j'))]) t
               end
           end
  end.

Definition wf_jobs_of (w : option wfT) : list jobT :=
  match w with Some w => w_jobs w | None => [] end.     (* nil workflow: unreachable, JobPre follows WfPre *)

Definition add_step (x : stepT) (v : option stepsT) : option stepsT :=
  match s_id x, v with
  | Some i, Some (ps, loose) =>
      Some (upsert (lower i) (ex_step_out x) ps, orb loose (contains_expr i))
  | _, _ => v                                            (* no id; (nil stepsTy: unreachable) *)
  end.

Definition expression_step (s : exst) (e : event) : exst * list diag :=
  match e with
  | WfPre w =>
      (mkEx (x_matrix s) (x_steps s) (x_needs s)
            (if andb (w_call w) (w_call_secrets w) then Some (hdr_secrets (with_jobs w [])) else x_secrets s)
            (if w_call w then Some (hdr_inputs (with_jobs w [])) else x_inputs s)
            (if w_dispatch w then Some (hdr_dispatch (with_jobs w [])) else x_dispatch s)
            (x_jobs s) (Some w),
       ex_wfpre (with_jobs w []))      (* VisitWorkflowPre reads Name, On, RunName, Env, Defaults, Concurrency: not Jobs *)
  | JobPre j =>
      let s1 := set_needs s (Some (calc_needs (wf_jobs_of (x_workflow s)) j [] (j_needs j))) in
      let '(s2, d1) := match j_matrix j with
                       | Some m => let '(mt, d) := ex_matrix (env_of s1) j m in (set_matrix s1 (Some mt), d)
                       | None => (s1, [])                                  (* matrixTy keeps its value *)
                       end in
      let '(d2, m') := ex_jobpre (env_of s2) j in
      (set_steps (set_matrix s2 m') (Some ([], false)), d1 ++ d2)
  | StepE x =>
      let '(d, m') := ex_step (env_of s) x in
      let s1 := set_matrix s m' in
      (set_steps s1 (add_step x (x_steps s1)), d)
  | JobPost j =>
      let '(d, _) := ex_jobpost (env_of s) j in
      (set_needs (set_steps (set_matrix s None) None) None, d)
  | WfPost w =>
      let s1 := mkEx (x_matrix s) (x_steps s) (x_needs s) (x_secrets s) (x_inputs s) (x_dispatch s)
                     (if andb (andb (w_call w) (w_call_outputs w)) (negb (Nat.eqb (length (w_jobs w)) 0))
                      then Some (hdr_jobs w) else x_jobs s) (x_workflow s) in
      (mkEx (x_matrix s1) (x_steps s1) (x_needs s1) (x_secrets s1) (x_inputs s1) (x_dispatch s1) (x_jobs s1) None,
       ex_wfpost (env_of s1) w)
  end.
Definition r_expression : rule := @mkRule exst ex_init expression_step.

(* a variant that forgets `rule.matrixTy = nil` in VisitJobPost (the sensitivity
   target of DESIGN.md 6.21), for a refutation lemma *)
Definition expression_step_noclear (s : exst) (e : event) : exst * list diag :=
  match e with
  | JobPost j => let '(d, _) := ex_jobpost (env_of s) j in (set_needs (set_steps s None) None, d)
  | _ => expression_step s e
  end.
Definition r_expression_noclear : rule := @mkRule exst ex_init expression_step_noclear.

(* all stateful passes of the linter (relative order as in linter.go) *)
Definition r_all : rule :=
  rprod r_shellname (rprod r_runnerlabel (rprod r_jobneeds (rprod r_id (rprod r_expression (rprod r_shellcheck r_pyflakes))))).

End Rules.

Arguments StepE {HX JX SX MX} s.
Arguments JobPre {HX JX SX MX} j.
Arguments JobPost {HX JX SX MX} j.
Arguments job_events {HX JX SX MX} j.
Arguments ex_init {HX JX SX MX MT OT CT IT ST DT JT}.
Arguments NOutputs {CT} names.
Arguments r_shellcheck {HX JX SX MX diag} sc_run.
Arguments r_pyflakes {HX JX SX MX diag} py_run.
Arguments r_id {HX JX SX MX diag} id_job id_conv id_dup.
Arguments r_runnerlabel {HX JX SX MX diag} rl_one rl_many.
Arguments r_jobneeds {HX JX SX MX diag} jn_needs_dups jn_dup_job jn_post.
