(* Wf/StateExpr.v — the type environment threaded through the expression
   checker (expr_sema.go: check / checkVariable / checkObjectDeref /
   checkArrayDeref / checkIndexAccess, expr_type.go: ObjectType, ArrayType).

   Purpose (property C09): the Go checker hands out *pointers* into the
   variable table (`matrix` -> rule.matrixTy, the global table, ...).  Any
   write through such a pointer is visible to every later expression.  The
   model therefore threads the environment through [check_gen] and represents
   a checker result either as a reference [VRef path] into the environment
   (aliasing) or as a freshly allocated value.  [check_gen true] is the code
   before the fix (checkArrayDeref: `ty.Deref = true; return ty`),
   [check_gen false] the repaired code (`return &ArrayType{ty.Elem, true}`).

   Own minimal type/expression model (prefix State) — the full models of
   expr_type.go / expr_sema.go belong to C06 (Expr/Types, Expr/Sema).  Modelled
   fragment: variables, literals, `.prop`, `.*`, `[index]`, `!`.  Function
   calls, comparison and logical operators (Merge) are not modelled here; none
   of them writes to a type (they only read and allocate). *)
From AL Require Import Base.Str Base.AList.

Inductive ty : Type :=
| TAny | TNull | TNum | TBool | TStr
| TArr (elem : ty) (deref : bool)                       (* ArrayType{Elem, Deref} *)
| TObj (props : list (string * ty)) (mapped : option ty). (* ObjectType{Props, Mapped}; strict iff mapped = None *)

Definition tenv := list (string * ty).                  (* sema.vars *)

(* a pointer into the environment: variable name and the way down *)
Inductive pstep := PProp (n : string) | PMapped | PElem.
Definition path : Type := string * list pstep.
Definition ext (p : path) (s : pstep) : path := (fst p, snd p ++ [s]).

Definition child (t : ty) (s : pstep) : option ty :=
  match s, t with
  | PProp n, TObj ps _ => lookup n ps
  | PMapped, TObj _ m => m
  | PElem, TArr e _ => Some e
  | _, _ => None
  end.

Fixpoint walk (t : ty) (p : list pstep) : option ty :=
  match p with
  | [] => Some t
  | s :: p' => match child t s with Some c => walk c p' | None => None end
  end.

Definition resolve (env : tenv) (p : path) : option ty :=
  match lookup (fst p) env with Some t => walk t (snd p) | None => None end.

(* the in-place write `ty.Deref = true` through a pointer *)
Fixpoint upd_prop (n : string) (f : ty -> ty) (ps : list (string * ty)) : list (string * ty) :=
  match ps with
  | [] => []
  | (k, v) :: r => if String.eqb n k then (k, f v) :: r else (k, v) :: upd_prop n f r
  end.

Fixpoint set_deref_at (p : list pstep) (t : ty) : ty :=
  match p with
  | [] => match t with TArr e _ => TArr e true | _ => t end
  | s :: p' =>
      match s, t with
      | PProp n, TObj ps m => TObj (upd_prop n (set_deref_at p') ps) m
      | PMapped, TObj ps (Some m) => TObj ps (Some (set_deref_at p' m))
      | PElem, TArr e d => TArr (set_deref_at p' e) d
      | _, _ => t
      end
  end.

Definition set_deref (env : tenv) (p : path) : tenv :=
  upd_prop (fst p) (set_deref_at (snd p)) env.

(* checker results *)
Inductive val : Type :=
| VRef (p : path)                      (* the very object stored in the environment *)
| VAny | VNull | VNum | VBool | VStr   (* value types: no identity *)
| VArr (elem : val) (deref : bool).    (* a freshly allocated &ArrayType{...} *)

Inductive hd : Type :=
| HAny | HNull | HNum | HBool | HStr
| HArr (elem : val) (deref : bool) (self : option path)
| HObj (p : path) (props : list (string * ty)) (mapped : option ty).

Definition head (env : tenv) (v : val) : hd :=
  match v with
  | VRef p =>
      match resolve env p with
      | Some TAny => HAny | Some TNull => HNull | Some TNum => HNum
      | Some TBool => HBool | Some TStr => HStr
      | Some (TArr _ d) => HArr (VRef (ext p PElem)) d (Some p)
      | Some (TObj ps m) => HObj p ps m
      | None => HAny
      end
  | VAny => HAny | VNull => HNull | VNum => HNum | VBool => HBool | VStr => HStr
  | VArr e d => HArr e d None
  end.

(* expressions (own minimal syntax; positions are irrelevant here) *)
Inductive sexpr : Type :=
| SVar (n : string) | SNull | SBool | SNum | SStr (s : string)
| SDot (r : sexpr) (n : string)     (* r.n   ObjectDerefNode *)
| SStar (r : sexpr)                  (* r.[star]  ArrayDerefNode *)
| SIndex (o i : sexpr)               (* o[i]  IndexAccessNode *)
| SNot (e : sexpr).

(* diagnostic classes, by the message prefixes of expr_sema.go *)
Definition E_undef_var : N := 1.       (* undefined variable *)
Definition E_no_prop : N := 2.         (* property %q is not defined in object type *)
Definition E_recv_not_obj : N := 3.    (* receiver of object dereference %q must be type of object *)
Definition E_no_prop_elem : N := 4.    (* ... as element of filtered array *)
Definition E_filter_not_obj : N := 5.  (* property filtered by %q at object filtering must be type of object *)
Definition E_star_elems : N := 6.      (* elements of object at receiver of object filtering *)
Definition E_star_no_obj : N := 7.     (* object type %q cannot be filtered by object filtering *)
Definition E_star_recv : N := 8.       (* receiver of object filtering `.*` must be type of array or object *)
Definition E_idx_num : N := 9.         (* index access of array must be type of number *)
Definition E_idx_str : N := 10.        (* property access of object must be type of string *)
Definition E_idx_operand : N := 11.    (* index access operand must be type of object or array *)

(* checkArrayDeref on a strict object: a member that is an object, or of unknown
   type (fix 8052416: `any` may hold an object), allows the filter *)
Definition is_obj (t : ty) : bool := match t with TObj _ _ => true | TAny => true | _ => false end.

(* checkObjectDeref, after the receiver was checked: reads only *)
Definition prop_rule (env : tenv) (v : val) (n : string) : val * list N :=
  match head env v with
  | HAny => (VAny, [])
  | HObj p ps m =>
      match lookup n ps with
      | Some _ => (VRef (ext p (PProp n)), [])
      | None => match m with
                | Some _ => (VRef (ext p PMapped), [])
                | None => (VAny, [E_no_prop])
                end
      end
  | HArr elem d _ =>
      if negb d then (VAny, [E_recv_not_obj]) else
      match head env elem with
      | HAny => (v, [])                                  (* "Reuse `ty`" *)
      | HObj q ps m =>
          match lookup n ps with
          | Some _ => (VArr (VRef (ext q (PProp n))) true, [])
          | None => match m with
                    | Some _ => (VArr (VRef (ext q PMapped)) true, [])
                    | None => (VArr VAny true, [E_no_prop_elem])
                    end
          end
      | _ => (VAny, [E_filter_not_obj])
      end
  | _ => (VAny, [E_recv_not_obj])
  end.

(* checkArrayDeref, after the receiver was checked.  [inplace = true] is the
   code before the fix: the flag is written into the receiver's own object. *)
Definition star_rule (inplace : bool) (env : tenv) (v : val) : val * list N * tenv :=
  match head env v with
  | HAny => (VArr VAny true, [], env)
  | HArr elem d self =>
      if inplace then
        match self with
        | Some p => (v, [], set_deref env p)             (* ty.Deref = true; return ty *)
        | None => (VArr elem true, [], env)              (* same write, on a fresh object nobody else holds *)
        end
      else (VArr elem true, [], env)                     (* return &ArrayType{ty.Elem, true} *)
  | HObj p ps m =>
      match m with
      | Some _ =>
          match head env (VRef (ext p PMapped)) with
          | HAny => (VArr VAny true, [], env)
          | HObj _ _ _ => (VArr (VRef (ext p PMapped)) true, [], env)
          | _ => (VAny, [E_star_elems], env)
          end
      | None =>
          if existsb is_obj (map snd ps) then (VArr VAny true, [], env)
          else (VAny, [E_star_no_obj], env)
      end
  | _ => (VAny, [E_star_recv], env)
  end.

(* checkIndexAccess, after index and operand were checked: reads only *)
Definition index_rule (env : tenv) (v iv : val) (i : sexpr) : val * list N :=
  match head env v with
  | HAny => (VAny, [])
  | HArr elem _ _ =>
      match head env iv with
      | HAny | HNum => (elem, [])
      | _ => (VAny, [E_idx_num])
      end
  | HObj p ps m =>
      match head env iv with
      | HAny => (VAny, [])
      | HStr =>
          let fallback := match m with Some _ => VRef (ext p PMapped) | None => VAny end in
          match i with
          | SStr s =>
              match lookup s ps with
              | Some _ => (VRef (ext p (PProp s)), [])
              | None => match m with
                        | Some _ => (VRef (ext p PMapped), [])
                        | None => (fallback, [E_no_prop])
                        end
              end
          | _ => (fallback, [])
          end
      | _ => (VAny, [E_idx_str])
      end
  | _ => (VAny, [E_idx_operand])
  end.

(* sema.check with the environment threaded through *)
Fixpoint check_gen (inplace : bool) (env : tenv) (e : sexpr) : val * list N * tenv :=
  match e with
  | SVar n => match lookup n env with
              | Some _ => (VRef (n, []), [], env)
              | None => (VAny, [E_undef_var], env)
              end
  | SNull => (VNull, [], env)
  | SBool => (VBool, [], env)
  | SNum => (VNum, [], env)
  | SStr _ => (VStr, [], env)
  | SDot r n =>
      let '(v, es, env1) := check_gen inplace env r in
      let '(v', es') := prop_rule env1 v n in
      (v', es ++ es', env1)
  | SStar r =>
      let '(v, es, env1) := check_gen inplace env r in
      let '(v', es', env2) := star_rule inplace env1 v in
      (v', es ++ es', env2)
  | SIndex o i =>
      let '(iv, es1, env1) := check_gen inplace env i in     (* index first *)
      let '(v, es2, env2) := check_gen inplace env1 o in
      let '(v', es') := index_rule env2 v iv i in
      (v', es1 ++ es2 ++ es', env2)
  | SNot e1 =>
      let '(_, es, env1) := check_gen inplace env e1 in      (* BoolType.Assignable is always true *)
      (VBool, es, env1)
  end.

Definition check_new := check_gen false.   (* /repo as it is now *)
Definition check_old := check_gen true.    (* before the fix *)

(* RuleExpression checks every placeholder with a fresh ExprSemanticsChecker
   that receives the same type objects: a sequence of checks threads the
   environment *)
Fixpoint check_seq (inplace : bool) (env : tenv) (es : list sexpr) : list (val * list N) * tenv :=
  match es with
  | [] => ([], env)
  | e :: t =>
      let '(v, er, env1) := check_gen inplace env e in
      let '(rs, env2) := check_seq inplace env1 t in
      ((v, er) :: rs, env2)
  end.

(* ---------------------------------------------------------------- theorems *)

Lemma star_rule_new_pure env v : snd (star_rule false env v) = env.
Proof.
  unfold star_rule. destruct (head env v) as [| | | | |el d self|p ps m]; try reflexivity.
  destruct m as [m|].
  - destruct (head env (VRef (ext p PMapped))); reflexivity.
  - destruct (existsb is_obj (map snd ps)); reflexivity.
Qed.

Theorem check_new_pure : forall e env, snd (check_new env e) = env.
Proof.
  unfold check_new.
  induction e as [n| | | |s|r IH n|r IH|o IHo i IHi|e1 IH]; intros env; cbn [check_gen].
  - destruct (lookup n env); reflexivity.
  - reflexivity.
  - reflexivity.
  - reflexivity.
  - reflexivity.
  - specialize (IH env). destruct (check_gen false env r) as [[v es] env1]. cbn in IH. subst env1.
    destruct (prop_rule env v n). reflexivity.
  - specialize (IH env). destruct (check_gen false env r) as [[v es] env1]. cbn in IH. subst env1.
    pose proof (star_rule_new_pure env v) as H.
    destruct (star_rule false env v) as [[v' es'] env2]. cbn in H. subst env2. reflexivity.
  - specialize (IHi env). destruct (check_gen false env i) as [[iv es1] env1]. cbn in IHi. subst env1.
    specialize (IHo env). destruct (check_gen false env o) as [[v es2] env2]. cbn in IHo. subst env2.
    destruct (index_rule env v iv i). reflexivity.
  - specialize (IH env). destruct (check_gen false env e1) as [[v es] env1]. cbn in IH. subst env1.
    reflexivity.
Qed.

(* checking one expression never alters how a later expression is typed *)
Theorem later_expr_unaffected : forall env e1 e2,
  check_new (snd (check_new env e1)) e2 = check_new env e2.
Proof. intros. now rewrite check_new_pure. Qed.

Theorem check_seq_new_pure : forall es env, snd (check_seq false env es) = env.
Proof.
  induction es as [|e t IH]; intros env; cbn; [reflexivity|].
  pose proof (check_new_pure e env) as H. unfold check_new in H.
  destruct (check_gen false env e) as [[v er] env1]. cbn in H. subst env1.
  specialize (IH env). destruct (check_seq false env t) as [rs env2]. cbn in IH. now subst.
Qed.

(* every expression of a sequence gets the result it gets when checked alone *)
Theorem check_seq_indep : forall es env,
  fst (check_seq false env es) = map (fun e => fst (check_new env e)) es.
Proof.
  induction es as [|e t IH]; intros env; cbn; [reflexivity|].
  pose proof (check_new_pure e env) as H. unfold check_new in *.
  destruct (check_gen false env e) as [[v er] env1] eqn:E. cbn in H. subst env1.
  specialize (IH env). destruct (check_seq false env t) as [rs env2]. cbn in *.
  now rewrite IH.
Qed.

(* --- the code before the fix: defect #10 *)
Definition leak_env : tenv :=
  [("matrix", TObj [("x", TArr (TObj [("y", TNum)] None) false)] None)].
Definition leak_e1 : sexpr := SDot (SStar (SDot (SVar "matrix") "x")) "y".   (* matrix.x.*.y *)
Definition leak_e2 : sexpr := SDot (SDot (SVar "matrix") "x") "y".           (* matrix.x.y   *)

Theorem check_old_not_pure : exists env e, snd (check_old env e) <> env.
Proof. exists leak_env, leak_e1. vm_compute. discriminate. Qed.

Theorem check_old_leaks : exists env e1 e2,
  snd (fst (check_old (snd (check_old env e1)) e2)) <> snd (fst (check_old env e2)).
Proof. exists leak_env, leak_e1, leak_e2. vm_compute. discriminate. Qed.

(* the same pair on the repaired checker: the error is still reported *)
Example check_new_no_leak :
  snd (fst (check_new (snd (check_new leak_env leak_e1)) leak_e2)) = [E_recv_not_obj].
Proof. vm_compute. reflexivity. Qed.

(* resolution of a result to a plain type (for observation) *)
Fixpoint val_ty (env : tenv) (v : val) : ty :=
  match v with
  | VRef p => match resolve env p with Some t => t | None => TAny end
  | VAny => TAny | VNull => TNull | VNum => TNum | VBool => TBool | VStr => TStr
  | VArr e d => TArr (val_ty env e) d
  end.
