(* Wf/Sections.v — every section parser of parse.go as an instance of
   [run_section] (Wf/Mapping.v): its table (allowEmpty, caseSensitive, case
   labels), the handlers of the accepted keys and the checks after the loop.
   The functions are listed bottom-up (parse.go order is top-down). *)
From AL Require Import Base.Str Wf.YNode Wf.Mapping.
From Coq Require Import NArith.

Definition streq := String.eqb.
Definition str_in (s : string) (l : list string) : bool := existsb (String.eqb s) l.

(* open section whose entries are all handled alike (ids, names) *)
Definition open_section (name : string) (ae cs : bool) (f : kv -> list diag) : section unit :=
  Sec name ae cs [] (Some (pure_h f)).
(* section without state *)
Definition run_plain (s : section unit) (n : ynode) : list diag := run_section s tt (fun _ => []) n.

(* ---------------------------------------------------------------- on: *)

(* parseScheduleEvent: not a key switch; an item must have exactly the key cron.
   [parse_schedule_item_old] is the code before repo_patches/parse/01-fix-schedule-
   cron-sibling.patch: a foreign key made the parser skip the value of cron
   (ParseProofs.schedule_item_old_suppresses). *)
Definition schedule_item_flags := (false, true).   (* allowEmpty, caseSensitive *)
Definition raw_map_flags := (true, false).

Definition parse_schedule_item_old (c : ynode) : list diag :=
  let '(d, m) := parse_mapping c (fst schedule_item_flags) (snd schedule_item_flags) in
  d ++ match m with
       | [e] => if streq (kv_id e) "cron" then parse_string (kv_val e) false
                else [at_node DScheduleItem c]
       | _ => [at_node DScheduleItem c]
       end.

(* the last entry with id "cron" (ids are unique in the result of parseMapping) *)
Fixpoint find_cron (m : list kv) : option ynode :=
  match m with
  | [] => None
  | e :: r => match find_cron r with
              | Some v => Some v
              | None => if streq (kv_id e) "cron" then Some (kv_val e) else None
              end
  end.

Definition parse_schedule_item (c : ynode) : list diag :=
  let '(d, m) := parse_mapping c (fst schedule_item_flags) (snd schedule_item_flags) in
  let cron := find_cron m in
  d ++ (if negb (length m =? 1) || (match cron with None => true | Some _ => false end)
        then [at_node DScheduleItem c] else [])
    ++ match cron with Some v => parse_string v false | None => [] end.

Definition parse_schedule (n : ynode) : list diag :=
  let '(d, ok) := check_sequence n false in
  if ok then flat_map parse_schedule_item (ych n) else d.

Definition dispatch_input_types := ["string"; "number"; "boolean"; "choice"; "environment"].

Definition sec_dispatch_input : section unit :=
  Sec "inputs" true true
    [ ("description", pure_h (fun e => parse_string (kv_val e) true));
      ("required", pure_h (fun e => parse_bool (kv_val e)));
      ("default", pure_h (fun e => parse_string (kv_val e) true));
      ("type", pure_h (fun e =>
          let '(d, ok) := check_string (kv_val e) false in
          if ok then if str_in (yvalue (kv_val e)) dispatch_input_types then []
                     else [at_node (DOther 24) (kv_val e)]
          else d));
      ("options", pure_h (fun e => parse_string_sequence (kv_val e) false false)) ]
    None.

Definition sec_dispatch_inputs : section unit :=
  open_section "inputs" true false (fun i => run_plain sec_dispatch_input (kv_val i)).

Definition sec_workflow_dispatch : section unit :=
  Sec "workflow_dispatch" true true
    [ ("inputs", pure_h (fun e => run_plain sec_dispatch_inputs (kv_val e))) ]
    None.

Definition sec_repository_dispatch : section unit :=
  Sec "repository_dispatch" true true
    [ ("types", pure_h (fun e => parse_string_or_seq (kv_val e) false false)) ]
    None.

Definition h_filter : handler unit := pure_h (fun e => parse_string_or_seq (kv_val e) false false).

Definition sec_webhook : section unit :=
  Sec "<webhook event>" true true
    [ ("types", h_filter); ("branches", h_filter); ("branches-ignore", h_filter);
      ("tags", h_filter); ("tags-ignore", h_filter); ("paths", h_filter);
      ("paths-ignore", h_filter); ("workflows", h_filter) ]
    None.

(* workflow_call input: state = sawType *)
Definition sec_call_input : section bool :=
  Sec "inputs at workflow_call event" true true
    [ ("description", fun st e => (st, parse_string (kv_val e) true));
      ("required", fun st e => (st, parse_bool (kv_val e)));
      ("default", fun st e => (st, parse_string (kv_val e) true));
      ("type", fun st e =>
          (true, if str_in (yvalue (kv_val e)) ["boolean"; "number"; "string"] then []
                 else [at_node (DOther 25) (kv_val e)])) ]
    None.
Definition parse_call_input (name : kv) : list diag :=
  run_section sec_call_input false
    (fun saw => if saw then [] else [D (DMissing MInputType) (kv_pos name)]) (kv_val name).

Definition sec_call_secret : section unit :=
  Sec "secrets" true true
    [ ("description", pure_h (fun e => parse_string (kv_val e) true));
      ("required", pure_h (fun e => parse_bool (kv_val e))) ]
    None.

(* workflow_call output: state = (output.Value == nil) *)
Definition sec_call_output : section bool :=
  Sec "outputs at workflow_call event" true true
    [ ("description", fun st e => (st, parse_string (kv_val e) true));
      ("value", fun st e => (false, parse_string (kv_val e) false)) ]
    None.
Definition parse_call_output (name : kv) : list diag :=
  run_section sec_call_output true
    (fun value_nil => if value_nil then [D (DMissing MOutputValue) (kv_pos name)] else []) (kv_val name).

Definition sec_call_inputs : section unit := open_section "inputs" true false parse_call_input.
Definition sec_call_secrets : section unit :=
  open_section "secrets" true false (fun s => run_plain sec_call_secret (kv_val s)).
Definition sec_call_outputs : section unit := open_section "outputs" true false parse_call_output.

Definition sec_workflow_call : section unit :=
  Sec "workflow_call" true true
    [ ("inputs", pure_h (fun e => run_plain sec_call_inputs (kv_val e)));
      ("secrets", pure_h (fun e => run_plain sec_call_secrets (kv_val e)));
      ("outputs", pure_h (fun e => run_plain sec_call_outputs (kv_val e))) ]
    None.

(* mapping form of on: four special events, any other key is a webhook event *)
Definition sec_on : section unit :=
  Sec "on" false true
    [ ("schedule", pure_h (fun e => parse_schedule (kv_val e)));
      ("workflow_dispatch", pure_h (fun e => run_plain sec_workflow_dispatch (kv_val e)));
      ("repository_dispatch", pure_h (fun e => run_plain sec_repository_dispatch (kv_val e)));
      ("workflow_call", pure_h (fun e => run_plain sec_workflow_call (kv_val e))) ]
    (Some (pure_h (fun e => run_plain sec_webhook (kv_val e)))).

(* parseEvents(pos, n) *)
Definition parse_events (p : pos) (n : ynode) : list diag :=
  match ykindof n with
  | KScalar =>
      let v := yvalue n in
      if str_in v ["workflow_dispatch"; "repository_dispatch"; "workflow_call"] then []
      else if streq v "schedule" then [D (DOther 26) p]
      else parse_string n false
  | KMap => run_plain sec_on n
  | KSeq =>
      (match ych n with [] => [at_node DEmptySection n] | _ => [] end) ++
      flat_map (fun c => parse_string c false ++
                         (if str_in (string_value c false) ["schedule"; "repository_dispatch"]
                          then [at_node (DOther 27) c] else [])) (ych n)
  | _ => [at_node (DOther 28) n]
  end.
(* parseEvents returns nil (so that "on" counts as missing) only in its default branch *)
Definition events_nil (n : ynode) : bool :=
  match ykindof n with KScalar | KMap | KSeq => false | _ => true end.

(* ---------------------------------------------------------------- small sections *)

Definition sec_permissions : section unit :=
  open_section "permissions" true false (fun e => parse_string (kv_val e) false).
Definition parse_permissions (n : ynode) : list diag :=
  if is_scalar n then parse_string n false else run_plain sec_permissions n.

Definition sec_env : section unit := open_section "env" false false (fun e => parse_string (kv_val e) true).
Definition parse_env (n : ynode) : list diag :=
  if is_scalar n then parse_expression n else run_plain sec_env n.

Definition sec_defaults_run : section unit :=
  Sec "run" false true
    [ ("shell", pure_h (fun e => parse_string (kv_val e) false));
      ("working-directory", pure_h (fun e => parse_string (kv_val e) false)) ]
    None.

(* defaults: state = (ret.Run == nil) *)
Definition sec_defaults : section bool :=
  Sec "defaults" false true
    [ ("run", fun st e => (false, run_plain sec_defaults_run (kv_val e))) ]
    None.
Definition parse_defaults (n : ynode) : list diag :=
  run_section sec_defaults true
    (fun run_nil => if run_nil then [at_node (DMissing MDefaultsRun) n] else []) n.

(* concurrency: state = groupFound *)
Definition sec_concurrency : section bool :=
  Sec "concurrency" false true
    [ ("group", fun st e => (true, parse_string (kv_val e) false));
      ("cancel-in-progress", fun st e => (st, parse_bool (kv_val e))) ]
    None.
Definition parse_concurrency (p : pos) (n : ynode) : list diag :=
  if is_scalar n then parse_string n false
  else run_section sec_concurrency false
         (fun found => if found then [] else [D (DMissing MGroup) p]) n.

(* environment: state = nameFound *)
Definition sec_environment : section bool :=
  Sec "environment" false true
    [ ("name", fun st e => (true, parse_string (kv_val e) false));
      ("url", fun st e => (st, parse_string (kv_val e) false)) ]
    None.
Definition parse_environment (p : pos) (n : ynode) : list diag :=
  if is_scalar n then parse_string n false
  else run_section sec_environment false
         (fun found => if found then [] else [D (DMissing MEnvName) p]) n.

(* job outputs: state = len(ret) == 0 *)
Definition sec_outputs : section bool :=
  Sec "outputs" false false [] (Some (fun _ e => (false, parse_string (kv_val e) true))).
Definition parse_outputs (n : ynode) : list diag :=
  run_section sec_outputs true
    (fun empty => if empty then [at_node DEmptySection n] else []) n.

(* ---------------------------------------------------------------- strategy / matrix *)

(* parseRawYAMLValue.  The nested mapping is parsed by parseMapping("matrix row
   value", n, true, false); the values of the kept entries are visited
   recursively.  [kept] lists, per pair, whether parseMapping kept it. *)
Definition kept_flags (cs : bool) (ps : list (ynode * ynode)) : list bool :=
  (fix go ps seen :=
     match ps with
     | [] => []
     | (k, _) :: r =>
         let id := key_id cs k in
         match assoc_pos id seen with
         | Some _ => false :: go r seen
         | None => true :: go r ((id, ypos k) :: seen)
         end
     end) ps [].

Fixpoint raw_value (n : ynode) : list diag :=
  match n with
  | Y KScalar _ _ _ _ _ => []
  | Y KSeq _ _ _ _ ch =>
      (fix go (l : list ynode) : list diag :=
         match l with [] => [] | c :: l' => raw_value c ++ go l' end) ch
  | Y KMap _ _ _ _ ch =>
      fst (parse_mapping n (fst raw_map_flags) (snd raw_map_flags)) ++
      (fix go (l : list ynode) (fl : list bool) : list diag :=
         match l with
         | _ :: l1 =>
             match l1 with
             | v :: l' =>
                 match fl with
                 | f :: fl' => (if f then raw_value v else []) ++ go l' fl'
                 | [] => []
                 end
             | [] => []
             end
         | [] => []
         end) ch (kept_flags (snd raw_map_flags) (pairs ch))
  | Y _ _ _ _ _ _ => [at_node (DOther 29) n]
  end.

Definition sec_combination : section unit :=
  open_section "element in include/exclude section" false false (fun e => raw_value (kv_val e)).

Definition parse_matrix_combinations (n : ynode) : list diag :=
  if is_scalar n then parse_expression n
  else
    let '(d, ok) := check_sequence n false in
    if ok then
      flat_map (fun c =>
        if is_scalar c then parse_expression c
        else run_plain sec_combination c) (ych n)
    else d.

Definition parse_matrix_row (e : kv) : list diag :=
  let v := kv_val e in
  if is_scalar v then parse_expression v
  else
    let '(d, ok) := check_sequence v false in
    if ok then flat_map raw_value (ych v) else d.

Definition sec_matrix : section unit :=
  Sec "matrix" false false
    [ ("include", pure_h (fun e => parse_matrix_combinations (kv_val e)));
      ("exclude", pure_h (fun e => parse_matrix_combinations (kv_val e))) ]
    (Some (pure_h parse_matrix_row)).
Definition parse_matrix (n : ynode) : list diag :=
  if is_scalar n then parse_expression n else run_plain sec_matrix n.

Definition sec_strategy : section unit :=
  Sec "strategy" false true
    [ ("matrix", pure_h (fun e => parse_matrix (kv_val e)));
      ("fail-fast", pure_h (fun e => parse_bool (kv_val e)));
      ("max-parallel", pure_h (fun e => parse_int (kv_val e))) ]
    None.
Definition parse_strategy (n : ynode) : list diag := run_plain sec_strategy n.

(* ---------------------------------------------------------------- container / services *)

(* credentials: state = (Username == nil, Password == nil) *)
Definition sec_credentials : section (bool * bool) :=
  Sec "credentials" false true
    [ ("username", fun st e => ((false, snd st), parse_string (kv_val e) false));
      ("password", fun st e => ((fst st, false), parse_string (kv_val e) false)) ]
    None.
Definition parse_credentials (key : kv) : list diag :=
  run_section sec_credentials (true, true)
    (fun st => if fst st || snd st then [D (DMissing MCredentials) (kv_pos key)] else []) (kv_val key).

Definition sec_container (name : string) : section unit :=
  Sec name false true
    [ ("image", pure_h (fun e => parse_string (kv_val e) false));
      ("credentials", pure_h parse_credentials);
      ("env", pure_h (fun e => parse_env (kv_val e)));
      ("ports", pure_h (fun e => parse_string_sequence (kv_val e) true false));
      ("volumes", pure_h (fun e => parse_string_sequence (kv_val e) true false));
      ("options", pure_h (fun e => parse_string (kv_val e) true)) ]
    None.
Definition parse_container (name : string) (n : ynode) : list diag :=
  if is_scalar n then parse_string n false else run_plain (sec_container name) n.

Definition sec_services : section unit :=
  open_section "services" false false (fun e => parse_container "services" (kv_val e)).
Definition parse_services (n : ynode) : list diag :=
  if may_parse_expression n then [] else run_plain sec_services n.

(* ---------------------------------------------------------------- steps *)

Inductive exec_kind := ExNone | ExAction | ExRun.
Record step_st := StepSt {
  ss_exec : exec_kind;            (* dynamic type of ret.Exec *)
  ss_uses_nil : bool;             (* ExecAction.Uses == nil *)
  ss_run_nil : bool;              (* ExecRun.Run == nil *)
  ss_workdir : option pos }.      (* workDir *)

Definition sec_with_step : section unit :=
  Sec "with" false false
    [ ("entrypoint", pure_h (fun e => parse_string (kv_val e) false));
      ("args", pure_h (fun e => parse_string (kv_val e) true)) ]
    (Some (pure_h (fun e => parse_string (kv_val e) true))).

Definition h_step_action (is_uses : bool) : handler step_st := fun st e =>
  match ss_exec st with
  | ExRun => (st, [D (DOther 31) (kv_pos e)])
  | _ =>
      if is_uses
      then (StepSt ExAction false (ss_run_nil st) (ss_workdir st), parse_string (kv_val e) false)
      else (StepSt ExAction (ss_uses_nil st) (ss_run_nil st) (ss_workdir st),
            run_plain sec_with_step (kv_val e))
  end.

Definition h_step_run (is_run : bool) : handler step_st := fun st e =>
  match ss_exec st with
  | ExAction => (st, [D (DOther 32) (kv_pos e)])
  | _ =>
      (StepSt ExRun (ss_uses_nil st) (if is_run then false else ss_run_nil st) (ss_workdir st),
       parse_string (kv_val e) false)
  end.

Definition step_h (f : kv -> list diag) : handler step_st := fun st e => (st, f e).

Definition sec_step : section step_st :=
  Sec "step" false true
    [ ("id", step_h (fun e => parse_string (kv_val e) false));
      ("if", step_h (fun e => parse_string (kv_val e) false));
      ("name", step_h (fun e => parse_string (kv_val e) true));
      ("env", step_h (fun e => parse_env (kv_val e)));
      ("continue-on-error", step_h (fun e => parse_bool (kv_val e)));
      ("timeout-minutes", step_h (fun e => parse_float (kv_val e)));
      ("uses", h_step_action true);
      ("with", h_step_action false);
      ("run", h_step_run true);
      ("shell", h_step_run false);
      ("working-directory", fun st e =>
         (StepSt (ss_exec st) (ss_uses_nil st) (ss_run_nil st) (Some (ypos (kv_val e))),
          parse_string (kv_val e) false)) ]
    None.

Definition step_post (n : ynode) (st : step_st) : list diag :=
  match ss_exec st with
  | ExAction =>
      (if ss_uses_nil st then [at_node (DMissing MStepUses) n] else []) ++
      (match ss_workdir st with Some p => [D (DOther 33) p] | None => [] end)
  | ExRun => if ss_run_nil st then [at_node (DMissing MStepRun) n] else []
  | ExNone => [at_node (DMissing MStepExec) n]
  end.

Definition parse_step (n : ynode) : list diag :=
  run_section sec_step (StepSt ExNone true true None) (step_post n) n.

(* parseSteps; the boolean says whether the result is nil *)
Definition parse_steps (n : ynode) : list diag * bool :=
  let '(d, ok) := check_sequence n false in
  if ok then (flat_map parse_step (ych n), false) else (d, true).

(* ---------------------------------------------------------------- runs-on *)

Definition sec_runs_on : section unit :=
  Sec "runs-on" false true
    [ ("labels", pure_h (fun e => if may_parse_expression (kv_val e) then []
                                  else parse_string_or_seq (kv_val e) false false));
      ("group", pure_h (fun e => parse_string (kv_val e) false)) ]
    None.
Definition parse_runs_on (n : ynode) : list diag :=
  if may_parse_expression n then []
  else if is_scalar n || is_seq n then parse_string_or_seq n false false
  else run_plain sec_runs_on n.

(* ---------------------------------------------------------------- job *)

Record job_st := JobSt {
  js_steps_nil : bool;              (* ret.Steps == nil *)
  js_runs_on_nil : bool;            (* ret.RunsOn == nil *)
  js_uses_nil : bool;               (* call.Uses == nil *)
  js_steps_only : option pos;       (* stepsOnlyKey *)
  js_call_only : option pos }.      (* callOnlyKey *)

Definition job_h (f : kv -> list diag) : handler job_st := fun st e => (st, f e).
(* a key that also sets stepsOnlyKey *)
Definition job_h_so (f : kv -> list diag) : handler job_st := fun st e =>
  (JobSt (js_steps_nil st) (js_runs_on_nil st) (js_uses_nil st) (Some (kv_pos e)) (js_call_only st), f e).
Definition job_h_co (f : kv -> list diag) : handler job_st := fun st e =>
  (JobSt (js_steps_nil st) (js_runs_on_nil st) (js_uses_nil st) (js_steps_only st) (Some (kv_pos e)), f e).

Definition parse_needs (v : ynode) : list diag :=
  if is_scalar v then parse_string v false else parse_string_sequence v false false.

Definition sec_job_secrets : section unit :=
  open_section "secrets" false false (fun e => parse_string (kv_val e) true).
Definition parse_job_secrets (v : ynode) : list diag :=
  if is_scalar v then if streq (yvalue v) "inherit" then [] else [at_node (DOther 34) v]
  else run_plain sec_job_secrets v.
Definition sec_job_with : section unit :=
  open_section "with" false false (fun i => parse_string (kv_val i) true).

Definition sec_job : section job_st :=
  Sec "job" false true
    [ ("name", job_h (fun e => parse_string (kv_val e) true));
      ("needs", job_h (fun e => parse_needs (kv_val e)));
      ("runs-on", fun st e =>
         (JobSt (js_steps_nil st) false (js_uses_nil st) (Some (kv_pos e)) (js_call_only st),
          parse_runs_on (kv_val e)));
      ("permissions", job_h (fun e => parse_permissions (kv_val e)));
      ("environment", job_h_so (fun e => parse_environment (kv_pos e) (kv_val e)));
      ("concurrency", job_h (fun e => parse_concurrency (kv_pos e) (kv_val e)));
      ("outputs", job_h_so (fun e => parse_outputs (kv_val e)));
      ("env", job_h_so (fun e => parse_env (kv_val e)));
      ("defaults", job_h_so (fun e => parse_defaults (kv_val e)));
      ("if", job_h (fun e => parse_string (kv_val e) false));
      ("steps", fun st e =>
         let '(d, isnil) := parse_steps (kv_val e) in
         (JobSt isnil (js_runs_on_nil st) (js_uses_nil st) (Some (kv_pos e)) (js_call_only st), d));
      ("timeout-minutes", job_h_so (fun e => parse_float (kv_val e)));
      ("strategy", job_h (fun e => parse_strategy (kv_val e)));
      ("continue-on-error", job_h_so (fun e => parse_bool (kv_val e)));
      ("container", job_h_so (fun e => parse_container "container" (kv_val e)));
      ("services", job_h (fun e => parse_services (kv_val e)));
      ("uses", fun st e =>
         (JobSt (js_steps_nil st) (js_runs_on_nil st) false (js_steps_only st) (Some (kv_pos e)),
          parse_string (kv_val e) false));
      ("with", job_h_co (fun e => run_plain sec_job_with (kv_val e)));
      ("secrets", job_h_co (fun e => parse_job_secrets (kv_val e))) ]
    None.

Definition job_post (id : pos) (st : job_st) : list diag :=
  if negb (js_uses_nil st) then
    match js_steps_only st with Some p => [D (DOther 35) p] | None => [] end
  else
    (if js_steps_nil st then [D (DMissing MSteps) id] else []) ++
    (if js_runs_on_nil st then [D (DMissing MRunsOn) id] else []) ++
    (match js_call_only st with Some p => [D (DOther 36) p] | None => [] end).

Definition parse_job (id : kv) : list diag :=
  run_section sec_job (JobSt true true true None None) (job_post (kv_pos id)) (kv_val id).

Definition sec_jobs : section unit := open_section "jobs" false false parse_job.
Definition parse_jobs (n : ynode) : list diag := run_plain sec_jobs n.

(* ---------------------------------------------------------------- workflow *)

(* state = (w.On == nil, w.Jobs == nil) *)
Definition sec_workflow : section (bool * bool) :=
  Sec "workflow" false true
    [ ("name", fun st e => (st, parse_string (kv_val e) true));
      ("on", fun st e => ((events_nil (kv_val e), snd st), parse_events (kv_pos e) (kv_val e)));
      ("permissions", fun st e => (st, parse_permissions (kv_val e)));
      ("env", fun st e => (st, parse_env (kv_val e)));
      ("defaults", fun st e => (st, parse_defaults (kv_val e)));
      ("concurrency", fun st e => (st, parse_concurrency (kv_pos e) (kv_val e)));
      ("jobs", fun st e => ((fst st, false), parse_jobs (kv_val e)));
      ("run-name", fun st e => (st, parse_string (kv_val e) false)) ]
    None.

Definition workflow_post (doc : ynode) (st : bool * bool) : list diag :=
  (if fst st then [at_node (DMissing MOn) doc] else []) ++
  (if snd st then [at_node (DMissing MJobs) doc] else []).

(* parser.parse(n): n is the document node; line/column 0 become 1 *)
Definition fix_doc_pos (n : ynode) : ynode :=
  let 'Y k t v l c ch := n in
  Y k t v (if N.eqb l 0 then 1%N else l) (if N.eqb c 0 then 1%N else c) ch.

Definition parse_workflow (doc0 : ynode) : list diag :=
  let doc := fix_doc_pos doc0 in
  match ych doc with
  | [] => [at_node (DOther 30) doc]
  | root :: _ => run_section sec_workflow (true, true) (workflow_post doc) root
  end.

(* ---------------------------------------------------------------- tables for the ties *)

(* one entry per key switch of parse.go, in source order (cf. Gen/GenParseKeys.v) *)
Record sec_info := SI {
  si_fn : string; si_name : string; si_keys : list string; si_closed : bool;
  si_allow_empty : bool; si_cs : bool }.

Definition info {St} (fn : string) (s : section St) : sec_info :=
  SI fn (sc_name s) (sec_keys s) (sec_closed s) (sc_allow_empty s) (sc_cs s).

Definition model_sites : list sec_info :=
  [ info "parseWorkflowDispatchEvent" sec_workflow_dispatch;
    info "parseWorkflowDispatchEvent" sec_dispatch_input;
    info "parseRepositoryDispatchEvent" sec_repository_dispatch;
    info "parseWebhookEvent" sec_webhook;
    info "parseWorkflowCallEvent" sec_workflow_call;
    info "parseWorkflowCallEvent" sec_call_input;
    info "parseWorkflowCallEvent" sec_call_secret;
    info "parseWorkflowCallEvent" sec_call_output;
    info "parseEvents" sec_on;
    info "parseDefaults" sec_defaults;
    info "parseDefaults" sec_defaults_run;
    info "parseConcurrency" sec_concurrency;
    info "parseEnvironment" sec_environment;
    info "parseMatrix" sec_matrix;
    info "parseStrategy" sec_strategy;
    info "parseContainer" (sec_container "container");
    info "parseContainer" sec_credentials;
    info "parseStep" sec_step;
    info "parseStep" sec_with_step;
    info "parseRunsOn" sec_runs_on;
    info "parseJob" sec_job;
    info "parse" sec_workflow ].

(* one entry per parseMapping / parseSectionMapping call of parse.go, in source
   order, except the generic wrapper parseSectionMapping itself:
   (function, allowEmpty, caseSensitive) *)
Definition flags {St} (fn : string) (s : section St) := (fn, sc_allow_empty s, sc_cs s).
Definition model_mappings : list (string * bool * bool) :=
  [ ("parseScheduleEvent", fst schedule_item_flags, snd schedule_item_flags);
    flags "parseWorkflowDispatchEvent" sec_workflow_dispatch;
    flags "parseWorkflowDispatchEvent" sec_dispatch_inputs;
    flags "parseWorkflowDispatchEvent" sec_dispatch_input;
    flags "parseRepositoryDispatchEvent" sec_repository_dispatch;
    flags "parseWebhookEvent" sec_webhook;
    flags "parseWorkflowCallEvent" sec_workflow_call;
    flags "parseWorkflowCallEvent" sec_call_inputs;
    flags "parseWorkflowCallEvent" sec_call_input;
    flags "parseWorkflowCallEvent" sec_call_secrets;
    flags "parseWorkflowCallEvent" sec_call_secret;
    flags "parseWorkflowCallEvent" sec_call_outputs;
    flags "parseWorkflowCallEvent" sec_call_output;
    flags "parseEvents" sec_on;
    flags "parsePermissions" sec_permissions;
    flags "parseEnv" sec_env;
    flags "parseDefaults" sec_defaults;
    flags "parseDefaults" sec_defaults_run;
    flags "parseConcurrency" sec_concurrency;
    flags "parseEnvironment" sec_environment;
    flags "parseOutputs" sec_outputs;
    ("parseRawYAMLValue", fst raw_map_flags, snd raw_map_flags);
    flags "parseMatrixCombinations" sec_combination;
    flags "parseMatrix" sec_matrix;
    flags "parseStrategy" sec_strategy;
    flags "parseContainer" (sec_container "container");
    flags "parseContainer" sec_credentials;
    flags "parseServices" sec_services;
    flags "parseStep" sec_step;
    flags "parseStep" sec_with_step;
    flags "parseRunsOn" sec_runs_on;
    flags "parseJob" sec_job;
    flags "parseJob" sec_job_with;
    flags "parseJob" sec_job_secrets;
    flags "parseJobs" sec_jobs;
    flags "parse" sec_workflow ].

(* ---------------------------------------------------------------- observable for K *)

From AL Require Import Base.Corr.

Definition mkey_code (m : mkey) : N :=
  match m with
  | MOn => 40 | MJobs => 41 | MRunsOn => 42 | MSteps => 43 | MStepExec => 44 | MStepUses => 45
  | MStepRun => 46 | MInputType => 47 | MOutputValue => 48 | MGroup => 49 | MEnvName => 50
  | MCredentials => 51 | MDefaultsRun => 52
  end%N.

Definition diag_tuple (d : diag) : tuple :=
  let '(l, c) := d_pos d in
  match d_class d with
  | DUnexpected _ => [1; l; c]
  | DDuplicate _ (pl, pc) => [2; l; c; pl; pc]
  | DNotMapping => [3; l; c]
  | DEmptyMapping => [4; l; c]
  | DNotScalar => [5; l; c]
  | DEmptyString => [6; l; c]
  | DNotSequence => [7; l; c]
  | DEmptySection => [8; l; c]
  | DScheduleItem => [9; l; c]
  | DMissing m => [mkey_code m; l; c]
  | DOther k => [k; l; c]
  end%N.

Definition run_c13 (doc : ynode) : list tuple := map diag_tuple (parse_workflow doc).
