(* Wf/RoutingCovers.v — component lemmas for Wf/RoutingProofs.v: every scalar the AST holds at a value position is
   handed to an expression checker by the traversal of RuleExpression, or is
   exempt (property C03); proved by structural induction over the whole AST
   model: all events, all jobs, all steps, all map entries, matrix values of
   any nesting depth. *)
From AL Require Import Base.Str Wf.WfAst Wf.Routing.
From Coq Require Import NArith.

(* ------------------------------------------------------------------ *)
(* routed_scalars through the combinators                              *)

Lemma routed_at s cs : routed_scalars (at_ s cs) = routed_scalars cs.
Proof. unfold routed_scalars, at_. rewrite map_map. reflexivity. Qed.

Lemma routed_app a b : routed_scalars (a ++ b) = routed_scalars a ++ routed_scalars b.
Proof. apply map_app. Qed.

Lemma routed_flat_map {A} (f : A -> list call) l :
  routed_scalars (flat_map f l) = flat_map (fun x => routed_scalars (f x)) l.
Proof. induction l as [|x l IH]; cbn; [reflexivity|]. now rewrite routed_app, IH. Qed.

Lemma flat_map_ext_in {A B} (f g : A -> list B) l :
  (forall x, In x l -> f x = g x) -> flat_map f l = flat_map g l.
Proof.
  induction l as [|x l IH]; cbn; intros H; [reflexivity|].
  rewrite H by now left. f_equal. apply IH. intros; apply H; now right.
Qed.

(* the leaf checkers hand over exactly the String they are given *)
Lemma routed_check_string key f o : routed_scalars (check_string key f o) = of_ostr f o.
Proof. destruct o; reflexivity. Qed.
Lemma routed_check_script_string key f o : routed_scalars (check_script_string key f o) = of_ostr f o.
Proof. destruct o; reflexivity. Qed.
Lemma routed_check_strings key f l : routed_scalars (check_strings key f l) = of_strs f l.
Proof.
  unfold check_strings, of_strs. rewrite routed_flat_map.
  induction l as [|x l IH]; cbn [flat_map map]; [reflexivity|]. rewrite IH, routed_at. reflexivity.
Qed.
Lemma routed_check_one_as ck key f o : routed_scalars (check_one_expression_as ck key f o) = of_ostr f o.
Proof. destruct o; reflexivity. Qed.
Lemma routed_check_one key f o : routed_scalars (check_one_expression key f o) = of_ostr f o.
Proof. apply routed_check_one_as. Qed.
Lemma routed_check_object key f o : routed_scalars (check_object_expression key f o) = of_ostr f o.
Proof. unfold check_object_expression. now rewrite routed_at, routed_check_one_as. Qed.
Lemma routed_check_array key f o : routed_scalars (check_array_expression key f o) = of_ostr f o.
Proof. unfold check_array_expression. now rewrite routed_at, routed_check_one_as. Qed.
Lemma routed_check_number key f o : routed_scalars (check_number_expression key f o) = of_ostr f o.
Proof. unfold check_number_expression. now rewrite routed_at, routed_check_one_as. Qed.
Lemma routed_check_bool key f o : routed_scalars (check_bool key f o) = of_bool f o.
Proof. destruct o as [[[e|] p]|]; reflexivity. Qed.
Lemma routed_check_int key f o : routed_scalars (check_int key f o) = of_int f o.
Proof. destruct o as [[[e|] p]|]; reflexivity. Qed.
Lemma routed_check_float key f o : routed_scalars (check_float key f o) = of_float f o.
Proof. destruct o as [[[e|] p]|]; reflexivity. Qed.
Lemma routed_check_if key f o : routed_scalars (check_if_condition key f o) = of_ostr f o.
Proof. destruct o as [s|]; [|reflexivity]. unfold check_if_condition. destruct (contains_expr (sval s)); reflexivity. Qed.
Lemma routed_check_filter o : routed_scalars (check_webhook_event_filter o) = of_opt filter_scalars o.
Proof. destruct o as [f|]; [|reflexivity]. cbn [check_webhook_event_filter of_opt]. now rewrite routed_at, routed_check_strings. Qed.
Lemma routed_check_concurrency key o : routed_scalars (check_concurrency key o) = of_opt concurrency_scalars o.
Proof.
  destruct o as [c|]; [|reflexivity]. cbn [check_concurrency of_opt]. unfold concurrency_scalars.
  now rewrite routed_app, !routed_at, routed_check_string, routed_check_bool.
Qed.
Lemma routed_check_defaults key o : routed_scalars (check_defaults key o) = of_opt defaults_scalars o.
Proof.
  destruct o as [[[r|]]|]; try reflexivity. cbn [check_defaults of_opt df_run]. unfold defaults_scalars. cbn [df_run of_opt].
  now rewrite routed_app, !routed_at, !routed_check_string.
Qed.

Global Hint Rewrite routed_at routed_app @routed_flat_map routed_check_string routed_check_script_string
  routed_check_strings routed_check_one routed_check_object routed_check_array routed_check_number
  routed_check_bool routed_check_int routed_check_float routed_check_if routed_check_filter
  routed_check_concurrency routed_check_defaults : routed.

(* ------------------------------------------------------------------ *)
(* covers A B: every scalar of A is in B or exempt — for a step id (the only
   guarded call site: `if n.ID.ContainsExpression()`) provided it contains a
   placeholder *)

Definition has_placeholder (s : scalar) : Prop :=
  sc_field s = "Step.ID" -> contains_expr (sval (sc_str s)) = true.

Definition covers (A B : list scalar) : Prop :=
  forall s, In s A -> has_placeholder s -> In s B \/ exempt s.

Lemma covers_nil B : covers [] B.
Proof. intros s []. Qed.
Lemma covers_refl A : covers A A.
Proof. intros s H _. now left. Qed.
Lemma covers_app_l A1 A2 B : covers A1 B -> covers A2 B -> covers (A1 ++ A2) B.
Proof. intros H1 H2 s Hin Hp. apply in_app_or in Hin. destruct Hin; [now apply H1 | now apply H2]. Qed.
Lemma covers_incl_r A B B' : covers A B -> incl B B' -> covers A B'.
Proof. intros H Hi s Hin Hp. destruct (H s Hin Hp) as [H1|H1]; [left; now apply Hi | now right]. Qed.
Lemma covers_flat_map {X} (f g : X -> list scalar) l :
  (forall x, In x l -> covers (f x) (g x)) -> covers (flat_map f l) (flat_map g l).
Proof.
  intros H s Hin Hp. apply in_flat_map in Hin. destruct Hin as [x [Hx Hs]].
  destruct (H x Hx s Hs Hp) as [H1|H1]; [left; apply in_flat_map; eauto | now right].
Qed.
Lemma covers_opt {X} (f : X -> list scalar) (g : option X -> list scalar) o :
  (forall x, o = Some x -> covers (f x) (g (Some x))) -> covers (of_opt f o) (g o).
Proof. destruct o as [x|]; cbn; intros H; [now apply H | apply covers_nil]. Qed.
Lemma covers_exempt A B : (forall s, In s A -> exempt s) -> covers A B.
Proof. intros H s Hin _. right. now apply H. Qed.

Lemma covers_r_l A B1 B2 : covers A B1 -> covers A (B1 ++ B2).
Proof. intros H. eapply covers_incl_r; [exact H | apply incl_appl, incl_refl]. Qed.
Lemma covers_r_r A B1 B2 : covers A B2 -> covers A (B1 ++ B2).
Proof. intros H. eapply covers_incl_r; [exact H | apply incl_appr, incl_refl]. Qed.

(* covers (A1 ++ ... ++ An) B  from per-component facts *)
Ltac split_covers := repeat (apply covers_app_l); try apply covers_nil.
(* find the component of B = B1 ++ (B2 ++ ...) at which tactic t proves the goal *)
Ltac covers_search t :=
  first [ solve [t]
        | lazymatch goal with
          | |- covers _ (_ ++ _) => first [ apply covers_r_l; covers_search t | apply covers_r_r; covers_search t ]
          end ].
Ltac refl_syn := lazymatch goal with |- covers ?a ?b => constr_eq a b; apply covers_refl end.
Ltac by_refl := covers_search ltac:(idtac; refl_syn).

Lemma forallb_In {A} (p : A -> bool) l x : forallb p l = true -> In x l -> p x = true.
Proof. intros H Hin. rewrite forallb_forall in H. now apply H. Qed.

(* ------------------------------------------------------------------ *)
(* matrix values: any nesting depth                                    *)

Section RawInd.
Variable P : raw -> Prop.
Hypothesis Hs : forall s p, P (RawStr s p).
Hypothesis Ha : forall es p, Forall P es -> P (RawArr es p).
Hypothesis Ho : forall ps p, Forall (fun kv => P (snd kv)) ps -> P (RawObj ps p).
Fixpoint raw_ind' (v : raw) : P v :=
  match v with
  | RawStr s p => Hs s p
  | RawArr es p => Ha es p ((fix go l : Forall P l := match l with [] => Forall_nil _ | x :: r => Forall_cons _ (raw_ind' x) (go r) end) es)
  | RawObj ps p => Ho ps p ((fix go l : Forall (fun kv => P (snd kv)) l :=
                               match l with [] => Forall_nil _ | x :: r => Forall_cons _ (raw_ind' (snd x)) (go r) end) ps)
  end.
End RawInd.

Lemma routed_check_raw f v : routed_scalars (check_raw_yaml_value f v) = of_raw f v.
Proof.
  induction v as [s p | es p IH | ps p IH] using raw_ind'.
  - reflexivity.
  - unfold of_raw. cbn [check_raw_yaml_value raw_strs]. destruct es as [|e0 rest]; [reflexivity|].
    inversion IH as [|? ? H0 Hr]; subst.
    rewrite routed_app, routed_at, H0, routed_flat_map. cbn [flat_map]. unfold of_strs. rewrite map_app. f_equal.
    clear H0 IH. induction rest as [|e r IHr]; cbn; [reflexivity|].
    inversion Hr as [|? ? He Hr']; subst. rewrite routed_at, He, map_app. unfold of_raw, of_strs. f_equal. now apply IHr.
  - unfold of_raw. cbn [check_raw_yaml_value raw_strs]. rewrite routed_flat_map. unfold of_strs.
    induction ps as [|kv r IHr]; cbn; [reflexivity|].
    inversion IH as [|? ? Hk Hr]; subst. rewrite routed_at, Hk, map_app. unfold of_raw, of_strs. f_equal. now apply IHr.
Qed.
Global Hint Rewrite routed_check_raw : routed.

(* ------------------------------------------------------------------ *)
(* components whose traversal branches on nil-ness: covered under the
   parser invariants                                                    *)

Lemma env_covers key e : ok_env e = true -> covers (env_scalars e) (routed_scalars (check_env key (Some e))).
Proof.
  unfold ok_env, env_scalars, check_env. destruct e as [[vars|] ex]; cbn [en_vars en_expr is_none orb of_opt].
  - destruct ex; [discriminate|]. intros _. cbn [of_ostr]. rewrite app_nil_r, routed_flat_map.
    apply covers_flat_map. intros [k v] _. cbn [snd]. autorewrite with routed. by_refl.
  - intros _. cbn [app]. autorewrite with routed. apply covers_refl.
Qed.

Lemma oenv_covers key o : opt_all ok_env o = true -> covers (of_opt env_scalars o) (routed_scalars (check_env key o)).
Proof. destruct o as [e|]; cbn [opt_all of_opt]; [apply env_covers | intros; apply covers_nil]. Qed.

Lemma container_covers key pre c :
  ok_container c = true -> covers (container_scalars c) (routed_scalars (check_container key pre (Some c))).
Proof.
  unfold ok_container, container_scalars, check_container. intros Hok.
  destruct c as [img cred en ports vols opts]; cbn [ct_image ct_credentials ct_env ct_ports ct_volumes ct_options] in *.
  autorewrite with routed. split_covers; try by_refl.
  - destruct cred as [[u p]|]; cbn [of_opt]; [|apply covers_nil]. autorewrite with routed.
    cbn [cr_username cr_password]. by_refl.
  - covers_search ltac:(apply oenv_covers, Hok).
Qed.

Lemma ocontainer_covers key pre o :
  opt_all ok_container o = true -> covers (of_opt container_scalars o) (routed_scalars (check_container key pre o)).
Proof. destruct o as [c|]; cbn [opt_all of_opt]; [apply container_covers | intros; apply covers_nil]. Qed.

Lemma permissions_exempt p s : In s (permissions_scalars p) -> exempt s.
Proof.
  unfold permissions_scalars, of_map. intros H. apply in_app_or in H. destruct H as [H|H].
  - destruct (pm_all p); cbn in H; [|contradiction]. destruct H as [<-|[]]. reflexivity.
  - apply in_flat_map in H. destruct H as [kv [_ H]]. destruct (ps_value (snd kv)); cbn in H; [|contradiction].
    destruct H as [<-|[]]. reflexivity.
Qed.

Lemma runner_covers r :
  ok_runner r = true ->
  covers (runner_scalars r)
    (routed_scalars
       ((match rn_labels_expr r with
         | Some e => at_ ("VisitJobPre", "checkOneExpression", "n.RunsOn.LabelsExpr")
                         (check_one_expression "jobs.<job_id>.runs-on" "Runner.LabelsExpr" (Some e))
         | None => flat_map (fun l => at_ ("VisitJobPre", "checkString", "l") (check_string "jobs.<job_id>.runs-on" "Runner.Labels" (Some l))) (rn_labels r)
         end)
        ++ at_ ("VisitJobPre", "checkString", "n.RunsOn.Group") (check_string "jobs.<job_id>.runs-on" "Runner.Group" (rn_group r)))).
Proof.
  unfold ok_runner, runner_scalars. destruct r as [labels [e|] grp]; cbn [rn_labels rn_labels_expr rn_group is_none orb].
  - destruct labels; [|discriminate]. intros _. autorewrite with routed. cbn [of_strs map app]. apply covers_refl.
  - intros _. autorewrite with routed. cbn [of_ostr app].
    replace (flat_map _ labels) with (of_strs "Runner.Labels" labels); [apply covers_refl|].
    unfold of_strs. induction labels as [|l r IH]; cbn; [reflexivity|]. now rewrite IH.
Qed.

Lemma assigns_routed site (assigns : list (string * matrix_assign)) :
  routed_scalars (flat_map (fun ka => at_ site (check_raw_yaml_value "MatrixAssign.Value" (ma_value (snd ka)))) assigns)
  = of_map (fun a => of_raw "MatrixAssign.Value" (ma_value a)) assigns.
Proof.
  unfold of_map. rewrite routed_flat_map. apply flat_map_ext_in. intros x _. now autorewrite with routed.
Qed.

Lemma row_covers r : ok_row r = true ->
  covers (flat_map (of_raw "MatrixRow.Values") (mr_values r) ++ of_ostr "MatrixRow.Expression" (mr_expr r))
         (routed_scalars (check_matrix_row r)).
Proof.
  unfold ok_row, check_matrix_row. destruct r as [nm vals [e|]]; cbn [mr_values mr_expr is_none orb].
  - destruct vals; [|discriminate]. intros _. autorewrite with routed. apply covers_refl.
  - intros _. cbn [of_ostr]. rewrite app_nil_r, routed_flat_map.
    apply covers_flat_map. intros v _. autorewrite with routed. apply covers_refl.
Qed.

(* exclude: object expression per element / raw values *)
Lemma exclude_covers ex : ok_combinations ex = true ->
  covers (combinations_scalars ex)
    (routed_scalars
       (match mcs_expr ex with
        | Some e => at_ ("checkMatrix", "checkArrayExpression", "m.Exclude.Expression")
                        (check_array_expression strategy_key "MatrixCombinations.Expression" (Some e))
        | None =>
            flat_map (fun c =>
              match mc_expr c with
              | Some e => at_ ("checkMatrix", "checkObjectExpression", "combi.Expression")
                              (check_object_expression strategy_key "MatrixCombination.Expression" (Some e))
              | None => flat_map (fun ka => at_ ("checkMatrix", "checkRawYAMLValue", "a.Value")
                                                (check_raw_yaml_value "MatrixAssign.Value" (ma_value (snd ka)))) (mc_assigns c)
              end) (mcs_combinations ex)
        end)).
Proof.
  unfold ok_combinations, combinations_scalars. destruct ex as [combos [e|]]; cbn [mcs_combinations mcs_expr is_none orb].
  - destruct combos; [|discriminate]. intros _. autorewrite with routed. cbn [flat_map of_ostr app]. apply covers_refl.
  - cbn [andb]. intros Hok. cbn [of_ostr app]. rewrite routed_flat_map. apply covers_flat_map. intros c Hc.
    pose proof (forallb_In _ _ _ Hok Hc) as Hc'. unfold ok_combination in Hc'.
    destruct c as [assigns [e|]]; cbn [mc_assigns mc_expr is_none orb] in *.
    + destruct assigns; [|discriminate]. autorewrite with routed. cbn. apply covers_refl.
    + rewrite assigns_routed. cbn [of_ostr app]. apply covers_refl.
Qed.

Section Fixed.
(* from here on: the traversal of the repaired code *)
Notation fx := fixed (only parsing).

Lemma include_covers inc : ok_combinations inc = true ->
  covers (combinations_scalars inc)
    (routed_scalars
       (match mcs_expr inc with
        | Some e => at_ ("checkMatrix", "checkOneExpression", "m.Include.Expression")
                        (check_one_expression strategy_key "MatrixCombinations.Expression" (Some e))
        | None =>
            flat_map (fun c =>
              match mc_expr c with
              | Some e =>
                  if fx_include_elem fx
                  then at_ ("checkMatrix", "checkOneExpression", "combi.Expression")
                           (check_one_expression strategy_key "MatrixCombination.Expression" (Some e))
                  else at_ ("checkMatrix", "checkOneExpression", "m.Include.Expression")
                           (check_one_expression strategy_key "MatrixCombinations.Expression" (mcs_expr inc))
              | None => flat_map (fun ka => at_ ("checkMatrix", "checkRawYAMLValue", "assign.Value")
                                                (check_raw_yaml_value "MatrixAssign.Value" (ma_value (snd ka)))) (mc_assigns c)
              end) (mcs_combinations inc)
        end)).
Proof.
  unfold ok_combinations, combinations_scalars. destruct inc as [combos [e|]]; cbn [mcs_combinations mcs_expr is_none orb].
  - destruct combos; [|discriminate]. intros _. autorewrite with routed. cbn [flat_map of_ostr app]. apply covers_refl.
  - cbn [andb]. intros Hok. cbn [of_ostr app]. rewrite routed_flat_map. apply covers_flat_map. intros c Hc.
    pose proof (forallb_In _ _ _ Hok Hc) as Hc'. unfold ok_combination in Hc'.
    destruct c as [assigns [e|]]; cbn [mc_assigns mc_expr is_none orb] in *.
    + destruct assigns; [|discriminate]. cbn [fx fixed fx_include_elem]. autorewrite with routed. cbn. apply covers_refl.
    + rewrite assigns_routed. cbn [of_ostr app]. apply covers_refl.
Qed.

Lemma matrix_covers m : ok_matrix m = true -> covers (matrix_scalars m) (routed_scalars (check_matrix fx m)).
Proof.
  unfold ok_matrix, matrix_scalars, check_matrix. intros Hok.
  apply andb_prop in Hok. destruct Hok as [Hok Hex]. apply andb_prop in Hok. destruct Hok as [Hok Hinc].
  apply andb_prop in Hok. destruct Hok as [Hexpr Hrows].
  destruct m as [rows inc exc [e|]]; cbn [mx_rows mx_include mx_exclude mx_expr is_none orb] in *.
  - apply andb_prop in Hexpr. destruct Hexpr as [Hexpr He]. apply andb_prop in Hexpr. destruct Hexpr as [Hr Hi].
    destruct rows; [|discriminate]. destruct inc; [discriminate|]. destruct exc; [discriminate|].
    unfold check_matrix_expression. autorewrite with routed. cbn. apply covers_refl.
  - cbn [of_ostr app]. rewrite !routed_app. split_covers.
    + eapply covers_incl_r; [|apply incl_appr, incl_appl, incl_refl].
      unfold of_map. rewrite routed_flat_map. apply covers_flat_map. intros [k r] Hr. cbn [snd].
      rewrite routed_at. apply row_covers. exact (forallb_In _ _ _ Hrows Hr).
    + destruct inc as [inc|]; cbn [of_opt opt_all] in *; [|apply covers_nil].
      eapply covers_incl_r; [apply include_covers, Hinc | apply incl_appr, incl_appr, incl_refl].
    + destruct exc as [exc|]; cbn [of_opt opt_all] in *; [|apply covers_nil].
      eapply covers_incl_r; [apply exclude_covers, Hex | apply incl_appl, incl_refl].
Qed.

Lemma step_covers s : ok_step s = true -> covers (step_scalars s) (routed_scalars (visit_step s)).
Proof.
  unfold ok_step, step_scalars, visit_step. intros Hok.
  destruct s as [id cond nm ex en coe tmo]; cbn [sp_id sp_if sp_name sp_exec sp_env sp_continue_on_error sp_timeout] in *.
  autorewrite with routed. split_covers; try by_refl.
  - (* Step.ID: handed over when it contains a placeholder *)
    destruct id as [i|]; cbn [of_ostr]; [|apply covers_nil].
    intros s [<-|[]] Hp. unfold has_placeholder in Hp. cbn [sc_str sc_field fst snd] in Hp. rewrite (Hp eq_refl).
    left. autorewrite with routed. rewrite !in_app_iff. do 6 right. now left.
  - destruct ex as [[run sh wd | uses inputs entry args]|]; cbn [of_opt exec_scalars]; [| |apply covers_nil].
    + autorewrite with routed. by_refl.
    + autorewrite with routed. split_covers; try by_refl.
      covers_search ltac:(unfold of_map; apply covers_flat_map; intros [k i] _; cbn [snd fst];
                          destruct (is_github_script uses k); autorewrite with routed; apply covers_refl).
  - covers_search ltac:(apply oenv_covers, Hok).
Qed.

Lemma services_covers s :
  forallb (fun kv => opt_all ok_container (sv_container (snd kv))) (ss_value s) = true ->
  covers (services_scalars s)
    (routed_scalars
       (at_ ("VisitJobPre", "checkObjectExpression", "n.Services.Expression")
            (check_object_expression "jobs.<job_id>.services" "Services.Expression" (ss_expr s))
        ++ flat_map (fun kv => at_ ("VisitJobPre", "checkContainer", "s.Container")
                                   (check_container "jobs.<job_id>.services" "<service_id>" (sv_container (snd kv)))) (ss_value s))).
Proof.
  intros Hok. unfold services_scalars. autorewrite with routed. split_covers; try by_refl.
  eapply covers_incl_r; [|apply incl_appr, incl_refl]. unfold of_map. apply covers_flat_map.
  intros kv Hkv. rewrite routed_at. apply ocontainer_covers. exact (forallb_In _ _ _ Hok Hkv).
Qed.

Lemma wcall_covers c : ok_wcall c = true -> covers (call_scalars c) (routed_scalars (check_workflow_call (Some c))).
Proof.
  unfold ok_wcall, call_scalars, check_workflow_call. destruct c as [[u|] ins secs]; cbn [wc_uses wc_inputs wc_secrets is_none negb]; [|discriminate].
  intros _. autorewrite with routed. unfold of_map. split_covers; try by_refl.
  - eapply covers_incl_r; [|apply incl_appr, incl_appl, incl_refl]. apply covers_flat_map. intros kv _.
    autorewrite with routed. apply covers_refl.
  - eapply covers_incl_r; [|apply incl_appr, incl_appr, incl_refl]. apply covers_flat_map. intros kv _.
    autorewrite with routed. apply covers_refl.
Qed.

Lemma environment_covers e :
  covers (environment_scalars e)
    (routed_scalars
       (at_ ("VisitJobPost", "checkString", "n.Environment.Name") (check_string "jobs.<job_id>.environment" "Environment.Name" (ev_ename e))
        ++ at_ ("VisitJobPost", "checkString", "n.Environment.URL") (check_string "jobs.<job_id>.environment.url" "Environment.URL" (ev_url e)))).
Proof. unfold environment_scalars. autorewrite with routed. apply covers_refl. Qed.

Lemma strategy_rest_covers ff mp :
  covers (of_bool "Strategy.FailFast" ff ++ of_int "Strategy.MaxParallel" mp)
    (routed_scalars
       (at_ ("VisitJobPre", "checkBool", "n.Strategy.FailFast") (check_bool strategy_key "Strategy.FailFast" ff)
        ++ at_ ("VisitJobPre", "checkInt", "n.Strategy.MaxParallel") (check_int strategy_key "Strategy.MaxParallel" mp))).
Proof. autorewrite with routed. apply covers_refl. Qed.

Lemma job_covers j : ok_job j = true -> covers (job_scalars j) (routed_scalars (visit_job fx j)).
Proof.
  unfold ok_job. intros Hok.
  repeat (let H := fresh "H" in apply andb_prop in Hok; destruct Hok as [Hok H]).
  rename Hok into Hrunner, H4 into Henv, H3 into Hsteps, H2 into Hstrat, H1 into Hcont, H0 into Hsvc, H into Hcall.
  unfold job_scalars, visit_job, visit_job_pre, visit_job_post.
  destruct j as [id nm needs ro perms envr conc outs en dfl cond steps tmo strat coe cont svc wc];
    cbn [jb_id jb_name jb_needs jb_runs_on jb_permissions jb_environment jb_concurrency jb_outputs jb_env
         jb_defaults jb_if jb_steps jb_timeout jb_strategy jb_continue_on_error jb_container jb_services jb_call] in *.
  rewrite !routed_app. rewrite !routed_at.
  rewrite ?routed_check_string, ?routed_check_strings, ?routed_check_concurrency, ?routed_check_defaults,
          ?routed_check_if, ?routed_check_bool, ?routed_check_float.
  split_covers; try by_refl.
  - (* runs-on *)
    destruct ro as [r|]; cbn [of_opt opt_all] in *; [|apply covers_nil].
    covers_search ltac:(apply runner_covers, Hrunner).
  - (* permissions: exempt *)
    destruct perms as [p|]; cbn [of_opt]; [|apply covers_nil]. apply covers_exempt, permissions_exempt.
  - (* environment, in VisitJobPost *)
    destruct envr as [e|]; cbn [of_opt]; [|apply covers_nil].
    covers_search ltac:(apply environment_covers).
  - (* outputs, in VisitJobPost *)
    covers_search ltac:(unfold of_map; rewrite routed_flat_map; apply covers_flat_map;
                        intros kv _; autorewrite with routed; apply covers_refl).
  - covers_search ltac:(apply oenv_covers, Henv).
  - (* steps *)
    covers_search ltac:(rewrite routed_flat_map; apply covers_flat_map;
                        intros s Hs; apply step_covers; exact (forallb_In _ _ _ Hsteps Hs)).
  - (* strategy: matrix at the start of VisitJobPre, the rest later *)
    destruct strat as [[mat ff mp]|]; cbn [of_opt opt_all st_matrix st_fail_fast st_max_parallel] in *; [|apply covers_nil].
    unfold strategy_scalars; cbn [st_matrix st_fail_fast st_max_parallel]. apply covers_app_l.
    + destruct mat as [m|]; cbn [of_opt opt_all] in *; [|apply covers_nil].
      covers_search ltac:(rewrite routed_at; apply matrix_covers, Hstrat).
    + covers_search ltac:(apply strategy_rest_covers).
  - covers_search ltac:(apply ocontainer_covers, Hcont).
  - destruct svc as [s|]; cbn [of_opt opt_all] in *; [|apply covers_nil].
    covers_search ltac:(apply services_covers, Hsvc).
  - destruct wc as [c|]; cbn [of_opt opt_all] in *; [|apply covers_nil].
    covers_search ltac:(apply wcall_covers, Hcall).
Qed.
End Fixed.
