(* Wf/CronGuard.v — `on.schedule[].cron`: what RuleEvents.checkCron hands to the cron library.
   robfig/cron v3.0.1 (parser.go, Parser.Parse) cuts a time zone prefix off with
       i := strings.Index(spec, " "); eq := strings.Index(spec, "="); time.LoadLocation(spec[eq+1 : i])
   which panics (slice bounds out of range [:-1]) when the spec starts with TZ= or CRON_TZ= and holds
   no space.  The pinned tree passed every spec on; since the fix the rule reports such a spec
   itself.  [lib_panics] is the library's behaviour as read from its source; it is compared with
   the library on generated specs by ./check C01 (run_cron). *)
From AL Require Import Base.Str Base.Corr.

Definition tz_prefixed (s : string) : bool := String.prefix "TZ=" s || String.prefix "CRON_TZ=" s.

Fixpoint has_space (s : string) : bool :=
  match s with
  | EmptyString => false
  | String c r => Ascii.eqb c " " || has_space r
  end.

Definition lib_panics (s : string) : bool := tz_prefixed s && negb (has_space s).

Inductive cron_outcome := CronPanic | CronGuarded | CronToLibrary.

(* the pinned tree: every spec goes to the library *)
Definition check_cron_old (s : string) : cron_outcome := if lib_panics s then CronPanic else CronToLibrary.

(* rule_events.go checkCron since the fix *)
Definition check_cron (s : string) : cron_outcome :=
  if tz_prefixed s && negb (has_space s) then CronGuarded
  else if lib_panics s then CronPanic else CronToLibrary.

Theorem check_cron_no_panic s : check_cron s <> CronPanic.
Proof.
  unfold check_cron, lib_panics. destruct (tz_prefixed s && negb (has_space s)); discriminate.
Qed.

(* what reaches the library cannot take that path ... *)
Theorem check_cron_library_safe s : check_cron s = CronToLibrary -> lib_panics s = false.
Proof.
  unfold check_cron, lib_panics. destruct (tz_prefixed s && negb (has_space s)); [discriminate|reflexivity].
Qed.

(* ... and nothing else is kept from it *)
Theorem check_cron_guard_minimal s : check_cron s = CronGuarded -> lib_panics s = true.
Proof.
  unfold check_cron, lib_panics. destruct (tz_prefixed s && negb (has_space s)); [reflexivity|discriminate].
Qed.

Theorem check_cron_old_refuted : exists s, check_cron_old s = CronPanic.
Proof. exists "TZ=UTC". reflexivity. Qed.

Example check_cron_examples :
  check_cron "TZ=UTC" = CronGuarded /\ check_cron "CRON_TZ=Asia/Tokyo" = CronGuarded /\
  check_cron "TZ=UTC 0 0 * * *" = CronToLibrary /\ check_cron "0 0 * * *" = CronToLibrary /\
  check_cron "" = CronToLibrary /\ check_cron "tz=UTC" = CronToLibrary.
Proof. repeat split; reflexivity. Qed.

(* observable: [does the library panic on s; what the rule does: 0 passes on, 1 reports the
   missing fields itself, 2 panics] *)
Definition run_cron (s : string) : list tuple :=
  [[if lib_panics s then 1%N else 0%N;
    match check_cron s with CronToLibrary => 0%N | CronGuarded => 1%N | CronPanic => 2%N end]].
