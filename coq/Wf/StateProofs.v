(* Wf/StateProofs.v — locality of the stateful rules (property C09).

   A *certificate* [cert r] splits the state of a rule into a per-job part and a
   workflow-level view and states: the per-job part is back at its initial
   value after every job block; a job block changes the view only through
   [vupd]; blocks of jobs with other keys and jobs that are not needed do not
   influence a job's diagnostics; a step without id leaves no trace.  From a
   certificate the property theorems follow for every visiting history; the
   product of two certified rules is certified, and all seven stateful rules
   of RulesState.v are. *)
From AL Require Import Base.Str Base.AList Wf.RulesState.
Set Implicit Arguments.

Section Generic.
Variables HX JX SX MX diag : Type.
Notation ruleT := (rule HX JX SX MX diag).
Notation jobT := (jobT JX SX MX).
Notation stepT := (stepT SX).
Notation wfT := (wfT HX JX SX MX).
Notation eventT := (event HX JX SX MX).

Lemma run_app (r : ruleT) : forall (a b : list eventT) (s : st r),
  run r s (a ++ b) =
  (fst (run r (fst (run r s a)) b), snd (run r s a) ++ snd (run r (fst (run r s a)) b)).
Proof.
  induction a as [|e a IH]; intros b s; cbn.
  - now destruct (run r s b).
  - destruct (step r s e) as [s1 d]. rewrite IH.
    destruct (run r s1 a) as [s2 ds]. cbn. reflexivity.
Qed.

Lemma run_cons (r : ruleT) e (t : list eventT) (s : st r) :
  run r s (e :: t) =
  (fst (run r (fst (step r s e)) t), snd (step r s e) :: snd (run r (fst (step r s e)) t)).
Proof. cbn. destruct (step r s e) as [s1 d]. cbn. now destruct (run r s1 t). Qed.

(* what a needed job contributes: its declaration [jdecl] *)
Definition needs_agree (JD : Type) (jdecl : jobT -> JD) (js js' : list jobT) (j : jobT) : Prop :=
  forall n, In n (j_needs j) ->
    option_map jdecl (find_job (lower n) js) = option_map jdecl (find_job (lower n) js').

Record cert (r : ruleT) : Type := mkCert {
  JP : Type; V : Type; JD : Type;
  jp : st r -> JP;                 (* per-job fields *)
  view : st r -> V;                (* workflow-level fields *)
  mk : V -> JP -> st r;
  jp0 : JP;
  vupd : V -> jobT -> V;
  jdecl : jobT -> JD;
  c_mk : forall s, mk (view s) (jp s) = s;
  c_init : forall w, jp (after_wfpre r w) = jp0;
  c_reset : forall s j, jp s = jp0 -> jp (fst (run r s (job_events j))) = jp0;
  c_view : forall s j, jp s = jp0 -> view (fst (run r s (job_events j))) = vupd (view s) j;
  c_frame : forall v k j, jkey k <> jkey j ->
    snd (run r (mk (vupd v k) jp0) (job_events j)) = snd (run r (mk v jp0) (job_events j));
  c_hdr : forall w js js' j, needs_agree jdecl js js' j ->
    snd (run r (mk (view (after_wfpre r (with_jobs w js))) jp0) (job_events j)) =
    snd (run r (mk (view (after_wfpre r (with_jobs w js'))) jp0) (job_events j));
  c_noid : forall s x, s_id x = None -> fst (step r s (StepE x)) = s
}.

(* the diagnostics of a job block as a function of the header view and the job *)
Definition jdiags (r : ruleT) (c : cert r) (v : V c) (j : jobT) : list (list diag) :=
  snd (run r (mk c v (jp0 c)) (job_events j)).

Section FromCert.
Variable r : ruleT.
Variable c : cert r.

Lemma clean_is_mk s : jp c s = jp0 c -> s = mk c (view c s) (jp0 c).
Proof. intros H. rewrite <- H. symmetry. apply c_mk. Qed.

Lemma blocks_spec : forall (js : list jobT) (s : st r),
  jp c s = jp0 c -> NoDup (map (@jkey _ _ _) js) ->
  blocks r s js = map (fun j => (j, jdiags c (view c s) j)) js.
Proof.
  induction js as [|j t IH]; intros s Hs ND; cbn [blocks map]; [reflexivity|].
  inversion ND as [|? ? Hn ND']; subst.
  destruct (run r s (job_events j)) as [s1 d] eqn:E.
  assert (jp c s1 = jp0 c) as H1 by (pose proof (c_reset c s j Hs) as R; now rewrite E in R).
  assert (view c s1 = vupd c (view c s) j) as H2 by (pose proof (c_view c s j Hs) as R; now rewrite E in R).
  f_equal.
  - f_equal. unfold jdiags. rewrite <- (clean_is_mk s Hs). now rewrite E.
  - rewrite (IH s1 H1 ND'). apply map_ext_in. intros k Hk. f_equal.
    unfold jdiags. rewrite H2. apply c_frame.
    intros Heq. apply Hn. rewrite Heq. now apply in_map.
Qed.

(* job_diags_local: for every visiting history, the per-event diagnostics of a
   job are a function of the workflow-level view after VisitWorkflowPre and the job *)
Theorem job_diags_local_gen (w : wfT) :
  NoDup (map (@jkey _ _ _) (w_jobs w)) ->
  lint_jobs r w = map (fun j => (j, jdiags c (view c (after_wfpre r w)) j)) (w_jobs w).
Proof. intros ND. unfold lint_jobs. apply blocks_spec; [apply c_init|exact ND]. Qed.

Lemma blocks_state_clean : forall (js : list jobT) (s : st r),
  jp c s = jp0 c -> jp c (fst (run r s (flat_map job_events js))) = jp0 c.
Proof.
  induction js as [|j t IH]; intros s Hs; cbn [flat_map]; [exact Hs|].
  rewrite run_app. cbn [fst]. apply IH. now apply c_reset.
Qed.

(* the per-job state is clean before VisitWorkflowPost, whatever the jobs were *)
Theorem clean_before_wfpost (w : wfT) :
  jp c (fst (run r (after_wfpre r w) (flat_map job_events (w_jobs w)))) = jp0 c.
Proof. apply blocks_state_clean. apply c_init. Qed.

Lemma run_blocks : forall (js : list jobT) (s : st r),
  snd (run r s (flat_map job_events js)) = concat (map snd (blocks r s js)).
Proof.
  induction js as [|j t IH]; intros s; cbn [flat_map blocks]; [reflexivity|].
  rewrite run_app. cbn [snd]. destruct (run r s (job_events j)) as [s1 d]. cbn. now rewrite IH.
Qed.

(* the diagnostics of a whole visit, event by event *)
Theorem visit_diags (w : wfT) :
  snd (run r (init r) (visit w)) =
  snd (step r (init r) (WfPre w)) :: concat (map snd (lint_jobs r w)) ++
  [snd (step r (fst (run r (after_wfpre r w) (flat_map job_events (w_jobs w)))) (WfPost w))].
Proof.
  unfold visit. rewrite run_cons. cbn [snd]. f_equal.
  rewrite run_app. cbn [snd]. fold (after_wfpre r w). rewrite run_blocks. f_equal.
  cbn. destruct (step r _ (WfPost w)). reflexivity.
Qed.

Lemma find_job_perm (k : string) (js js' : list jobT) :
  Permutation js js' -> NoDup (map (@jkey _ _ _) js) -> find_job k js = find_job k js'.
Proof.
  intros P. induction P as [|x l l' P IH|x y l|l l' l'' P1 IH1 P2 IH2]; intros ND.
  - reflexivity.
  - cbn. inversion ND; subst. now rewrite IH.
  - cbn. inversion ND as [|? ? Hn ND']; subst.
    destruct (String.eqb k (jkey y)) eqn:Ey; destruct (String.eqb k (jkey x)) eqn:Ex; try reflexivity.
    apply String.eqb_eq in Ey. apply String.eqb_eq in Ex. exfalso. apply Hn. left. congruence.
  - rewrite IH1 by exact ND. apply IH2.
    eapply Permutation_NoDup; [|exact ND]. now apply Permutation_map.
Qed.

(* jobs_perm: any visiting order of the same jobs gives every job the same diagnostics *)
Theorem jobs_perm_gen (w : wfT) (js js' : list jobT) :
  Permutation js js' -> NoDup (map (@jkey _ _ _) js) ->
  Permutation (lint_jobs r (with_jobs w js)) (lint_jobs r (with_jobs w js')).
Proof.
  intros P ND.
  assert (NoDup (map (@jkey _ _ _) js')) as ND'
    by (eapply Permutation_NoDup; [|exact ND]; now apply Permutation_map).
  rewrite (job_diags_local_gen (with_jobs w js)) by exact ND.
  rewrite (job_diags_local_gen (with_jobs w js')) by exact ND'.
  cbn [w_jobs with_jobs].
  eapply Permutation_trans; [apply Permutation_map; exact P|].
  match goal with |- Permutation ?a ?b => assert (a = b) as ->; [|apply Permutation_refl] end.
  apply map_ext_in. intros j _. f_equal. unfold jdiags. apply c_hdr.
  intros n _. now rewrite (find_job_perm (lower n) P ND).
Qed.

Lemma find_job_app k (a b : list jobT) :
  find_job k (a ++ b) = match find_job k a with Some j => Some j | None => find_job k b end.
Proof. induction a as [|x a IH]; cbn; [reflexivity|]. now destruct (String.eqb k (jkey x)). Qed.

(* jobs_add_remove: a job that is not needed by the others can be added or
   removed anywhere without changing their diagnostics *)
Theorem jobs_add_remove_gen (w : wfT) (js1 js2 : list jobT) (k : jobT) :
  NoDup (map (@jkey _ _ _) (js1 ++ k :: js2)) ->
  (forall j, In j (js1 ++ js2) -> ~ In (jkey k) (map lower (j_needs j))) ->
  exists g dk,
    lint_jobs r (with_jobs w (js1 ++ k :: js2)) = map g js1 ++ (k, dk) :: map g js2 /\
    lint_jobs r (with_jobs w (js1 ++ js2)) = map g js1 ++ map g js2.
Proof.
  intros ND Hn.
  assert (NoDup (map (@jkey _ _ _) (js1 ++ js2))) as ND2.
  { rewrite map_app in *. cbn in ND. now apply NoDup_remove_1 in ND. }
  exists (fun j => (j, jdiags c (view c (after_wfpre r (with_jobs w (js1 ++ js2)))) j)).
  exists (jdiags c (view c (after_wfpre r (with_jobs w (js1 ++ k :: js2)))) k).
  rewrite (job_diags_local_gen (with_jobs w (js1 ++ k :: js2))) by exact ND.
  rewrite (job_diags_local_gen (with_jobs w (js1 ++ js2))) by exact ND2.
  cbn [w_jobs with_jobs]. rewrite !map_app. cbn [map].
  assert (forall j, In j (js1 ++ js2) ->
    jdiags c (view c (after_wfpre r (with_jobs w (js1 ++ k :: js2)))) j =
    jdiags c (view c (after_wfpre r (with_jobs w (js1 ++ js2)))) j) as Heq.
  { intros j Hj. unfold jdiags. apply c_hdr. intros n Hin.
    rewrite !find_job_app. cbn [find_job].
    destruct (String.eqb (lower n) (jkey k)) eqn:E; [|reflexivity].
    apply String.eqb_eq in E. exfalso. apply (Hn j Hj). rewrite <- E. now apply in_map. }
  split; [|reflexivity].
  f_equal; [|f_equal]; apply map_ext_in; intros j Hj; f_equal; apply Heq; apply in_or_app; auto.
Qed.

(* step_diags_local, generic part: earlier steps that carry no id leave no trace,
   so a step's diagnostics are those it gets directly after the id-carrying
   earlier steps; later steps never matter (they come later in the run) *)
Lemma run_noid_steps : forall (pre : list stepT) (s : st r),
  Forall (fun y => s_id y = None) pre -> fst (run r s (map (@StepE _ _ _ _) pre)) = s.
Proof.
  induction pre as [|y t IH]; intros s F; cbn [map]; [reflexivity|].
  inversion F as [|? ? Hy Ft]; subst. rewrite run_cons. cbn [fst].
  rewrite (c_noid c s y Hy). now apply IH.
Qed.

Theorem step_noid_irrelevant (s : st r) (a b : list stepT) (x : stepT) :
  Forall (fun y => s_id y = None) b ->
  snd (step r (fst (run r s (map (@StepE _ _ _ _) (a ++ b)))) (StepE x)) =
  snd (step r (fst (run r s (map (@StepE _ _ _ _) a))) (StepE x)).
Proof.
  intros F. rewrite map_app, run_app. cbn [fst]. now rewrite run_noid_steps.
Qed.

End FromCert.

(* ---------------------------------------------------------- product of rules *)
Fixpoint zipapp (a b : list (list diag)) : list (list diag) :=
  match a, b with
  | x :: a', y :: b' => (x ++ y) :: zipapp a' b'
  | _, _ => []
  end.

Lemma run_prod (r1 r2 : ruleT) : forall (es : list eventT) (s1 : st r1) (s2 : st r2),
  run (rprod r1 r2) (s1, s2) es =
  ((fst (run r1 s1 es), fst (run r2 s2 es)), zipapp (snd (run r1 s1 es)) (snd (run r2 s2 es))).
Proof.
  induction es as [|e t IH]; intros s1 s2; [reflexivity|].
  cbn [run]. cbn [rprod step fst snd].
  destruct (step r1 s1 e) as [a d1]. destruct (step r2 s2 e) as [b d2].
  rewrite IH. destruct (run r1 a t) as [a' ds1]. destruct (run r2 b t) as [b' ds2]. reflexivity.
Qed.

Definition cert_prod (r1 r2 : ruleT) (c1 : cert r1) (c2 : cert r2) : cert (rprod r1 r2).
Proof.
  refine (@mkCert (rprod r1 r2)
    (JP c1 * JP c2)%type (V c1 * V c2)%type (JD c1 * JD c2)%type
    (fun s => (jp c1 (fst s), jp c2 (snd s)))
    (fun s => (view c1 (fst s), view c2 (snd s)))
    (fun v p => (mk c1 (fst v) (fst p), mk c2 (snd v) (snd p)))
    (jp0 c1, jp0 c2)
    (fun v j => (vupd c1 (fst v) j, vupd c2 (snd v) j))
    (fun j => (jdecl c1 j, jdecl c2 j))
    _ _ _ _ _ _ _).
  - intros [s1 s2]. cbn. now rewrite !c_mk.
  - intros w. unfold after_wfpre. cbn [rprod step init fst snd].
    pose proof (c_init c1 w) as H1. pose proof (c_init c2 w) as H2. unfold after_wfpre in H1, H2.
    destruct (step r1 (init r1) (WfPre w)) as [a d1]. destruct (step r2 (init r2) (WfPre w)) as [b d2].
    cbn in *. now rewrite H1, H2.
  - intros [s1 s2] j H. cbn in H. inversion H as [[H1 H2]].
    rewrite run_prod. cbn [fst snd]. now rewrite (c_reset c1 s1 j H1), (c_reset c2 s2 j H2).
  - intros [s1 s2] j H. cbn in H. inversion H as [[H1 H2]].
    rewrite run_prod. cbn [fst snd]. now rewrite (c_view c1 s1 j H1), (c_view c2 s2 j H2).
  - intros [v1 v2] k j N. cbn [fst snd]. rewrite !run_prod. cbn [snd].
    now rewrite (c_frame c1 v1 k j N), (c_frame c2 v2 k j N).
  - intros w js js' j A. rewrite !run_prod. cbn [snd fst].
    assert (forall js0, after_wfpre (rprod r1 r2) (with_jobs w js0) =
                        (after_wfpre r1 (with_jobs w js0), after_wfpre r2 (with_jobs w js0))) as Haw.
    { intros js0. unfold after_wfpre. cbn [rprod step init fst snd].
      destruct (step r1 (init r1) _) as [a d1]. destruct (step r2 (init r2) _) as [b d2]. reflexivity. }
    rewrite !Haw. cbn [fst snd].
    assert (needs_agree (jdecl c1) js js' j) as A1.
    { intros n Hn. specialize (A n Hn). destruct (find_job (lower n) js); destruct (find_job (lower n) js'); cbn in *; congruence. }
    assert (needs_agree (jdecl c2) js js' j) as A2.
    { intros n Hn. specialize (A n Hn). destruct (find_job (lower n) js); destruct (find_job (lower n) js'); cbn in *; congruence. }
    now rewrite (c_hdr c1 w A1), (c_hdr c2 w A2).
  - intros [s1 s2] x Hx. cbn [rprod step fst snd].
    pose proof (c_noid c1 s1 x Hx) as H1. pose proof (c_noid c2 s2 x Hx) as H2.
    destruct (step r1 s1 (StepE x)) as [a d1]. destruct (step r2 s2 (StepE x)) as [b d2].
    cbn in *. now subst.
Defined.

(* a rule whose steps never change the state *)
Lemma run_steps_const (r : ruleT) (s : st r) :
  (forall x, fst (step r s (StepE x)) = s) ->
  forall xs : list stepT, fst (run r s (map (@StepE _ _ _ _) xs)) = s.
Proof.
  intros H. induction xs as [|x t IH]; [reflexivity|].
  cbn [map]. rewrite run_cons. cbn [fst]. now rewrite H.
Qed.

Lemma run_job_events (r : ruleT) (s : st r) (j : jobT) :
  fst (run r s (job_events j)) =
  fst (step r (fst (run r (fst (step r s (JobPre j))) (map (@StepE _ _ _ _) (j_steps j)))) (JobPost j)).
Proof.
  unfold job_events. rewrite run_cons. cbn [fst]. rewrite run_app. cbn [fst].
  cbn. now destruct (step r _ (JobPost j)).
Qed.

End Generic.

(* ================================================================ the rules *)
Section PerRule.
Variables HX JX SX MX diag : Type.
Notation ruleT := (rule HX JX SX MX diag).
Notation jobT := (jobT JX SX MX).
Notation stepT := (stepT SX).
Notation wfT := (wfT HX JX SX MX).
Notation eventT := (event HX JX SX MX).

Lemma run_invariant (r : ruleT) (P : st r -> Prop) : forall (es : list eventT) (s : st r),
  (forall s0 e, In e es -> P s0 -> P (fst (step r s0 e))) -> P s -> P (fst (run r s es)).
Proof.
  induction es as [|e t IH]; intros s H Hs; [exact Hs|].
  rewrite run_cons. cbn [fst]. apply IH.
  - intros s0 e0 Hin. apply H. now right.
  - apply H; [now left|exact Hs].
Qed.

Lemma in_job_events (j : jobT) (e : eventT) :
  In e (job_events j) -> e = JobPre j \/ (exists x, e = StepE x) \/ e = JobPost j.
Proof.
  unfold job_events. intros [H|H]; [now left; auto|].
  apply in_app_or in H. destruct H as [H|[H|[]]].
  - apply in_map_iff in H. destruct H as [x [Hx _]]. right. left. now exists x.
  - right. right. auto.
Qed.

(* ------------------------------------------------------------ RuleShellName *)
Variable sn_wf : platform -> wfT -> list diag.
Variable sn_job : platform -> jobT -> list diag.
Variable sn_step : platform -> stepT -> list diag.
Let rsn : ruleT := r_shellname sn_wf sn_job sn_step.

Theorem shellname_reset_any (s : st rsn) (j : jobT) : fst (run rsn s (job_events j)) = PAny.
Proof. rewrite run_job_events. reflexivity. Qed.

Definition cert_shellname : cert rsn.
Proof.
  refine (@mkCert _ _ _ _ _ rsn platform unit unit (fun s => s) (fun _ => tt) (fun _ p => p) PAny
            (fun v _ => v) (fun _ => tt) _ _ _ _ _ _ _).
  - reflexivity.
  - reflexivity.
  - intros s j _. apply shellname_reset_any.
  - intros s j _. reflexivity.
  - reflexivity.
  - reflexivity.
  - reflexivity.
Defined.

(* ------------------------------------------------------------ RuleShellcheck *)
Variable sc_run : string -> stepT -> list diag.
Let rsc : ruleT := r_shellcheck sc_run.

Theorem shellcheck_reset_any (s : st rsc) (j : jobT) :
  let s' := fst (run rsc s (job_events j)) in sc_job s' = "" /\ sc_runner s' = "".
Proof. cbv zeta. rewrite run_job_events. split; reflexivity. Qed.

Lemma shellcheck_wf_kept (s : st rsc) (j : jobT) : sc_wf (fst (run rsc s (job_events j))) = sc_wf s.
Proof.
  apply (@run_invariant rsc (fun s' => sc_wf s' = sc_wf s)); [|reflexivity].
  intros s0 e Hin H0. apply in_job_events in Hin. destruct Hin as [->|[[x ->]| ->]]; exact H0.
Qed.

Definition cert_shellcheck : cert rsc.
Proof.
  refine (@mkCert _ _ _ _ _ rsc (string * string)%type string unit
            (fun s => (sc_job s, sc_runner s)) (fun s => sc_wf s) (fun v p => mkSc v (fst p) (snd p))
            ("", "") (fun v _ => v) (fun _ => tt) _ _ _ _ _ _ _).
  - intros [a b c0]. reflexivity.
  - intros w. unfold after_wfpre. cbn. destruct (w_def_run w) as [[sh|]|]; reflexivity.
  - intros s j _. destruct (shellcheck_reset_any s j) as [H1 H2]. cbv zeta in H1, H2. now rewrite H1, H2.
  - intros s j _. apply shellcheck_wf_kept.
  - reflexivity.
  - reflexivity.
  - reflexivity.
Defined.

(* ------------------------------------------------------------ RulePyflakes *)
Variable py_run : stepT -> list diag.
Let rpy : ruleT := r_pyflakes py_run.

Theorem pyflakes_reset_any (s : st rpy) (j : jobT) : py_job (fst (run rpy s (job_events j))) = PyUnspec.
Proof. rewrite run_job_events. reflexivity. Qed.

Lemma pyflakes_wf_kept (s : st rpy) (j : jobT) : py_wf (fst (run rpy s (job_events j))) = py_wf s.
Proof.
  apply (@run_invariant rpy (fun s' => py_wf s' = py_wf s)); [|reflexivity].
  intros s0 e Hin H0. apply in_job_events in Hin. destruct Hin as [->|[[x ->]| ->]]; cbn.
  - now destruct (j_def_run j).
  - exact H0.
  - exact H0.
Qed.

Definition cert_pyflakes : cert rpy.
Proof.
  refine (@mkCert _ _ _ _ _ rpy pykind pykind unit
            (fun s => py_job s) (fun s => py_wf s) (fun v p => mkPy v p)
            PyUnspec (fun v _ => v) (fun _ => tt) _ _ _ _ _ _ _).
  - intros [a b]. reflexivity.
  - intros w. unfold after_wfpre. cbn. destruct (w_def_run w); reflexivity.
  - intros s j _. apply pyflakes_reset_any.
  - intros s j _. apply pyflakes_wf_kept.
  - reflexivity.
  - reflexivity.
  - reflexivity.
Defined.

(* ------------------------------------------------------------ RuleID *)
Variable id_job : jobT -> list diag.
Variable id_conv : stepT -> list diag.
Variable id_dup : stepT -> stepT -> list diag.
Let rid : ruleT := r_id id_job id_conv id_dup.

Theorem id_reset_any (s : st rid) (j : jobT) : fst (run rid s (job_events j)) = None.
Proof. rewrite run_job_events. reflexivity. Qed.

Definition cert_id : cert rid.
Proof.
  refine (@mkCert _ _ _ _ _ rid (idst SX) unit unit (fun s => s) (fun _ => tt) (fun _ p => p) None
            (fun v _ => v) (fun _ => tt) _ _ _ _ _ _ _).
  - reflexivity.
  - reflexivity.
  - intros s j _. apply id_reset_any.
  - reflexivity.
  - reflexivity.
  - reflexivity.
  - intros s x Hx. cbn. now rewrite Hx.
Defined.

(* the write into a nil map that would panic is unreachable: inside a job block
   the map is allocated before the first step *)
Theorem id_seen_allocated_in_job (s : st rid) (j : jobT) (pre : list stepT) :
  fst (run rid (fst (step rid s (JobPre j))) (map (@StepE _ _ _ _) pre)) <> None.
Proof.
  apply (@run_invariant rid (fun s' => s' <> None)); [|cbn; discriminate].
  intros s0 e Hin H0. apply in_map_iff in Hin. destruct Hin as [x [<- _]].
  cbn. destruct (s_id x) as [i|]; [|exact H0].
  destruct s0 as [m|]; [|congruence].
  destruct (lookup (lower i) m); cbn; discriminate.
Qed.

(* ------------------------------------------------------------ RuleRunnerLabel *)
Variable rl_one : jobT -> list diag.
Variable rl_many : jobT -> list diag.
Let rrl : ruleT := r_runnerlabel rl_one rl_many.

(* compats is nil between any two callbacks, for every event sequence *)
Theorem runnerlabel_compats_nil (es : list eventT) : fst (run rrl (init rrl) es) = None.
Proof.
  apply (@run_invariant rrl (fun s' => s' = None)); [|reflexivity].
  intros s0 e _ ->. destruct e as [w|j|x|j|w]; try reflexivity.
  cbn. destruct (j_runs_on j) as [[|l [|l2 t]]|]; reflexivity.
Qed.

Lemma runnerlabel_reset (s : st rrl) (j : jobT) : s = None -> fst (run rrl s (job_events j)) = None.
Proof.
  intros ->. apply (@run_invariant rrl (fun s' => s' = None)); [|reflexivity].
  intros s0 e _ ->. destruct e as [w|j0|x|j0|w]; try reflexivity.
  cbn. destruct (j_runs_on j0) as [[|l [|l2 t]]|]; reflexivity.
Qed.

Definition cert_runnerlabel : cert rrl.
Proof.
  refine (@mkCert _ _ _ _ _ rrl rlst unit unit (fun s => s) (fun _ => tt) (fun _ p => p) None
            (fun v _ => v) (fun _ => tt) _ _ _ _ _ _ _).
  - reflexivity.
  - reflexivity.
  - intros s j H. now apply runnerlabel_reset.
  - reflexivity.
  - reflexivity.
  - reflexivity.
  - reflexivity.
Defined.

(* ------------------------------------------------------------ RuleJobNeeds *)
Variable jn_needs_dups : jobT -> list diag.
Variable jn_dup_job : jobT -> jobT -> list diag.
Variable jn_post : jnst JX SX MX -> list diag.
Let rjn : ruleT := r_jobneeds jn_needs_dups jn_dup_job jn_post.

Definition jn_upd (v : jnst JX SX MX) (j : jobT) : jnst JX SX MX :=
  if String.eqb (jkey j) "" then v else upsert (jkey j) (dedup_needs [] (j_needs j), j) v.

Lemma jn_steps : forall (xs : list stepT) (s : st rjn),
  run rjn s (map (@StepE _ _ _ _) xs) = (s, map (fun _ => []) xs).
Proof. induction xs as [|x t IH]; intros s; [reflexivity|]. cbn [map run]. cbn. now rewrite IH. Qed.

Lemma jn_block (s : st rjn) (j : jobT) :
  run rjn s (job_events j) =
  (jn_upd s j,
   (jn_needs_dups j ++ (if String.eqb (jkey j) "" then [] else
                        match lookup (jkey j) s with Some prev => jn_dup_job j (snd prev) | None => [] end))
   :: map (fun _ => []) (j_steps j) ++ [[]]).
Proof.
  unfold job_events, jn_upd. rewrite run_cons, run_app, jn_steps. cbn.
  destruct (String.eqb (jkey j) ""); cbn; [now rewrite app_nil_r|reflexivity].
Qed.

Definition cert_jobneeds : cert rjn.
Proof.
  refine (@mkCert _ _ _ _ _ rjn unit (jnst JX SX MX) unit (fun _ => tt) (fun s => s) (fun v _ => v) tt
            jn_upd (fun _ => tt) _ _ _ _ _ _ _).
  - reflexivity.
  - reflexivity.
  - reflexivity.
  - intros s j _. now rewrite jn_block.
  - intros v k j N. rewrite !jn_block. cbn [snd]. unfold jn_upd.
    destruct (String.eqb (jkey k) ""); [reflexivity|].
    now rewrite lookup_upsert_other by exact N.
  - reflexivity.
  - reflexivity.
Defined.

(* the nodes handed to VisitWorkflowPost do not depend on the visiting order
   as a map: every job's entry is (its de-duplicated needs, the job) *)
Lemma jobneeds_nodes_lookup : forall (js : list jobT) (s : st rjn) (j : jobT),
  NoDup (map (@jkey _ _ _) js) -> In j js -> jkey j <> "" ->
  lookup (jkey j) (fst (run rjn s (flat_map job_events js))) = Some (dedup_needs [] (j_needs j), j).
Proof.
  induction js as [|k t IH]; intros s j ND Hin Hne; [destruct Hin|].
  inversion ND as [|? ? Hn ND']; subst. cbn [flat_map]. rewrite run_app. cbn [fst].
  rewrite jn_block. cbn [fst]. destruct Hin as [->|Hin].
  - clear IH. unfold jn_upd. apply String.eqb_neq in Hne. rewrite Hne.
    assert (forall (l : list jobT) (s0 : st rjn), ~ In (jkey j) (map (@jkey _ _ _) l) ->
              lookup (jkey j) (fst (run rjn s0 (flat_map job_events l))) = lookup (jkey j) s0) as Hkeep.
    { induction l as [|y l IHl]; intros s0 Hni; [reflexivity|].
      cbn [flat_map]. rewrite run_app. cbn [fst]. rewrite jn_block. cbn [fst].
      rewrite IHl by (intros H; apply Hni; now right).
      unfold jn_upd. destruct (String.eqb (jkey y) ""); [reflexivity|].
      apply lookup_upsert_other. intros E. apply Hni. left. exact E. }
    rewrite Hkeep by exact Hn. apply lookup_upsert_same.
  - now apply IH.
Qed.

(* ------------------------------------------------------------ RuleExpression *)
Variables MT OT CT IT ST DT JT : Type.
Notation exstT := (exst HX JX SX MX MT OT CT IT ST DT JT).
Variable ex_call_out : jobT -> CT.
Variable ex_step_out : stepT -> OT.
Variable hdr_inputs : wfT -> IT.
Variable hdr_secrets : wfT -> ST.
Variable hdr_dispatch : wfT -> DT.
Variable hdr_jobs : wfT -> JT.
Variable ex_wfpre : wfT -> list diag.
Variable ex_wfpost : exstT -> wfT -> list diag.
Variable ex_matrix : exstT -> jobT -> MX -> MT * list diag.
Variable ex_jobpre : exstT -> jobT -> list diag * option MT.
Variable ex_step : exstT -> stepT -> list diag * option MT.
Variable ex_jobpost : exstT -> jobT -> list diag * option MT.
Let rex : ruleT := r_expression ex_call_out ex_step_out hdr_inputs hdr_secrets hdr_dispatch hdr_jobs
                                ex_wfpre ex_wfpost ex_matrix ex_jobpre ex_step ex_jobpost.

(* the repaired expression checker hands the matrix type back unchanged
   (StateExpr.check_new_pure is this fact for the modelled checker) *)
Hypothesis ex_step_pure : forall e x, snd (ex_step e x) = x_matrix e.

Definition ex_jp (s : exstT) := (x_matrix s, x_steps s, x_needs s).
Definition ex_view (s : exstT) := (x_secrets s, x_inputs s, x_dispatch s, x_jobs s, x_workflow s).
Definition ex_mk (v : option ST * option IT * option DT * option JT * option wfT)
                 (p : option MT * option (stepsT OT) * option (needsT CT)) : exstT :=
  let '(a, b, c0, d, e) := v in let '(m, s, n) := p in mkEx m s n a b c0 d e.

Theorem expression_reset_any (s : st rex) (j : jobT) :
  ex_jp (fst (run rex s (job_events j))) = (None, None, None).
Proof.
  rewrite run_job_events. cbn [rex r_expression step expression_step].
  destruct (ex_jobpost _ j). reflexivity.
Qed.

Lemma expression_view_step (s : st rex) (e : eventT) :
  (exists j, e = JobPre j) \/ (exists x, e = StepE x) \/ (exists j, e = JobPost j) ->
  ex_view (fst (step rex s e)) = ex_view s.
Proof.
  intros [[j ->]|[[x ->]|[j ->]]]; cbn [rex r_expression step expression_step].
  - destruct (j_matrix j) as [m|].
    + destruct (ex_matrix _ j m). destruct (ex_jobpre _ j). reflexivity.
    + destruct (ex_jobpre _ j). reflexivity.
  - destruct (ex_step _ x). reflexivity.
  - destruct (ex_jobpost _ j). reflexivity.
Qed.

Lemma expression_view_kept (s : st rex) (j : jobT) :
  ex_view (fst (run rex s (job_events j))) = ex_view s.
Proof.
  apply (@run_invariant rex (fun s' => ex_view s' = ex_view s)); [|reflexivity].
  intros s0 e Hin H0. rewrite expression_view_step; [exact H0|].
  apply in_job_events in Hin. destruct Hin as [->|[[x ->]| ->]]; eauto.
Qed.

(* two states that differ in rule.workflow only *)
Definition ex_sim (a b : exstT) : Prop := env_of a = env_of b.

Lemma ex_sim_step (a b : st rex) (e : eventT) :
  ex_sim a b -> (exists x, e = StepE x) \/ (exists j, e = JobPost j) ->
  snd (step rex a e) = snd (step rex b e) /\ ex_sim (fst (step rex a e)) (fst (step rex b e)).
Proof.
  unfold ex_sim. intros H [[x ->]|[j ->]]; cbn [rex r_expression step expression_step]; rewrite H.
  - destruct (ex_step (env_of b) x) as [d m']. cbn [fst snd]. split; [reflexivity|].
    destruct a as [a1 a2 a3 a4 a5 a6 a7 a8], b as [b1 b2 b3 b4 b5 b6 b7 b8].
    unfold env_of, set_steps, set_matrix, set_needs in *. cbn in *. inversion H. subst. reflexivity.
  - destruct (ex_jobpost (env_of b) j) as [d m']. cbn [fst snd]. split; [reflexivity|].
    destruct a as [a1 a2 a3 a4 a5 a6 a7 a8], b as [b1 b2 b3 b4 b5 b6 b7 b8].
    unfold env_of, set_steps, set_matrix, set_needs in *. cbn in *. inversion H. subst. reflexivity.
Qed.

Lemma ex_sim_run : forall (es : list eventT) (a b : st rex),
  ex_sim a b ->
  (forall e, In e es -> (exists x, e = StepE x) \/ (exists j, e = JobPost j)) ->
  snd (run rex a es) = snd (run rex b es).
Proof.
  induction es as [|e t IH]; intros a b H Hes; [reflexivity|].
  rewrite !run_cons. cbn [snd].
  destruct (@ex_sim_step a b e H (Hes e (or_introl eq_refl))) as [Hd Hs].
  rewrite Hd. f_equal. apply IH; [exact Hs|]. intros e0 Hin. apply Hes. now right.
Qed.

Lemma calc_needs_agree (js js' : list jobT) (root : jobT) : forall (ns : list string) (out : needsT CT),
  (forall n, In n ns ->
     option_map (fun k => (j_outputs k, j_is_call k, ex_call_out k)) (find_job (lower n) js) =
     option_map (fun k => (j_outputs k, j_is_call k, ex_call_out k)) (find_job (lower n) js')) ->
  calc_needs ex_call_out js root out ns = calc_needs ex_call_out js' root out ns.
Proof.
  induction ns as [|n t IH]; intros out A; [reflexivity|].
  cbn [calc_needs].
  assert (forall o, calc_needs ex_call_out js root o t = calc_needs ex_call_out js' root o t) as IH'
    by (intros o; apply IH; intros m Hm; apply A; now right).
  destruct (String.eqb (lower n) (j_id root)); [apply IH'|].
  destruct (lookup (lower n) out); [apply IH'|].
  specialize (A n (or_introl eq_refl)).
  destruct (find_job (lower n) js) as [k|]; destruct (find_job (lower n) js') as [k'|]; cbn in A; try discriminate.
  - inversion A as [[H1 H2 H3]]. rewrite H1, H2, H3. apply IH'.
  - apply IH'.
Qed.

Definition ex_jdecl (k : jobT) := (j_outputs k, j_is_call k, ex_call_out k).

Definition cert_expression : cert rex.
Proof.
  refine (@mkCert _ _ _ _ _ rex _ _ _ ex_jp ex_view ex_mk (None, None, None)
            (fun v _ => v) ex_jdecl _ _ _ _ _ _ _).
  - intros [a b c0 d e f g h]. reflexivity.
  - intros w. reflexivity.
  - intros s j _. apply expression_reset_any.
  - intros s j _. apply expression_view_kept.
  - reflexivity.
  - intros w js js' j A.
    unfold job_events. rewrite !run_cons. cbn [snd].
    assert (calc_needs ex_call_out js j [] (j_needs j) = calc_needs ex_call_out js' j [] (j_needs j)) as Hn
      by (apply calc_needs_agree; exact A).
    match goal with |- ?d1 :: snd (run rex ?s1 ?es) = ?d2 :: snd (run rex ?s2 ?es) =>
      assert (d1 = d2 /\ ex_sim s1 s2) as [Hd Hs] end.
    { unfold after_wfpre. cbn [rex r_expression step init expression_step ex_view ex_mk fst snd
                               with_jobs w_jobs w_call w_call_secrets w_dispatch wf_jobs_of x_workflow
                               x_secrets x_inputs x_dispatch x_jobs ex_init].
      rewrite Hn. unfold ex_sim.
      destruct (j_matrix j) as [m|]; cbn [env_of set_needs set_matrix set_steps x_matrix x_steps x_needs
                                          x_secrets x_inputs x_dispatch x_jobs x_workflow].
      - destruct (ex_matrix _ j m) as [mt d]. cbn [env_of set_needs set_matrix set_steps x_matrix x_steps x_needs
                                          x_secrets x_inputs x_dispatch x_jobs x_workflow].
        destruct (ex_jobpre _ j) as [d2 m']. cbn. split; reflexivity.
      - destruct (ex_jobpre _ j) as [d2 m']. cbn. split; reflexivity. }
    rewrite Hd. f_equal. apply ex_sim_run; [exact Hs|].
    intros e Hin. apply in_app_or in Hin. destruct Hin as [Hin|[<-|[]]].
    + apply in_map_iff in Hin. destruct Hin as [x [<- _]]. left. now exists x.
    + right. now exists j.
  - intros s x Hx. cbn [rex r_expression step expression_step].
    pose proof (ex_step_pure (env_of s) x) as Hp.
    destruct (ex_step (env_of s) x) as [d m']. cbn [fst snd] in *. subst m'.
    unfold add_step. rewrite Hx. destruct s. reflexivity.
Defined.

(* what an id-carrying step leaves behind for the later steps of its job: its
   lower-cased id, the outputs type of its action and whether the id is dynamic *)
Theorem expression_step_trace (s : st rex) (x y : stepT) :
  s_id x = s_id y -> ex_step_out x = ex_step_out y ->
  fst (step rex s (StepE x)) = fst (step rex s (StepE y)).
Proof.
  intros Hi Ho. cbn [rex r_expression step expression_step].
  pose proof (ex_step_pure (env_of s) x) as Hx. pose proof (ex_step_pure (env_of s) y) as Hy.
  destruct (ex_step (env_of s) x) as [d1 m1]. destruct (ex_step (env_of s) y) as [d2 m2].
  cbn [fst snd] in *. subst. unfold add_step. now rewrite Hi, Ho.
Qed.

(* ------------------------------------------------------------ all of them *)
Let rall : ruleT :=
  r_all sn_wf sn_job sn_step sc_run py_run id_job id_conv id_dup rl_one rl_many
        jn_needs_dups jn_dup_job jn_post
        ex_call_out ex_step_out hdr_inputs hdr_secrets hdr_dispatch hdr_jobs
        ex_wfpre ex_wfpost ex_matrix ex_jobpre ex_step ex_jobpost.

Definition cert_all : cert rall :=
  cert_prod cert_shellname (cert_prod cert_runnerlabel (cert_prod cert_jobneeds (cert_prod cert_id
    (cert_prod cert_expression (cert_prod cert_shellcheck cert_pyflakes))))).

End PerRule.

(* =================================================== cert-free formulations *)
Section Alone.
Variables HX JX SX MX diag : Type.
Variable r : rule HX JX SX MX diag.
Variable c : cert r.

(* what job j gets when it is the first job visited after VisitWorkflowPre of w *)
Definition job_result (w : wfT HX JX SX MX) (j : jobT JX SX MX) : list (list diag) :=
  snd (run r (after_wfpre r w) (job_events j)).

Lemma jdiags_job_result w j : jdiags c (view c (after_wfpre r w)) j = job_result w j.
Proof. unfold jdiags, job_result. now rewrite <- (clean_is_mk c (after_wfpre r w) (c_init c w)). Qed.

Theorem job_diags_alone (w : wfT HX JX SX MX) :
  NoDup (map (@jkey _ _ _) (w_jobs w)) ->
  lint_jobs r w = map (fun j => (j, job_result w j)) (w_jobs w).
Proof.
  intros ND. rewrite (job_diags_local_gen c w ND). apply map_ext. intros j. now rewrite jdiags_job_result.
Qed.

Theorem job_result_needs_only (w : wfT HX JX SX MX) js js' j :
  needs_agree (jdecl c) js js' j ->
  job_result (with_jobs w js) j = job_result (with_jobs w js') j.
Proof. intros A. rewrite <- !jdiags_job_result. unfold jdiags. now apply c_hdr. Qed.
End Alone.

(* ============================================== the linter's stateful passes *)
Section Final.
Variables HX JX SX MX diag MT OT CT IT ST DT JT : Type.
Notation jobT := (jobT JX SX MX).
Notation stepT := (stepT SX).
Notation wfT := (wfT HX JX SX MX).
Notation exstT := (exst HX JX SX MX MT OT CT IT ST DT JT).

(* the stateless parts: arbitrary *)
Record checks := mkChecks {
  k_sn_wf : platform -> wfT -> list diag;
  k_sn_job : platform -> jobT -> list diag;
  k_sn_step : platform -> stepT -> list diag;
  k_sc_run : string -> stepT -> list diag;
  k_py_run : stepT -> list diag;
  k_id_job : jobT -> list diag;
  k_id_conv : stepT -> list diag;
  k_id_dup : stepT -> stepT -> list diag;
  k_rl_one : jobT -> list diag;
  k_rl_many : jobT -> list diag;
  k_jn_needs_dups : jobT -> list diag;
  k_jn_dup_job : jobT -> jobT -> list diag;
  k_jn_post : jnst JX SX MX -> list diag;
  k_ex_call_out : jobT -> CT;
  k_ex_step_out : stepT -> OT;
  k_hdr_inputs : wfT -> IT;
  k_hdr_secrets : wfT -> ST;
  k_hdr_dispatch : wfT -> DT;
  k_hdr_jobs : wfT -> JT;
  k_ex_wfpre : wfT -> list diag;
  k_ex_wfpost : exstT -> wfT -> list diag;
  k_ex_matrix : exstT -> jobT -> MX -> MT * list diag;
  k_ex_jobpre : exstT -> jobT -> list diag * option MT;
  k_ex_step : exstT -> stepT -> list diag * option MT;
  k_ex_jobpost : exstT -> jobT -> list diag * option MT }.

Definition linter (k : checks) : rule HX JX SX MX diag :=
  r_all (k_sn_wf k) (k_sn_job k) (k_sn_step k) (k_sc_run k) (k_py_run k) (k_id_job k) (k_id_conv k) (k_id_dup k)
        (k_rl_one k) (k_rl_many k) (k_jn_needs_dups k) (k_jn_dup_job k) (k_jn_post k)
        (k_ex_call_out k) (k_ex_step_out k) (k_hdr_inputs k) (k_hdr_secrets k) (k_hdr_dispatch k) (k_hdr_jobs k)
        (k_ex_wfpre k) (k_ex_wfpost k) (k_ex_matrix k) (k_ex_jobpre k) (k_ex_step k) (k_ex_jobpost k).

(* the expression checks of a step do not modify the shared matrix type *)
Definition pure_checks (k : checks) : Prop := forall e x, snd (k_ex_step k e x) = x_matrix e.

Definition linter_cert (k : checks) (Hp : pure_checks k) : cert (linter k) :=
  cert_all (k_sn_wf k) (k_sn_job k) (k_sn_step k) (k_sc_run k) (k_py_run k) (k_id_job k) (k_id_conv k) (k_id_dup k)
        (k_rl_one k) (k_rl_many k) (k_jn_needs_dups k) (k_jn_dup_job k) (k_jn_post k)
        (k_ex_call_out k) (k_ex_step_out k) (k_hdr_inputs k) (k_hdr_secrets k) (k_hdr_dispatch k) (k_hdr_jobs k)
        (k_ex_wfpre k) (k_ex_wfpost k) (k_ex_matrix k) (k_ex_jobpre k) (k_ex_step k) (k_ex_jobpost k) Hp.

(* what a needed job contributes: its output names, whether it calls a
   reusable workflow, and that workflow's outputs *)
Definition needed_decl (k : checks) (j : jobT) := (j_outputs j, j_is_call j, k_ex_call_out k j).

Lemma needs_agree_linter k (Hp : pure_checks k) js js' j :
  needs_agree (needed_decl k) js js' j -> needs_agree (jdecl (linter_cert Hp)) js js' j.
Proof.
  intros A n Hn. specialize (A n Hn).
  destruct (find_job (lower n) js); destruct (find_job (lower n) js'); cbn in *; try discriminate; [|reflexivity].
  inversion A as [[H1 H2 H3]]. unfold ex_jdecl. now rewrite H1, H2, H3.
Qed.

Theorem linter_job_diags_local k (Hp : pure_checks k) (w : wfT) :
  NoDup (map (@jkey _ _ _) (w_jobs w)) ->
  lint_jobs (linter k) w = map (fun j => (j, job_result (linter k) w j)) (w_jobs w).
Proof. apply (job_diags_alone (linter_cert Hp)). Qed.

Theorem linter_job_needs_only k (Hp : pure_checks k) (w : wfT) js js' j :
  needs_agree (needed_decl k) js js' j ->
  job_result (linter k) (with_jobs w js) j = job_result (linter k) (with_jobs w js') j.
Proof. intros A. apply (job_result_needs_only (linter_cert Hp)). now apply needs_agree_linter. Qed.

Theorem linter_jobs_perm k (Hp : pure_checks k) (w : wfT) js js' :
  Permutation js js' -> NoDup (map (@jkey _ _ _) js) ->
  Permutation (lint_jobs (linter k) (with_jobs w js)) (lint_jobs (linter k) (with_jobs w js')).
Proof. apply (jobs_perm_gen (linter_cert Hp)). Qed.

Theorem linter_jobs_add_remove k (Hp : pure_checks k) (w : wfT) js1 js2 j0 :
  NoDup (map (@jkey _ _ _) (js1 ++ j0 :: js2)) ->
  (forall j, In j (js1 ++ js2) -> ~ In (jkey j0) (map lower (j_needs j))) ->
  exists g dk,
    lint_jobs (linter k) (with_jobs w (js1 ++ j0 :: js2)) = map g js1 ++ (j0, dk) :: map g js2 /\
    lint_jobs (linter k) (with_jobs w (js1 ++ js2)) = map g js1 ++ map g js2.
Proof. apply (jobs_add_remove_gen (linter_cert Hp)). Qed.

Theorem linter_step_noid_irrelevant k (Hp : pure_checks k) (s : st (linter k)) (a b : list stepT) (x : stepT) :
  Forall (fun y => s_id y = None) b ->
  snd (step (linter k) (fst (run (linter k) s (map (@StepE _ _ _ _) (a ++ b)))) (StepE x)) =
  snd (step (linter k) (fst (run (linter k) s (map (@StepE _ _ _ _) a))) (StepE x)).
Proof. apply (step_noid_irrelevant (linter_cert Hp)). Qed.

Theorem linter_visit_diags k (Hp : pure_checks k) (w : wfT) :
  snd (run (linter k) (init (linter k)) (visit w)) =
  snd (step (linter k) (init (linter k)) (WfPre w)) :: concat (map snd (lint_jobs (linter k) w)) ++
  [snd (step (linter k) (fst (run (linter k) (after_wfpre (linter k) w) (flat_map job_events (w_jobs w)))) (WfPost w))].
Proof. apply (visit_diags (linter k)). Qed.

Theorem linter_clean_before_wfpost k (Hp : pure_checks k) (w : wfT) :
  jp (linter_cert Hp) (fst (run (linter k) (after_wfpre (linter k) w) (flat_map job_events (w_jobs w)))) =
  jp0 (linter_cert Hp).
Proof. apply clean_before_wfpost. Qed.

End Final.

(* forgetting `rule.matrixTy = nil` in VisitJobPost leaves the matrix type of a
   job behind: the reset theorem fails for that variant *)
Definition noclear_rule : rule unit unit unit unit unit :=
  r_expression_noclear (MT := unit) (OT := unit) (CT := unit) (IT := unit) (ST := unit) (DT := unit) (JT := unit)
    (fun _ => tt) (fun _ => tt) (fun _ => tt) (fun _ => tt) (fun _ => tt) (fun _ => tt)
    (fun _ => []) (fun _ _ => []) (fun _ _ _ => (tt, [])) (fun e _ => ([], x_matrix e))
    (fun e _ => ([], x_matrix e)) (fun e _ => ([], x_matrix e)).
Definition noclear_job : jobT unit unit unit := mkJob "a" [] (Some ["ubuntu-latest"]) None (Some tt) [] false [] tt.
Definition plain_job : jobT unit unit unit := mkJob "b" [] (Some ["ubuntu-latest"]) None None [] false [] tt.

Theorem matrix_noclear_refuted :
  x_matrix (fst (run noclear_rule (init noclear_rule) (job_events noclear_job))) <> None
  /\ x_matrix (fst (run noclear_rule (init noclear_rule) (job_events noclear_job ++ [JobPre plain_job]))) = Some tt.
Proof. split; vm_compute; [discriminate|reflexivity]. Qed.

(* ======================= tying [pure_checks] to the modelled expression checker *)
From AL Require Import Wf.StateExpr.

(* the checks of a step, as RuleExpression performs them: every placeholder of
   the step is checked by a fresh checker that receives rule.matrixTy itself *)
Section StepCheck.
Variables HX JX SX MX OT CT IT ST DT JT : Type.
Variable exprs_of : stepT SX -> list sexpr.          (* the parsed placeholders of a step *)

Definition step_check (inplace : bool) (e : exst HX JX SX MX ty OT CT IT ST DT JT) (x : stepT SX)
  : list N * option ty :=
  match x_matrix e with
  | None => (* the global table's entry: "matrix": NewEmptyStrictObjectType() *)
            (concat (map snd (fst (check_seq inplace [("matrix", TObj [] None)] (exprs_of x)))), None)
  | Some m =>
      let '(rs, env') := check_seq inplace [("matrix", m)] (exprs_of x) in
      (concat (map snd rs), lookup "matrix" env')
  end.

Theorem step_check_pure : forall e x, snd (step_check false e x) = x_matrix e.
Proof.
  intros e x. unfold step_check. destruct (x_matrix e) as [m|]; [|reflexivity].
  pose proof (check_seq_new_pure (exprs_of x) [("matrix", m)]) as H.
  destruct (check_seq false [("matrix", m)] (exprs_of x)) as [rs env']. cbn in H. subst env'. reflexivity.
Qed.
End StepCheck.

(* before the fix the same construction is not pure *)
Theorem step_check_old_refuted :
  exists (e : exst unit unit unit unit ty unit unit unit unit unit unit) (x : stepT unit),
    snd (step_check (fun _ => [leak_e1]) true e x) <> x_matrix e.
Proof.
  exists (mkEx (match lookup "matrix" leak_env with Some m => Some m | None => None end)
               None None None None None None None), (mkStep None true true None tt).
  vm_compute. discriminate.
Qed.

(* the hypotheses of the linter-level theorems are satisfiable by a non-trivial
   value: a bundle whose step checks are the modelled expression checker run
   over the placeholders of the step (here: every step evaluates
   matrix.x.*.y and then matrix.x.y), on a workflow of two jobs *)
Definition example_checks : checks unit unit unit unit N ty unit unit unit unit unit unit :=
  mkChecks (fun _ _ => []) (fun _ _ => []) (fun _ _ => []) (fun _ _ => []) (fun _ => [])
           (fun _ => []) (fun _ => []) (fun _ _ => []) (fun _ => []) (fun _ => [])
           (fun _ => []) (fun _ _ => []) (fun _ => [])
           (fun _ => tt) (fun _ => tt) (fun _ => tt) (fun _ => tt) (fun _ => tt) (fun _ => tt)
           (fun _ => []) (fun _ _ => [])
           (fun _ _ _ => (match lookup "matrix" leak_env with Some m => m | None => TAny end, []))
           (fun e _ => ([], x_matrix e))
           (step_check (fun _ => [leak_e1; leak_e2]) false)
           (fun e _ => ([], x_matrix e)).

Example example_checks_pure : pure_checks example_checks.
Proof. intros e x. apply step_check_pure. Qed.

Definition example_wf : wfT unit unit unit unit :=
  mkWf None false false false false tt
    [mkJob "a" [] (Some ["ubuntu-latest"]) None (Some tt) ["o"] false [mkStep (Some "s") true true None tt] tt;
     mkJob "b" ["a"] (Some ["windows-latest"]) None None [] false [mkStep None true true None tt] tt].

Example example_wf_nodup : NoDup (map (@jkey _ _ _) (w_jobs example_wf)).
Proof. repeat constructor; cbn; intuition discriminate. Qed.

(* in job a the second placeholder of the step is reported (class 3: receiver of
   object dereference must be an object), unaffected by the first one *)
Example example_step_diags :
  map snd (lint_jobs (linter example_checks) example_wf) = [[[]; [3%N]; []]; [[]; [2%N; 2%N]; []]].
Proof. vm_compute. reflexivity. Qed.
