(* Wf/StateProofs.v — locality of the stateful rules (property C09).

   A *certificate* [cert r] splits the state of a rule into a per-job part and a
   workflow-level view and states: the per-job part is back at its initial
   value after every job block; a job block changes the view only through
   [vupd]; blocks of jobs with other keys and jobs that are not needed do not
   influence a job's diagnostics; a step without id leaves no trace.  From a
   certificate the property theorems follow for every visiting history; the
   product of two certified rules is certified, and all seven stateful rules
   of RulesState.v are. *)
From AL Require Import Base.Str Base.AList Wf.RulesState.
Set Implicit Arguments.

Section Generic.
Variables HX JX SX MX diag : Type.
Notation ruleT := (rule HX JX SX MX diag).
Notation jobT := (jobT JX SX MX).
Notation stepT := (stepT SX).
Notation wfT := (wfT HX JX SX MX).
Notation eventT := (event HX JX SX MX).

Lemma run_app (r : ruleT) : forall (a b : list eventT) (s : st r),
  run r s (a ++ b) =
  (fst (run r (fst (run r s a)) b), snd (run r s a) ++ snd (run r (fst (run r s a)) b)).
Proof.
  induction a as [|e a IH]; intros b s; cbn.
  - now destruct (run r s b).
  - destruct (step r s e) as [s1 d]. rewrite IH.
    destruct (run r s1 a) as [s2 ds]. cbn. reflexivity.
Qed.

Lemma run_cons (r : ruleT) e (t : list eventT) (s : st r) :
  run r s (e :: t) =
  (fst (run r (fst (step r s e)) t), snd (step r s e) :: snd (run r (fst (step r s e)) t)).
Proof. cbn. destruct (step r s e) as [s1 d]. cbn. now destruct (run r s1 t). Qed.

(* what a needed job contributes: its declaration [jdecl] *)
Definition needs_agree (JD : Type) (jdecl : jobT -> JD) (js js' : list jobT) (j : jobT) : Prop :=
  forall n, In n (j_needs j) ->
    option_map jdecl (find_job (lower n) js) = option_map jdecl (find_job (lower n) js').

Record cert (r : ruleT) : Type := mkCert {
  JP : Type; V : Type; JD : Type;
  jp : st r -> JP;                 (* per-job fields *)
  view : st r -> V;                (* workflow-level fields *)
  mk : V -> JP -> st r;
  jp0 : JP;
  vupd : V -> jobT -> V;
  jdecl : jobT -> JD;
  c_mk : forall s, mk (view s) (jp s) = s;
  c_init : forall w, jp (after_wfpre r w) = jp0;
  c_reset : forall s j, jp s = jp0 -> jp (fst (run r s (job_events j))) = jp0;
  c_view : forall s j, jp s = jp0 -> view (fst (run r s (job_events j))) = vupd (view s) j;
  c_frame : forall v k j, jkey k <> jkey j ->
    snd (run r (mk (vupd v k) jp0) (job_events j)) = snd (run r (mk v jp0) (job_events j));
  c_hdr : forall w js js' j, needs_agree jdecl js js' j ->
    snd (run r (mk (view (after_wfpre r (with_jobs w js))) jp0) (job_events j)) =
    snd (run r (mk (view (after_wfpre r (with_jobs w js'))) jp0) (job_events j));
  c_noid : forall s x, s_id x = None -> fst (step r s (StepE x)) = s
}.

(* the diagnostics of a job block as a function of the header view and the job *)
Definition jdiags (r : ruleT) (c : cert r) (v : V c) (j : jobT) : list (list diag) :=
  snd (run r (mk c v (jp0 c)) (job_events j)).

Section FromCert.
Variable r : ruleT.
Variable c : cert r.

Lemma clean_is_mk s : jp c s = jp0 c -> s = mk c (view c s) (jp0 c).
Proof. intros H. rewrite <- H. symmetry. apply c_mk. Qed.

Lemma blocks_spec : forall (js : list jobT) (s : st r),
  jp c s = jp0 c -> NoDup (map (@jkey _ _ _) js) ->
  blocks r s js = map (fun j => (j, jdiags c (view c s) j)) js.
Proof.
  induction js as [|j t IH]; intros s Hs ND; cbn [blocks map]; [reflexivity|].
  inversion ND as [|? ? Hn ND']; subst.
  destruct (run r s (job_events j)) as [s1 d] eqn:E.
  assert (jp c s1 = jp0 c) as H1 by (pose proof (c_reset c s j Hs) as R; now rewrite E in R).
  assert (view c s1 = vupd c (view c s) j) as H2 by (pose proof (c_view c s j Hs) as R; now rewrite E in R).
  f_equal.
  - f_equal. unfold jdiags. rewrite <- (clean_is_mk s Hs). now rewrite E.
  - rewrite (IH s1 H1 ND'). apply map_ext_in. intros k Hk. f_equal.
    unfold jdiags. rewrite H2. apply c_frame.
    intros Heq. apply Hn. rewrite Heq. now apply in_map.
Qed.

(* job_diags_local: for every visiting history, the per-event diagnostics of a
   job are a function of the workflow-level view after VisitWorkflowPre and the job *)
Theorem job_diags_local_gen (w : wfT) :
  NoDup (map (@jkey _ _ _) (w_jobs w)) ->
  lint_jobs r w = map (fun j => (j, jdiags c (view c (after_wfpre r w)) j)) (w_jobs w).
Proof. intros ND. unfold lint_jobs. apply blocks_spec; [apply c_init|exact ND]. Qed.

Lemma blocks_state_clean : forall (js : list jobT) (s : st r),
  jp c s = jp0 c -> jp c (fst (run r s (flat_map job_events js))) = jp0 c.
Proof.
  induction js as [|j t IH]; intros s Hs; cbn [flat_map]; [exact Hs|].
  rewrite run_app. cbn [fst]. apply IH. now apply c_reset.
Qed.

(* the per-job state is clean before VisitWorkflowPost, whatever the jobs were *)
Theorem clean_before_wfpost (w : wfT) :
  jp c (fst (run r (after_wfpre r w) (flat_map job_events (w_jobs w)))) = jp0 c.
Proof. apply blocks_state_clean. apply c_init. Qed.

Lemma run_blocks : forall (js : list jobT) (s : st r),
  snd (run r s (flat_map job_events js)) = concat (map snd (blocks r s js)).
Proof.
  induction js as [|j t IH]; intros s; cbn [flat_map blocks]; [reflexivity|].
  rewrite run_app. cbn [snd]. destruct (run r s (job_events j)) as [s1 d]. cbn. now rewrite IH.
Qed.

(* the diagnostics of a whole visit, event by event *)
Theorem visit_diags (w : wfT) :
  snd (run r (init r) (visit w)) =
  snd (step r (init r) (WfPre w)) :: concat (map snd (lint_jobs r w)) ++
  [snd (step r (fst (run r (after_wfpre r w) (flat_map job_events (w_jobs w)))) (WfPost w))].
Proof.
  unfold visit. rewrite run_cons. cbn [snd]. f_equal.
  rewrite run_app. cbn [snd]. fold (after_wfpre r w). rewrite run_blocks. f_equal.
  cbn. destruct (step r _ (WfPost w)). reflexivity.
Qed.

Lemma find_job_perm (k : string) (js js' : list jobT) :
  Permutation js js' -> NoDup (map (@jkey _ _ _) js) -> find_job k js = find_job k js'.
Proof.
  intros P. induction P as [|x l l' P IH|x y l|l l' l'' P1 IH1 P2 IH2]; intros ND.
  - reflexivity.
  - cbn. inversion ND; subst. now rewrite IH.
  - cbn. inversion ND as [|? ? Hn ND']; subst.
    destruct (String.eqb k (jkey y)) eqn:Ey; destruct (String.eqb k (jkey x)) eqn:Ex; try reflexivity.
    apply String.eqb_eq in Ey. apply String.eqb_eq in Ex. exfalso. apply Hn. left. congruence.
  - rewrite IH1 by exact ND. apply IH2.
    eapply Permutation_NoDup; [|exact ND]. now apply Permutation_map.
Qed.

(* jobs_perm: any visiting order of the same jobs gives every job the same diagnostics *)
Theorem jobs_perm_gen (w : wfT) (js js' : list jobT) :
  Permutation js js' -> NoDup (map (@jkey _ _ _) js) ->
  Permutation (lint_jobs r (with_jobs w js)) (lint_jobs r (with_jobs w js')).
Proof.
  intros P ND.
  assert (NoDup (map (@jkey _ _ _) js')) as ND'
    by (eapply Permutation_NoDup; [|exact ND]; now apply Permutation_map).
  rewrite (job_diags_local_gen (with_jobs w js)) by exact ND.
  rewrite (job_diags_local_gen (with_jobs w js')) by exact ND'.
  cbn [w_jobs with_jobs].
  eapply Permutation_trans; [apply Permutation_map; exact P|].
  match goal with |- Permutation ?a ?b => assert (a = b) as ->; [|apply Permutation_refl] end.
  apply map_ext_in. intros j _. f_equal. unfold jdiags. apply c_hdr.
  intros n _. now rewrite (find_job_perm (lower n) P ND).
Qed.

Lemma find_job_app k (a b : list jobT) :
  find_job k (a ++ b) = match find_job k a with Some j => Some j | None => find_job k b end.
Proof. induction a as [|x a IH]; cbn; [reflexivity|]. now destruct (String.eqb k (jkey x)). Qed.

(* jobs_add_remove: a job that is not needed by the others can be added or
   removed anywhere without changing their diagnostics *)
Theorem jobs_add_remove_gen (w : wfT) (js1 js2 : list jobT) (k : jobT) :
  NoDup (map (@jkey _ _ _) (js1 ++ k :: js2)) ->
  (forall j, In j (js1 ++ js2) -> ~ In (jkey k) (map lower (j_needs j))) ->
  exists g dk,
    lint_jobs r (with_jobs w (js1 ++ k :: js2)) = map g js1 ++ (k, dk) :: map g js2 /\
    lint_jobs r (with_jobs w (js1 ++ js2)) = map g js1 ++ map g js2.
Proof.
  intros ND Hn.
  assert (NoDup (map (@jkey _ _ _) (js1 ++ js2))) as ND2.
  { rewrite map_app in *. cbn in ND. now apply NoDup_remove_1 in ND. }
  exists (fun j => (j, jdiags c (view c (after_wfpre r (with_jobs w (js1 ++ js2)))) j)).
  exists (jdiags c (view c (after_wfpre r (with_jobs w (js1 ++ k :: js2)))) k).
  rewrite (job_diags_local_gen (with_jobs w (js1 ++ k :: js2))) by exact ND.
  rewrite (job_diags_local_gen (with_jobs w (js1 ++ js2))) by exact ND2.
  cbn [w_jobs with_jobs]. rewrite !map_app. cbn [map].
  assert (forall j, In j (js1 ++ js2) ->
    jdiags c (view c (after_wfpre r (with_jobs w (js1 ++ k :: js2)))) j =
    jdiags c (view c (after_wfpre r (with_jobs w (js1 ++ js2)))) j) as Heq.
  { intros j Hj. unfold jdiags. apply c_hdr. intros n Hin.
    rewrite !find_job_app. cbn [find_job].
    destruct (String.eqb (lower n) (jkey k)) eqn:E; [|reflexivity].
    apply String.eqb_eq in E. exfalso. apply (Hn j Hj). rewrite <- E. now apply in_map. }
  split; [|reflexivity].
  f_equal; [|f_equal]; apply map_ext_in; intros j Hj; f_equal; apply Heq; apply in_or_app; auto.
Qed.

(* step_diags_local, generic part: earlier steps that carry no id leave no trace,
   so a step's diagnostics are those it gets directly after the id-carrying
   earlier steps; later steps never matter (they come later in the run) *)
Lemma run_noid_steps : forall (pre : list stepT) (s : st r),
  Forall (fun y => s_id y = None) pre -> fst (run r s (map (@StepE _ _ _ _) pre)) = s.
Proof.
  induction pre as [|y t IH]; intros s F; cbn [map]; [reflexivity|].
  inversion F as [|? ? Hy Ft]; subst. rewrite run_cons. cbn [fst].
  rewrite (c_noid c s y Hy). now apply IH.
Qed.

Theorem step_noid_irrelevant (s : st r) (a b : list stepT) (x : stepT) :
  Forall (fun y => s_id y = None) b ->
  snd (step r (fst (run r s (map (@StepE _ _ _ _) (a ++ b)))) (StepE x)) =
  snd (step r (fst (run r s (map (@StepE _ _ _ _) a))) (StepE x)).
Proof.
  intros F. rewrite map_app, run_app. cbn [fst]. now rewrite run_noid_steps.
Qed.

End FromCert.

(* ---------------------------------------------------------- product of rules *)
Fixpoint zipapp (a b : list (list diag)) : list (list diag) :=
  match a, b with
  | x :: a', y :: b' => (x ++ y) :: zipapp a' b'
  | _, _ => []
  end.

Lemma run_prod (r1 r2 : ruleT) : forall (es : list eventT) (s1 : st r1) (s2 : st r2),
  run (rprod r1 r2) (s1, s2) es =
  ((fst (run r1 s1 es), fst (run r2 s2 es)), zipapp (snd (run r1 s1 es)) (snd (run r2 s2 es))).
Proof.
  induction es as [|e t IH]; intros s1 s2; [reflexivity|].
  cbn [run]. cbn [rprod step fst snd].
  destruct (step r1 s1 e) as [a d1]. destruct (step r2 s2 e) as [b d2].
  rewrite IH. destruct (run r1 a t) as [a' ds1]. destruct (run r2 b t) as [b' ds2]. reflexivity.
Qed.

Definition cert_prod (r1 r2 : ruleT) (c1 : cert r1) (c2 : cert r2) : cert (rprod r1 r2).
Proof.
  refine (@mkCert (rprod r1 r2)
    (JP c1 * JP c2)%type (V c1 * V c2)%type (JD c1 * JD c2)%type
    (fun s => (jp c1 (fst s), jp c2 (snd s)))
    (fun s => (view c1 (fst s), view c2 (snd s)))
    (fun v p => (mk c1 (fst v) (fst p), mk c2 (snd v) (snd p)))
    (jp0 c1, jp0 c2)
    (fun v j => (vupd c1 (fst v) j, vupd c2 (snd v) j))
    (fun j => (jdecl c1 j, jdecl c2 j))
    _ _ _ _ _ _ _).
  - intros [s1 s2]. cbn. now rewrite !c_mk.
  - intros w. unfold after_wfpre. cbn [rprod step init fst snd].
    pose proof (c_init c1 w) as H1. pose proof (c_init c2 w) as H2. unfold after_wfpre in H1, H2.
    destruct (step r1 (init r1) (WfPre w)) as [a d1]. destruct (step r2 (init r2) (WfPre w)) as [b d2].
    cbn in *. now rewrite H1, H2.
  - intros [s1 s2] j H. cbn in H. inversion H as [[H1 H2]].
    rewrite run_prod. cbn [fst snd]. now rewrite (c_reset c1 s1 j H1), (c_reset c2 s2 j H2).
  - intros [s1 s2] j H. cbn in H. inversion H as [[H1 H2]].
    rewrite run_prod. cbn [fst snd]. now rewrite (c_view c1 s1 j H1), (c_view c2 s2 j H2).
  - intros [v1 v2] k j N. cbn [fst snd]. rewrite !run_prod. cbn [snd].
    now rewrite (c_frame c1 v1 k j N), (c_frame c2 v2 k j N).
  - intros w js js' j A. rewrite !run_prod. cbn [snd fst].
    assert (forall js0, after_wfpre (rprod r1 r2) (with_jobs w js0) =
                        (after_wfpre r1 (with_jobs w js0), after_wfpre r2 (with_jobs w js0))) as Haw.
    { intros js0. unfold after_wfpre. cbn [rprod step init fst snd].
      destruct (step r1 (init r1) _) as [a d1]. destruct (step r2 (init r2) _) as [b d2]. reflexivity. }
    rewrite !Haw. cbn [fst snd].
    assert (needs_agree (jdecl c1) js js' j) as A1.
    { intros n Hn. specialize (A n Hn). destruct (find_job (lower n) js); destruct (find_job (lower n) js'); cbn in *; congruence. }
    assert (needs_agree (jdecl c2) js js' j) as A2.
    { intros n Hn. specialize (A n Hn). destruct (find_job (lower n) js); destruct (find_job (lower n) js'); cbn in *; congruence. }
    now rewrite (c_hdr c1 w A1), (c_hdr c2 w A2).
  - intros [s1 s2] x Hx. cbn [rprod step fst snd].
    pose proof (c_noid c1 s1 x Hx) as H1. pose proof (c_noid c2 s2 x Hx) as H2.
    destruct (step r1 s1 (StepE x)) as [a d1]. destruct (step r2 s2 (StepE x)) as [b d2].
    cbn in *. now subst.
Defined.

(* a rule whose steps never change the state *)
Lemma run_steps_const (r : ruleT) (s : st r) :
  (forall x, fst (step r s (StepE x)) = s) ->
  forall xs : list stepT, fst (run r s (map (@StepE _ _ _ _) xs)) = s.
Proof.
  intros H. induction xs as [|x t IH]; [reflexivity|].
  cbn [map]. rewrite run_cons. cbn [fst]. now rewrite H.
Qed.

Lemma run_job_events (r : ruleT) (s : st r) (j : jobT) :
  fst (run r s (job_events j)) =
  fst (step r (fst (run r (fst (step r s (JobPre j))) (map (@StepE _ _ _ _) (j_steps j)))) (JobPost j)).
Proof.
  unfold job_events. rewrite run_cons. cbn [fst]. rewrite run_app. cbn [fst].
  cbn. now destruct (step r _ (JobPost j)).
Qed.

End Generic.
