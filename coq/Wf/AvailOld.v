(* Wf/AvailOld.v — the availability of a special function and the acceptance of its arguments.
   [check] with the oracle [sigok] is the code before the repair (the availability is looked at
   only when an overload accepts the call); with [sigok] = always true it is the code after it. *)
From AL Require Import Wf.Avail Wf.AvailProofs.
From Coq Require Import List String ZArith.
Import ListNotations.
Open Scope string_scope.

Lemma special_verdict_whatever_the_arguments : forall vars funcs specials ctxs sps e,
  calls_known funcs e -> forall p c, In (p, c) (calls e) -> In (lower c) specials ->
  (In (mk_diag p DFn c) (check vars funcs specials ctxs sps (fun _ => true) e) <-> ~ In (lower c) sps).
Proof.
  intros vars funcs specials ctxs sps e K p c Hc Hs.
  exact (special_verdict vars funcs specials ctxs sps (fun _ => true) e K p c Hc Hs eq_refl).
Qed.

Definition old_witness : expr := ECall (tp 0 1 1) "always" [EInt (tp 7 1 8) 1%Z].

Lemma special_unaccepted_call_old_refuted :
  exists vars funcs specials ctxs sps sigok e p c,
    calls_known funcs e /\ In (p, c) (calls e) /\ In (lower c) specials /\ ~ In (lower c) sps /\
    ~ In (mk_diag p DFn c) (check vars funcs specials ctxs sps sigok e).
Proof.
  exists [], ["always"], ["always"], [], [], (fun _ => false), old_witness, (tp 0 1 1), "always".
  split; [|split; [|split; [|split]]].
  - intros p c H. cbn in H. destruct H as [H|[]]. inversion H; subst. vm_compute. left. reflexivity.
  - cbn. left. reflexivity.
  - vm_compute. left. reflexivity.
  - intros [].
  - vm_compute. intros H. exact H.
Qed.
