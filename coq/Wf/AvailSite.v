(* Wf/AvailSite.v — the shape in which call sites of rule_expression.go are
   extracted (coq/Gen/GenRouteSites.v) and modelled (Wf/Avail.v). *)
From AL Require Export Base.Str.

(* the workflow-key argument of a call *)
Inductive kx :=
| KL (k : string)      (* string literal *)
| KP                   (* the enclosing function's own workflowKey parameter, unchanged *)
| KE (src : string)    (* any other expression (source text) *)
| KN.                  (* the callee takes no workflow key *)

Record site := mk_site {
  s_fn : string;             (* enclosing method of RuleExpression *)
  s_callee : string;         (* called method, or WorkflowKeyAvailability *)
  s_arg : string;            (* source text of the first argument *)
  s_occ : nat;               (* occurrence index of (s_fn, s_arg) inside s_fn *)
  s_key : kx;
  s_extra : list string      (* string literals passed after the key *)
}.
