(* Wf/CallsObs.v — the observables of the C14 model compared with the
   implementation by harness/cmd/c14: a sorted set of (class, name bytes) per
   lint, and the derived interface per generated declaration. *)
From AL Require Import Base.AList Base.Corr Wf.Calls Wf.RequiredExpr Gen.GenPopular.

Definition calls_bytes (s : string) : list N :=
  map (fun c => N.of_nat (nat_of_ascii c)) (list_ascii_of_string s).

Definition class_num (c : dclass) : N :=
  match c with
  | UnknownInput => 0 | MissingInput => 1 | UnknownSecret => 2
  | MissingSecret => 3 | UndefinedOutput => 4 | TypeMismatch => 5
  end%N.

Definition obs_of (ds : list diag) : list tuple :=
  map (fun d => class_num (fst d) :: calls_bytes (snd d)) ds.

(* the bundled data set as the model's table *)
Definition ameta_of_gen (g : list (string * string * bool) * list (string * string) * bool * bool) : ameta :=
  let '(ins, outs, si, so) := g in
  {| am_inputs := map (fun t => let '(id, n, r) := t in (id, {| ai_name := n; ai_required := r |})) ins;
     am_outputs := outs; am_skip_inputs := si; am_skip_outputs := so |}.

Definition popular_table : list (string * ameta) :=
  map (fun e => (fst e, ameta_of_gen (snd e))) gen_popular.

(* (A) a step using a spec of (or not of) the bundled data set *)
Definition run_pop (c : string * list string * list string) : list tuple :=
  let '(spec, names, refs) := c in
  obs_of (check_step_inputs popular_table gen_outdated spec None (parse_with names)
          ++ check_output_refs (action_outputs_type popular_table (Some spec) None) refs).

(* (B) a step using a generated local action "./act" *)
Definition run_local (c : list (string * adecl) * list string * list string * list string) : list tuple :=
  let '(ins, outs, names, refs) := c in
  let m := local_meta ins outs in
  obs_of (check_step_inputs [] [] "./act" m (parse_with names)
          ++ check_output_refs (action_outputs_type [] (Some "./act") m) refs).

(* (C) a job calling a generated reusable workflow; [ast] = the callee is part of
   the same run, so its interface may come from its AST *)
Definition run_wf (c : bool * list (string * wdecl) * list (string * option bool) * list string
                       * list (string * cvalue) * ysecrets * list string) : list tuple :=
  let '(ast, ins, secs, outs, with_, sec, refs) := c in
  let m := wf_meta ast ins secs outs in
  let call := parse_wcall with_ sec in
  obs_of (check_workflow_call m call
          ++ check_workflow_call_types (Some m) call
          ++ check_output_refs (workflow_outputs_type (Some m)) refs).

(* (D) the interface as the implementation sees it *)
Inductive derive_case :=
| DAction (ins : list (string * adecl)) (outs : list string)
| DWfFile (ins : list (string * wdecl)) (secs : list (string * option bool)) (outs : list string)
| DWfAst (ins : list (string * wdecl)) (secs : list (string * option bool)) (outs : list string)
(* the same with `required:` as written (Wf/RequiredExpr.v) *)
| DWfFileR (ins : list (string * wdeclr)) (secs : list (string * yreq)) (outs : list string)
| DWfAstR (ins : list (string * wdeclr)) (secs : list (string * yreq)) (outs : list string).

Definition derive_tuple (kind : N) (id name : string) (required : bool) (ty : N) : tuple :=
  ([kind; if required then 1%N else 0%N; ty; N.of_nat (String.length id)] ++ calls_bytes id ++ calls_bytes name)%list.

Definition dty_num (t : dty) : N := match t with DAny => 0 | DBool => 1 | DNumber => 2 | DString => 3 end%N.

Definition wmeta_tuples (m : wmeta) : list tuple :=
  map (fun kv => derive_tuple 0 (fst kv) (wi_name (snd kv)) (wi_required (snd kv)) (dty_num (wi_type (snd kv)))) (wm_inputs m)
  ++ map (fun kv => derive_tuple 1 (fst kv) (ws_name (snd kv)) (ws_required (snd kv)) 0) (wm_secrets m)
  ++ map (fun kv => derive_tuple 2 (fst kv) (snd kv) false 0) (wm_outputs m).

Definition run_derive (c : derive_case) : list tuple :=
  match c with
  | DAction ins outs =>
      match local_meta ins outs with
      | Some m =>
          map (fun kv => derive_tuple 0 (fst kv) (ai_name (snd kv)) (ai_required (snd kv)) 0) (am_inputs m)
          ++ map (fun kv => derive_tuple 2 (fst kv) (snd kv) false 0) (am_outputs m)
      | None => [[99%N]]
      end
  | DWfFile ins secs outs => wmeta_tuples (wf_meta false ins secs outs)
  | DWfAst ins secs outs => wmeta_tuples (wf_meta true ins secs outs)
  | DWfFileR ins secs outs =>
      match decode_inputs ins, decode_secrets secs with
      | Some i, Some s => wmeta_tuples (wf_meta false i s outs)
      | _, _ => [[99%N]]
      end
  | DWfAstR ins secs outs => wmeta_tuples (wf_meta true (ast_inputs ins) (ast_secrets secs) outs)
  end.
