(* Wf/AvailCanon.v — availability tables as finite maps: canonical form
   (rows sorted by key, names lower-cased and sorted), lookup, membership, and
   the "longest listed key that is a prefix of a canonical path" rule of
   DESIGN.md Appendix B (prefix by dotted segments: `jobs.<job_id>.env` is no
   prefix of `jobs.<job_id>.environment`). *)
From AL Require Export Base.Str.

Definition avail := (list string * list string)%type.   (* contexts, special functions *)
Definition row := (string * avail)%type.

Fixpoint insert_s (x : string) (l : list string) : list string :=
  match l with
  | [] => [x]
  | y :: l' => if String.leb x y then x :: l else y :: insert_s x l'
  end.
Definition sort_s (l : list string) : list string := fold_right insert_s [] l.

Definition canon_names (l : list string) : list string := sort_s (map lower l).

Fixpoint insert_row (r : row) (l : list row) : list row :=
  match l with
  | [] => [r]
  | y :: l' => if String.leb (fst r) (fst y) then r :: l else y :: insert_row r l'
  end.

Definition canon (rows : list row) : list row :=
  fold_right insert_row []
    (map (fun r => (fst r, (canon_names (fst (snd r)), canon_names (snd (snd r))))) rows).

Definition mem (x : string) (l : list string) : bool := existsb (String.eqb x) l.

Lemma mem_In x l : mem x l = true <-> In x l.
Proof.
  unfold mem. rewrite existsb_exists. split.
  - intros [y [Hy E]]. apply String.eqb_eq in E. now subst.
  - intros H. exists x. split; [assumption|apply String.eqb_refl].
Qed.

Lemma mem_false_In x l : mem x l = false <-> ~ In x l.
Proof. rewrite <- mem_In. destruct (mem x l); intuition congruence. Qed.

(* WorkflowKeyAvailability(key): the row of the key; (nil, nil) for a key that is not listed *)
Definition lookup (t : list row) (k : string) : avail :=
  match find (fun r => String.eqb (fst r) k) t with
  | Some r => snd r
  | None => ([], [])
  end.

Definition seg_prefix (k p : string) : bool :=
  String.eqb k p || String.prefix (k ++ ".")%string p.

(* longest key of [keys] that is a segment prefix of [p] *)
Fixpoint llp_from (best : option string) (keys : list string) (p : string) : option string :=
  match keys with
  | [] => best
  | k :: ks =>
      let best' :=
        if seg_prefix k p then
          match best with
          | Some b => if String.length b <? String.length k then Some k else best
          | None => Some k
          end
        else best in
      llp_from best' ks p
  end.
Definition llp := llp_from None.

(* what the documentation demands at canonical path p: the row of the longest
   listed prefix; nothing when there is none *)
Definition spec_avail (t : list row) (p : string) : avail :=
  match llp (map fst t) p with
  | Some k => lookup t k
  | None => ([], [])
  end.

Definition strs_eqb (a b : list string) : bool :=
  (length a =? length b) && forallb (fun xy => String.eqb (fst xy) (snd xy)) (combine a b).

Lemma strs_eqb_eq a b : strs_eqb a b = true -> a = b.
Proof.
  unfold strs_eqb. revert b. induction a as [|x a IH]; intros [|y b] H; cbn in *; try discriminate; [reflexivity|].
  apply andb_prop in H. destruct H as [H1 H2]. apply andb_prop in H2. destruct H2 as [H2 H3].
  apply String.eqb_eq in H2. subst y. f_equal. apply IH. now rewrite H1, H3.
Qed.

Definition avail_eqb (a b : avail) : bool := strs_eqb (fst a) (fst b) && strs_eqb (snd a) (snd b).

Lemma avail_eqb_eq a b : avail_eqb a b = true -> a = b.
Proof.
  destruct a, b. unfold avail_eqb. cbn. intros H. apply andb_prop in H. destruct H as [H1 H2].
  apply strs_eqb_eq in H1. apply strs_eqb_eq in H2. now subst.
Qed.
