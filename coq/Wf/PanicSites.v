(* Wf/PanicSites.v — where the package can raise a Go panic by construction, or start a goroutine
   whose panic no caller could recover.  The sites are listed from the source on every run
   (Gen/GenPanicSites.v, harness/cmd/c01/panics.go); here each is shown to be a known one:

     ClosedSwitch  panic("unreachable") in the default branch of a switch over a closed set: the
                   token kinds of the lexer, the node types the expression parser builds, the
                   comparison operators and operand types, the value kinds encoding/json decodes
                   to, the YAML node kinds ([C01_node_kind_name_total]: reached iff yaml.v3 hands
                   over an ill-formed kind), the alternatives of the deprecated-command pattern,
                   the Event and RawYAMLValue implementations, the platform kinds
     TableShape    a type assertion to ObjectType on an entry of the built-in variable table (`github`, its
                   `event`, `inputs`): objects by construction of BuiltinGlobalVariableTypes and
                   of every Update* method that replaces them
     Goroutine     errgroup.Go in LintFiles (one per file) and in concurrentProcess.run (one per
                   tool invocation; Proc/ProcModel.v)

   The streams of ./check C01 run the implementation under recover() on every generated input:
   a site of this list that can be reached shows up there.  A NEW explicit panic, unchecked
   assertion or goroutine makes [panic_sites_known_b] fail. *)
From AL Require Import Base.Str Gen.GenPanicSites.

Inductive panic_class := ClosedSwitch | TableShape | Goroutine.

Definition allowed : list (string * string * string * string * N * panic_class) := [
  ("assert", "expr_sema.go", "ExprSemanticsChecker.UpdateDispatchInputs", "sema.vars[""github""].(*ObjectType)", 0%N, TableShape);
  ("assert", "expr_sema.go", "ExprSemanticsChecker.UpdateDispatchInputs", "sema.vars[""github""].(*ObjectType).Props[""event""].(*ObjectType)", 0%N, TableShape);
  ("assert", "expr_sema.go", "ExprSemanticsChecker.UpdateInputs", "sema.vars[""inputs""].(*ObjectType)", 0%N, TableShape);
  ("goroutine", "linter.go", "Linter.LintFiles", "eg.Go", 0%N, Goroutine);
  ("goroutine", "process.go", "concurrentProcess.run", "eg.Go", 0%N, Goroutine);
  ("panic", "expr_lexer.go", "TokenKind.String", "panic(""unreachable"")", 0%N, ClosedSwitch);
  ("panic", "expr_sema.go", "ExprSemanticsChecker.check", "panic(""unreachable"")", 0%N, ClosedSwitch);
  ("panic", "expr_sema.go", "validateCompareOpOperands", "panic(""unreachable"")", 0%N, ClosedSwitch);
  ("panic", "expr_sema.go", "validateCompareOpOperands", "panic(""unreachable"")", 1%N, ClosedSwitch);
  ("panic", "expr_type.go", "typeOfJSONValue", "panic(v)", 0%N, ClosedSwitch);
  ("panic", "parse.go", "nodeKindName", "panic(fmt.Sprintf(""unreachable: unknown YAML kind: %v"", k))", 0%N, ClosedSwitch);
  ("panic", "rule_deprecated_commands.go", "RuleDeprecatedCommands.VisitStep", "panic(""unreachable"")", 0%N, ClosedSwitch);
  ("panic", "rule_events.go", "RuleEvents.checkEvent", "panic(""unreachable"")", 0%N, ClosedSwitch);
  ("panic", "rule_expression.go", "RuleExpression.checkRawYAMLValue", "panic(""unreachable"")", 0%N, ClosedSwitch);
  ("panic", "rule_shell_name.go", "getAvailableShellNames", "panic(""unreachable"")", 0%N, ClosedSwitch)
].

Definition site_eqb (a : string * string * string * string * N) (b : string * string * string * string * N * panic_class) : bool :=
  let '(k, f, g, t, n) := a in let '(k', f', g', t', n', _) := b in
  String.eqb k k' && String.eqb f f' && String.eqb g g' && String.eqb t t' && N.eqb n n'.

Definition known (s : string * string * string * string * N) : bool := existsb (site_eqb s) allowed.

Lemma panic_sites_known_b : forallb known panic_sites = true.
Proof. vm_compute. reflexivity. Qed.

Lemma site_eqb_eq a b : site_eqb a b = true -> fst b = a.
Proof.
  destruct a as [[[[k f] g] t] n], b as [[[[[k' f'] g'] t'] n'] c]. cbn.
  rewrite !Bool.andb_true_iff, !String.eqb_eq, N.eqb_eq. intros [[[[-> ->] ->] ->] ->]. reflexivity.
Qed.

Theorem panic_sites_known s : In s panic_sites -> exists c, In (s, c) allowed.
Proof.
  intros H. pose proof panic_sites_known_b as A. rewrite forallb_forall in A.
  specialize (A s H). unfold known in A. rewrite existsb_exists in A.
  destruct A as [[s' c] [Hin He]]. apply site_eqb_eq in He. cbn in He. subst s'. now exists c.
Qed.

Example panic_sites_nonempty : existsb (fun s => String.eqb (snd (fst (fst s))) "nodeKindName") panic_sites = true.
Proof. vm_compute. reflexivity. Qed.
