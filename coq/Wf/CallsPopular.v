(* Wf/CallsPopular.v — instances of the C14 theorems over the WHOLE bundled data
   set (Gen/GenPopular.v, regenerated from actionlint.PopularActions on every run),
   decided by vm_compute: the domain is finite. *)
From AL Require Import Base.AList Wf.Calls Wf.CallsProofs Wf.CallsObs Gen.GenPopular.

Fixpoint nodupb (l : list string) : bool :=
  match l with [] => true | x :: r => negb (str_mem x r) && nodupb r end.

Lemma nodupb_NoDup l : nodupb l = true -> NoDup l.
Proof.
  induction l as [|x r IH]; cbn; [constructor|]. intros H. apply andb_prop in H. destruct H as [H1 H2].
  constructor; [|auto]. apply negb_true_iff in H1. now apply str_mem_false in H1.
Qed.

Definition names_of (m : ameta) : list string := map (fun kv => ai_name (snd kv)) (am_inputs m).
Definition required_names (m : ameta) : list string :=
  map (fun kv => ai_name (snd kv)) (filter (fun kv => ai_required (snd kv)) (am_inputs m)).
Definition diag_eqb (a b : diag) : bool :=
  N.eqb (class_num (fst a)) (class_num (fst b)) && String.eqb (snd a) (snd b).
Fixpoint diags_eqb (a b : list diag) : bool :=
  match a, b with
  | [], [] => true
  | x :: a', y :: b' => diag_eqb x y && diags_eqb a' b'
  | _, _ => false
  end.
Definition all_specs (p : string -> ameta -> bool) : bool :=
  forallb (fun e => p (fst e) (snd e)) popular_table.

(* the data set is not empty and has the size the harness reports *)
Example popular_size : (100 <=? length popular_table)%nat = true.
Proof. vm_compute. reflexivity. Qed.

(* keys are the lower-cased names (so that the lower-cased ids of a call site find them)
   and are distinct; spec keys are distinct *)
Example popular_keys_lower :
  all_specs (fun _ m => forallb (fun kv => String.eqb (fst kv) (lower (ai_name (snd kv)))) (am_inputs m)
                        && forallb (fun kv => String.eqb (fst kv) (lower (snd kv))) (am_outputs m)) = true.
Proof. vm_compute. reflexivity. Qed.

Example popular_keys_distinct :
  all_specs (fun _ m => nodupb (map fst (am_inputs m)) && nodupb (map fst (am_outputs m))) = true
  /\ nodupb (map fst popular_table) = true.
Proof. split; vm_compute; reflexivity. Qed.

(* every spec has the form owner/repo@ref (checkRepoAction looks nothing up otherwise) *)
Example popular_spec_format :
  all_specs (fun s _ => match str_index "/" s, str_index "@" s with
                        | Some (S _), Some j => match str_index "/" s with Some i => (i <? j)%nat | None => false end
                        | _, _ => false end) = true.
Proof. vm_compute. reflexivity. Qed.

(* no bundled action is also listed as outdated *)
Example popular_not_outdated : all_specs (fun s _ => negb (str_mem s gen_outdated)) = true.
Proof. vm_compute. reflexivity. Qed.

(* a call without inputs: the inputs reported missing are exactly those stored with
   required = true (none for skip_inputs) *)
Example popular_required_exact :
  all_specs (fun s m =>
    diags_eqb (check_step_inputs popular_table gen_outdated s None (parse_with []))
              (if am_skip_inputs m then [] else map (fun n => (MissingInput, n)) (required_names m))) = true.
Proof. vm_compute. reflexivity. Qed.

(* all declared names supplied, as written or in the other letter case: nothing reported *)
Example popular_all_supplied_quiet :
  all_specs (fun s m =>
    diags_eqb (check_step_inputs popular_table gen_outdated s None (parse_with (names_of m))) []
    && diags_eqb (check_step_inputs popular_table gen_outdated s None (parse_with (map upper (names_of m)))) []) = true.
Proof. vm_compute. reflexivity. Qed.

(* only the required ones supplied: nothing reported *)
Example popular_required_only_quiet :
  all_specs (fun s m =>
    diags_eqb (check_step_inputs popular_table gen_outdated s None (parse_with (required_names m))) []) = true.
Proof. vm_compute. reflexivity. Qed.

(* one extra name: exactly that name is reported (unless skip_inputs) *)
Example popular_extra_reported :
  all_specs (fun s m =>
    diags_eqb (check_step_inputs popular_table gen_outdated s None (parse_with (names_of m ++ ["Zz-Extra"])))
              (if am_skip_inputs m then [] else [(UnknownInput, "Zz-Extra")])) = true.
Proof. vm_compute. reflexivity. Qed.

(* outputs: a declared output in any letter case is accepted; an undeclared one is
   reported iff the spec neither sets outputs dynamically nor is actions/github-script *)
Example popular_outputs :
  all_specs (fun s m =>
    let t := action_outputs_type popular_table (Some s) None in
    forallb (fun kv => negb (deref_reported t (upper (snd kv)))) (am_outputs m)
    && Bool.eqb (deref_reported t "zz_undeclared")
                (negb (am_skip_outputs m) && negb (String.prefix "actions/github-script@" s))) = true.
Proof. vm_compute. reflexivity. Qed.

(* outdated specs: no interface is known, nothing about inputs/outputs is reported *)
Example outdated_silent :
  forallb (fun s =>
    diags_eqb (check_step_inputs popular_table gen_outdated s None (parse_with ["anything"])) []
    && negb (deref_reported (action_outputs_type popular_table (Some s) None) "anything")) gen_outdated = true.
Proof. vm_compute. reflexivity. Qed.

(* the hypotheses of the generic theorems hold on the data set: NoDupKeys everywhere *)
Theorem popular_NoDupKeys s m : In (s, m) popular_table -> NoDupKeys (am_inputs m) /\ NoDupKeys (am_outputs m).
Proof.
  intros H. destruct popular_keys_distinct as [K _]. unfold all_specs in K.
  rewrite forallb_forall in K. specialize (K _ H). cbn in K. apply andb_prop in K. destruct K as [K1 K2].
  split; apply nodupb_NoDup; assumption.
Qed.

(* instance of missing_input_iff over the data set: for every bundled spec and EVERY
   call site, an input is reported missing iff it is stored as required and not supplied *)
Theorem popular_missing_iff s m names nm :
  In (s, m) popular_table -> am_skip_inputs m = false ->
  (In (MissingInput, nm) (check_step_inputs popular_table gen_outdated s None (parse_with names)) <->
   exists id i, In (id, i) (am_inputs m) /\ ai_name i = nm /\ ai_required i = true /\ ~ In id (map lower names)).
Proof.
  intros H Sk.
  assert (F : contains_expr s = false /\ String.prefix "./" s = false /\ String.prefix "docker://" s = false).
  { assert (K : all_specs (fun s _ => negb (contains_expr s) && negb (String.prefix "./" s) && negb (String.prefix "docker://" s)) = true)
      by (vm_compute; reflexivity).
    unfold all_specs in K. rewrite forallb_forall in K. specialize (K _ H). cbn in K.
    apply andb_prop in K. destruct K as [K K3]. apply andb_prop in K. destruct K as [K1 K2].
    rewrite !negb_true_iff in *. auto. }
  destruct F as [F1 [F2 F3]].
  assert (L : lookup s popular_table = Some m).
  { apply In_lookup; [|assumption]. apply nodupb_NoDup. apply (proj2 popular_keys_distinct). }
  unfold check_step_inputs. rewrite F1, F2, F3, L, Sk. apply missing_input_iff.
Qed.
