(* Wf/ScalarExit.v — Command.Main's exit status (command.go) as a total
   function of what happened: the outcome of flag parsing, the -version flag,
   whether runLinter returned a fatal error, and the number of diagnostics.

     if err := flags.Parse(args[1:]); err != nil {
         if err == flag.ErrHelp { return ExitStatusSuccessNoProblem }   // 0
         return ExitStatusInvalidCommandOption }                         // 2
     if ver { ...; return ExitStatusSuccessNoProblem }                   // 0
     errs, err := cmd.runLinter(...)
     if err != nil { ...; return ExitStatusFailure }                     // 3
     if len(errs) > 0 { return ExitStatusSuccessProblemFound }           // 1
     return ExitStatusSuccessNoProblem                                   // 0 *)
From Coq Require Import NArith List Bool Arith Lia.
Import ListNotations.

Inductive flag_outcome := FlagsOk | FlagsHelp | FlagsBad.

Definition exit_status (fl : flag_outcome) (version fatal : bool) (ndiag : nat) : N :=
  match fl with
  | FlagsHelp => 0%N
  | FlagsBad => 2%N
  | FlagsOk =>
      if version then 0%N
      else if fatal then 3%N
      else if 0 <? ndiag then 1%N else 0%N
  end.

Lemma exit_status_total fl v f n : In (exit_status fl v f n) [0; 1; 2; 3]%N.
Proof.
  unfold exit_status. destruct fl, v, f; try destruct (0 <? n); cbn; tauto.
Qed.

(* a fatal error of a lint run surfaces as status 3 and as nothing else;
   status 3 means nothing but a fatal error of a lint run *)
Lemma exit_status_3 fl v f n :
  exit_status fl v f n = 3%N <-> (fl = FlagsOk /\ v = false /\ f = true).
Proof.
  unfold exit_status. destruct fl, v, f; try destruct (0 <? n); split; intros H;
    try discriminate; try (intuition discriminate).
Qed.

Lemma exit_status_1 fl v f n :
  exit_status fl v f n = 1%N <-> (fl = FlagsOk /\ v = false /\ f = false /\ 0 < n).
Proof.
  unfold exit_status. destruct fl, v, f; try destruct (0 <? n) eqn:E; split; intros H;
    try discriminate; try (intuition discriminate).
  - apply Nat.ltb_lt in E. auto.
  - destruct H as [_ [_ [_ H]]]. apply Nat.ltb_lt in H. congruence.
Qed.

Lemma exit_status_2 fl v f n : exit_status fl v f n = 2%N <-> fl = FlagsBad.
Proof.
  unfold exit_status. destruct fl, v, f; try destruct (0 <? n); split; intros H;
    try discriminate; auto.
Qed.

(* a completed lint run: 0 iff no diagnostics *)
Lemma exit_status_lint_0 n : exit_status FlagsOk false false n = 0%N <-> n = 0.
Proof.
  unfold exit_status. destruct (0 <? n) eqn:E; split; intros H; try discriminate; try reflexivity.
  - apply Nat.ltb_lt in E. lia.
  - apply Nat.ltb_ge in E. lia.
Qed.
