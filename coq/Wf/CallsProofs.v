(* Wf/CallsProofs.v — proofs about the model Wf/Calls.v (property C14). *)
From AL Require Import Base.AList Wf.Calls.

(* a well-formed call site / declaration list: no name twice modulo letter case *)
Definition wf_names (names : list string) : Prop := NoDup (map lower names).

(* ------------------------------------------------------------------ str_mem *)

Lemma str_mem_In x l : str_mem x l = true <-> In x l.
Proof.
  unfold str_mem. rewrite existsb_exists. split.
  - intros [y [Hy E]]. apply String.eqb_eq in E. now subst.
  - intros H. exists x. split; [assumption|apply string_eqb_refl].
Qed.

Lemma str_mem_false x l : str_mem x l = false <-> ~ In x l.
Proof.
  rewrite <- str_mem_In. destruct (str_mem x l); split; intros H; congruence.
Qed.

(* ------------------------------------------------------------------ parse_mapping *)

Section ParseMapping.
Context {V : Type}.
Implicit Types kvs : list (string * V).

Definition lkeys kvs : list string := map (fun kv => lower (fst kv)) kvs.

Lemma parse_mapping_from_In seen kvs id k v :
  In (id, (k, v)) (parse_mapping_from seen kvs) -> id = lower k /\ In (k, v) kvs /\ ~ In id seen.
Proof.
  revert seen. induction kvs as [|[k0 v0] r IH]; intros seen; cbn; [intros []|].
  destruct (str_mem (lower k0) seen) eqn:E.
  - intros H. destruct (IH _ H) as [H1 [H2 H3]]. auto.
  - intros [H|H].
    + inversion H; subst. apply str_mem_false in E. auto.
    + destruct (IH _ H) as [H1 [H2 H3]]. repeat split; auto. intros H4. apply H3. now right.
Qed.

Lemma parse_mapping_from_keys seen kvs id :
  In id (map fst (parse_mapping_from seen kvs)) <-> In id (lkeys kvs) /\ ~ In id seen.
Proof.
  revert seen. induction kvs as [|[k0 v0] r IH]; intros seen; cbn.
  - tauto.
  - destruct (str_mem (lower k0) seen) eqn:E.
    + apply str_mem_In in E. rewrite IH. split.
      * intros [H1 H2]. auto.
      * intros [[H1|H1] H2]; [subst; tauto|auto].
    + apply str_mem_false in E. cbn. rewrite IH. cbn. split.
      * intros [H|[H1 H2]]; [subst; auto|]. split; [auto|]. intros H3. apply H2. now right.
      * intros [[H1|H1] H2]; [now left|].
        destruct (string_dec (lower k0) id) as [D|D]; [now left|right]. split; [assumption|].
        intros [H3|H3]; auto.
Qed.

Lemma parse_mapping_keys kvs id : In id (map fst (parse_mapping kvs)) <-> In id (lkeys kvs).
Proof. unfold parse_mapping. rewrite parse_mapping_from_keys. cbn. tauto. Qed.

(* without duplicates (modulo case) nothing is dropped *)
Lemma parse_mapping_from_nodup seen kvs :
  NoDup (lkeys kvs) -> (forall id, In id (lkeys kvs) -> ~ In id seen) ->
  parse_mapping_from seen kvs = map (fun kv => (lower (fst kv), kv)) kvs.
Proof.
  revert seen. induction kvs as [|[k0 v0] r IH]; intros seen ND Hs; cbn; [reflexivity|].
  cbn in ND. inversion ND as [|? ? Hn ND']; subst.
  replace (str_mem (lower k0) seen) with false.
  2:{ symmetry. apply str_mem_false. apply Hs. now left. }
  f_equal. apply IH; [assumption|].
  intros id Hid [H|H]; [subst; auto|]. apply (Hs id); [now right|assumption].
Qed.

Lemma parse_mapping_nodup kvs :
  NoDup (lkeys kvs) -> parse_mapping kvs = map (fun kv => (lower (fst kv), kv)) kvs.
Proof. intros ND. apply parse_mapping_from_nodup; [assumption|]. intros ? ? []. Qed.

Lemma parse_mapping_from_NoDup seen kvs : NoDup (map fst (parse_mapping_from seen kvs)).
Proof.
  revert seen. induction kvs as [|[k0 v0] r IH]; intros seen; cbn; [constructor|].
  destruct (str_mem (lower k0) seen) eqn:E; [apply IH|].
  cbn. constructor; [|apply IH].
  rewrite parse_mapping_from_keys. intros [_ H]. apply H. now left.
Qed.
End ParseMapping.

Lemma lkeys_names names : lkeys (map (fun n => (n, tt)) names) = map lower names.
Proof. unfold lkeys. rewrite map_map. reflexivity. Qed.

Lemma lookup_map_keys {V W} (f : string * V -> W) (m : list (string * V)) id :
  lookup id (map (fun e => (fst e, f e)) m) = None <-> ~ In id (map fst m).
Proof.
  rewrite lookup_None. unfold keys. rewrite map_map. cbn. tauto.
Qed.

(* ------------------------------------------------------------------ parse_with *)

Definition reserved_id (id : string) : Prop := id = "args" \/ id = "entrypoint".

Lemma parse_with_args names : ea_args (parse_with names) = true <-> In "args" (map lower names).
Proof.
  unfold parse_with. cbn [ea_args]. rewrite str_mem_In, parse_mapping_keys, lkeys_names. tauto.
Qed.

Lemma parse_with_entrypoint names : ea_entrypoint (parse_with names) = true <-> In "entrypoint" (map lower names).
Proof.
  unfold parse_with. cbn [ea_entrypoint]. rewrite str_mem_In, parse_mapping_keys, lkeys_names. tauto.
Qed.

Lemma parse_with_inputs_keys names id :
  In id (map fst (ea_inputs (parse_with names))) <-> In id (map lower names) /\ ~ reserved_id id.
Proof.
  unfold parse_with. cbn [ea_inputs]. rewrite map_map. cbn [fst].
  rewrite <- lkeys_names, <- parse_mapping_keys.
  set (m := parse_mapping (map (fun n => (n, tt)) names)). clearbody m.
  rewrite in_map_iff. split.
  - intros [e [E H]]. apply filter_In in H. destruct H as [H1 H2]. subst id.
    apply andb_prop in H2. destruct H2 as [H2 H3].
    apply negb_true_iff in H2. apply negb_true_iff in H3.
    apply String.eqb_neq in H2. apply String.eqb_neq in H3.
    split; [now apply in_map|]. unfold reserved_id. tauto.
  - intros [H1 H2]. apply in_map_iff in H1. destruct H1 as [e [E H1]]. exists e. split; [assumption|].
    apply filter_In. split; [assumption|]. rewrite E.
    unfold reserved_id in H2.
    apply andb_true_intro. split; apply negb_true_iff; apply String.eqb_neq; tauto.
Qed.

Lemma parse_with_inputs_In names id n :
  wf_names names ->
  (In (id, n) (ea_inputs (parse_with names)) <-> id = lower n /\ In n names /\ ~ reserved_id id).
Proof.
  intros W. unfold parse_with. cbn [ea_inputs].
  rewrite parse_mapping_nodup by (rewrite lkeys_names; exact W).
  rewrite in_map_iff. split.
  - intros [e [E H]]. apply filter_In in H. destruct H as [H1 H2].
    apply in_map_iff in H1. destruct H1 as [[n0 u] [E1 H1]]. subst e. cbn in *.
    apply in_map_iff in H1. destruct H1 as [n1 [E2 H1]]. inversion E2; subst n0 u. inversion E; subst id n.
    apply andb_prop in H2. destruct H2 as [H2 H3].
    apply negb_true_iff in H2. apply negb_true_iff in H3.
    apply String.eqb_neq in H2. apply String.eqb_neq in H3.
    repeat split; auto. unfold reserved_id. tauto.
  - intros [E [H1 H2]]. exists (lower n, (n, tt)). cbn. split; [now subst|].
    apply filter_In. split.
    + apply in_map_iff. exists (n, tt). split; [reflexivity|]. apply in_map_iff. now exists n.
    + cbn. unfold reserved_id in H2. subst id.
      apply andb_true_intro. split; apply negb_true_iff; apply String.eqb_neq; tauto.
Qed.

Lemma lookup_Some_iff_key {V} id (m : list (string * V)) : (exists v, lookup id m = Some v) <-> In id (map fst m).
Proof.
  split.
  - intros [v H]. now apply lookup_Some_key in H.
  - intros H. destruct (lookup id m) eqn:E; [eauto|]. apply lookup_None in E. contradiction.
Qed.

(* the call supplies [id] iff some name of `with:` lower-cases to it *)
Lemma supplied_iff names id : supplied (parse_with names) id = true <-> In id (map lower names).
Proof.
  unfold supplied.
  destruct (lookup id (ea_inputs (parse_with names))) as [n|] eqn:E.
  - split; [intros _|reflexivity].
    apply lookup_Some_key in E. apply parse_with_inputs_keys in E. tauto.
  - apply lookup_None in E. unfold keys in E. rewrite parse_with_inputs_keys in E.
    rewrite orb_true_iff, !andb_true_iff, !String.eqb_eq, parse_with_args, parse_with_entrypoint.
    split.
    + intros [[H1 H2]|[H1 H2]]; subst; assumption.
    + intros H. destruct (string_dec id "args") as [D|D]; [subst; now left|].
      destruct (string_dec id "entrypoint") as [D2|D2]; [subst; now right|].
      exfalso. apply E. split; [assumption|]. unfold reserved_id. tauto.
Qed.

Lemma supplied_old_iff names id :
  supplied_old (parse_with names) id = true <-> In id (map lower names) /\ ~ reserved_id id.
Proof.
  unfold supplied_old. rewrite <- parse_with_inputs_keys.
  destruct (lookup id (ea_inputs (parse_with names))) as [n|] eqn:E.
  - apply lookup_Some_key in E. tauto.
  - apply lookup_None in E. unfold keys in E. split; [discriminate|tauto].
Qed.

(* ------------------------------------------------------------------ checkAction *)

Lemma in_unknown_part {V W} (C : dclass) (M : list (string * W)) (g : string * V -> string) (L : list (string * V)) c n :
  In (c, n) (flat_map (fun kv => match lookup (fst kv) M with None => [(C, g kv)] | Some _ => [] end) L) <->
  c = C /\ exists kv, In kv L /\ lookup (fst kv) M = None /\ g kv = n.
Proof.
  rewrite in_flat_map. split.
  - intros [kv [H1 H2]]. destruct (lookup (fst kv) M) eqn:E; [destruct H2|].
    destruct H2 as [H2|[]]. inversion H2; subst. split; [reflexivity|]. exists kv. auto.
  - intros [E [kv [H1 [H2 H3]]]]. exists kv. split; [assumption|]. rewrite H2. left. now subst.
Qed.

Lemma in_missing_part {V} (C : dclass) (req sup : string * V -> bool) (nm : string * V -> string) (L : list (string * V)) c n :
  In (c, n) (flat_map (fun kv => if req kv && negb (sup kv) then [(C, nm kv)] else []) L) <->
  c = C /\ exists kv, In kv L /\ req kv = true /\ sup kv = false /\ nm kv = n.
Proof.
  rewrite in_flat_map. split.
  - intros [kv [H1 H2]]. destruct (req kv) eqn:E1; cbn in H2; [|destruct H2].
    destruct (sup kv) eqn:E2; cbn in H2; [destruct H2|].
    destruct H2 as [H2|[]]. inversion H2; subst. split; [reflexivity|]. exists kv. auto.
  - intros [E [kv [H1 [H2 [H3 H4]]]]]. exists kv. split; [assumption|]. rewrite H2, H3. left. now subst.
Qed.

Lemma check_action_gen_In sup m e c n :
  In (c, n) (check_action_gen sup m e) <->
  (c = UnknownInput /\ exists kv, In kv (ea_inputs e) /\ lookup (fst kv) (am_inputs m) = None /\ snd kv = n)
  \/ (c = MissingInput /\ exists kv, In kv (am_inputs m) /\ ai_required (snd kv) = true /\ sup e (fst kv) = false /\ ai_name (snd kv) = n).
Proof.
  unfold check_action_gen. rewrite in_app_iff.
  rewrite (in_unknown_part UnknownInput (am_inputs m) (fun kv => snd kv)).
  rewrite (in_missing_part MissingInput (fun kv => ai_required (snd kv)) (fun kv => sup e (fst kv)) (fun kv => ai_name (snd kv))).
  tauto.
Qed.

(* an input given at `with:` is reported iff the action does not declare it
   (the two keys the parser diverts are never reported) *)
Theorem unknown_input_iff m names n :
  wf_names names ->
  (In (UnknownInput, n) (check_action m (parse_with names)) <->
   In n names /\ lookup (lower n) (am_inputs m) = None /\ ~ reserved_id (lower n)).
Proof.
  intros W. unfold check_action. rewrite check_action_gen_In. split.
  - intros [[_ [[id n0] [H1 [H2 H3]]]]|[H _]]; [|discriminate]. cbn in *. subst n0.
    apply (parse_with_inputs_In names id n W) in H1. destruct H1 as [E [H1 H4]]. subst id. auto.
  - intros [H1 [H2 H3]]. left. split; [reflexivity|]. exists (lower n, n). cbn. repeat split; auto.
    apply parse_with_inputs_In; auto.
Qed.

(* a declared input is reported missing iff it is required (as derived) and no
   name of `with:` lower-cases to its id *)
Theorem missing_input_iff m names nm :
  In (MissingInput, nm) (check_action m (parse_with names)) <->
  exists id i, In (id, i) (am_inputs m) /\ ai_name i = nm /\ ai_required i = true /\ ~ In id (map lower names).
Proof.
  unfold check_action. rewrite check_action_gen_In. split.
  - intros [[H _]|[_ [[id i] [H1 [H2 [H3 H4]]]]]]; [discriminate|]. cbn in *.
    exists id, i. repeat split; auto. rewrite <- supplied_iff. congruence.
  - intros [id [i [H1 [H2 [H3 H4]]]]]. right. split; [reflexivity|]. exists (id, i). cbn. repeat split; auto.
    rewrite <- supplied_iff in H4. now destruct (supplied (parse_with names) id).
Qed.

(* only these two classes come out of checkAction *)
Lemma check_action_classes m e c n :
  In (c, n) (check_action m e) -> c = UnknownInput \/ c = MissingInput.
Proof. unfold check_action. rewrite check_action_gen_In. tauto. Qed.

(* before the fix: `with: args:` did not count as supplying a required input "args" *)
Lemma missing_input_old_refuted :
  exists m names, In "args" (map lower names) /\ In (MissingInput, "args") (check_action_old m (parse_with names)).
Proof.
  exists {| am_inputs := [("args", {| ai_name := "args"; ai_required := true |})]; am_outputs := [];
            am_skip_inputs := false; am_skip_outputs := false |}, ["args"].
  split; [cbn; auto|vm_compute; auto].
Qed.

(* recorded finding: the diverted keys are never reported as unknown *)
Lemma unknown_reserved_refuted :
  exists m names n, In n names /\ lookup (lower n) (am_inputs m) = None /\
                    ~ In (UnknownInput, n) (check_action m (parse_with names)).
Proof.
  exists {| am_inputs := []; am_outputs := []; am_skip_inputs := false; am_skip_outputs := false |}, ["args"], "args".
  split; [cbn; auto|]. split; [reflexivity|]. vm_compute. intros [].
Qed.

(* ------------------------------------------------------------------ which callee a step has *)

(* the interface a step is checked against: local metadata for "./", else the data set *)
Definition step_callee (table : list (string * ameta)) (uses : string) (local : option ameta) : option ameta :=
  if String.prefix "./" uses then local else lookup uses table.

Lemma check_step_inputs_spec table outdated uses local e :
  check_step_inputs table outdated uses local e =
  if contains_expr uses || (negb (String.prefix "./" uses) && String.prefix "docker://" uses) then []
  else match step_callee table uses local with
       | Some m => if negb (String.prefix "./" uses) && am_skip_inputs m then [] else check_action m e
       | None => []
       end.
Proof.
  unfold check_step_inputs, step_callee.
  destruct (contains_expr uses); cbn; [reflexivity|].
  destruct (String.prefix "./" uses); cbn; [reflexivity|].
  destruct (String.prefix "docker://" uses); reflexivity.
Qed.

(* ------------------------------------------------------------------ checkWorkflowCallUsesLocal *)

Lemma parse_wcall_inputs_In with_ sec id n v :
  wf_names (map fst with_) ->
  (In (id, (n, v)) (wc_inputs (parse_wcall with_ sec)) <-> id = lower n /\ In (n, v) with_).
Proof.
  intros W. cbn [parse_wcall wc_inputs].
  rewrite parse_mapping_nodup by (unfold lkeys; unfold wf_names in W; rewrite map_map in W; exact W).
  rewrite in_map_iff. split.
  - intros [[n0 v0] [E H]]. cbn in E. inversion E; subst. auto.
  - intros [E H]. exists (n, v). cbn. split; [now subst|assumption].
Qed.

Lemma parse_wcall_inputs_keys with_ sec id :
  In id (map fst (wc_inputs (parse_wcall with_ sec))) <-> In id (map lower (map fst with_)).
Proof.
  cbn [parse_wcall wc_inputs]. rewrite parse_mapping_keys. unfold lkeys. rewrite map_map. tauto.
Qed.

Lemma parse_wcall_secrets_keys with_ ss id :
  In id (map fst (wc_secrets (parse_wcall with_ (SecMap ss)))) <-> In id (map lower ss).
Proof.
  cbn [parse_wcall wc_secrets]. rewrite map_map. cbn [fst].
  rewrite parse_mapping_keys, lkeys_names. tauto.
Qed.

Lemma parse_wcall_secrets_In with_ ss id n :
  wf_names ss ->
  (In (id, n) (wc_secrets (parse_wcall with_ (SecMap ss))) <-> id = lower n /\ In n ss).
Proof.
  intros W. cbn [parse_wcall wc_secrets].
  rewrite parse_mapping_nodup by (rewrite lkeys_names; exact W).
  rewrite map_map, map_map. cbn. rewrite in_map_iff. split.
  - intros [n0 [E H]]. inversion E; subst. auto.
  - intros [E H]. exists n. split; [now subst|assumption].
Qed.

Lemma check_workflow_call_In m c cl n :
  In (cl, n) (check_workflow_call m c) <->
  (cl = MissingInput /\ exists kv, In kv (wm_inputs m) /\ wi_required (snd kv) = true /\
       str_mem (fst kv) (map fst (wc_inputs c)) = false /\ wi_name (snd kv) = n)
  \/ (cl = UnknownInput /\ exists kv, In kv (wc_inputs c) /\ lookup (fst kv) (wm_inputs m) = None /\ fst (snd kv) = n)
  \/ (wc_inherit c = false /\
      ((cl = MissingSecret /\ exists kv, In kv (wm_secrets m) /\ ws_required (snd kv) = true /\
           str_mem (fst kv) (map fst (wc_secrets c)) = false /\ ws_name (snd kv) = n)
       \/ (cl = UnknownSecret /\ exists kv, In kv (wc_secrets c) /\ lookup (fst kv) (wm_secrets m) = None /\ snd kv = n))).
Proof.
  unfold check_workflow_call. rewrite !in_app_iff.
  rewrite (in_missing_part MissingInput (fun kv => wi_required (snd kv))
             (fun kv => str_mem (fst kv) (map fst (wc_inputs c))) (fun kv => wi_name (snd kv))).
  rewrite (in_unknown_part UnknownInput (wm_inputs m) (fun kv => fst (snd kv))).
  destruct (wc_inherit c).
  - cbn [In]. intuition congruence.
  - rewrite in_app_iff.
    rewrite (in_missing_part MissingSecret (fun kv => ws_required (snd kv))
               (fun kv => str_mem (fst kv) (map fst (wc_secrets c))) (fun kv => ws_name (snd kv))).
    rewrite (in_unknown_part UnknownSecret (wm_secrets m) (fun kv => snd kv)).
    tauto.
Qed.

Theorem wf_unknown_input_iff m with_ sec n :
  wf_names (map fst with_) ->
  (In (UnknownInput, n) (check_workflow_call m (parse_wcall with_ sec)) <->
   In n (map fst with_) /\ lookup (lower n) (wm_inputs m) = None).
Proof.
  intros W. rewrite check_workflow_call_In. split.
  - intros [[H _]|[[_ [[id [n0 v]] [H1 [H2 H3]]]]|[_ [[H _]|[H _]]]]]; try discriminate.
    cbn in *. subst n0. apply (proj1 (parse_wcall_inputs_In with_ sec id n v W)) in H1. destruct H1 as [E H1]. subst id.
    split; [|assumption]. apply in_map_iff. now exists (n, v).
  - intros [H1 H2]. right. left. split; [reflexivity|].
    apply in_map_iff in H1. destruct H1 as [[n0 v] [E H1]]. cbn in E. subst n0.
    exists (lower n, (n, v)). cbn. repeat split; auto. apply parse_wcall_inputs_In; auto.
Qed.

Theorem wf_missing_input_iff m with_ sec nm :
  In (MissingInput, nm) (check_workflow_call m (parse_wcall with_ sec)) <->
  exists id i, In (id, i) (wm_inputs m) /\ wi_name i = nm /\ wi_required i = true /\ ~ In id (map lower (map fst with_)).
Proof.
  rewrite check_workflow_call_In. split.
  - intros [[_ [[id i] [H1 [H2 [H3 H4]]]]]|[[H _]|[_ [[H _]|[H _]]]]]; try discriminate.
    cbn [fst snd] in *. exists id, i. repeat split; auto.
    apply str_mem_false in H3. now rewrite parse_wcall_inputs_keys in H3.
  - intros [id [i [H1 [H2 [H3 H4]]]]]. left. split; [reflexivity|]. exists (id, i). cbn [fst snd]. repeat split; auto.
    apply str_mem_false. now rewrite parse_wcall_inputs_keys.
Qed.

Theorem wf_unknown_secret_iff m with_ sec n :
  (forall ss, sec = SecMap ss -> wf_names ss) ->
  (In (UnknownSecret, n) (check_workflow_call m (parse_wcall with_ sec)) <->
   exists ss, sec = SecMap ss /\ In n ss /\ lookup (lower n) (wm_secrets m) = None).
Proof.
  intros W. rewrite check_workflow_call_In. split.
  - intros [[H _]|[[H _]|[Hi [[H _]|[_ [[id n0] [H1 [H2 H3]]]]]]]]; try discriminate.
    cbn in H2, H3. subst n0. destruct sec as [| |ss]; cbn in H1; try contradiction.
    exists ss. split; [reflexivity|].
    apply (proj1 (parse_wcall_secrets_In with_ ss id n (W ss eq_refl))) in H1. destruct H1 as [E H1]. subst id. auto.
  - intros [ss [E [H1 H2]]]. subst sec. right. right. split; [reflexivity|]. right. split; [reflexivity|].
    exists (lower n, n). cbn [fst snd]. repeat split; auto.
    apply parse_wcall_secrets_In; auto.
Qed.

(* the names supplied at `secrets:` *)
Definition secret_names (sec : ysecrets) : list string :=
  match sec with SecMap ss => ss | _ => [] end.

Theorem wf_missing_secret_iff m with_ sec nm :
  In (MissingSecret, nm) (check_workflow_call m (parse_wcall with_ sec)) <->
  sec <> SecInherit /\
  exists id s, In (id, s) (wm_secrets m) /\ ws_name s = nm /\ ws_required s = true /\
               ~ In id (map lower (secret_names sec)).
Proof.
  rewrite check_workflow_call_In. split.
  - intros [[H _]|[[H _]|[Hi [[_ [[id s] [H1 [H2 [H3 H4]]]]]|[H _]]]]]; try discriminate.
    cbn [fst snd] in *. split; [intros E; subst sec; discriminate|].
    exists id, s. repeat split; auto. apply str_mem_false in H3.
    destruct sec as [| |ss]; cbn [secret_names]; [intros []|discriminate|].
    now rewrite parse_wcall_secrets_keys in H3.
  - intros [Hn [id [s [H1 [H2 [H3 H4]]]]]]. right. right.
    split; [destruct sec; cbn; congruence|]. left. split; [reflexivity|].
    exists (id, s). cbn [fst snd]. repeat split; auto. apply str_mem_false.
    destruct sec as [| |ss]; [intros []|congruence|]. now rewrite parse_wcall_secrets_keys.
Qed.

(* `secrets: inherit` silences both secret checks *)
Theorem wf_inherit_silent m with_ c n :
  In (c, n) (check_workflow_call m (parse_wcall with_ SecInherit)) -> c = MissingInput \/ c = UnknownInput.
Proof.
  rewrite check_workflow_call_In. cbn [parse_wcall wc_inherit].
  intros [[H _]|[[H _]|[H _]]]; auto. discriminate.
Qed.

(* ------------------------------------------------------------------ derivations *)

Definition ainput_of (kd : string * adecl) : string * ainput :=
  (lower (fst kd), {| ai_name := fst kd;
                      ai_required := req_true (ad_required (snd kd)) && no_default (ad_default (snd kd)) |}).

Lemma lookup_app_None {V} id (a b : list (string * V)) :
  lookup id (a ++ b) = None <-> lookup id a = None /\ lookup id b = None.
Proof. rewrite !lookup_None. unfold keys. rewrite map_app, in_app_iff. tauto. Qed.

Lemma derive_action_inputs_from_spec ds : forall acc m,
  derive_action_inputs_from acc ds = Some m -> m = (acc ++ map ainput_of ds)%list /\ NoDup (map (fun kd => lower (fst kd)) ds)
     /\ forall id, In id (map (fun kd => lower (fst kd)) ds) -> ~ In id (keys acc).
Proof.
  induction ds as [|[k d] r IH]; intros acc m; cbn.
  - intros H. inversion H. rewrite app_nil_r. repeat split; [constructor|intros ? []].
  - destruct (lookup (lower k) acc) eqn:E; [discriminate|]. intros H.
    apply IH in H. destruct H as [H1 [H2 H3]]. rewrite <- app_assoc in H1. cbn in H1.
    apply lookup_None in E.
    repeat split; [exact H1| |].
    + constructor; [|assumption]. intros Hin. apply (H3 _ Hin). unfold keys. rewrite map_app, in_app_iff. right. now left.
    + intros id [Hid|Hid]; [now subst|]. intros Hk. apply (H3 _ Hid). unfold keys. rewrite map_app, in_app_iff. now left.
Qed.

Lemma derive_action_inputs_from_some ds : forall acc,
  NoDup (map (fun kd => lower (fst kd)) ds) ->
  (forall id, In id (map (fun kd => lower (fst kd)) ds) -> ~ In id (keys acc)) ->
  derive_action_inputs_from acc ds = Some (acc ++ map ainput_of ds)%list.
Proof.
  induction ds as [|[k d] r IH]; intros acc ND Hf; cbn.
  - now rewrite app_nil_r.
  - inversion ND as [|? ? Hn ND']; subst.
    replace (lookup (lower k) acc) with (@None ainput).
    2:{ symmetry. apply lookup_None. apply Hf. now left. }
    rewrite IH; [now rewrite <- app_assoc|assumption|].
    intros id Hid. unfold keys. rewrite map_app, in_app_iff. cbn. intros [H|[H|[]]].
    + apply (Hf id); [now right|assumption].
    + subst. contradiction.
Qed.

(* (1) action.yml *)
Theorem derive_required_action ds :
  (forall m, derive_action_inputs ds = Some m -> m = map ainput_of ds /\ NoDup (map (fun kd => lower (fst kd)) ds)) /\
  (NoDup (map (fun kd => lower (fst kd)) ds) -> derive_action_inputs ds = Some (map ainput_of ds)).
Proof.
  split.
  - intros m H. apply derive_action_inputs_from_spec in H. cbn in H. tauto.
  - intros ND. unfold derive_action_inputs. rewrite derive_action_inputs_from_some; auto.
Qed.

Lemma derive_action_outputs_from_spec ks : forall acc m,
  derive_action_outputs_from acc ks = Some m -> m = (acc ++ map (fun k => (lower k, k)) ks)%list.
Proof.
  induction ks as [|k r IH]; intros acc m; cbn.
  - intros H. inversion H. now rewrite app_nil_r.
  - destruct (lookup (lower k) acc); [discriminate|]. intros H. apply IH in H. now rewrite <- app_assoc in H.
Qed.

Theorem derive_action_outputs_spec ks m :
  derive_action_outputs ks = Some m -> m = map (fun k => (lower k, k)) ks.
Proof. intros H. now apply derive_action_outputs_from_spec in H. Qed.

(* fold of upsert over fresh keys appends *)
Lemma upsert_fresh {V} k (v : V) m : ~ In k (keys m) -> upsert k v m = (m ++ [(k, v)])%list.
Proof.
  induction m as [|[k' v'] m IH]; cbn; [reflexivity|]. intros H.
  destruct (String.eqb k k') eqn:E.
  - apply String.eqb_eq in E. subst. exfalso. apply H. now left.
  - rewrite IH; [reflexivity|]. intros H1. apply H. now right.
Qed.

Lemma fold_upsert_fresh {A V} (key : A -> string) (val : A -> V) (l : list A) : forall acc,
  NoDup (map key l) -> (forall id, In id (map key l) -> ~ In id (keys acc)) ->
  fold_left (fun acc a => upsert (key a) (val a) acc) l acc = (acc ++ map (fun a => (key a, val a)) l)%list.
Proof.
  induction l as [|a r IH]; intros acc ND Hf; cbn.
  - now rewrite app_nil_r.
  - inversion ND as [|? ? Hn ND']; subst.
    rewrite upsert_fresh by (apply Hf; now left).
    rewrite IH; [now rewrite <- app_assoc|assumption|].
    intros id Hid. unfold keys. rewrite map_app, in_app_iff. cbn. intros [H|[H|[]]].
    + apply (Hf id); [now right|assumption].
    + subst. contradiction.
Qed.

Definition winput_of (kd : string * wdecl) : string * winput :=
  (lower (fst kd), {| wi_name := fst kd;
                      wi_required := req_true (wd_required (snd kd)) && no_default (wd_default (snd kd));
                      wi_type := type_of_name (wd_type (snd kd)) |}).

(* (2) reusable workflow decoded from its file *)
Theorem derive_required_wf_file ds :
  NoDup (map (fun kd => lower (fst kd)) ds) -> derive_wf_inputs_file ds = map winput_of ds.
Proof.
  intros ND. unfold derive_wf_inputs_file.
  rewrite (fold_upsert_fresh (fun kd => lower (fst kd)) (fun kd => derive_winput_file (fst kd) (snd kd))); auto.
Qed.

Lemma type_names_agree t :
  match ast_type_of_name t with TyBoolean => DBool | TyNumber => DNumber | TyString => DString | TyNone => DAny end
  = type_of_name t.
Proof.
  destruct t as [s|]; cbn; [|reflexivity].
  destruct (String.eqb s "boolean"); [reflexivity|].
  destruct (String.eqb s "number"); [reflexivity|].
  destruct (String.eqb s "string"); reflexivity.
Qed.

(* (3) reusable workflow taken from the AST of the same run *)
Theorem derive_required_wf_ast ds :
  NoDup (map (fun kd => lower (fst kd)) ds) -> derive_wf_inputs_ast (parse_wc_inputs ds) = map winput_of ds.
Proof.
  intros ND. unfold derive_wf_inputs_ast, parse_wc_inputs, parse_wc_inputs_gen.
  rewrite parse_mapping_nodup by exact ND.
  rewrite map_map.
  rewrite (fold_upsert_fresh ast_id derive_winput_ast).
  - cbn [app]. rewrite map_map. apply map_ext. intros [k d]. cbn.
    unfold winput_of, derive_winput_ast. cbn. f_equal. f_equal.
    + destruct (wd_default d); reflexivity.
    + apply type_names_agree.
  - rewrite map_map. cbn. erewrite map_ext; [exact ND|]. now intros [k d].
  - intros id _ [].
Qed.

(* the two derivations of a reusable workflow's inputs agree *)
Theorem interface_agree_inputs ds :
  NoDup (map (fun kd => lower (fst kd)) ds) ->
  derive_wf_inputs_file ds = derive_wf_inputs_ast (parse_wc_inputs ds).
Proof. intros ND. now rewrite derive_required_wf_file, derive_required_wf_ast. Qed.

Lemma derive_wf_secrets_agree ds :
  NoDup (map (fun kd => lower (fst kd)) ds) -> derive_wf_secrets_file ds = derive_wf_secrets_ast ds
    /\ derive_wf_secrets_file ds = map (fun kd => (lower (fst kd), {| ws_name := fst kd; ws_required := req_true (snd kd) |})) ds.
Proof.
  intros ND. unfold derive_wf_secrets_file, derive_wf_secrets_ast.
  rewrite parse_mapping_nodup by exact ND.
  rewrite (fold_upsert_fresh (fun kd : string * option bool => lower (fst kd))
             (fun kd => {| ws_name := fst kd; ws_required := req_true (snd kd) |})); auto.
  rewrite (fold_upsert_fresh (fun e : string * (string * option bool) => fst e)
             (fun e => {| ws_name := fst (snd e); ws_required := req_true (snd (snd e)) |})).
  - cbn [app]. rewrite map_map. cbn. split; reflexivity.
  - rewrite map_map. exact ND.
  - intros id _ [].
Qed.

Lemma derive_wf_outputs_agree ks :
  wf_names ks -> derive_wf_outputs_file ks = derive_wf_outputs_ast ks
    /\ derive_wf_outputs_file ks = map (fun k => (lower k, k)) ks.
Proof.
  intros ND. unfold derive_wf_outputs_file, derive_wf_outputs_ast.
  rewrite parse_mapping_nodup by (rewrite lkeys_names; exact ND).
  rewrite (fold_upsert_fresh (fun k : string => lower k) (fun k => k)); auto.
  rewrite (fold_upsert_fresh (fun e : string * (string * unit) => fst e) (fun e => fst (snd e))).
  - cbn [app]. rewrite !map_map. cbn. split; reflexivity.
  - rewrite !map_map. exact ND.
  - intros id _ [].
Qed.

(* the whole interface is the same whichever way it was obtained *)
Theorem interface_agree ins secs outs :
  NoDup (map (fun kd => lower (fst kd)) ins) -> NoDup (map (fun kd => lower (fst kd)) secs) -> wf_names outs ->
  wf_meta true ins secs outs = wf_meta false ins secs outs.
Proof.
  intros N1 N2 N3. unfold wf_meta.
  rewrite <- interface_agree_inputs by assumption.
  destruct (derive_wf_secrets_agree secs N2) as [E2 _]. rewrite <- E2.
  destruct (derive_wf_outputs_agree outs N3) as [E3 _]. rewrite <- E3. reflexivity.
Qed.

(* before the fix d3094f8 the AST derivation kept a null default as a default *)
Lemma interface_agree_old_refuted :
  exists ds, NoDup (map (fun kd : string * wdecl => lower (fst kd)) ds) /\
             derive_wf_inputs_file ds <> derive_wf_inputs_ast (parse_wc_inputs_old ds).
Proof.
  exists [("x", {| wd_required := Some true; wd_default := DfNull; wd_type := Some "string" |})].
  split; [repeat constructor; intros []|]. vm_compute. discriminate.
Qed.

(* ------------------------------------------------------------------ missing inputs, per derivation *)

Lemma local_meta_inputs ins outs m :
  local_meta ins outs = Some m ->
  am_inputs m = map ainput_of ins /\ am_outputs m = map (fun k => (lower k, k)) outs
  /\ am_skip_inputs m = false /\ am_skip_outputs m = false.
Proof.
  unfold local_meta. destruct (derive_action_inputs ins) as [i|] eqn:E1; [|discriminate].
  destruct (derive_action_outputs outs) as [o|] eqn:E2; [|discriminate].
  intros H. inversion H; subst. cbn.
  apply (proj1 (derive_required_action ins)) in E1. apply derive_action_outputs_spec in E2.
  destruct E1 as [E1 _]. subst. auto.
Qed.

Theorem missing_required_action_iff ins outs m names nm :
  local_meta ins outs = Some m ->
  (In (MissingInput, nm) (check_action m (parse_with names)) <->
   exists d, In (nm, d) ins /\ ad_required d = Some true /\ no_default (ad_default d) = true /\
             ~ In (lower nm) (map lower names)).
Proof.
  intros H. apply local_meta_inputs in H. destruct H as [E _].
  rewrite missing_input_iff, E. split.
  - intros [id [i [H1 [H2 [H3 H4]]]]]. apply in_map_iff in H1. destruct H1 as [[k d] [E1 H1]].
    unfold ainput_of in E1. cbn in E1. inversion E1; subst. cbn in *.
    exists d. apply andb_prop in H3. destruct H3 as [H3 H5].
    repeat split; auto. destruct (ad_required d) as [[|]|]; cbn in H3; congruence.
  - intros [d [H1 [H2 [H3 H4]]]]. exists (lower nm), (snd (ainput_of (nm, d))). cbn.
    repeat split; auto.
    + apply in_map_iff. exists (nm, d). auto.
    + now rewrite H2, H3.
Qed.

Theorem missing_required_wf_iff ast ins secs outs with_ sec nm :
  NoDup (map (fun kd => lower (fst kd)) ins) ->
  (In (MissingInput, nm) (check_workflow_call (wf_meta ast ins secs outs) (parse_wcall with_ sec)) <->
   exists d, In (nm, d) ins /\ wd_required d = Some true /\ no_default (wd_default d) = true /\
             ~ In (lower nm) (map lower (map fst with_))).
Proof.
  intros ND. rewrite wf_missing_input_iff.
  assert (E : wm_inputs (wf_meta ast ins secs outs) = map winput_of ins).
  { destruct ast; cbn; [now apply derive_required_wf_ast|now apply derive_required_wf_file]. }
  rewrite E. split.
  - intros [id [i [H1 [H2 [H3 H4]]]]]. apply in_map_iff in H1. destruct H1 as [[k d] [E1 H1]].
    unfold winput_of in E1. cbn in E1. inversion E1; subst. cbn in *.
    exists d. apply andb_prop in H3. destruct H3 as [H3 H5].
    repeat split; auto. destruct (wd_required d) as [[|]|]; cbn in H3; congruence.
  - intros [d [H1 [H2 [H3 H4]]]]. exists (lower nm), (snd (winput_of (nm, d))). cbn.
    repeat split; auto.
    + apply in_map_iff. exists (nm, d). auto.
    + now rewrite H2, H3.
Qed.

(* ------------------------------------------------------------------ outputs *)

Theorem outputs_type_spec table uses local :
  action_outputs_type table (Some uses) local =
  match step_callee table uses local with
  | None => if negb (String.prefix "./" uses) && String.prefix "actions/github-script@" uses then OLoose else OMap
  | Some m =>
      if negb (String.prefix "./" uses) && String.prefix "actions/github-script@" uses then OLoose
      else if am_skip_outputs m then OLoose
      else OStrict (map (fun kv => lower (fst kv)) (am_outputs m))
  end.
Proof.
  unfold action_outputs_type, step_callee, type_of_action_outputs.
  destruct (String.prefix "./" uses); cbn.
  - destruct local; reflexivity.
  - destruct (String.prefix "actions/github-script@" uses); [now destruct (lookup uses table)|].
    destruct (lookup uses table); reflexivity.
Qed.

Lemma check_output_refs_In t refs c n :
  In (c, n) (check_output_refs t refs) <->
  c = UndefinedOutput /\ exists r, In r refs /\ deref_reported t r = true /\ lower r = n.
Proof.
  unfold check_output_refs. rewrite in_flat_map. split.
  - intros [r [H1 H2]]. destruct (deref_reported t r) eqn:E; [|destruct H2].
    destruct H2 as [H2|[]]. inversion H2; subst. split; [reflexivity|]. exists r. auto.
  - intros [E [r [H1 [H2 H3]]]]. exists r. split; [assumption|]. rewrite H2. left. now subst.
Qed.

(* steps.<id>.outputs.<name> is reported iff the step's callee is known, does not set
   outputs dynamically, and does not declare <name> (any letter case) *)
Theorem undefined_output_iff table uses local prop :
  deref_reported (action_outputs_type table (Some uses) local) prop = true <->
  exists m, step_callee table uses local = Some m /\ am_skip_outputs m = false /\
            (String.prefix "./" uses = true \/ String.prefix "actions/github-script@" uses = false) /\
            ~ In (lower prop) (map (fun kv => lower (fst kv)) (am_outputs m)).
Proof.
  rewrite outputs_type_spec.
  destruct (step_callee table uses local) as [m|].
  - destruct (String.prefix "./" uses); cbn.
    + destruct (am_skip_outputs m) eqn:E; cbn.
      * split; [discriminate|]. intros [m' [H1 [H2 _]]]. inversion H1; subst. congruence.
      * rewrite negb_true_iff, str_mem_false. split.
        -- intros H. exists m. auto.
        -- intros [m' [H1 [_ [_ H2]]]]. inversion H1; subst. assumption.
    + destruct (String.prefix "actions/github-script@" uses); cbn.
      * split; [discriminate|]. intros [m' [_ [_ [[H|H] _]]]]; discriminate.
      * destruct (am_skip_outputs m) eqn:E; cbn.
        -- split; [discriminate|]. intros [m' [H1 [H2 _]]]. inversion H1; subst. congruence.
        -- rewrite negb_true_iff, str_mem_false. split.
           ++ intros H. exists m. auto.
           ++ intros [m' [H1 [_ [_ H2]]]]. inversion H1; subst. assumption.
  - split.
    + destruct (negb (String.prefix "./" uses) && String.prefix "actions/github-script@" uses); discriminate.
    + intros [m [H _]]. discriminate.
Qed.

(* ... for a local action in terms of its action.yml *)
Theorem undefined_output_local_iff ins outs m prop :
  local_meta ins outs = Some m ->
  (deref_reported (action_outputs_type [] (Some "./act") (Some m)) prop = true <->
   ~ In (lower prop) (map lower outs)).
Proof.
  intros H. apply local_meta_inputs in H. destruct H as [_ [E [_ E2]]].
  rewrite undefined_output_iff.
  assert (L : map (fun kv => lower (fst kv)) (am_outputs m) = map lower outs).
  { rewrite E, map_map. cbn. apply map_ext. intros. apply lower_idem. }
  split.
  - intros [m' [H1 [_ [_ H2]]]]. cbn in H1. inversion H1; subst m'. now rewrite L in H2.
  - intros H. exists m. rewrite L. cbn. auto.
Qed.

(* needs.<job>.outputs.<name> of a called reusable workflow *)
Theorem undefined_wf_output_iff m prop :
  (deref_reported (workflow_outputs_type (Some m)) prop = true <-> ~ In (lower prop) (map fst (wm_outputs m)))
  /\ deref_reported (workflow_outputs_type None) prop = false.
Proof. cbn. rewrite negb_true_iff, str_mem_false. tauto. Qed.

Theorem undefined_wf_output_decl_iff ast ins secs outs prop :
  wf_names outs ->
  (deref_reported (workflow_outputs_type (Some (wf_meta ast ins secs outs))) prop = true <->
   ~ In (lower prop) (map lower outs)).
Proof.
  intros W. rewrite (proj1 (undefined_wf_output_iff _ prop)).
  assert (E : wm_outputs (wf_meta ast ins secs outs) = map (fun k => (lower k, k)) outs).
  { destruct (derive_wf_outputs_agree outs W) as [E1 E2]. destruct ast; cbn; congruence. }
  rewrite E, map_map. cbn. tauto.
Qed.

(* ------------------------------------------------------------------ typed inputs *)

Example calls_assignable_table :
  map (fun d => map (calls_assignable d) [CAny; CNull; CBool; CNumber; CString; COther]) [DAny; DBool; DNumber; DString]
  = [[true; true; true; true; true; true];
     [true; true; true; true; true; true];
     [true; false; false; true; false; false];
     [true; false; false; true; true; false]].
Proof. reflexivity. Qed.

Lemma value_type_literal text isfloat :
  value_type {| cv_text := text; cv_exprs := []; cv_isfloat := isfloat |} =
  let t := calls_trim text in
  if String.eqb t "null" then CNull
  else if String.eqb t "true" || String.eqb t "false" then CBool
  else if isfloat then CNumber else CString.
Proof. reflexivity. Qed.

Lemma value_type_single text t isfloat :
  value_type {| cv_text := text; cv_exprs := [t]; cv_isfloat := isfloat |} =
  if calls_expr_assigned text then t else CString.
Proof. reflexivity. Qed.

Lemma value_type_many text t1 t2 ts isfloat :
  value_type {| cv_text := text; cv_exprs := t1 :: t2 :: ts; cv_isfloat := isfloat |} = CString.
Proof. reflexivity. Qed.

Example calls_expr_assigned_examples :
  map calls_expr_assigned ["${{ 1 }}"; "  ${{ 1 }} "; "a ${{ 1 }}"; "${{ 1 }} b"; "${{ 1 }}${{ 2 }}"; "${{ '}}' }}"; "x"; ""]
  = [true; true; false; false; false; true; false; false].
Proof. vm_compute. reflexivity. Qed.

Theorem typed_input_iff m with_ sec nm :
  wf_names (map fst with_) ->
  (In (TypeMismatch, nm) (check_workflow_call_types (Some m) (parse_wcall with_ sec)) <->
   exists n v mi, In (n, v) with_ /\ lookup (lower n) (wm_inputs m) = Some mi /\ wi_name mi = nm /\
                  calls_assignable (wi_type mi) (value_type v) = false).
Proof.
  intros W. unfold check_workflow_call_types. rewrite in_flat_map. split.
  - intros [[id [n v]] [H1 H2]]. cbn [fst snd] in H2.
    apply (proj1 (parse_wcall_inputs_In with_ sec id n v W)) in H1. destruct H1 as [E H1]. subst id.
    destruct (lookup (lower n) (wm_inputs m)) as [mi|] eqn:L; [|destruct H2].
    exists n, v, mi. split; [assumption|]. split; [exact L|].
    destruct (wi_type mi) eqn:T; [destruct H2| | |];
      (destruct (calls_assignable _ (value_type v)) eqn:A in H2; [destruct H2|];
       destruct H2 as [H2|[]]; inversion H2; split; [reflexivity|exact A]).
  - intros [n [v [mi [H1 [H2 [H3 H4]]]]]]. exists (lower n, (n, v)). split.
    + apply parse_wcall_inputs_In; auto.
    + cbn [fst snd]. rewrite H2.
      destruct (wi_type mi) eqn:T; cbn in H4; try discriminate; cbn; rewrite H4; left; now subst.
Qed.

(* no metadata: nothing is typed *)
Lemma typed_input_unknown_callee c : check_workflow_call_types None c = [].
Proof. reflexivity. Qed.

(* ------------------------------------------------------------------ letter case never matters *)

Lemma in_map_eq_ex {A B} (f : A -> B) l l' x :
  map f l = map f l' -> In x l -> exists x', In x' l' /\ f x' = f x.
Proof.
  revert l'. induction l as [|a r IH]; intros [|a' r'] E H; cbn in *; try discriminate; [destruct H|].
  inversion E. destruct H as [H|H].
  - subst. exists a'. auto.
  - destruct (IH r' H2 H) as [x' [H3 H4]]. exists x'. auto.
Qed.

(* call site: re-casing the names of `with:` changes no verdict (names are echoed as written) *)
Theorem calls_recase_call m names names' c n :
  wf_names names -> map lower names = map lower names' ->
  In (c, n) (check_action m (parse_with names)) ->
  exists n', lower n' = lower n /\ In (c, n') (check_action m (parse_with names')).
Proof.
  intros W E H. assert (W' : wf_names names') by (unfold wf_names in *; now rewrite <- E).
  destruct (check_action_classes _ _ _ _ H) as [C|C]; subst c.
  - apply unknown_input_iff in H; [|assumption]. destruct H as [H1 [H2 H3]].
    destruct (in_map_eq_ex lower names names' n E H1) as [n' [H4 H5]].
    exists n'. split; [assumption|]. apply unknown_input_iff; [assumption|]. rewrite H5. auto.
  - exists n. split; [reflexivity|]. apply missing_input_iff. apply missing_input_iff in H. now rewrite <- E.
Qed.

(* definition site: two interfaces that differ only in the letter case of the declared names *)
Definition same_modulo_case (m m' : ameta) : Prop :=
  Forall2 (fun a b => fst a = fst b /\ ai_required (snd a) = ai_required (snd b)
                      /\ lower (ai_name (snd a)) = lower (ai_name (snd b))) (am_inputs m) (am_inputs m').

Lemma Forall2_In_l {A B} (R : A -> B -> Prop) l l' a : Forall2 R l l' -> In a l -> exists b, In b l' /\ R a b.
Proof.
  induction 1 as [|x y l l' H F IH]; cbn; [intros []|]. intros [E|H1].
  - subst. exists y. auto.
  - destruct (IH H1) as [b [H2 H3]]. exists b. auto.
Qed.

Lemma same_modulo_case_keys m m' : same_modulo_case m m' -> map fst (am_inputs m) = map fst (am_inputs m').
Proof.
  unfold same_modulo_case. induction 1 as [|x y l l' [H _] F IH]; cbn; [reflexivity|]. now rewrite H, IH.
Qed.

Theorem calls_recase_def m m' e c n :
  same_modulo_case m m' ->
  In (c, n) (check_action m e) ->
  exists n', lower n' = lower n /\ In (c, n') (check_action m' e).
Proof.
  intros S H. unfold check_action in *. rewrite check_action_gen_In in H.
  destruct H as [[C [kv [H1 [H2 H3]]]]|[C [kv [H1 [H2 [H3 H4]]]]]]; subst c.
  - exists n. split; [reflexivity|]. rewrite check_action_gen_In. left. split; [reflexivity|].
    exists kv. repeat split; auto. apply lookup_None. apply lookup_None in H2.
    unfold keys in *. now rewrite <- (same_modulo_case_keys m m' S).
  - destruct (Forall2_In_l _ _ _ kv S H1) as [kv' [H5 [H6 [H7 H8]]]].
    exists (ai_name (snd kv')). split; [now rewrite <- H8, H4|].
    rewrite check_action_gen_In. right. split; [reflexivity|]. exists kv'. repeat split; auto; congruence.
Qed.

(* re-casing the names in action.yml gives an interface that differs in case only *)
Theorem recased_decls_same ins ins' outs outs' m m' :
  map (fun kd => (lower (fst kd), snd kd)) ins = map (fun kd => (lower (fst kd), snd kd)) ins' ->
  local_meta ins outs = Some m -> local_meta ins' outs' = Some m' -> same_modulo_case m m'.
Proof.
  intros E H H'. apply local_meta_inputs in H. apply local_meta_inputs in H'.
  destruct H as [H _]. destruct H' as [H' _]. unfold same_modulo_case. rewrite H, H'. clear H H' m m'.
  revert ins' E. induction ins as [|[k d] r IH]; intros [|[k' d'] r'] E; cbn in *; try discriminate; [constructor|].
  inversion E. constructor; [|now apply IH]. cbn. subst. rewrite H0. auto.
Qed.

(* workflow call: re-casing the names of `with:` (values unchanged) changes no verdict *)
Definition lower_key {V} (kv : string * V) : string * V := (lower (fst kv), snd kv).

Lemma lower_key_names {V} (l l' : list (string * V)) :
  map lower_key l = map lower_key l' -> map lower (map fst l) = map lower (map fst l').
Proof.
  intros E. rewrite !map_map.
  assert (H : forall x : list (string * V), map (fun kv => lower (fst kv)) x = map fst (map lower_key x)).
  { intros x. rewrite map_map. reflexivity. }
  now rewrite !H, E.
Qed.

Theorem calls_recase_wf_call m with_ with_' sec c n :
  wf_names (map fst with_) -> map lower_key with_ = map lower_key with_' ->
  In (c, n) (check_workflow_call m (parse_wcall with_ sec) ++ check_workflow_call_types (Some m) (parse_wcall with_ sec)) ->
  exists n', lower n' = lower n /\
    In (c, n') (check_workflow_call m (parse_wcall with_' sec) ++ check_workflow_call_types (Some m) (parse_wcall with_' sec)).
Proof.
  intros W E H. pose proof (lower_key_names _ _ E) as EN.
  assert (W' : wf_names (map fst with_')) by (unfold wf_names in *; now rewrite <- EN).
  apply in_app_iff in H. destruct H as [H|H].
  - destruct c.
    + apply wf_unknown_input_iff in H; [|assumption]. destruct H as [H1 H2].
      destruct (in_map_eq_ex lower _ _ n EN H1) as [n' [H3 H4]].
      exists n'. split; [assumption|]. apply in_app_iff. left. apply wf_unknown_input_iff; [assumption|]. rewrite H4. auto.
    + exists n. split; [reflexivity|]. apply in_app_iff. left.
      apply wf_missing_input_iff. apply wf_missing_input_iff in H. now rewrite <- EN.
    + exists n. split; [reflexivity|]. apply in_app_iff. left.
      rewrite check_workflow_call_In in *. cbn [parse_wcall wc_secrets wc_inherit] in *.
      destruct H as [[H _]|[[H _]|H]]; try discriminate. right. right. exact H.
    + exists n. split; [reflexivity|]. apply in_app_iff. left.
      rewrite check_workflow_call_In in *. cbn [parse_wcall wc_secrets wc_inherit] in *.
      destruct H as [[H _]|[[H _]|H]]; try discriminate. right. right. exact H.
    + exfalso. rewrite check_workflow_call_In in H.
      destruct H as [[H _]|[[H _]|[_ [[H _]|[H _]]]]]; discriminate.
    + exfalso. rewrite check_workflow_call_In in H.
      destruct H as [[H _]|[[H _]|[_ [[H _]|[H _]]]]]; discriminate.
  - assert (C : c = TypeMismatch).
    { unfold check_workflow_call_types in H. apply in_flat_map in H. destruct H as [kv [_ H]].
      destruct (lookup (fst kv) (wm_inputs m)) as [mi|]; [|destruct H].
      destruct (wi_type mi); [destruct H| | |];
        (destruct (calls_assignable _ _); [destruct H|]; destruct H as [H|[]]; now inversion H). }
    subst c. apply typed_input_iff in H; [|assumption].
    destruct H as [n0 [v [mi [H1 [H2 [H3 H4]]]]]].
    destruct (in_map_eq_ex lower_key _ _ (n0, v) E H1) as [[n1 v1] [H5 H6]].
    unfold lower_key in H6. cbn in H6. inversion H6; subst v1.
    exists n. split; [reflexivity|]. apply in_app_iff. right. apply typed_input_iff; [assumption|].
    exists n1, v, mi. rewrite H0. auto.
Qed.

(* ... and re-casing the names under `secrets:` *)
Theorem calls_recase_wf_secrets m with_ ss ss' c n :
  wf_names ss -> map lower ss = map lower ss' ->
  In (c, n) (check_workflow_call m (parse_wcall with_ (SecMap ss))) ->
  exists n', lower n' = lower n /\ In (c, n') (check_workflow_call m (parse_wcall with_ (SecMap ss'))).
Proof.
  intros W E H. assert (W' : wf_names ss') by (unfold wf_names in *; now rewrite <- E).
  destruct c.
  - exists n. split; [reflexivity|].
    rewrite check_workflow_call_In in *. cbn [parse_wcall wc_inputs wc_inherit] in *.
    destruct H as [[H _]|[H|[_ [[H _]|[H _]]]]]; try discriminate. right. left. exact H.
  - exists n. split; [reflexivity|].
    rewrite check_workflow_call_In in *. cbn [parse_wcall wc_inputs wc_inherit] in *.
    destruct H as [H|[[H _]|[_ [[H _]|[H _]]]]]; try discriminate. left. exact H.
  - apply wf_unknown_secret_iff in H; [|intros ? E1; inversion E1; now subst].
    destruct H as [ss0 [E0 [H1 H2]]]. inversion E0; subst ss0.
    destruct (in_map_eq_ex lower _ _ n E H1) as [n' [H3 H4]].
    exists n'. split; [assumption|]. apply wf_unknown_secret_iff; [intros ? E1; inversion E1; now subst|].
    exists ss'. rewrite H4. auto.
  - exists n. split; [reflexivity|]. apply wf_missing_secret_iff. apply wf_missing_secret_iff in H.
    cbn [secret_names] in *. destruct H as [_ H]. split; [discriminate|]. now rewrite <- E.
  - exfalso. rewrite check_workflow_call_In in H.
    destruct H as [[H _]|[[H _]|[_ [[H _]|[H _]]]]]; discriminate.
  - exfalso. rewrite check_workflow_call_In in H.
    destruct H as [[H _]|[[H _]|[_ [[H _]|[H _]]]]]; discriminate.
Qed.

(* output references: the letter case of the reference never matters *)
Theorem calls_recase_output t r r' : lower r = lower r' -> deref_reported t r = deref_reported t r'.
Proof. intros E. destruct t; cbn; [reflexivity|reflexivity|]. now rewrite E. Qed.
