(* Wf/ScopeObs.v — observable of the scope model: the verdict for each planted
   reference of a workflow shape (0 = not reported, 1 = reported as undefined
   property, 2 = receiver is not an object). *)
From AL Require Import Base.Corr Wf.Scope.

Record wfS := { w_jobs : list jobS;
                w_steps : list (list stepS);            (* per job, same order *)
                w_mats : list (option matrixS);         (* per job *)
                w_call_inputs : option (list string);
                w_dispatch_inputs : option (list string);
                w_secrets : option (list string) }.

Inductive refS :=
| RSteps (job k : nat) (path : list string)
| RNeeds (job : nat) (path : list string)
| RMatrix (job : nat) (path : list string)
| RInputs (path : list string)
| RSecrets (path : list string)
| RJobs (path : list string).

Definition verdict_code (v : verdict) : N :=
  match v with VOk => 0 | VUndefined => 1 | VNotObject => 2 end%N.

Definition dummy_job : jobS := {| j_id := ""; j_rawid := ""; j_needs := []; j_outputs := []; j_call := None |}.

Definition run_ref (w : wfS) (r : refS) : verdict :=
  match r with
  | RSteps j k path => resolve (steps_scope (nth j (w_steps w) []) k) path
  | RNeeds j path => resolve (needs_scope (w_jobs w) (nth j (w_jobs w) dummy_job)) path
  | RMatrix j path => resolve (matrix_scope_opt (nth j (w_mats w) None)) path
  | RInputs path => resolve (inputs_scope (w_call_inputs w) (w_dispatch_inputs w)) path
  | RSecrets path => resolve (secrets_scope (w_secrets w)) path
  | RJobs path => resolve (jobs_scope (w_jobs w)) path
  end.

Definition run_scope (c : wfS * list refS) : list tuple :=
  let (w, refs) := c in map (fun r => [verdict_code (run_ref w r)]) refs.
