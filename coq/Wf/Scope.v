(* Wf/Scope.v — which names are in scope where: the context types that
   RuleExpression builds for steps / needs / matrix / inputs / secrets / jobs
   (rule_expression.go VisitWorkflowPre, VisitJobPre, VisitStep, VisitJobPost,
   checkMatrix, calcNeedsType, checkWorkflowCallOutputs; expr_sema.go
   UpdateSecrets / UpdateInputs) and the object-dereference rule of the
   semantic checker that turns them into "property is not defined" reports.
   Only the shape matters here: which property names an object has and
   whether unknown properties are allowed. *)
From AL Require Export Base.AList.

(* scope type: [SObj props mapped] mirrors ObjectType{Props, Mapped}
   (Mapped = None: strict; Some SAny: loose; Some t: map to t) *)
Inductive sty : Type :=
| SAny
| SLeaf                                   (* string / number / bool / null *)
| SObj (props : list (string * sty)) (mapped : option sty).

Definition strict_obj (props : list (string * sty)) : sty := SObj props None.
Definition loose_obj (props : list (string * sty)) : sty := SObj props (Some SAny).
Definition map_obj (t : sty) : sty := SObj [] (Some t).

(* what checking  ctx.p1.p2...  reports: expr_sema.go checkObjectDeref on a
   chain of property accesses (names already lower-cased by the parser) *)
Inductive verdict := VOk | VUndefined | VNotObject.

Fixpoint resolve (t : sty) (path : list string) : verdict :=
  match path with
  | [] => VOk
  | p :: rest =>
      match t with
      | SAny => VOk
      | SLeaf => VNotObject
      | SObj props mapped =>
          match lookup p props with
          | Some t' => resolve t' rest
          | None => match mapped with
                    | None => VUndefined
                    | Some t' => resolve t' rest
                    end
          end
      end
  end.

(* ---------------------------------------------------------------------- *)
(* steps                                                                  *)

Record stepS := { st_id : option string;        (* `id:` as written *)
                  st_outputs : sty }.           (* type of outputs of the action run by the step (C14) *)

Definition step_entry (s : stepS) : sty :=
  strict_obj [("outputs", st_outputs s); ("conclusion", SLeaf); ("outcome", SLeaf)].

(* state of rule.stepsTy: props and looseness *)
Definition steps_state : Type := (list (string * sty) * bool)%type.

(* VisitStep, the part after the step's own fields were checked *)
Definition visit_step (st : steps_state) (s : stepS) : steps_state :=
  match st_id s with
  | None => st
  | Some id =>
      let (props, loose) := st in
      (upsert (lower id) (step_entry s) props, loose || contains_expr id)
  end.

Definition steps_ty (st : steps_state) : sty :=
  SObj (fst st) (if snd st then Some SAny else None).

(* the `steps` context seen by the fields of step number k (0-based) of a job,
   and by the job's outputs / environment (k = number of steps) *)
Definition steps_scope (steps : list stepS) (k : nat) : sty :=
  steps_ty (fold_left visit_step (firstn k steps) ([], false)).

(* ---------------------------------------------------------------------- *)
(* needs                                                                  *)

Record jobS := { j_id : string;                    (* lower-cased key of the jobs map *)
                 j_rawid : string;                 (* Job.ID.Value: the id as written *)
                 j_needs : list string;            (* `needs:` entries as written *)
                 j_outputs : list string;          (* lower-cased output names *)
                 j_call : option sty }.            (* reusable workflow call: outputs type from the callee (C14) *)

Definition outputs_ty (j : jobS) : sty :=
  match j_call j with
  | Some t => t
  | None => strict_obj (map (fun n => (n, SLeaf)) (j_outputs j))
  end.

Definition needs_entry (j : jobS) : sty := strict_obj [("outputs", outputs_ty j); ("result", SLeaf)].

Definition find_job (jobs : list jobS) (id : string) : option jobS :=
  find (fun j => String.eqb (j_id j) id) jobs.

(* populateDependantNeedsTypes: direct dependencies only *)
Definition add_need (jobs : list jobS) (root : jobS) (props : list (string * sty)) (id : string) :=
  let i := lower id in
  if String.eqb i (lower (j_rawid root)) then props   (* `i == strings.ToLower(root.ID.Value)` *)
  else match lookup i props with
       | Some _ => props
       | None => match find_job jobs i with
                 | None => props
                 | Some j => props ++ [(i, needs_entry j)]
                 end
       end.

Definition needs_scope (jobs : list jobS) (job : jobS) : sty :=
  strict_obj (fold_left (add_need jobs job) (j_needs job) []).

(* ---------------------------------------------------------------------- *)
(* matrix                                                                 *)

Inductive combS :=
| CombExpr                                   (* `- ${{ ... }}` of unknown type *)
| CombAssigns (keys : list string).          (* lower-cased keys of a literal element *)

Inductive inclS :=
| InclNone
| InclExpr                                   (* `include: ${{ ... }}` of unknown type *)
| InclList (cs : list combS).

Record matrixS := { mx_expr : bool;                      (* `matrix: ${{ ... }}` of unknown type *)
                    mx_rows : list string;               (* lower-cased row names (literal or expression rows) *)
                    mx_include : inclS }.

Definition add_keys (props : list (string * sty)) (ks : list string) : list (string * sty) :=
  fold_left (fun ps k => upsert k SAny ps) ks props.

(* checkMatrix; the value types are irrelevant for scoping and are SAny here *)
Definition matrix_scope (m : matrixS) : sty :=
  if mx_expr m then loose_obj [] else
  let rows := add_keys [] (mx_rows m) in
  match mx_include m with
  | InclNone => strict_obj rows
  | InclExpr => loose_obj []
  | InclList cs =>
      let step (acc : list (string * sty) * bool) (c : combS) :=
          match c with
          | CombExpr => (fst acc, true)
          | CombAssigns ks => (add_keys (fst acc) ks, snd acc)
          end in
      let (props, loose) := fold_left step cs (rows, false) in
      SObj props (if loose then Some SAny else None)
  end.

(* a job without `strategy.matrix` keeps the default type of the context *)
Definition matrix_scope_opt (m : option matrixS) : sty :=
  match m with Some m => matrix_scope m | None => strict_obj [] end.

(* ---------------------------------------------------------------------- *)
(* inputs / secrets / jobs                                                *)

Definition names_obj (names : list string) : sty := strict_obj (map (fun n => (n, SLeaf)) names).

(* expr_sema.go UpdateInputs twice (workflow_call then workflow_dispatch) on
   the default empty strict object: union of the declared names *)
Definition inputs_scope (call_inputs dispatch_inputs : option (list string)) : sty :=
  match call_inputs, dispatch_inputs with
  | None, None => strict_obj []
  | Some a, None => names_obj a
  | None, Some b => names_obj b
  | Some a, Some b =>
      match a with
      | [] => names_obj b                      (* empty strict object: replaced *)
      | _ => strict_obj (fold_left (fun ps n => match lookup n ps with Some _ => ps | None => ps ++ [(n, SLeaf)] end)
                                   b (map (fun n => (n, SLeaf)) a))
      end
  end.

Definition auto_secrets : list string := ["github_token"; "actions_step_debug"; "actions_runner_debug"].

(* `secrets:` absent in workflow_call (or no workflow_call): {string => string} *)
Definition secrets_scope (declared : option (list string)) : sty :=
  match declared with
  | None => map_obj SLeaf
  | Some names => strict_obj (map (fun n => (n, SLeaf)) (auto_secrets ++ names))
  end.

(* checkWorkflowCallOutputs: `jobs` context while on.workflow_call.outputs.*.value is checked *)
Definition jobs_scope (jobs : list jobS) : sty :=
  strict_obj (map (fun j => (j_id j,
                             strict_obj [("outputs", match j_call j with
                                                     | Some _ => loose_obj []
                                                     | None => strict_obj (map (fun n => (n, SLeaf)) (j_outputs j))
                                                     end)])) jobs).
