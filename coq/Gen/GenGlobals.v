(* Gen/GenGlobals.v — GENERATED on every run of ./check C10 from the .go files of the package
   by harness/cmd/c10 (-extract-globals); do not edit.  Every package-level variable:
   (file, name, shape of its initialiser). *)
From AL Require Import Base.Str.

Definition package_vars : list (string * string * string) := [
  ("all_webhooks.go", "AllWebhookTypes", "map");
  ("availability.go", "SpecialFunctionNames", "map");
  ("availability.go", "allWorkflowKeys", "slice");
  ("command.go", "installedFrom", "literal");
  ("command.go", "version", "literal");
  ("error.go", "bold", "call:color.New");
  ("error.go", "gray", "call:color.New");
  ("error.go", "green", "call:color.New");
  ("error.go", "yellow", "call:color.New");
  ("expr_insecure.go", "BuiltinUntrustedInputs", "struct:UntrustedInputSearchRoots");
  ("expr_sema.go", "BuiltinFuncSignatures", "map");
  ("expr_sema.go", "BuiltinGlobalVariableTypes", "map");
  ("popular_actions.go", "OutdatedPopularActionSpecs", "map");
  ("popular_actions.go", "PopularActions", "map");
  ("rule_action.go", "BrandingColors", "map");
  ("rule_action.go", "BrandingIcons", "map");
  ("rule_deprecated_commands.go", "deprecatedCommandsPattern", "call:regexp.MustCompile");
  ("rule_id.go", "jobIDPattern", "call:regexp.MustCompile");
  ("rule_permissions.go", "allPermissionScopes", "map");
  ("rule_runner_label.go", "allGitHubHostedRunnerLabels", "slice");
  ("rule_runner_label.go", "defaultRunnerOSCompats", "map");
  ("rule_runner_label.go", "selfHostedRunnerPresetOSLabels", "slice");
  ("rule_runner_label.go", "selfHostedRunnerPresetOtherLabels", "slice")
].

(* statements that write a package-level variable, or hand it to a function that writes its
   argument in place: (file, function, variable, how) *)
Definition package_var_writes : list (string * string * string * string) := [
].
