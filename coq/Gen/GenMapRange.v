(* Gen/GenMapRange.v — GENERATED on every run of ./check C02 from the .go files of the package
   by harness/cmd/c02 (-extract-mapranges); do not edit.  Every `for ... range <map>` loop:
   (file, function, ranged expression, occurrence), one entry per loop; an operand
   whose type is not known here (it comes from an imported package) is listed as `?untyped: ...`. *)
From AL Require Import Base.Str.

(* the last component numbers the loops of one function over the same expression in source order *)
Definition map_range_sites : list (string * string * string * N) := [
  ("ast.go", "RawYAMLObject.Equals", "o.Props", 0%N);
  ("ast.go", "RawYAMLObject.String", "o.Props", 0%N);
  ("config.go", "Config.PathConfigs", "cfg.Paths", 0%N);
  ("config.go", "IgnorePatterns.UnmarshalYAML", "?untyped: n.Content", 0%N);
  ("error.go", "NewErrorFormatter", "r", 0%N);
  ("error.go", "toPascalCase", "?untyped: s", 0%N);
  ("error.go", "toPascalCase", "?untyped: ss", 0%N);
  ("expr_insecure.go", "UntrustedInputChecker.onObjectFilter", "cur.Children", 0%N);
  ("expr_sema.go", "ExprSemanticsChecker.UpdateDispatchInputs", "ty.Props", 0%N);
  ("expr_sema.go", "ExprSemanticsChecker.UpdateSecrets", "ty.Props", 0%N);
  ("expr_sema.go", "ExprSemanticsChecker.checkArrayDeref", "ty.Props", 0%N);
  ("expr_sema.go", "ExprSemanticsChecker.checkBuiltinFuncCall", "holders", 0%N);
  ("expr_sema.go", "ExprSemanticsChecker.checkFuncCall", "sema.funcs", 0%N);
  ("expr_sema.go", "ExprSemanticsChecker.checkVariable", "sema.vars", 0%N);
  ("expr_sema.go", "ExprSemanticsChecker.ensureVarsCopied", "sema.vars", 0%N);
  ("expr_type.go", "ObjectType.Assignable", "other.Props", 0%N);
  ("expr_type.go", "ObjectType.Assignable", "other.Props", 1%N);
  ("expr_type.go", "ObjectType.Assignable", "ty.Props", 0%N);
  ("expr_type.go", "ObjectType.DeepCopy", "ty.Props", 0%N);
  ("expr_type.go", "ObjectType.Merge", "other.Props", 0%N);
  ("expr_type.go", "ObjectType.Merge", "ty.Props", 0%N);
  ("expr_type.go", "ObjectType.String", "ty.Props", 0%N);
  ("expr_type.go", "typeOfJSONValue", "v", 0%N);
  ("parse.go", "handleYAMLError", "?untyped: te.Errors", 0%N);
  ("parse.go", "parser.parseEvents", "?untyped: n.Content", 0%N);
  ("parse.go", "parser.parseMatrix", "?untyped: kv.val.Content", 0%N);
  ("parse.go", "parser.parseMatrixCombinations", "?untyped: n.Content", 0%N);
  ("parse.go", "parser.parseRawYAMLValue", "?untyped: n.Content", 0%N);
  ("parse.go", "parser.parseScheduleEvent", "?untyped: n.Content", 0%N);
  ("parse.go", "parser.parseSteps", "?untyped: n.Content", 0%N);
  ("parse.go", "parser.parseStringSequence", "?untyped: n.Content", 0%N);
  ("pass.go", "Visitor.Visit", "n.Jobs", 0%N);
  ("reusable_workflow.go", "LocalReusableWorkflowCache.WriteWorkflowCallEvent", "event.Outputs", 0%N);
  ("reusable_workflow.go", "LocalReusableWorkflowCache.WriteWorkflowCallEvent", "event.Secrets", 0%N);
  ("reusable_workflow.go", "parseReusableWorkflowMetadata", "?untyped: n.Content", 0%N);
  ("rule_action.go", "RuleAction.checkAction", "exec.Inputs", 0%N);
  ("rule_action.go", "RuleAction.checkAction", "meta.Inputs", 0%N);
  ("rule_action.go", "RuleAction.checkAction", "meta.Inputs", 1%N);
  ("rule_action.go", "RuleAction.checkAction", "meta.Inputs", 2%N);
  ("rule_credentials.go", "RuleCredentials.VisitJobPre", "n.Services.Value", 0%N);
  ("rule_deprecated_commands.go", "RuleDeprecatedCommands.VisitStep", "?untyped: deprecatedCommandsPattern.FindAllStringSubmatch(r.Run.Value, -1)", 0%N);
  ("rule_env_var.go", "RuleEnvVar.VisitJobPre", "n.Services.Value", 0%N);
  ("rule_env_var.go", "RuleEnvVar.checkEnv", "env.Vars", 0%N);
  ("rule_events.go", "RuleEvents.checkWorkflowDispatchEvent", "event.Inputs", 0%N);
  ("rule_expression.go", "RuleExpression.VisitJobPost", "n.Outputs", 0%N);
  ("rule_expression.go", "RuleExpression.VisitJobPre", "n.Services.Value", 0%N);
  ("rule_expression.go", "RuleExpression.VisitStep", "e.Inputs", 0%N);
  ("rule_expression.go", "RuleExpression.VisitWorkflowPre", "e.Inputs", 0%N);
  ("rule_expression.go", "RuleExpression.VisitWorkflowPre", "e.Outputs", 0%N);
  ("rule_expression.go", "RuleExpression.VisitWorkflowPre", "e.Secrets", 0%N);
  ("rule_expression.go", "RuleExpression.checkEnv", "env.Vars", 0%N);
  ("rule_expression.go", "RuleExpression.checkMatrix", "combi.Assigns", 0%N);
  ("rule_expression.go", "RuleExpression.checkMatrix", "combi.Assigns", 1%N);
  ("rule_expression.go", "RuleExpression.checkMatrix", "m.Rows", 0%N);
  ("rule_expression.go", "RuleExpression.checkMatrix", "merged.Props", 0%N);
  ("rule_expression.go", "RuleExpression.checkMatrixExpression", "matTy.Props", 0%N);
  ("rule_expression.go", "RuleExpression.checkMatrixExpression", "o.Props", 0%N);
  ("rule_expression.go", "RuleExpression.checkRawYAMLValue", "v.Props", 0%N);
  ("rule_expression.go", "RuleExpression.checkWorkflowCall", "c.Inputs", 0%N);
  ("rule_expression.go", "RuleExpression.checkWorkflowCall", "c.Secrets", 0%N);
  ("rule_expression.go", "RuleExpression.checkWorkflowCallOutputs", "j.Outputs", 0%N);
  ("rule_expression.go", "RuleExpression.checkWorkflowCallOutputs", "jobs", 0%N);
  ("rule_expression.go", "RuleExpression.checkWorkflowCallOutputs", "outputs", 0%N);
  ("rule_expression.go", "RuleExpression.getWorkflowCallOutputsType", "m.Outputs", 0%N);
  ("rule_expression.go", "RuleExpression.populateDependantNeedsTypes", "j.Outputs", 0%N);
  ("rule_expression.go", "typeOfActionOutputs", "meta.Outputs", 0%N);
  ("rule_job_needs.go", "RuleJobNeeds.VisitWorkflowPost", "edges", 0%N);
  ("rule_job_needs.go", "RuleJobNeeds.VisitWorkflowPost", "rule.nodes", 0%N);
  ("rule_job_needs.go", "detectFirstCycle", "nodes", 0%N);
  ("rule_matrix.go", "RuleMatrix.VisitJobPre", "m.Rows", 0%N);
  ("rule_matrix.go", "RuleMatrix.checkExclude", "c.Assigns", 0%N);
  ("rule_matrix.go", "RuleMatrix.checkExclude", "c.Assigns", 1%N);
  ("rule_matrix.go", "RuleMatrix.checkExclude", "m.Rows", 0%N);
  ("rule_matrix.go", "RuleMatrix.checkExclude", "rows", 0%N);
  ("rule_matrix.go", "isYAMLValueSubset", "sub.Props", 0%N);
  ("rule_permissions.go", "RulePermissions.checkPermissions", "allPermissionScopes", 0%N);
  ("rule_permissions.go", "RulePermissions.checkPermissions", "p.Scopes", 0%N);
  ("rule_runner_label.go", "RuleRunnerLabel.checkConflict", "rule.compats", 0%N);
  ("rule_workflow_call.go", "RuleWorkflowCall.checkWorkflowCallUsesLocal", "call.Inputs", 0%N);
  ("rule_workflow_call.go", "RuleWorkflowCall.checkWorkflowCallUsesLocal", "call.Secrets", 0%N);
  ("rule_workflow_call.go", "RuleWorkflowCall.checkWorkflowCallUsesLocal", "m.Inputs", 0%N);
  ("rule_workflow_call.go", "RuleWorkflowCall.checkWorkflowCallUsesLocal", "m.Secrets", 0%N);
  ("rule_workflow_call.go", "sortedMapKeys", "m", 0%N)
].
