(* Gen/GenMapRange.v — GENERATED on every run of ./check C02 from the .go files of the package
   by harness/cmd/c02 (-extract-mapranges); do not edit.  Every `for ... range <map>` loop:
   (file, function, ranged expression, occurrence, hash of the loop body), one entry per loop; an operand
   whose type is not known here (it comes from an imported package) is listed as `?untyped: ...`. *)
From AL Require Import Base.Str.

(* the last component numbers the loops of one function over the same expression in source order *)
Definition map_range_sites : list (string * string * string * N * string) := [
  ("ast.go", "RawYAMLObject.Equals", "o.Props", 0%N, "3632aeb6");
  ("ast.go", "RawYAMLObject.String", "o.Props", 0%N, "494d9e57");
  ("config.go", "Config.PathConfigs", "cfg.Paths", 0%N, "51551126");
  ("config.go", "IgnorePatterns.UnmarshalYAML", "?untyped: n.Content", 0%N, "-");
  ("error.go", "NewErrorFormatter", "r", 0%N, "ed997a5c");
  ("error.go", "toPascalCase", "?untyped: s", 0%N, "-");
  ("error.go", "toPascalCase", "?untyped: ss", 0%N, "-");
  ("expr_insecure.go", "UntrustedInputChecker.onObjectFilter", "cur.Children", 0%N, "44e91f8c");
  ("expr_sema.go", "ExprSemanticsChecker.UpdateDispatchInputs", "ty.Props", 0%N, "97bb5cb9");
  ("expr_sema.go", "ExprSemanticsChecker.UpdateSecrets", "ty.Props", 0%N, "6cdbce94");
  ("expr_sema.go", "ExprSemanticsChecker.checkArrayDeref", "ty.Props", 0%N, "51186f54");
  ("expr_sema.go", "ExprSemanticsChecker.checkBuiltinFuncCall", "holders", 0%N, "7ff1a9f8");
  ("expr_sema.go", "ExprSemanticsChecker.checkFuncCall", "sema.funcs", 0%N, "89753c73");
  ("expr_sema.go", "ExprSemanticsChecker.checkVariable", "sema.vars", 0%N, "89753c73");
  ("expr_sema.go", "ExprSemanticsChecker.ensureVarsCopied", "sema.vars", 0%N, "ebe29899");
  ("expr_type.go", "ObjectType.Assignable", "other.Props", 0%N, "d1160a1e");
  ("expr_type.go", "ObjectType.Assignable", "other.Props", 1%N, "70d65860");
  ("expr_type.go", "ObjectType.Assignable", "ty.Props", 0%N, "1376b96f");
  ("expr_type.go", "ObjectType.DeepCopy", "ty.Props", 0%N, "0e72bd62");
  ("expr_type.go", "ObjectType.Merge", "other.Props", 0%N, "360eab31");
  ("expr_type.go", "ObjectType.Merge", "ty.Props", 0%N, "9526b5f8");
  ("expr_type.go", "ObjectType.String", "ty.Props", 0%N, "448f0f8b");
  ("expr_type.go", "typeOfJSONValue", "v", 0%N, "942287a2");
  ("parse.go", "handleYAMLError", "?untyped: te.Errors", 0%N, "-");
  ("parse.go", "parser.parseEvents", "?untyped: n.Content", 0%N, "-");
  ("parse.go", "parser.parseMatrix", "?untyped: kv.val.Content", 0%N, "-");
  ("parse.go", "parser.parseMatrixCombinations", "?untyped: n.Content", 0%N, "-");
  ("parse.go", "parser.parseRawYAMLValue", "?untyped: n.Content", 0%N, "-");
  ("parse.go", "parser.parseScheduleEvent", "?untyped: n.Content", 0%N, "-");
  ("parse.go", "parser.parseSteps", "?untyped: n.Content", 0%N, "-");
  ("parse.go", "parser.parseStringSequence", "?untyped: n.Content", 0%N, "-");
  ("pass.go", "Visitor.Visit", "n.Jobs", 0%N, "7ce2eff7");
  ("reusable_workflow.go", "LocalReusableWorkflowCache.WriteWorkflowCallEvent", "event.Outputs", 0%N, "f75ee667");
  ("reusable_workflow.go", "LocalReusableWorkflowCache.WriteWorkflowCallEvent", "event.Secrets", 0%N, "7b25a65f");
  ("reusable_workflow.go", "parseReusableWorkflowMetadata", "?untyped: n.Content", 0%N, "-");
  ("rule_action.go", "RuleAction.checkAction", "exec.Inputs", 0%N, "7847db3a");
  ("rule_action.go", "RuleAction.checkAction", "meta.Inputs", 0%N, "da536ae3");
  ("rule_action.go", "RuleAction.checkAction", "meta.Inputs", 1%N, "4ea7a1be");
  ("rule_action.go", "RuleAction.checkAction", "meta.Inputs", 2%N, "9847eb36");
  ("rule_credentials.go", "RuleCredentials.VisitJobPre", "n.Services.Value", 0%N, "c42780df");
  ("rule_deprecated_commands.go", "RuleDeprecatedCommands.VisitStep", "?untyped: deprecatedCommandsPattern.FindAllStringSubmatch(r.Run.Value, -1)", 0%N, "-");
  ("rule_env_var.go", "RuleEnvVar.VisitJobPre", "n.Services.Value", 0%N, "61a0adc4");
  ("rule_env_var.go", "RuleEnvVar.checkEnv", "env.Vars", 0%N, "32ae5842");
  ("rule_events.go", "RuleEvents.checkWorkflowDispatchEvent", "event.Inputs", 0%N, "b4e75c58");
  ("rule_expression.go", "RuleExpression.VisitJobPost", "n.Outputs", 0%N, "71409529");
  ("rule_expression.go", "RuleExpression.VisitJobPre", "n.Services.Value", 0%N, "6591cc09");
  ("rule_expression.go", "RuleExpression.VisitStep", "e.Inputs", 0%N, "e03a7e8d");
  ("rule_expression.go", "RuleExpression.VisitWorkflowPre", "e.Inputs", 0%N, "981574aa");
  ("rule_expression.go", "RuleExpression.VisitWorkflowPre", "e.Outputs", 0%N, "a5e1850e");
  ("rule_expression.go", "RuleExpression.VisitWorkflowPre", "e.Secrets", 0%N, "9c5efeae");
  ("rule_expression.go", "RuleExpression.checkEnv", "env.Vars", 0%N, "3197e653");
  ("rule_expression.go", "RuleExpression.checkMatrix", "combi.Assigns", 0%N, "7aeaa4d0");
  ("rule_expression.go", "RuleExpression.checkMatrix", "combi.Assigns", 1%N, "5249e955");
  ("rule_expression.go", "RuleExpression.checkMatrix", "m.Rows", 0%N, "bf35e80d");
  ("rule_expression.go", "RuleExpression.checkMatrix", "merged.Props", 0%N, "4823410c");
  ("rule_expression.go", "RuleExpression.checkMatrixExpression", "matTy.Props", 0%N, "4823410c");
  ("rule_expression.go", "RuleExpression.checkMatrixExpression", "o.Props", 0%N, "63b6238b");
  ("rule_expression.go", "RuleExpression.checkRawYAMLValue", "v.Props", 0%N, "488f7c1f");
  ("rule_expression.go", "RuleExpression.checkWorkflowCall", "c.Inputs", 0%N, "85c53756");
  ("rule_expression.go", "RuleExpression.checkWorkflowCall", "c.Secrets", 0%N, "a5de8f72");
  ("rule_expression.go", "RuleExpression.checkWorkflowCallOutputs", "j.Outputs", 0%N, "97bb5cb9");
  ("rule_expression.go", "RuleExpression.checkWorkflowCallOutputs", "jobs", 0%N, "a1edf340");
  ("rule_expression.go", "RuleExpression.checkWorkflowCallOutputs", "outputs", 0%N, "815c5338");
  ("rule_expression.go", "RuleExpression.getWorkflowCallOutputsType", "m.Outputs", 0%N, "97bb5cb9");
  ("rule_expression.go", "RuleExpression.populateDependantNeedsTypes", "j.Outputs", 0%N, "49d80564");
  ("rule_expression.go", "typeOfActionOutputs", "meta.Outputs", 0%N, "5f3f4e08");
  ("rule_job_needs.go", "RuleJobNeeds.VisitWorkflowPost", "edges", 0%N, "d6904da7");
  ("rule_job_needs.go", "RuleJobNeeds.VisitWorkflowPost", "rule.nodes", 0%N, "fba81a7b");
  ("rule_job_needs.go", "detectFirstCycle", "nodes", 0%N, "4745d5bb");
  ("rule_matrix.go", "RuleMatrix.VisitJobPre", "m.Rows", 0%N, "09680204");
  ("rule_matrix.go", "RuleMatrix.checkExclude", "c.Assigns", 0%N, "7979c51b");
  ("rule_matrix.go", "RuleMatrix.checkExclude", "c.Assigns", 1%N, "7eac8842");
  ("rule_matrix.go", "RuleMatrix.checkExclude", "m.Rows", 0%N, "43bc1462");
  ("rule_matrix.go", "RuleMatrix.checkExclude", "rows", 0%N, "fd741afe");
  ("rule_matrix.go", "isYAMLValueSubset", "sub.Props", 0%N, "edfdfa69");
  ("rule_permissions.go", "RulePermissions.checkPermissions", "allPermissionScopes", 0%N, "23fa98f6");
  ("rule_permissions.go", "RulePermissions.checkPermissions", "p.Scopes", 0%N, "ecf1e1c9");
  ("rule_runner_label.go", "RuleRunnerLabel.checkConflict", "rule.compats", 0%N, "7b209986");
  ("rule_workflow_call.go", "RuleWorkflowCall.checkWorkflowCallUsesLocal", "call.Inputs", 0%N, "3a150f0f");
  ("rule_workflow_call.go", "RuleWorkflowCall.checkWorkflowCallUsesLocal", "call.Secrets", 0%N, "15559ed1");
  ("rule_workflow_call.go", "RuleWorkflowCall.checkWorkflowCallUsesLocal", "m.Inputs", 0%N, "153576bb");
  ("rule_workflow_call.go", "RuleWorkflowCall.checkWorkflowCallUsesLocal", "m.Secrets", 0%N, "cbf2d7f5");
  ("rule_workflow_call.go", "sortedMapKeys", "m", 0%N, "18c5873e")
].
