(* GENERATED on every run by harness/cmd/c12 from the working tree of the repository:
   actionlint.WorkflowKeyAvailability evaluated on every key mentioned in availability.go
   (case labels + allWorkflowKeys, found with go/parser) and on one unknown key;
   SpecialFunctionNames; names of BuiltinGlobalVariableTypes and BuiltinFuncSignatures.
   Do not edit. *)
From AL Require Import Wf.AvailCanon.

Definition rows : list (string * (list string * list string)) := [
  ("concurrency", (["github"; "inputs"; "vars"], []));
  ("env", (["github"; "inputs"; "secrets"; "vars"], []));
  ("jobs.<job_id>.concurrency", (["github"; "inputs"; "matrix"; "needs"; "strategy"; "vars"], []));
  ("jobs.<job_id>.container", (["github"; "inputs"; "matrix"; "needs"; "strategy"; "vars"], []));
  ("jobs.<job_id>.container.credentials", (["env"; "github"; "inputs"; "matrix"; "needs"; "secrets"; "strategy"; "vars"], []));
  ("jobs.<job_id>.container.env.<env_id>", (["env"; "github"; "inputs"; "job"; "matrix"; "needs"; "runner"; "secrets"; "strategy"; "vars"], []));
  ("jobs.<job_id>.container.image", (["github"; "inputs"; "matrix"; "needs"; "strategy"; "vars"], []));
  ("jobs.<job_id>.continue-on-error", (["github"; "inputs"; "matrix"; "needs"; "strategy"; "vars"], []));
  ("jobs.<job_id>.defaults.run", (["env"; "github"; "inputs"; "matrix"; "needs"; "strategy"; "vars"], []));
  ("jobs.<job_id>.env", (["github"; "inputs"; "matrix"; "needs"; "secrets"; "strategy"; "vars"], []));
  ("jobs.<job_id>.environment", (["github"; "inputs"; "matrix"; "needs"; "strategy"; "vars"], []));
  ("jobs.<job_id>.environment.url", (["env"; "github"; "inputs"; "job"; "matrix"; "needs"; "runner"; "steps"; "strategy"; "vars"], []));
  ("jobs.<job_id>.if", (["github"; "inputs"; "needs"; "vars"], ["always"; "cancelled"; "failure"; "success"]));
  ("jobs.<job_id>.name", (["github"; "inputs"; "matrix"; "needs"; "strategy"; "vars"], []));
  ("jobs.<job_id>.outputs.<output_id>", (["env"; "github"; "inputs"; "job"; "matrix"; "needs"; "runner"; "secrets"; "steps"; "strategy"; "vars"], []));
  ("jobs.<job_id>.runs-on", (["github"; "inputs"; "matrix"; "needs"; "strategy"; "vars"], []));
  ("jobs.<job_id>.secrets.<secrets_id>", (["github"; "inputs"; "matrix"; "needs"; "secrets"; "strategy"; "vars"], []));
  ("jobs.<job_id>.services", (["github"; "inputs"; "matrix"; "needs"; "strategy"; "vars"], []));
  ("jobs.<job_id>.services.<service_id>.credentials", (["env"; "github"; "inputs"; "matrix"; "needs"; "secrets"; "strategy"; "vars"], []));
  ("jobs.<job_id>.services.<service_id>.env.<env_id>", (["env"; "github"; "inputs"; "job"; "matrix"; "needs"; "runner"; "secrets"; "strategy"; "vars"], []));
  ("jobs.<job_id>.steps.continue-on-error", (["env"; "github"; "inputs"; "job"; "matrix"; "needs"; "runner"; "secrets"; "steps"; "strategy"; "vars"], ["hashfiles"]));
  ("jobs.<job_id>.steps.env", (["env"; "github"; "inputs"; "job"; "matrix"; "needs"; "runner"; "secrets"; "steps"; "strategy"; "vars"], ["hashfiles"]));
  ("jobs.<job_id>.steps.if", (["env"; "github"; "inputs"; "job"; "matrix"; "needs"; "runner"; "steps"; "strategy"; "vars"], ["always"; "cancelled"; "failure"; "hashfiles"; "success"]));
  ("jobs.<job_id>.steps.name", (["env"; "github"; "inputs"; "job"; "matrix"; "needs"; "runner"; "secrets"; "steps"; "strategy"; "vars"], ["hashfiles"]));
  ("jobs.<job_id>.steps.run", (["env"; "github"; "inputs"; "job"; "matrix"; "needs"; "runner"; "secrets"; "steps"; "strategy"; "vars"], ["hashfiles"]));
  ("jobs.<job_id>.steps.timeout-minutes", (["env"; "github"; "inputs"; "job"; "matrix"; "needs"; "runner"; "secrets"; "steps"; "strategy"; "vars"], ["hashfiles"]));
  ("jobs.<job_id>.steps.with", (["env"; "github"; "inputs"; "job"; "matrix"; "needs"; "runner"; "secrets"; "steps"; "strategy"; "vars"], ["hashfiles"]));
  ("jobs.<job_id>.steps.working-directory", (["env"; "github"; "inputs"; "job"; "matrix"; "needs"; "runner"; "secrets"; "steps"; "strategy"; "vars"], ["hashfiles"]));
  ("jobs.<job_id>.strategy", (["github"; "inputs"; "needs"; "vars"], []));
  ("jobs.<job_id>.timeout-minutes", (["github"; "inputs"; "matrix"; "needs"; "strategy"; "vars"], []));
  ("jobs.<job_id>.with.<with_id>", (["github"; "inputs"; "matrix"; "needs"; "strategy"; "vars"], []));
  ("on.workflow_call.inputs.<inputs_id>.default", (["github"; "inputs"; "vars"], []));
  ("on.workflow_call.outputs.<output_id>.value", (["github"; "inputs"; "jobs"; "vars"], []));
  ("run-name", (["github"; "inputs"; "vars"], []))
].

Definition unknown_key : string := "jobs.<job_id>.verif-unknown-key".
Definition unknown : list string * list string := ([], []).
Definition empty_key : list string * list string := ([], []).

Definition special_rows : list (string * list string) := [
  ("always", ["jobs.<job_id>.if"; "jobs.<job_id>.steps.if"]);
  ("cancelled", ["jobs.<job_id>.if"; "jobs.<job_id>.steps.if"]);
  ("failure", ["jobs.<job_id>.if"; "jobs.<job_id>.steps.if"]);
  ("hashfiles", ["jobs.<job_id>.steps.continue-on-error"; "jobs.<job_id>.steps.env"; "jobs.<job_id>.steps.if"; "jobs.<job_id>.steps.name"; "jobs.<job_id>.steps.run"; "jobs.<job_id>.steps.timeout-minutes"; "jobs.<job_id>.steps.with"; "jobs.<job_id>.steps.working-directory"]);
  ("success", ["jobs.<job_id>.if"; "jobs.<job_id>.steps.if"])
].

Definition global_vars : list string := ["env"; "github"; "inputs"; "job"; "matrix"; "needs"; "runner"; "secrets"; "steps"; "strategy"; "vars"].
Definition func_names : list string := ["always"; "cancelled"; "contains"; "endswith"; "failure"; "format"; "fromjson"; "hashfiles"; "join"; "startswith"; "success"; "tojson"].

Definition table := canon rows.
