(* Gen/GenPanicSites.v — GENERATED on every run of ./check C01 from the .go files of the package
   by harness/cmd/c01 (-extract-panics); do not edit.  (kind, file, function, text, occurrence):
   explicit panic calls, type assertions without comma-ok, goroutine starts. *)
From AL Require Import Base.Str.

Definition panic_sites : list (string * string * string * string * N) := [
  ("assert", "expr_sema.go", "ExprSemanticsChecker.UpdateDispatchInputs", "sema.vars[""github""].(*ObjectType)", 0%N);
  ("assert", "expr_sema.go", "ExprSemanticsChecker.UpdateDispatchInputs", "sema.vars[""github""].(*ObjectType).Props[""event""].(*ObjectType)", 0%N);
  ("assert", "expr_sema.go", "ExprSemanticsChecker.UpdateInputs", "sema.vars[""inputs""].(*ObjectType)", 0%N);
  ("goroutine", "linter.go", "Linter.LintFiles", "eg.Go", 0%N);
  ("goroutine", "process.go", "concurrentProcess.run", "eg.Go", 0%N);
  ("panic", "expr_lexer.go", "TokenKind.String", "panic(""unreachable"")", 0%N);
  ("panic", "expr_sema.go", "ExprSemanticsChecker.check", "panic(""unreachable"")", 0%N);
  ("panic", "expr_sema.go", "validateCompareOpOperands", "panic(""unreachable"")", 0%N);
  ("panic", "expr_sema.go", "validateCompareOpOperands", "panic(""unreachable"")", 1%N);
  ("panic", "expr_type.go", "typeOfJSONValue", "panic(v)", 0%N);
  ("panic", "parse.go", "nodeKindName", "panic(fmt.Sprintf(""unreachable: unknown YAML kind: %v"", k))", 0%N);
  ("panic", "rule_deprecated_commands.go", "RuleDeprecatedCommands.VisitStep", "panic(""unreachable"")", 0%N);
  ("panic", "rule_events.go", "RuleEvents.checkEvent", "panic(""unreachable"")", 0%N);
  ("panic", "rule_expression.go", "RuleExpression.checkRawYAMLValue", "panic(""unreachable"")", 0%N);
  ("panic", "rule_shell_name.go", "getAvailableShellNames", "panic(""unreachable"")", 0%N)
].
