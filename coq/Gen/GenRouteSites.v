(* GENERATED on every run by harness/cmd/c12 (go/parser + go/ast over rule_expression.go of the
   repository's working tree): every call rule.check*(...) of a method declared in that file and
   every call of WorkflowKeyAvailability, in source order, with the enclosing function, the text
   of the first argument, the occurrence index of that (function, argument) pair, the workflow
   key argument (KL literal / KP the enclosing function's workflowKey parameter / KE another
   expression, as source text / KN the callee takes no key) and the string literals passed after
   the key; key_stmts = the statements and conditions that mention a workflow key.  Do not edit. *)
From AL Require Import Wf.AvailSite.

Definition sites : list site := [
  mk_site "VisitWorkflowPre" "checkString" "n.Name" 0 (KL "") [];
  mk_site "VisitWorkflowPre" "checkStrings" "e.Types" 0 (KL "") [];
  mk_site "VisitWorkflowPre" "checkWebhookEventFilter" "e.Branches" 0 KN [];
  mk_site "VisitWorkflowPre" "checkWebhookEventFilter" "e.BranchesIgnore" 0 KN [];
  mk_site "VisitWorkflowPre" "checkWebhookEventFilter" "e.Tags" 0 KN [];
  mk_site "VisitWorkflowPre" "checkWebhookEventFilter" "e.TagsIgnore" 0 KN [];
  mk_site "VisitWorkflowPre" "checkWebhookEventFilter" "e.Paths" 0 KN [];
  mk_site "VisitWorkflowPre" "checkWebhookEventFilter" "e.PathsIgnore" 0 KN [];
  mk_site "VisitWorkflowPre" "checkStrings" "e.Workflows" 0 (KL "") [];
  mk_site "VisitWorkflowPre" "checkStrings" "e.Cron" 0 (KL "") [];
  mk_site "VisitWorkflowPre" "checkString" "i.Description" 0 (KL "") [];
  mk_site "VisitWorkflowPre" "checkString" "i.Default" 0 (KL "") [];
  mk_site "VisitWorkflowPre" "checkBool" "i.Required" 0 (KL "") [];
  mk_site "VisitWorkflowPre" "checkStrings" "i.Options" 0 (KL "") [];
  mk_site "VisitWorkflowPre" "checkStrings" "e.Types" 1 (KL "") [];
  mk_site "VisitWorkflowPre" "checkString" "i.Description" 1 (KL "") [];
  mk_site "VisitWorkflowPre" "checkBool" "i.Required" 1 (KL "") [];
  mk_site "VisitWorkflowPre" "checkString" "i.Default" 1 (KL "on.workflow_call.inputs.<inputs_id>.default") [];
  mk_site "VisitWorkflowPre" "checkString" "s.Description" 0 (KL "") [];
  mk_site "VisitWorkflowPre" "checkBool" "s.Required" 0 (KL "") [];
  mk_site "VisitWorkflowPre" "checkString" "o.Description" 0 (KL "") [];
  mk_site "VisitWorkflowPre" "checkString" "n.RunName" 0 (KL "run-name") [];
  mk_site "VisitWorkflowPre" "checkEnv" "n.Env" 0 (KL "env") [];
  mk_site "VisitWorkflowPre" "checkDefaults" "n.Defaults" 0 (KL "") [];
  mk_site "VisitWorkflowPre" "checkConcurrency" "n.Concurrency" 0 (KL "concurrency") [];
  mk_site "VisitWorkflowPost" "checkWorkflowCallOutputs" "e.Outputs" 0 KN [];
  mk_site "VisitJobPre" "checkMatrix" "n.Strategy.Matrix" 0 KN [];
  mk_site "VisitJobPre" "checkString" "n.Name" 0 (KL "jobs.<job_id>.name") [];
  mk_site "VisitJobPre" "checkStrings" "n.Needs" 0 (KL "") [];
  mk_site "VisitJobPre" "checkOneExpression" "n.RunsOn.LabelsExpr" 0 (KL "jobs.<job_id>.runs-on") [];
  mk_site "VisitJobPre" "checkString" "l" 0 (KL "jobs.<job_id>.runs-on") [];
  mk_site "VisitJobPre" "checkString" "n.RunsOn.Group" 0 (KL "jobs.<job_id>.runs-on") [];
  mk_site "VisitJobPre" "checkConcurrency" "n.Concurrency" 0 (KL "jobs.<job_id>.concurrency") [];
  mk_site "VisitJobPre" "checkEnv" "n.Env" 0 (KL "jobs.<job_id>.env") [];
  mk_site "VisitJobPre" "checkDefaults" "n.Defaults" 0 (KL "jobs.<job_id>.defaults.run") [];
  mk_site "VisitJobPre" "checkIfCondition" "n.If" 0 (KL "jobs.<job_id>.if") [];
  mk_site "VisitJobPre" "checkBool" "n.Strategy.FailFast" 0 (KL "jobs.<job_id>.strategy") [];
  mk_site "VisitJobPre" "checkInt" "n.Strategy.MaxParallel" 0 (KL "jobs.<job_id>.strategy") [];
  mk_site "VisitJobPre" "checkBool" "n.ContinueOnError" 0 (KL "jobs.<job_id>.continue-on-error") [];
  mk_site "VisitJobPre" "checkFloat" "n.TimeoutMinutes" 0 (KL "jobs.<job_id>.timeout-minutes") [];
  mk_site "VisitJobPre" "checkContainer" "n.Container" 0 (KL "jobs.<job_id>.container") [""];
  mk_site "VisitJobPre" "checkObjectExpression" "n.Services.Expression" 0 (KL "jobs.<job_id>.services") [];
  mk_site "VisitJobPre" "checkContainer" "s.Container" 0 (KL "jobs.<job_id>.services") ["<service_id>"];
  mk_site "VisitJobPre" "checkWorkflowCall" "n.WorkflowCall" 0 KN [];
  mk_site "VisitJobPost" "checkString" "n.Environment.Name" 0 (KL "jobs.<job_id>.environment") [];
  mk_site "VisitJobPost" "checkString" "n.Environment.URL" 0 (KL "jobs.<job_id>.environment.url") [];
  mk_site "VisitJobPost" "checkString" "output.Value" 0 (KL "jobs.<job_id>.outputs.<output_id>") [];
  mk_site "VisitStep" "checkString" "n.Name" 0 (KL "jobs.<job_id>.steps.name") [];
  mk_site "VisitStep" "checkIfCondition" "n.If" 0 (KL "jobs.<job_id>.steps.if") [];
  mk_site "VisitStep" "checkScriptString" "e.Run" 0 (KL "jobs.<job_id>.steps.run") [];
  mk_site "VisitStep" "checkString" "e.Shell" 0 (KL "") [];
  mk_site "VisitStep" "checkString" "e.WorkingDirectory" 0 (KL "jobs.<job_id>.steps.working-directory") [];
  mk_site "VisitStep" "checkString" "e.Uses" 0 (KL "") [];
  mk_site "VisitStep" "checkScriptString" "i.Value" 0 (KL "jobs.<job_id>.steps.with") [];
  mk_site "VisitStep" "checkString" "i.Value" 1 (KL "jobs.<job_id>.steps.with") [];
  mk_site "VisitStep" "checkString" "e.Entrypoint" 0 (KL "jobs.<job_id>.steps.with") [];
  mk_site "VisitStep" "checkString" "e.Args" 0 (KL "jobs.<job_id>.steps.with") [];
  mk_site "VisitStep" "checkEnv" "n.Env" 0 (KL "jobs.<job_id>.steps.env") [];
  mk_site "VisitStep" "checkBool" "n.ContinueOnError" 0 (KL "jobs.<job_id>.steps.continue-on-error") [];
  mk_site "VisitStep" "checkFloat" "n.TimeoutMinutes" 0 (KL "jobs.<job_id>.steps.timeout-minutes") [];
  mk_site "VisitStep" "checkString" "n.ID" 0 (KL "") [];
  mk_site "checkOneExpression" "checkExprsIn" "s.Value" 0 KP [];
  mk_site "checkObjectExpression" "checkOneExpression" "s" 0 KP [];
  mk_site "checkArrayExpression" "checkOneExpression" "s" 0 KP [];
  mk_site "checkNumberExpression" "checkOneExpression" "s" 0 KP [];
  mk_site "checkEnv" "checkString" "e.Name" 0 KP [];
  mk_site "checkEnv" "checkString" "e.Value" 0 KP [];
  mk_site "checkEnv" "checkObjectExpression" "env.Expression" 0 KP [];
  mk_site "checkContainer" "checkString" "c.Image" 0 KP [];
  mk_site "checkContainer" "checkString" "c.Credentials.Username" 0 (KE "k") [];
  mk_site "checkContainer" "checkString" "c.Credentials.Password" 0 (KE "k") [];
  mk_site "checkContainer" "checkEnv" "c.Env" 0 (KE "childWorkflowKey + "".env.<env_id>""") [];
  mk_site "checkContainer" "checkStrings" "c.Ports" 0 KP [];
  mk_site "checkContainer" "checkStrings" "c.Volumes" 0 KP [];
  mk_site "checkContainer" "checkString" "c.Options" 0 KP [];
  mk_site "checkConcurrency" "checkString" "c.Group" 0 KP [];
  mk_site "checkConcurrency" "checkBool" "c.CancelInProgress" 0 KP [];
  mk_site "checkDefaults" "checkString" "d.Run.Shell" 0 KP [];
  mk_site "checkDefaults" "checkString" "d.Run.WorkingDirectory" 0 KP [];
  mk_site "checkWorkflowCall" "checkString" "c.Uses" 0 (KL "") [];
  mk_site "checkWorkflowCall" "checkString" "i.Value" 0 (KL "jobs.<job_id>.with.<with_id>") [];
  mk_site "checkWorkflowCall" "checkString" "s.Value" 0 (KL "jobs.<job_id>.secrets.<secrets_id>") [];
  mk_site "checkWebhookEventFilter" "checkStrings" "f.Values" 0 (KL "") [];
  mk_site "checkStrings" "checkString" "s" 0 KP [];
  mk_site "checkIfCondition" "checkString" "str" 0 KP [];
  mk_site "checkIfCondition" "checkSemanticsOfExprNode" "expr" 0 KP [];
  mk_site "checkString" "checkExprsIn" "str.Value" 0 KP [];
  mk_site "checkScriptString" "checkExprsIn" "str.Value" 0 KP [];
  mk_site "checkBool" "checkOneExpression" "b.Expression" 0 KP [];
  mk_site "checkInt" "checkNumberExpression" "i.Expression" 0 KP [];
  mk_site "checkFloat" "checkNumberExpression" "f.Expression" 0 KP [];
  mk_site "checkExprsIn" "checkSemantics" "s" 0 KP [];
  mk_site "checkSemanticsOfExprNode" "WorkflowKeyAvailability" "workflowKey" 0 KP [];
  mk_site "checkSemantics" "checkSemanticsOfExprNode" "expr" 0 KP [];
  mk_site "checkMatrixExpression" "checkObjectExpression" "expr" 0 (KL "jobs.<job_id>.strategy") [];
  mk_site "checkMatrix" "checkMatrixExpression" "m.Expression" 0 KN [];
  mk_site "checkMatrix" "checkArrayExpression" "m.Exclude.Expression" 0 (KL "jobs.<job_id>.strategy") [];
  mk_site "checkMatrix" "checkObjectExpression" "combi.Expression" 0 (KL "jobs.<job_id>.strategy") [];
  mk_site "checkMatrix" "checkRawYAMLValue" "a.Value" 0 KN [];
  mk_site "checkMatrix" "checkMatrixRow" "r" 0 KN [];
  mk_site "checkMatrix" "checkOneExpression" "m.Include.Expression" 0 (KL "jobs.<job_id>.strategy") [];
  mk_site "checkMatrix" "checkOneExpression" "combi.Expression" 1 (KL "jobs.<job_id>.strategy") [];
  mk_site "checkMatrix" "checkRawYAMLValue" "assign.Value" 0 KN [];
  mk_site "checkMatrixRow" "checkArrayExpression" "r.Expression" 0 (KL "jobs.<job_id>.strategy") [];
  mk_site "checkMatrixRow" "checkRawYAMLValue" "v" 0 KN [];
  mk_site "checkWorkflowCallOutputs" "checkString" "o.Value" 0 (KL "on.workflow_call.outputs.<output_id>.value") [];
  mk_site "checkRawYAMLValue" "checkRawYAMLValue" "p" 0 KN [];
  mk_site "checkRawYAMLValue" "checkRawYAMLValue" "v.Elems[0]" 0 KN [];
  mk_site "checkRawYAMLValue" "checkRawYAMLValue" "v" 0 KN [];
  mk_site "checkRawYAMLValue" "checkRawYAMLString" "v" 1 KN [];
  mk_site "checkRawYAMLString" "checkExprsIn" "y.Value" 0 (KL "jobs.<job_id>.strategy") []
].

Definition key_stmts : list (string * string) := [
  ("checkOneExpression", "ts, ok := rule.checkExprsIn(s.Value, s.Pos, s.Quoted, false, workflowKey)");
  ("checkObjectExpression", "ty := rule.checkOneExpression(s, what, workflowKey)");
  ("checkArrayExpression", "ty := rule.checkOneExpression(s, what, workflowKey)");
  ("checkNumberExpression", "ty := rule.checkOneExpression(s, what, workflowKey)");
  ("checkContainer", "childWorkflowKey := workflowKey");
  ("checkContainer", "if childWorkflowKeyPrefix != """"");
  ("checkContainer", "childWorkflowKey += ""."" + childWorkflowKeyPrefix");
  ("checkContainer", "k := childWorkflowKey + "".credentials""");
  ("checkIfCondition", "ts := rule.checkString(str, workflowKey)");
  ("checkIfCondition", "ty, ok := rule.checkSemanticsOfExprNode(expr, line, col, false, workflowKey)");
  ("checkString", "ts, ok := rule.checkExprsIn(str.Value, str.Pos, str.Quoted, false, workflowKey)");
  ("checkScriptString", "ts, ok := rule.checkExprsIn(str.Value, str.Pos, str.Quoted, true, workflowKey)");
  ("checkBool", "ty := rule.checkOneExpression(b.Expression, ""bool value"", workflowKey)");
  ("checkExprsIn", "ty, offsetAfter, ok := rule.checkSemantics(s, line, col, checkUntrusted, workflowKey)");
  ("checkSemanticsOfExprNode", "if workflowKey != """"");
  ("checkSemanticsOfExprNode", "ctx, sp := WorkflowKeyAvailability(workflowKey)");
  ("checkSemanticsOfExprNode", "c.SetContextAvailability(ctx)");
  ("checkSemanticsOfExprNode", "c.SetSpecialFunctionAvailability(sp)");
  ("checkSemantics", "t, ok := rule.checkSemanticsOfExprNode(expr, line, col, checkUntrusted, workflowKey)")
].
