(* Gen/GenParseKeys.v — GENERATED on every run of ./check C13 from parse.go by
   harness/cmd/c13 (-extract); do not edit.  Key switches of every parser
   function in source order and every parseMapping/parseSectionMapping call. *)
From AL Require Import Base.Str.

Record gen_site := GS {
  gs_fn : string;                 (* parser function *)
  gs_labels : list string;        (* case labels of the switch over the key id *)
  gs_unexpected : bool;           (* the default branch calls unexpectedKey *)
  gs_sec : string;                (* section argument of unexpectedKey *)
  gs_expected : list string;      (* literal key list passed to unexpectedKey *)
  gs_allow_empty : option bool;   (* literal arguments of the parseMapping call the loop ranges over *)
  gs_case_sensitive : option bool;
  gs_what : string }.

Definition gen_sites : list gen_site := [
  GS "parseWorkflowDispatchEvent" ["inputs"] true "workflow_dispatch" ["inputs"] (Some true) (Some true) "workflow_dispatch";
  GS "parseWorkflowDispatchEvent" ["description"; "required"; "default"; "type"; "options"] true "inputs" ["description"; "required"; "default"] (Some true) (Some true) "input settings of workflow_dispatch event";
  GS "parseRepositoryDispatchEvent" ["types"] true "repository_dispatch" ["types"] (Some true) (Some true) "repository_dispatch";
  GS "parseWebhookEvent" ["types"; "branches"; "branches-ignore"; "tags"; "tags-ignore"; "paths"; "paths-ignore"; "workflows"] true "<name.Value>" ["types"; "branches"; "branches-ignore"; "tags"; "tags-ignore"; "paths"; "paths-ignore"; "workflows"] (Some true) (Some true) "<name.Value>";
  GS "parseWorkflowCallEvent" ["inputs"; "secrets"; "outputs"] true "workflow_call" ["inputs"; "secrets"; "outputs"] (Some true) (Some true) "workflow_call";
  GS "parseWorkflowCallEvent" ["description"; "required"; "default"; "type"] true "inputs at workflow_call event" ["description"; "required"; "default"; "type"] (Some true) (Some true) "input of workflow_call event";
  GS "parseWorkflowCallEvent" ["description"; "required"] true "secrets" ["description"; "required"] (Some true) (Some true) "secret of workflow_call event";
  GS "parseWorkflowCallEvent" ["description"; "value"] true "outputs at workflow_call event" ["description"; "value"] (Some true) (Some true) "output of workflow_call event";
  GS "parseEvents" ["schedule"; "workflow_dispatch"; "repository_dispatch"; "workflow_call"] false "" [] (Some false) (Some true) "on";
  GS "parseDefaults" ["run"] true "defaults" ["run"] (Some false) (Some true) "defaults";
  GS "parseDefaults" ["shell"; "working-directory"] true "run" ["shell"; "working-directory"] (Some false) (Some true) "run";
  GS "parseConcurrency" ["group"; "cancel-in-progress"] true "concurrency" ["group"; "cancel-in-progress"] (Some false) (Some true) "concurrency";
  GS "parseEnvironment" ["name"; "url"] true "environment" ["name"; "url"] (Some false) (Some true) "environment";
  GS "parseMatrix" ["include"; "exclude"] false "" [] (Some false) (Some false) "matrix";
  GS "parseStrategy" ["matrix"; "fail-fast"; "max-parallel"] true "strategy" ["matrix"; "fail-fast"; "max-parallel"] (Some false) (Some true) "strategy";
  GS "parseContainer" ["image"; "credentials"; "env"; "ports"; "volumes"; "options"] true "<sec>" ["image"; "credentials"; "env"; "ports"; "volumes"; "options"] (Some false) (Some true) "<sec>";
  GS "parseContainer" ["username"; "password"] true "credentials" ["username"; "password"] (Some false) (Some true) "credentials";
  GS "parseStep" ["id"; "if"; "name"; "env"; "continue-on-error"; "timeout-minutes"; "uses"; "with"; "run"; "shell"; "working-directory"] true "step" ["id"; "if"; "name"; "env"; "continue-on-error"; "timeout-minutes"; "uses"; "with"; "run"; "working-directory"; "shell"] (Some false) (Some true) "element of ""steps"" section";
  GS "parseStep" ["entrypoint"; "args"] false "" [] (Some false) (Some false) "with";
  GS "parseRunsOn" ["labels"; "group"] true "runs-on" ["labels"; "group"] (Some false) (Some true) "runs-on";
  GS "parseJob" ["name"; "needs"; "runs-on"; "permissions"; "environment"; "concurrency"; "outputs"; "env"; "defaults"; "if"; "steps"; "timeout-minutes"; "strategy"; "continue-on-error"; "container"; "services"; "uses"; "with"; "secrets"] true "job" ["name"; "needs"; "runs-on"; "permissions"; "environment"; "concurrency"; "outputs"; "env"; "defaults"; "if"; "steps"; "timeout-minutes"; "strategy"; "continue-on-error"; "container"; "services"; "uses"; "with"; "secrets"] (Some false) (Some true) "<call %q job>";
  GS "parse" ["name"; "on"; "permissions"; "env"; "defaults"; "concurrency"; "jobs"; "run-name"] true "workflow" ["name"; "run-name"; "on"; "permissions"; "env"; "defaults"; "concurrency"; "jobs"] (Some false) (Some true) "workflow"
].

(* (function, callee, first argument, allowEmpty, caseSensitive) *)
Definition gen_mappings : list (string * string * string * option bool * option bool) := [
  ("parseSectionMapping", "parseMapping", "<call %q section>", None, None);
  ("parseScheduleEvent", "parseMapping", "element of ""schedule"" section", (Some false), (Some true));
  ("parseWorkflowDispatchEvent", "parseSectionMapping", "workflow_dispatch", (Some true), (Some true));
  ("parseWorkflowDispatchEvent", "parseSectionMapping", "inputs", (Some true), (Some false));
  ("parseWorkflowDispatchEvent", "parseMapping", "input settings of workflow_dispatch event", (Some true), (Some true));
  ("parseRepositoryDispatchEvent", "parseSectionMapping", "repository_dispatch", (Some true), (Some true));
  ("parseWebhookEvent", "parseSectionMapping", "<name.Value>", (Some true), (Some true));
  ("parseWorkflowCallEvent", "parseSectionMapping", "workflow_call", (Some true), (Some true));
  ("parseWorkflowCallEvent", "parseSectionMapping", "inputs", (Some true), (Some false));
  ("parseWorkflowCallEvent", "parseMapping", "input of workflow_call event", (Some true), (Some true));
  ("parseWorkflowCallEvent", "parseSectionMapping", "secrets", (Some true), (Some false));
  ("parseWorkflowCallEvent", "parseMapping", "secret of workflow_call event", (Some true), (Some true));
  ("parseWorkflowCallEvent", "parseSectionMapping", "outputs", (Some true), (Some false));
  ("parseWorkflowCallEvent", "parseMapping", "output of workflow_call event", (Some true), (Some true));
  ("parseEvents", "parseSectionMapping", "on", (Some false), (Some true));
  ("parsePermissions", "parseSectionMapping", "permissions", (Some true), (Some false));
  ("parseEnv", "parseMapping", "env", (Some false), (Some false));
  ("parseDefaults", "parseSectionMapping", "defaults", (Some false), (Some true));
  ("parseDefaults", "parseSectionMapping", "run", (Some false), (Some true));
  ("parseConcurrency", "parseSectionMapping", "concurrency", (Some false), (Some true));
  ("parseEnvironment", "parseSectionMapping", "environment", (Some false), (Some true));
  ("parseOutputs", "parseSectionMapping", "outputs", (Some false), (Some false));
  ("parseRawYAMLValue", "parseMapping", "matrix row value", (Some true), (Some false));
  ("parseMatrixCombinations", "parseMapping", "<call element in %q section>", (Some false), (Some false));
  ("parseMatrix", "parseSectionMapping", "matrix", (Some false), (Some false));
  ("parseStrategy", "parseSectionMapping", "strategy", (Some false), (Some true));
  ("parseContainer", "parseSectionMapping", "<sec>", (Some false), (Some true));
  ("parseContainer", "parseSectionMapping", "credentials", (Some false), (Some true));
  ("parseServices", "parseSectionMapping", "services", (Some false), (Some false));
  ("parseStep", "parseMapping", "element of ""steps"" section", (Some false), (Some true));
  ("parseStep", "parseSectionMapping", "with", (Some false), (Some false));
  ("parseRunsOn", "parseSectionMapping", "runs-on", (Some false), (Some true));
  ("parseJob", "parseMapping", "<call %q job>", (Some false), (Some true));
  ("parseJob", "parseSectionMapping", "with", (Some false), (Some false));
  ("parseJob", "parseSectionMapping", "secrets", (Some false), (Some false));
  ("parseJobs", "parseSectionMapping", "jobs", (Some false), (Some false));
  ("parse", "parseMapping", "workflow", (Some false), (Some true))
].
