(* Gen/GenSyncSites.v — GENERATED on every run of ./check C20 from the .go files of the package
   by harness/cmd/c20 (-extract-sync); do not edit.  Every call of Acquire / TryAcquire / Release /
   Add / Done / Wait / Go / Lock / Unlock / RLock / RUnlock in source order: (file, function, operation). *)
From AL Require Import Base.Str.

Definition sync_sites : list (string * string * string) := [
  ("action_metadata.go", "LocalActionsCache.readCache", "c.mu.RLock");
  ("action_metadata.go", "LocalActionsCache.readCache", "c.mu.RUnlock");
  ("action_metadata.go", "LocalActionsCache.writeCache", "c.mu.Lock");
  ("action_metadata.go", "LocalActionsCache.writeCache", "defer c.mu.Unlock");
  ("error.go", "ErrorFormatter.RegisterRule", "f.rulesMu.Lock");
  ("error.go", "ErrorFormatter.RegisterRule", "defer f.rulesMu.Unlock");
  ("linter.go", "Linter.LintFiles", "eg.Go");
  ("linter.go", "Linter.LintFiles", "sema.Acquire");
  ("linter.go", "Linter.LintFiles", "sema.Release");
  ("linter.go", "Linter.LintFiles", "eg.Wait");
  ("process.go", "concurrentProcess.run", "proc.wg.Add");
  ("process.go", "concurrentProcess.run", "eg.Go");
  ("process.go", "concurrentProcess.run", "defer proc.wg.Done");
  ("process.go", "concurrentProcess.run", "proc.sema.Acquire");
  ("process.go", "concurrentProcess.run", "proc.sema.Release");
  ("process.go", "concurrentProcess.wait", "proc.wg.Wait");
  ("process.go", "externalCommand.wait", "cmd.eg.Wait");
  ("reusable_workflow.go", "LocalReusableWorkflowCache.readCache", "c.mu.RLock");
  ("reusable_workflow.go", "LocalReusableWorkflowCache.readCache", "c.mu.RUnlock");
  ("reusable_workflow.go", "LocalReusableWorkflowCache.writeCache", "c.mu.Lock");
  ("reusable_workflow.go", "LocalReusableWorkflowCache.writeCache", "defer c.mu.Unlock");
  ("reusable_workflow.go", "LocalReusableWorkflowCache.WriteWorkflowCallEvent", "c.mu.RLock");
  ("reusable_workflow.go", "LocalReusableWorkflowCache.WriteWorkflowCallEvent", "c.mu.RUnlock");
  ("reusable_workflow.go", "LocalReusableWorkflowCache.WriteWorkflowCallEvent", "c.mu.Lock");
  ("reusable_workflow.go", "LocalReusableWorkflowCache.WriteWorkflowCallEvent", "c.mu.Unlock");
  ("rule_pyflakes.go", "RulePyflakes.parseNextError", "rule.mu.Lock");
  ("rule_pyflakes.go", "RulePyflakes.parseNextError", "rule.mu.Unlock");
  ("rule_shellcheck.go", "RuleShellcheck.runShellcheck", "rule.mu.Lock");
  ("rule_shellcheck.go", "RuleShellcheck.runShellcheck", "defer rule.mu.Unlock")
].
