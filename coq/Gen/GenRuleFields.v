(* Gen/GenRuleFields.v — GENERATED on every run of ./check C09 from the .go files of the package
   by harness/cmd/c09 (-extract-fields); do not edit.  The fields of every struct type whose
   name starts with Rule: (type, field, field type). *)
From AL Require Import Base.Str.

Definition rule_fields : list (string * string * string) := [
  ("RuleAction", "<embedded>", "RuleBase");
  ("RuleAction", "cache", "*LocalActionsCache");
  ("RuleBase", "config", "*Config");
  ("RuleBase", "dbg", "io.Writer");
  ("RuleBase", "desc", "string");
  ("RuleBase", "errs", "[]*Error");
  ("RuleBase", "name", "string");
  ("RuleCredentials", "<embedded>", "RuleBase");
  ("RuleDeprecatedCommands", "<embedded>", "RuleBase");
  ("RuleEnvVar", "<embedded>", "RuleBase");
  ("RuleEvents", "<embedded>", "RuleBase");
  ("RuleExpression", "<embedded>", "RuleBase");
  ("RuleExpression", "dispatchInputsTy", "*ObjectType");
  ("RuleExpression", "inputsTy", "*ObjectType");
  ("RuleExpression", "jobsTy", "*ObjectType");
  ("RuleExpression", "localActions", "*LocalActionsCache");
  ("RuleExpression", "localWorkflows", "*LocalReusableWorkflowCache");
  ("RuleExpression", "matrixTy", "*ObjectType");
  ("RuleExpression", "needsTy", "*ObjectType");
  ("RuleExpression", "secretsTy", "*ObjectType");
  ("RuleExpression", "stepsTy", "*ObjectType");
  ("RuleExpression", "workflow", "*Workflow");
  ("RuleGlob", "<embedded>", "RuleBase");
  ("RuleID", "<embedded>", "RuleBase");
  ("RuleID", "seen", "map[string]*Pos");
  ("RuleIfCond", "<embedded>", "RuleBase");
  ("RuleJobNeeds", "<embedded>", "RuleBase");
  ("RuleJobNeeds", "nodes", "map[string]*jobNode");
  ("RuleMatrix", "<embedded>", "RuleBase");
  ("RulePermissions", "<embedded>", "RuleBase");
  ("RulePyflakes", "<embedded>", "RuleBase");
  ("RulePyflakes", "cmd", "*externalCommand");
  ("RulePyflakes", "jobShellIsPython", "shellIsPythonKind");
  ("RulePyflakes", "mu", "sync.Mutex");
  ("RulePyflakes", "workflowShellIsPython", "shellIsPythonKind");
  ("RuleRunnerLabel", "<embedded>", "RuleBase");
  ("RuleRunnerLabel", "compats", "map[runnerOSCompat]*String");
  ("RuleShellName", "<embedded>", "RuleBase");
  ("RuleShellName", "platform", "platformKind");
  ("RuleShellcheck", "<embedded>", "RuleBase");
  ("RuleShellcheck", "cmd", "*externalCommand");
  ("RuleShellcheck", "jobShell", "string");
  ("RuleShellcheck", "mu", "sync.Mutex");
  ("RuleShellcheck", "runnerShell", "string");
  ("RuleShellcheck", "workflowShell", "string");
  ("RuleWorkflowCall", "<embedded>", "RuleBase");
  ("RuleWorkflowCall", "cache", "*LocalReusableWorkflowCache");
  ("RuleWorkflowCall", "workflowCallEventPos", "*Pos");
  ("RuleWorkflowCall", "workflowPath", "string")
].
