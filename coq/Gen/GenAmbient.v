(* Gen/GenAmbient.v — GENERATED on every run of ./check C02 from the .go files of the package
   by harness/cmd/c02 (-extract-ambient); do not edit.  Every place that reads the clock, the
   environment, the process, the machine or a random source: (file, function, callee). *)
From AL Require Import Base.Str.

Definition ambient_sites : list (string * string * string) := [
  ("linter.go", "Linter.Lint", "runtime.NumCPU");
  ("linter.go", "Linter.LintFile", "runtime.NumCPU");
  ("linter.go", "Linter.LintFiles", "runtime.NumCPU");
  ("linter.go", "Linter.check", "time.Now");
  ("linter.go", "Linter.check", "time.Since");
  ("linter.go", "NewLinter", "os.Getwd");
  ("pass.go", "Visitor.Visit", "time.Now");
  ("pass.go", "Visitor.reportElapsedTime", "time.Since");
  ("pass.go", "Visitor.visitJob", "time.Now");
  ("pass.go", "Visitor.visitStep", "time.Now")
].
