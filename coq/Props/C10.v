(* Props/C10.v — multi-file runs: per-file results are isolated, files are
   attributed to the repository that contains them, shared tables are never
   modified.  Only statements; every proof is [exact <lemma>]. *)
From AL Require Import Base.Str Base.AList Multi.Project Multi.Cache Multi.Tables Multi.Race.
From AL Require Gen.GenGlobals Multi.Globals Multi.CacheSplit.

(* a file is attributed to the nearest enclosing repository root, for every
   history of earlier look-ups (sibling names sharing a prefix and nested
   repositories included: paths are component lists) *)
Theorem C10_project_attribution : forall fs history p,
  match fst (at_ fs (known_after fs history) p) with
  | Some r => nearest_root fs p r
  | None => forall r, is_root fs r = true -> is_prefix r p = false
  end.
Proof. exact project_attribution. Qed.
Print Assumptions C10_project_attribution.

Theorem C10_attribution_history_indep : forall fs h1 h2 p,
  fst (at_ fs (known_after fs h1) p) = fst (at_ fs (known_after fs h2) p).
Proof. exact project_attribution_history_indep. Qed.
Print Assumptions C10_attribution_history_indep.

Theorem C10_nearest_root_unique : forall fs p r1 r2,
  nearest_root fs p r1 -> nearest_root fs p r2 -> r1 = r2.
Proof. exact nearest_root_unique. Qed.
Print Assumptions C10_nearest_root_unique.

(* the code before the fix: commit violated it in both ways *)
Theorem C10_attribution_old_sibling_refuted :
  exists fs known p r, fst (at_old fs known p) = Some r /\ ~ nearest_root fs p r.
Proof. exact at_old_sibling_refuted. Qed.
Print Assumptions C10_attribution_old_sibling_refuted.

Theorem C10_attribution_old_nested_refuted :
  exists fs known p r, fst (at_old fs known p) = Some r /\ ~ nearest_root fs p r.
Proof. exact at_old_nested_refuted. Qed.
Print Assumptions C10_attribution_old_nested_refuted.

(* under EVERY interleaving of the cache operations of the files of a run,
   each file's result is the one it gets when linted alone, provided the
   referenced local actions / reusable workflows are well-formed *)
Theorem C10_per_file_isolated : forall (M R : Type) (load : string -> option M) sched
  (ps : list (@prog M R)) (c : @cache M),
  Forall (wf_prog load) ps -> consistent load c ->
  let (ps', c') := exec load sched ps c in
  Forall (wf_prog load) ps' /\ consistent load c' /\ map (outcome load) ps' = map (outcome load) ps.
Proof. exact (@per_file_isolated). Qed.
Print Assumptions C10_per_file_isolated.

Theorem C10_cache_independent : forall (M R : Type) (load : string -> option M) (p : @prog M R),
  wf_prog load p -> forall c, consistent load c ->
  fst (run load p c) = fst (run load p []) /\ consistent load (snd (run load p c)).
Proof. exact (@run_cache_indep). Qed.
Print Assumptions C10_cache_independent.

(* without well-formed callees the once-per-run error depends on who asks first *)
Theorem C10_once_per_run_refuted :
  exists (load : string -> option unit) (p : @prog unit bool) c,
    consistent load c /\ fst (run load p c) <> fst (run load p []).
Proof. exact once_per_run_refuted. Qed.
Print Assumptions C10_once_per_run_refuted.

(* "their own defects are reported once per run".  A lookup is two critical
   sections (probe, then - after the file was read - commit); the caller that is
   answered `not cached` reports the callee's own defects.  Under EVERY schedule
   of the probes and commits of any number of files, at every moment, a callee
   has been answered `not cached` exactly as often as it is in the cache - never
   twice *)
Theorem C10_callee_defects_never_reported_twice :
  forall (V : Type) (load : string -> V) (files : list (list string)) (sched : list nat) (callee : string),
  let (ts, c) := CacheSplit.exec load true sched (map CacheSplit.start files) [] in
  CacheSplit.firsts callee ts = CacheSplit.mem callee c /\ CacheSplit.firsts callee ts <= 1.
Proof. exact (@CacheSplit.split_first_once). Qed.
Print Assumptions C10_callee_defects_never_reported_twice.

(* ... and when every file of the run is finished, exactly once if some file
   used the callee, never otherwise *)
Theorem C10_callee_defects_reported_exactly_once :
  forall (V : Type) (load : string -> V) (files : list (list string)) (sched : list nat) (callee : string),
  let (ts, c) := CacheSplit.exec load true sched (map CacheSplit.start files) [] in
  Forall CacheSplit.finished ts ->
  CacheSplit.firsts callee ts = if existsb (fun ks => existsb (String.eqb callee) ks) files then 1 else 0.
Proof. exact (@CacheSplit.split_reported_exactly_once). Qed.
Print Assumptions C10_callee_defects_reported_exactly_once.

(* the value a lookup delivers is what the callee's file says under every
   schedule of the two-section protocol, before and after the repair: the atomic
   lookup of C10_per_file_isolated is a faithful abstraction for per-file results *)
Theorem C10_split_lookup_values :
  forall (V : Type) (load : string -> V) (fixed : bool) sched ts c,
  CacheSplit.consistent load c -> Forall (CacheSplit.answers_ok load) ts ->
  CacheSplit.consistent load (snd (CacheSplit.exec load fixed sched ts c)) /\
  Forall (CacheSplit.answers_ok load) (fst (CacheSplit.exec load fixed sched ts c)).
Proof. exact (@CacheSplit.split_values). Qed.
Print Assumptions C10_split_lookup_values.

(* the protocol before cf88990 (commit stores unconditionally and answers `not
   cached`): two files, both probes before either commit, two reports *)
Theorem C10_once_per_run_old_refuted :
  exists (files : list (list string)) sched callee,
    CacheSplit.firsts callee (fst (CacheSplit.exec (fun _ => tt) false sched (map CacheSplit.start files) [])) = 2.
Proof. exact CacheSplit.split_old_refuted. Qed.
Print Assumptions C10_once_per_run_old_refuted.

(* shared tables: unchanged after any sequence of operations, and never written *)
Theorem C10_tables_unchanged : forall render s ops, run_ops (step render) s ops = (s, []).
Proof. exact tables_unchanged. Qed.
Print Assumptions C10_tables_unchanged.

Theorem C10_tables_old_refuted_sort :
  exists s ops, fst (run_ops (step_old (fun _ => "")) s ops) <> s.
Proof. exact tables_unchanged_old_refuted_sort. Qed.
Print Assumptions C10_tables_old_refuted_sort.

Theorem C10_tables_old_refuted_matrix :
  exists s ops, snd (run_ops (step_old (fun _ => "")) s ops) <> [].
Proof. exact tables_unchanged_old_refuted_matrix. Qed.
Print Assumptions C10_tables_old_refuted_matrix.

(* no writes to shared locations (or all accesses under the guarding lock) => no data race *)
Theorem C10_race_free_if_disciplined : forall guard tr, disciplined guard tr -> ~ has_race tr.
Proof. exact race_free_if_disciplined. Qed.
Print Assumptions C10_race_free_if_disciplined.

(* the shared state itself: every package-level variable of the source (re-listed on every run,
   Gen/GenGlobals.v) is a known read-only table, compiled pattern, colour object or build string,
   and no statement of the package assigns to one, increments one, or sorts / deletes from /
   clears / copies into one *)
Theorem C10_package_vars_are_known : forall v, In v GenGlobals.package_vars ->
  exists c, In (fst (fst v), snd (fst v), c) Globals.allowed.
Proof. exact Globals.package_vars_known. Qed.
Print Assumptions C10_package_vars_are_known.

Theorem C10_no_statement_writes_a_package_var : GenGlobals.package_var_writes = [].
Proof. exact Globals.no_package_var_write. Qed.
Print Assumptions C10_no_statement_writes_a_package_var.
