(* Props/C03.v — every ${{ }} placeholder in a workflow is checked.
   Only statements; every proof is [exact <lemma>]. *)
From AL Require Import Base.Str Wf.WfAst Wf.Routing Wf.RoutingCovers Wf.RoutingProofs Wf.RoutingTemplate Wf.RoutingTies Wf.RoutingSites Gen.GenRouteChecks.
From Coq Require Import NArith.

(* Every scalar that the AST holds at a value position (mapping value or
   sequence element; any event, job, step, map entry, matrix value of any
   nesting depth) is handed to an expression checker by the traversal of
   RuleExpression, or is exempt by the property (event names, permissions
   values; input `type` and `secrets: inherit` are not kept as text at all).
   [wfb]: the nil-ness invariants of parse.go the traversal branches on.
   The only guarded call site is the step id (handed over when it contains a
   placeholder). *)
Theorem C03_routed_complete : forall w s,
  wfb w = true -> In s (ast_scalars w) ->
  (sc_field s = "Step.ID" -> contains_expr (sval (sc_str s)) = true) ->
  In s (routed_scalars (visit fixed w)) \/ exempt s.
Proof. exact routed_complete. Qed.
Print Assumptions C03_routed_complete.

(* the hypotheses are satisfiable by non-trivial values: the ASTs of the
   every-key workflows as parsed by the current parse.go *)
Theorem C03_everykey_wf : forallb wfb everykey = true.
Proof. exact everykey_wf. Qed.
Print Assumptions C03_everykey_wf.

(* translator ties: the call sites of rule_expression.go and the struct fields
   of ast.go, re-extracted on every run, are the ones the model covers *)
Theorem C03_route_sites_match_model : GenRouteChecks.sites = model_sites.
Proof. exact route_sites_match_model. Qed.
Print Assumptions C03_route_sites_match_model.

Theorem C03_fields_match_model :
  GenRouteChecks.ast_fields = map (fun x => let '(s, f, t, _) := x in (s, f, t)) model_fields.
Proof. exact fields_match_model. Qed.
Print Assumptions C03_fields_match_model.

(* [ast_scalars] draws from the fields classified as value positions only, ... *)
Theorem C03_ast_scalars_fields : forall w, Forall tag_ok (ast_scalars w).
Proof. exact ast_scalars_tags. Qed.
Print Assumptions C03_ast_scalars_fields.

(* ... each of which is populated by the current parser on the every-key
   workflows (a key stored into the wrong field leaves one of them empty), ... *)
Theorem C03_everykey_fields_populated :
  forallb (fun t => existsb (fun s => String.eqb (sc_field s) t) everykey_scalars) value_tags = true.
Proof. exact everykey_fields_populated. Qed.
Print Assumptions C03_everykey_fields_populated.

(* ... no scalar being stored twice; *)
Theorem C03_everykey_positions_distinct :
  forallb (fun w => nodup_pos (map (fun s => spos (sc_str s)) (ast_scalars w))) everykey = true.
Proof. exact everykey_positions_distinct. Qed.
Print Assumptions C03_everykey_positions_distinct.

(* the exempt list is the list of fields classified exempt *)
Theorem C03_exempt_fields_classified :
  forallb (fun t => mem t (tags_of FExempt)) exempt_fields && forallb (fun t => mem t exempt_fields) (tags_of FExempt) = true.
Proof. exact exempt_fields_classified. Qed.
Print Assumptions C03_exempt_fields_classified.

(* every AST-reading call site of the model fires on the every-key ASTs, and
   the model fires declared sites only *)
Theorem C03_everykey_sites_fired :
  forallb (fun s => existsb (site_id_eqb s) (fired_sites everykey_calls)) ast_sites = true.
Proof. exact everykey_sites_fired. Qed.
Print Assumptions C03_everykey_sites_fired.

Theorem C03_everykey_sites_declared :
  forallb (fun s => existsb (site_id_eqb s) (map site_of model_sites)) (fired_sites everykey_calls) = true.
Proof. exact everykey_sites_declared. Qed.
Print Assumptions C03_everykey_sites_declared.

(* for every workflow (and with or without the repairs) every call site in the
   chain of every call of the traversal model is an entry of [model_sites] *)
Theorem C03_visit_sites_declared : forall fx w, Forall chain_ok (visit fx w).
Proof. exact visit_sites_declared. Qed.
Print Assumptions C03_visit_sites_declared.

(* the template checker: for ANY lexer/parser [parse] whose error positions lie
   inside the text it is given, a one-line string in which the scan reaches a
   `${{` whose remainder is not an expression yields a syntax diagnostic on the
   line of the scalar, at a column inside it *)
Theorem C03_malformed_placeholder_reported : forall (parse : string -> presult),
  (forall s, no_nl s = true ->
     match parse s with
     | PSyntax el ec => el = 1%N /\ (1 <= ec <= N.of_nat (String.length s) + 1)%N
     | PNext after => after <= String.length s
     | PStop => True
     end) ->
  forall v line col quoted, no_nl v = true -> reaches_malformed parse v ->
  exists d, In d (check_template parse v (line, col) quoted)
            /\ fst d = line
            /\ let col0 := (if quoted then col + 1 else col)%N in
               (col0 + 3 <= snd d <= col0 + N.of_nat (String.length v))%N.
Proof. exact malformed_placeholder_reported. Qed.
Print Assumptions C03_malformed_placeholder_reported.

Theorem C03_first_malformed_position : forall (parse : string -> presult) v line col quoted idx el ec,
  str_index "${{" v = Some idx -> parse (sdrop (idx + 3) v) = PSyntax el ec ->
  check_template parse v (line, col) quoted
  = [((el - 1 + line)%N, (ec - 1 + ((if quoted then col + 1 else col) + N.of_nat (0 + (idx + 3))))%N)].
Proof. exact first_malformed_position. Qed.
Print Assumptions C03_first_malformed_position.

(* what the code did before the repairs (fix: commits): refuted by witnesses *)
Theorem C03_routed_complete_old_refuted :
  wfb old_witness = true /\
  exists s, In s (ast_scalars old_witness) /\ contains_expr (sval (sc_str s)) = true
            /\ ~ In s (routed_scalars (visit unfixed old_witness)) /\ ~ exempt s.
Proof. exact routed_complete_old_refuted. Qed.
Print Assumptions C03_routed_complete_old_refuted.

Theorem C03_required_old_refuted :
  exists s, In s (ast_scalars old_witness) /\ sc_field s = "WorkflowCallEventInput.Required"
            /\ ~ In s (routed_scalars (visit (Fixes false true) old_witness)) /\ ~ exempt s.
Proof. exact required_old_refuted. Qed.
Print Assumptions C03_required_old_refuted.
